/-! ### Obligations (fixed text, `translate/reader_obligations.lean`) -/

/-- The rendered loop run over what is in the channel (a record's number is what `receive_cgreen_message` returns for it). -/
def run : St → List Int → St × List Int × Int
  | s, [] => (s, [], after s)
  | s, r :: q =>
    if cond r then
      match body r s with
      | (s', some (some v)) => (s', q, v)          -- returned from inside the loop
      | (s', some none) => (s', q, after s')        -- left the loop
      | (s', none) => run s' q
    else (s, r :: q, after s)

def toCnt (s : St) : Cnt := ⟨s.passes, s.failures, s.skips, s.exceptions⟩

/-- every kind of record keeps the loop going, and no two kinds share a number -/
theorem codes_received (r : Rec) : cond (code r) = true := by cases r <;> decide
theorem codes_distinct (a b : Rec) (h : code a = code b) : a = b := by cases a <;> cases b <;> first | rfl | (exact absurd h (by decide))

/-- the function starts with its flag down -/
theorem starts_unflagged (c : Cnt) : flag (start c) = false ∧ toCnt (start c) = c := by
  cases c; simp [flag, start, toCnt]

/-- **The rendered reader is the model's reader**: for every state of the counters, either state of the flag and every content of the
channel it counts the same, leaves the same records behind and returns the same status. -/
theorem reader_is_model (c : Cnt) (sk : Bool) (q : List Rec) :
    (toCnt (run (withFlag (start c) sk) (q.map code)).1, (run (withFlag (start c) sk) (q.map code)).2.1, fin (run (withFlag (start c) sk) (q.map code)).2.2)
      = ((readResults c sk q).1, (readResults c sk q).2.1.map code, some (readResults c sk q).2.2) := by
  induction q generalizing c sk with
  | nil => cases c; cases sk <;> simp [run, readResults, after, withFlag, start, toCnt, fin]
  | cons r q ih =>
    cases r <;> cases c <;> cases sk <;>
      simp only [List.map_cons, run, codes_received, code, cond, body, andThen, goOn, leave, ret, withFlag, start, readResults, if_true] <;>
      first
      | (simp [toCnt, fin, after] ; done)
      | (rename_i p f s e
         first
         | (have := ih ⟨p + 1, f, s, e⟩ false; simpa [withFlag, start, Cnt.add_def, Rec.cnt] using this)
         | (have := ih ⟨p + 1, f, s, e⟩ true; simpa [withFlag, start, Cnt.add_def, Rec.cnt] using this)
         | (have := ih ⟨p, f + 1, s, e⟩ false; simpa [withFlag, start, Cnt.add_def, Rec.cnt] using this)
         | (have := ih ⟨p, f + 1, s, e⟩ true; simpa [withFlag, start, Cnt.add_def, Rec.cnt] using this)
         | (have := ih ⟨p, f, s + 1, e⟩ true; simpa [withFlag, start, Cnt.add_def, Rec.cnt] using this)
         | (have := ih ⟨p, f, s, e⟩ true; simpa [withFlag, start, Cnt.add_def, Rec.cnt] using this)
         | (have := ih ⟨p, f, s, e + 1⟩ false; simpa [withFlag, start, Cnt.add_def, Rec.cnt] using this)
         | (have := ih ⟨p, f, s, e + 1⟩ true; simpa [withFlag, start, Cnt.add_def, Rec.cnt] using this))

def fstart (c : Cnt) : FSt := { passes := c.p, failures := c.f, skips := c.s, exceptions := c.e }
def fCnt (s : FSt) : Cnt := ⟨s.passes, s.failures, s.skips, s.exceptions⟩

/-- **What `reporter_finish_test()` does with the reader's status is what the model does** (`finishTest` of Model/Runner.lean): one
exception is counted, and the test shown as incomplete, exactly when no completion notice was received, or one was and the platform
layer reports that the process was killed; the test is shown as skipped exactly when the reader says so; nothing else is counted. -/
theorem finish_decision (st : Finish) (msg : Bool) (v : Int) (c : Cnt) (hv : fin v = some st) :
    let exc : Bool := st = .notReceived || (st = .received && msg)
    fCnt (finish v msg (fstart c)).1 = (if exc then c + Rec.exception.cnt else c)
    ∧ (finish v msg (fstart c)).1.incompleteShown = exc
    ∧ (finish v msg (fstart c)).1.skipShown = (st = .skippedSt) := by
  cases c
  unfold fin at hv
  split at hv
  · cases hv; subst_vars; cases msg <;> simp [finish, andThen, goOn, leave, ret, fstart, fCnt, Cnt.add_def, Rec.cnt]
  · split at hv
    · cases hv; subst_vars; cases msg <;> simp [finish, andThen, goOn, leave, ret, fstart, fCnt, Cnt.add_def, Rec.cnt]
    · split at hv
      · cases hv; subst_vars; cases msg <;> simp [finish, andThen, goOn, leave, ret, fstart, fCnt, Cnt.add_def, Rec.cnt]
      · cases hv
