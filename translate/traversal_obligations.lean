/-! ### Obligations (fixed text, `translate/traversal_obligations.lean`): the order in which the model of the runner (`runSuite` of
Model/Runner.lean: sub-suites first, in registration order, each bracketed by the suite's own fixtures; the counters reset; then the
suite's own tests; the suite's completion notice; the end of the suite) goes through a suite is the order of the C. -/

/-- **A whole-suite run**: start; the first loop; the reset of all four counters; the second loop; the completion notice; the end. -/
theorem every_test_skeleton : run_every_test_skeleton = [.startSuite, .loop 1, .resetCounters, .loop 2, .completion, .finishSuite] := by decide

/-- ... the first loop runs every sub-suite, between this suite's setup and this suite's teardown, and nothing for a test. -/
theorem every_test_sub_suites (noFork : Bool) (wanted : String) (e : Entry) :
    run_every_test_loop1 noFork wanted e = if e.isTest then [] else [.setup, .enter, .teardown] := by
  cases e with | mk isTest name holds => cases isTest <;> simp [run_every_test_loop1, Entry.isSuite]

/-- ... the second loop runs every own test, in a process of its own unless CGREEN_NO_FORK is set, and nothing for a sub-suite. -/
theorem every_test_own_tests (noFork : Bool) (wanted : String) (e : Entry) :
    run_every_test_loop2 noFork wanted e = if e.isTest then (if noFork then [.runInProcess] else [.runForked]) else [] := by
  cases e with | mk isTest name holds => cases isTest <;> cases noFork <;> simp [run_every_test_loop2, Entry.isSuite]

/-- **A single test run by name** goes the same way ... -/
theorem named_test_skeleton : run_named_test_skeleton = [.startSuite, .loop 1, .resetCounters, .loop 2, .completion, .finishSuite] := by decide

/-- ... entering exactly the sub-suites that hold the test, between this suite's setup and teardown ... -/
theorem named_test_sub_suites (noFork : Bool) (wanted : String) (e : Entry) :
    run_named_test_loop1 noFork wanted e = if e.isTest then [] else (if e.holdsWanted then [.setup, .enter, .teardown] else []) := by
  cases e with | mk isTest name holds => cases isTest <;> cases holds <;> simp [run_named_test_loop1, Entry.isSuite]

/-- ... and running, in the reporting process, exactly the own tests of that name. -/
theorem named_test_own_tests (noFork : Bool) (wanted : String) (e : Entry) :
    run_named_test_loop2 noFork wanted e = if e.isTest then (if e.name = wanted then [.runInProcess] else []) else [] := by
  cases e with | mk isTest name holds => cases isTest <;> simp [run_named_test_loop2, Entry.isSuite]
