#!/usr/bin/env python3
"""Translator for the stage order of `mock_()` and the condition under which it applies content-setting clauses (C12, C16): from the
clang-14 JSON AST of /repo's current src/mocks.c the top-level statements of `mock_()` after the early returns are classified into
stages (name validation, read-only clauses, content-setting clauses, side effects, bookkeeping), and the condition guarding the
content-setting stage is rendered into Lean over the values the reporter's counters had before (`*0`) and after (`*1`) the read-only
stage - locals are replaced by what was assigned to them, at the time it was assigned.  Obligations: the stages come in the order the
model applies them, the setters are applied exactly when the read-only stage reported no failure, and nothing else guards them."""
import json, os, re, subprocess, sys

REPO = os.environ.get("VERIF_REPO", "/repo")
HERE = os.path.dirname(os.path.abspath(__file__))
COUNTERS = ["passes", "failures", "skips", "exceptions", "total_passes", "total_failures", "total_skips", "total_exceptions"]


class Unsupported(Exception):
    pass


def ast_of(path):
    cmd = ["clang-14", "-Xclang", "-ast-dump=json", "-fsyntax-only", "-w", f"-I{REPO}", f"-I{REPO}/include", f"-I{REPO}/src", '-DVERSION="x"', os.path.join(REPO, path)]
    return json.loads(subprocess.run(cmd, stdout=subprocess.PIPE, stderr=subprocess.DEVNULL).stdout)


def strip(n):
    while n.get("kind") in ("ImplicitCastExpr", "ParenExpr", "CStyleCastExpr") and n.get("inner"):
        n = n["inner"][0]
    return n


def calls(n, acc):
    if isinstance(n, dict):
        if n.get("kind") == "DeclRefExpr" and n.get("referencedDecl", {}).get("kind") == "FunctionDecl":
            acc.append(n["referencedDecl"]["name"])          # called here, or handed to a helper that calls it for every parameter
        for c in n.get("inner", []) or []: calls(c, acc)
    return acc


def transitive_calls(n, funcs, depth=2):
    acc = calls(n, [])
    if depth > 0:
        for cn in list(acc):
            if cn in funcs and cn != "mock_":
                acc += transitive_calls(next(c for c in funcs[cn]["inner"] if c.get("kind") == "CompoundStmt"), funcs, depth - 1)
    return acc


def expr(n, env, phase):
    """-> Lean Int/Bool text, kind"""
    n = strip(n)
    k = n.get("kind")
    if k == "IntegerLiteral": return f"({n['value']} : Int)", "int"
    if k == "DeclRefExpr":
        nm = n["referencedDecl"]["name"]
        if nm in env: return env[nm]
        raise Unsupported("the condition refers to " + nm)
    if k == "MemberExpr":
        base = strip(n["inner"][0])
        if base.get("kind") == "DeclRefExpr" and base["referencedDecl"]["name"] == "test_reporter" and n["name"] in COUNTERS:
            return f"{n['name']}{phase}", "int"
        raise Unsupported("the condition reads " + n.get("name", "?"))
    if k == "UnaryOperator" and n["opcode"] == "!":
        t, kd = expr(n["inner"][0], env, phase)
        return f"(!{t})" if kd == "bool" else f"({t} == 0)", "bool"
    if k == "BinaryOperator":
        op = n["opcode"]
        ta, ka = expr(n["inner"][0], env, phase); tb, kb = expr(n["inner"][1], env, phase)
        if op in ("&&", "||"):
            ba = ta if ka == "bool" else f"({ta} != 0)"; bb = tb if kb == "bool" else f"({tb} != 0)"
            return f"({ba} {op} {bb})", "bool"
        if ka != "int" or kb != "int": raise Unsupported("comparison or arithmetic on truth values")
        if op in ("==", "!="): return f"({ta} {op} {tb})", "bool"
        if op in ("<", ">", "<=", ">="): return f"(decide ({ta} {dict(zip(['<', '>', '<=', '>='], ['<', '>', '≤', '≥']))[op]} {tb}))", "bool"
        if op in ("+", "-"): return f"({ta} {op} {tb})", "int"
    raise Unsupported(f"expression {k} {n.get('opcode', '')}")


def generate():
    top = ast_of("src/mocks.c").get("inner", [])
    funcs = {n["name"]: n for n in top if n.get("kind") == "FunctionDecl" and any(c.get("kind") == "CompoundStmt" for c in n.get("inner", []) or [])}
    if "mock_" not in funcs: raise Unsupported("mock_: no definition")
    body = next(c for c in funcs["mock_"]["inner"] if c.get("kind") == "CompoundStmt")["inner"]
    env, phase = {}, 0
    stages = []      # (stage name, guard text or None)
    def stage_of(stmt):
        cs = set(transitive_calls(stmt, funcs))
        kinds = []
        if "apply_any_read_only_parameter_constraints" in cs: kinds.append("readOnly")
        if "apply_any_content_setting_parameter_constraints" in cs: kinds.append("setters")
        if "apply_side_effect" in cs: kinds.append("sideEffects")
        if "report_mock_parameter_name_not_found" in cs: kinds.append("validate")
        if "destroy_expectation_if_time_to_die" in cs and not kinds: kinds.append("retire")
        return kinds
    for st in body:
        k = st.get("kind")
        if k == "DeclStmt":
            for v in st["inner"]:
                if v.get("kind") == "VarDecl" and v.get("inner") and v["type"]["qualType"].replace("const ", "") in ("int", "unsigned int", "long", "bool", "_Bool"):
                    try: env[v["name"]] = expr(v["inner"][0], env, phase)
                    except Unsupported: env.pop(v["name"], None)
            continue
        if k == "BinaryOperator" and st.get("opcode") == "=":
            lhs = strip(st["inner"][0])
            if lhs.get("kind") == "DeclRefExpr":
                try: env[lhs["referencedDecl"]["name"]] = expr(st["inner"][1], env, phase)
                except Unsupported: env.pop(lhs["referencedDecl"]["name"], None)
                continue
        kinds = stage_of(st)
        if not kinds:
            continue
        if k == "IfStmt" and "setters" in kinds:
            if st.get("hasElse") and stage_of(st["inner"][2]): raise Unsupported("the setters' guard has an else branch that does something")
            inner_kinds = stage_of(st["inner"][1])
            if inner_kinds != ["setters"]: raise Unsupported(f"the guarded block does {inner_kinds}")
            t, kd = expr(st["inner"][0], env, phase)
            stages.append(("setters", t if kd == "bool" else f"({t} != 0)"))
            continue
        if k == "IfStmt" and kinds == ["retire"]:
            continue       # the early returns (missing expectation, never_expect) retire nothing of interest here
        if k == "IfStmt":
            # an early return (no expectation, never_expect): not a stage of the served call
            if any(c.get("kind") == "ReturnStmt" for c in (st["inner"][1].get("inner", []) if st["inner"][1].get("kind") == "CompoundStmt" else [st["inner"][1]])) and kinds in (["retire"], []):
                continue
        if len(kinds) != 1: raise Unsupported(f"one statement does {kinds}")
        if kinds[0] == "setters": stages.append(("setters", "true"))
        else: stages.append((kinds[0], None))
        if kinds[0] == "readOnly": phase = 1
    names = [s for s, _ in stages]
    guard = next((g for s, g in stages if s == "setters"), None)
    if guard is None: raise Unsupported("no content-setting stage found in mock_()")
    syms = " ".join(f"{c}{i}" for i in (0, 1) for c in COUNTERS)
    L = ["inductive Stage | validate | readOnly | setters | sideEffects | retire\n  deriving DecidableEq, Repr\n",
         "/-- the stages of a served call, in the order `mock_()` goes through them -/",
         "def stages : List Stage := [" + ", ".join("." + s for s in names) + "]\n",
         "/-- the condition under which the content-setting clauses are applied, over the reporter's counters before (0) and after (1) the read-only stage -/",
         f"def gate ({syms} : Int) : Bool := {guard}\n"]
    return "\n".join(L)


def render():
    head = ("/-! GENERATED by translate/mockgate.py from /repo's working tree: the stages of `mock_()` and the guard of its content-setting stage. -/\n"
            "set_option linter.unusedVariables false\nnamespace Cgreen.Gen.MockGate\n\n")
    obligations = open(os.path.join(HERE, "mockgate_obligations.lean")).read()
    thms = re.findall(r"^theorem (\S+)", obligations, re.M)
    try:
        defs = generate()
    except Unsupported as e:
        return head + "end Cgreen.Gen.MockGate\n", thms, [("mock_", str(e))]
    except (KeyError, StopIteration, IndexError, TypeError) as e:
        return head + "end Cgreen.Gen.MockGate\n", thms, [("mock_", f"unexpected shape of the syntax tree ({type(e).__name__}: {e})")]
    text = head + defs + "\n" + obligations + "\nend Cgreen.Gen.MockGate\n" + "".join(f"#print axioms Cgreen.Gen.MockGate.{t}\n" for t in thms)
    return text, thms, []


if __name__ == "__main__":
    t, thms, problems = render()
    sys.stdout.write(t)
    for site, why in problems: print("-- PROBLEM:", why)
