#!/usr/bin/env python3
"""Translator for what the platform layer does around one test (C02, C04, C08): walks `run_test_in_its_own_process()` and
`wait_for_child_process()` of /repo's current src/posix_runner_platform.c (clang-14 JSON AST; the libc macros `WIFSIGNALED` ... are
recognised by their spelling in the source) along every combination of its three guards - the test is switched off, this is the
test's process, the test's process was ended by a signal - and renders the events of each path as a Lean table.  A fixed block of
obligations says what each path must be: a switched-off test is announced as skipped and finished without forking; the test's process
runs the test code, sends the completion notice and stops, in that order; the reporting process waits with Ctrl-C ignored, and hands
`finish_test` a message exactly when the process was ended by a signal."""
import json, os, re, subprocess, sys

REPO = os.environ.get("VERIF_REPO", "/repo")
HERE = os.path.dirname(os.path.abspath(__file__))
SRC = "src/posix_runner_platform.c"
QUIET = {"cgreen_time_get_current_milliseconds", "cgreen_time_duration_in_milliseconds", "snprintf", "strsignal", "sprintf", "strlen", "memset", "WTERMSIG", "fflush"}


class Unsupported(Exception):
    pass


def ast_of(path):
    cmd = ["clang-14", "-Xclang", "-ast-dump=json", "-fsyntax-only", "-w", f"-I{REPO}", f"-I{REPO}/include", f"-I{REPO}/src", '-DVERSION="x"', os.path.join(REPO, path)]
    return json.loads(subprocess.run(cmd, stdout=subprocess.PIPE, stderr=subprocess.DEVNULL).stdout)


def strip(n):
    while n.get("kind") in ("ImplicitCastExpr", "ParenExpr", "CStyleCastExpr") and n.get("inner"):
        n = n["inner"][0]
    return n


def offsets(n):
    r = n.get("range", {})
    b, e = r.get("begin", {}), r.get("end", {})
    b = b.get("expansionLoc", b); e = e.get("expansionLoc", e)
    if "offset" not in b or "offset" not in e: return None
    return b["offset"], e["offset"] + e.get("tokLen", 1)


class Walker:
    def __init__(self, text, funcs, guards):
        self.text, self.funcs, self.guards = text, funcs, guards      # guards: name -> bool for this path
        self.events, self.returned = [], False
        self.msgvars = set()      # locals that hold a message text (arrays / pointers written by snprintf)

    def source(self, n):
        o = offsets(n)
        return self.text[o[0]:o[1]] if o else ""

    def guard_of(self, n):
        src = re.sub(r"\s+", "", self.source(n))
        m = strip(n)
        neg = False
        while m.get("kind") == "UnaryOperator" and m.get("opcode") == "!":
            neg = not neg; m = strip(m["inner"][0])
        name = None
        if m.get("kind") == "MemberExpr" and m.get("name") == "skip": name = "skip"
        elif m.get("kind") == "CallExpr" and strip(m["inner"][0]).get("referencedDecl", {}).get("name") == "in_child_process":
            name = "child"; self.events.append("fork")
        elif re.fullmatch(r"[!(]*WIFSIGNALED(\(\w+\))?\)*", src):
            name = "signaled"; neg = src.count("!") % 2 == 1
        if name is None: return None
        return self.guards[name] != neg

    def call(self, n):
        callee = strip(n["inner"][0])
        for a in n["inner"][1:]:
            self.expr(a)
        if callee.get("kind") == "DeclRefExpr":
            cn = callee["referencedDecl"]["name"]
            if cn in QUIET: return
            table = {"send_reporter_skipped_notification": "sendSkipped", "run_the_test_code": "runTestCode", "send_reporter_completion_notification": "completion",
                     "stop": "stop", "wait": "wait", "waitpid": "wait", "ignore_ctrl_c": "ignoreCtrlC", "allow_ctrl_c": "allowCtrlC", "fork": "fork"}
            if cn in table: self.events.append(table[cn]); return
            if cn in self.funcs and cn not in ("in_child_process",):
                body = next(c for c in self.funcs[cn]["inner"] if c.get("kind") == "CompoundStmt")
                saved = self.returned
                self.block(body.get("inner", []))
                self.returned = saved      # a return inside the helper ends the helper
                return
            self.events.append(f'other "{cn}"'); return
        m = strip(callee)
        if m.get("kind") == "UnaryOperator": m = strip(m["inner"][0])
        if m.get("kind") == "MemberExpr":
            if m["name"] == "start_test": self.events.append("startTest"); return
            if m["name"] == "finish_test":
                arg = strip(n["inner"][-1])
                isnull = arg.get("kind") == "GNUNullExpr" or (arg.get("kind") == "IntegerLiteral" and arg.get("value") == "0")
                ismsg = arg.get("kind") in ("DeclRefExpr", "StringLiteral") and (arg.get("kind") == "StringLiteral" or arg["referencedDecl"]["name"] in self.msgvars)
                if not isnull and not ismsg and arg.get("kind") == "DeclRefExpr" and arg["referencedDecl"]["name"] in getattr(self, "ptrnull", set()):
                    isnull = True      # a pointer that was initialised to NULL and not pointed at a text on this path
                if not isnull and not ismsg: raise Unsupported("finish_test is handed something that is neither NULL nor a message text")
                self.events.append("finishTest true" if ismsg else "finishTest false"); return
            self.events.append(f'other "->{m["name"]}"'); return
        self.events.append('other "?"')

    def expr(self, n):
        n = strip(n)
        if n.get("kind") == "CallExpr": self.call(n); return
        for c in n.get("inner", []) or []:
            if isinstance(c, dict): self.expr(c)

    def block(self, stmts):
        for s in stmts:
            if self.returned: return
            k = s.get("kind")
            if k == "CompoundStmt": self.block(s.get("inner", []))
            elif k == "ReturnStmt":
                if s.get("inner"): self.expr(s["inner"][0])
                self.returned = True
            elif k == "DeclStmt":
                for v in s.get("inner", []):
                    if v.get("kind") != "VarDecl": continue
                    t = v.get("type", {}).get("qualType", "")
                    if "char" in t and ("[" in t or "*" in t):
                        init = strip(v["inner"][0]) if v.get("inner") else {}
                        if not (init.get("kind") == "GNUNullExpr" or (init.get("kind") == "IntegerLiteral" and init.get("value") == "0")) and "[" in t:
                            self.msgvars.add(v["name"])
                        elif "*" in t:
                            self.ptrnull = getattr(self, "ptrnull", set()) | {v["name"]}
                    if v.get("inner"): self.expr(v["inner"][0])
            elif k == "IfStmt":
                g = self.guard_of(s["inner"][0])
                if g is None:
                    # a condition that is none of the three guards (which signal it was ...): both branches must do the same as far as events go
                    w1 = Walker(self.text, self.funcs, self.guards); w1.msgvars = set(self.msgvars); w1.ptrnull = set(getattr(self, 'ptrnull', set())); w1.block([s["inner"][1]])
                    w2 = Walker(self.text, self.funcs, self.guards); w2.msgvars = set(self.msgvars); w2.ptrnull = set(getattr(self, 'ptrnull', set()))
                    if s.get("hasElse"): w2.block([s["inner"][2]])
                    if w1.events != w2.events or w1.returned != w2.returned:
                        raise Unsupported("a condition that is none of the three guards changes what happens: " + re.sub(r"\s+", " ", self.source(s["inner"][0]))[:60])
                    self.events += w1.events; self.returned = w1.returned; self.msgvars |= w1.msgvars | w2.msgvars
                elif g: self.block([s["inner"][1]])
                elif s.get("hasElse"): self.block([s["inner"][2]])
            elif k == "BinaryOperator" and s.get("opcode") == "=":
                lhs = strip(s["inner"][0])
                rhs = strip(s["inner"][1])
                if lhs.get("kind") == "DeclRefExpr" and lhs["referencedDecl"]["name"] in getattr(self, "ptrnull", set()):
                    # a message pointer that starts as NULL and is pointed at a text on some path
                    isnull = rhs.get("kind") == "GNUNullExpr" or (rhs.get("kind") == "IntegerLiteral" and rhs.get("value") == "0")
                    if not isnull: self.msgvars.add(lhs["referencedDecl"]["name"])      # pointed at a text: a buffer, a literal, what a helper returns
                self.expr(s["inner"][1])
            elif k in ("NullStmt",): pass
            elif k in ("WhileStmt", "ForStmt", "DoStmt", "SwitchStmt", "GotoStmt"): raise Unsupported(f"a {k}")
            else: self.expr(s)


def paths(text, funcs, fname):
    body = next(c for c in funcs[fname]["inner"] if c.get("kind") == "CompoundStmt").get("inner", [])
    rows = []
    for skip in (True, False):
        for child in (True, False):
            for signaled in (True, False):
                w = Walker(text, funcs, {"skip": skip, "child": child, "signaled": signaled})
                w.block(body)
                rows.append(((skip, child, signaled), w.events))
    return rows


def lean_ev(e):
    if e.startswith("other"): return ".other " + e[6:]
    if e.startswith("finishTest"): return ".finishTest " + e.split()[1]
    return "." + e


def generate():
    text = open(os.path.join(REPO, SRC), encoding="latin-1").read()
    top = ast_of(SRC).get("inner", [])
    funcs = {n["name"]: n for n in top if n.get("kind") == "FunctionDecl" and any(c.get("kind") == "CompoundStmt" for c in n.get("inner", []) or [])}
    if "run_test_in_its_own_process" not in funcs: raise Unsupported("run_test_in_its_own_process: no definition")
    rows = paths(text, funcs, "run_test_in_its_own_process")
    L = ["def trace : Bool → Bool → Bool → List Ev"]
    for (skip, child, sig), evs in rows:
        L.append(f"  | {str(skip).lower()}, {str(child).lower()}, {str(sig).lower()} => [" + ", ".join(lean_ev(e) for e in evs) + "]")
    return "\n".join(L)


def render():
    head = ("/-! GENERATED by translate/platform_paths.py from /repo's working tree: the paths of `run_test_in_its_own_process()`. -/\n"
            "set_option linter.unusedVariables false\nnamespace Cgreen.Gen.Platform\n\n"
            "inductive Ev | startTest | sendSkipped | finishTest (message : Bool) | fork | runTestCode | completion | stop | ignoreCtrlC | wait | allowCtrlC | other (what : String)\n  deriving DecidableEq, Repr\n\n"
            "/-- the events of `run_test_in_its_own_process()` when the test is switched off / this is the test's process / the test's process was ended by a signal -/\n")
    obligations = open(os.path.join(HERE, "platform_obligations.lean")).read()
    thms = re.findall(r"^theorem (\S+)", obligations, re.M)
    try:
        defs = generate()
    except Unsupported as e:
        return head + "end Cgreen.Gen.Platform\n", thms, [("run_test_in_its_own_process", str(e))]
    except (KeyError, StopIteration, IndexError, TypeError, ValueError) as e:
        return head + "end Cgreen.Gen.Platform\n", thms, [("run_test_in_its_own_process", f"unexpected shape of the syntax tree ({type(e).__name__}: {e})")]
    text = head + defs + "\n\n" + obligations + "\nend Cgreen.Gen.Platform\n" + "".join(f"#print axioms Cgreen.Gen.Platform.{t}\n" for t in thms)
    return text, thms, []


if __name__ == "__main__":
    t, thms, problems = render()
    sys.stdout.write(t)
    for site, why in problems: print("-- PROBLEM:", why)
