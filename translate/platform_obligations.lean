/-! ### Obligations (fixed text, `translate/platform_obligations.lean`): the paths of `run_test_in_its_own_process()` are the ones the
model of the runner takes for a test (`runTest` of Model/Runner.lean: a switched-off test is announced by the reporting process itself;
otherwise the test's process runs the script and then sends the completion notice; the reporting process waits and finishes the test
with a message exactly when the process was ended by a signal) and the ones Model/Signals.lean assumes around the wait. -/

/-- **A switched-off test**: announced as skipped and finished, by the reporting process, without a process of its own, whatever else. -/
theorem switched_off_test (child signaled : Bool) : trace true child signaled = [.startTest, .sendSkipped, .finishTest false] := by
  cases child <;> cases signaled <;> decide

/-- **The test's process**: the test's code, then the completion notice, then the end of the process - in that order, nothing after. -/
theorem test_process (signaled : Bool) : trace false true signaled = [.startTest, .fork, .runTestCode, .completion, .stop] := by
  cases signaled <;> decide

/-- **The reporting process**: forks first (so the test inherits what the runner had before it started waiting), waits with Ctrl-C
ignored and puts that back, and finishes the test with a message exactly when the test's process was ended by a signal. -/
theorem reporting_process (signaled : Bool) :
    trace false false signaled = [.startTest, .fork, .ignoreCtrlC, .wait, .allowCtrlC, .finishTest signaled] := by
  cases signaled <;> decide
