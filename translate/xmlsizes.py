#!/usr/bin/env python3
"""Translator for C11/C20: the size of the buffer `xml_escaped()` (src/xml_reporter.c) allocates against the longest text it
can write into it, re-extracted from /repo's sources on every run.

From the clang-14 AST: the bytes requested from malloc as a polynomial `k * strlen(text) + m`, and - by enumerating the paths
through the body of the loop over the characters - the number of bytes each path stores (string literals copied with
sprintf/strcpy/stpcpy, `%02x` of an unsigned char, single characters stored through the pointer). Lean then checks that no
path stores more than `k` bytes per character, that `m` leaves room for the terminator, and that the model's `escByte`
(tied to the implementation's output by the correspondence check) stores exactly such pieces; the hand-proved
`Cgreen.Xml.C11_escape_fits` turns that into: the escaped text and its terminator fit, for every text."""
import ast as pyast, os, re, sys
sys.path.insert(0, os.path.dirname(os.path.abspath(__file__)))
from growth import P, sym, padd, pmul, ast_of, strip, functions_of, contains, Unsupported, REPO
from readloops import callee, find, path

FUNC, FILE = "xml_escaped", "src/xml_reporter.c"


def c_string(n):
    n = strip(n)
    if n.get("kind") != "StringLiteral": raise Unsupported("not a string literal: " + str(n.get("kind")))
    return pyast.literal_eval(n["value"]) if not n["value"].startswith("L") else None


def format_length(fmt, args):
    """bytes a printf format stores (without the terminator) when every conversion's length is known"""
    total, i, k = 0, 0, 0
    while i < len(fmt):
        if fmt[i] != "%": total += 1; i += 1; continue
        m = re.match(r"%(0?)(\d*)(x|X|%)", fmt[i:])
        if not m: raise Unsupported("conversion in " + repr(fmt))
        if m.group(3) == "%": total += 1
        else:
            if k >= len(args): raise Unsupported("missing argument for " + repr(fmt))
            t = strip(args[k]).get("type", {}).get("qualType"); k += 1
            if t != "unsigned char": raise Unsupported(f"%x of a {t}: its length is not bounded by 2 digits")
            total += max(2, int(m.group(2) or 0))
        i += len(m.group(0))
    return total


def expr(n):
    n = strip(n)
    k = n.get("kind")
    if k == "IntegerLiteral": return P(int(n["value"]))
    if k == "CallExpr" and callee(n) == "strlen": return sym("n")
    if k == "BinaryOperator" and n.get("opcode") in ("+", "*"):
        a, b = expr(n["inner"][0]), expr(n["inner"][1])
        return padd(a, b) if n["opcode"] == "+" else pmul(a, b)
    raise Unsupported("size expression " + str(k))


def emits(n, dest):
    """bytes one statement stores through `dest`"""
    if n.get("kind") == "CallExpr" and callee(n) in ("sprintf", "strcpy", "stpcpy"):
        args = n["inner"][1:]
        try:
            if path(args[0]) != dest: return 0
        except Unsupported:
            return 0
        s = c_string(args[1])
        return format_length(s, args[2:]) if callee(n) == "sprintf" else len(s)
    if n.get("kind") == "BinaryOperator" and n.get("opcode") == "=":
        lhs = strip(n["inner"][0])
        if lhs.get("kind") == "UnaryOperator" and lhs.get("opcode") == "*":
            inner = strip(lhs["inner"][0])
            try:
                if inner.get("kind") == "UnaryOperator" and inner.get("opcode") == "++" and path(inner["inner"][0]) == dest: return 1
            except Unsupported:
                pass
    total = 0
    for c in n.get("inner", []) or []:
        if isinstance(c, dict) and c.get("kind") not in ("CompoundStmt", "IfStmt", "SwitchStmt", "ForStmt", "WhileStmt"):
            total += emits(c, dest)
    return total


def paths(n, dest):
    """the set of byte counts over the paths through a statement"""
    k = n.get("kind")
    if k == "CompoundStmt":
        acc = {0}
        for c in n.get("inner", []) or []:
            acc = {a + b for a in acc for b in paths(c, dest)}
        return acc
    if k == "IfStmt":
        inner = n["inner"]
        return paths(inner[1], dest) | (paths(inner[2], dest) if len(inner) > 2 else {0})
    if k == "SwitchStmt":
        body = n["inner"][-1]
        res, cur, has_default, open_ = set(), None, False, False
        for c in body.get("inner", []) or []:
            stmt = c
            while stmt.get("kind") in ("CaseStmt", "DefaultStmt"):
                if stmt["kind"] == "DefaultStmt": has_default = True
                if cur is None: cur = {0}
                stmt = stmt["inner"][-1]
            if cur is None: continue
            if stmt.get("kind") == "BreakStmt":
                res |= cur; cur = None
            else:
                cur = {a + b for a in cur for b in paths(stmt, dest)}
        if cur is not None: res |= cur
        return res | (set() if has_default else {0})
    if k in ("BreakStmt", "NullStmt", "DeclStmt", "ContinueStmt"): return {0}
    if k in ("ForStmt", "WhileStmt", "DoStmt"): raise Unsupported("a nested loop")
    return {emits(n, dest)}


def render():
    L = ["import CgreenModel.Model.Xml", "/-! GENERATED by translate/xmlsizes.py from /repo's current sources - do not edit. -/", "namespace Cgreen.Gen.XmlSizes", ""]
    thms, problems = [], []
    try:
        funcs = functions_of(ast_of(os.path.join(REPO, FILE)))
        if FUNC not in funcs: raise Unsupported("function not found")
        f = funcs[FUNC]
        m = find(f, lambda x: callee(x) == "malloc")
        if m is None: raise Unsupported("no malloc found")
        size = expr(m["inner"][-1])
        if any(mono not in ((), ("n",)) for mono in size): raise Unsupported("the requested size is not k * strlen(text) + m")
        kf, add = size.get(("n",), 0), size.get((), 0)
        # the pieces as the source spells them, when the loop has the plain shape (otherwise the model's pieces, which the
        # correspondence check ties to the implementation's output for every byte value, stand alone)
        ps = None
        try:
            loop = find(f, lambda x: x.get("kind") in ("ForStmt", "WhileStmt"))
            body = loop["inner"][-1]
            sp = find(body, lambda x: callee(x) in ("sprintf", "strcpy", "stpcpy"))
            dest = path(sp["inner"][1])
            ps = sorted(paths(body, dest))
            if not ps or max(ps) == 0: ps = None
        except (Unsupported, KeyError, IndexError, TypeError, ValueError, SyntaxError, AttributeError):
            ps = None
        L += [f"/-- `{FUNC}` ({FILE}) asks malloc for `factor * strlen(text) + addend` bytes. -/",
              f"def factor : Nat := {kf}", f"def addend : Nat := {add}",
              "theorem terminator_fits : 1 ≤ addend := by decide",
              "/-- no byte makes the model (tied to the implementation's output by the correspondence check) store more than `factor` bytes -/",
              "theorem model_pieces_fit : ∀ b ∈ List.range 256, (Cgreen.Xml.escByte b).length ≤ factor := by decide +kernel",
              "/-- the hypothesis of `Cgreen.Xml.C11_escape_fits` -/",
              "theorem factor_covers_longest : 6 ≤ factor := by decide"]
        thms += ["terminator_fits", "model_pieces_fit", "factor_covers_longest"]
        if ps is not None:
            L += [f"/-- what one character of the text can make the source store, path by path -/", f"def pieces : List Nat := {ps}",
                  "theorem pieces_fit : ∀ k ∈ pieces, k ≤ factor := by decide",
                  "theorem model_pieces_are_source_pieces : ∀ b ∈ List.range 256, (Cgreen.Xml.escByte b).length ∈ pieces := by decide +kernel"]
            thms += ["pieces_fit", "model_pieces_are_source_pieces"]
    except (Unsupported, KeyError, IndexError, TypeError, ValueError, SyntaxError) as e:
        problems.append((FUNC, f"{type(e).__name__}: {e}"))
        L += [f"-- {FUNC}: NOT TRANSLATED ({type(e).__name__}: {e})", ""]
    L += ["", "end Cgreen.Gen.XmlSizes"]
    for t in thms:
        L.append(f"#print axioms Cgreen.Gen.XmlSizes.{t}")
    return "\n".join(L) + "\n", thms, problems


if __name__ == "__main__":
    text, thms, problems = render()
    sys.stdout.write(text)
    for p in problems:
        sys.stderr.write("problem: %s: %s\n" % p)
