#!/usr/bin/env python3
"""Translator for C20: the arithmetic of the loops that read a stream into a buffer they enlarge as they go
(libxml2 reporter: a test's results; discoverer: one line of a symbol listing), re-extracted from /repo's sources.

For each site the loop body is executed symbolically (clang-14 AST) from a state `p` characters in a buffer recorded as
`s` bytes of which `a >= s` are allocated, once on the path that enlarges the buffer and once on the other. For every
read (`fread`, `fgets`, `read_line`) that yields: where it starts, how many bytes it may store, how many characters it
may deliver; and at the end of the body the new position, recorded size and allocation. Lean then proves, for all
p, s, a and every number of characters delivered: the read stays inside the allocation, its length does not wrap, it
can deliver at least one character (the loop makes progress - a request for 0 bytes never sees the end of the file),
and the invariant `p + 1 <= s <= a` (room for the terminator) holds again. A shape the extractor does not recognise is
reported as such (the obligation is then missing, which the check reports)."""
import os, sys
sys.path.insert(0, os.path.dirname(os.path.abspath(__file__)))
from growth import P, sym, padd, pmul, lean_of, ast_of, strip, functions_of, contains, Unsupported, REPO

SITES = [
    # the buffer, its recorded size and the position in it are found from the loop itself (what realloc enlarges, by how much, and
    # where the read continues), so renaming them is harmless
    dict(name="libxml_child_results", file="src/libxml_reporter.c", func="insert_child_results", pre="True"),
    dict(name="discoverer_line", file="tools/discoverer.c", func="read_whole_line", pre="3 ≤ s"),
]
READERS = {"fread": ("ptr", 0, ("mul", 1, 2), 0), "fgets": ("ptr", 0, ("arg", 1), 1), "read_line": ("ptr", 1, ("arg", 2), 1)}   # pointer arg, bytes, terminator
LOOPS = ("WhileStmt", "ForStmt", "DoStmt")
CMP = {"==": "=", "!=": "≠", "<": "<", "<=": "≤", ">": ">", ">=": "≥"}


def path(n):
    n = strip(n)
    k = n.get("kind")
    if k == "DeclRefExpr": return n.get("referencedDecl", {}).get("name", "?")
    if k == "MemberExpr": return path(n["inner"][0]) + ("->" if n.get("isArrow") else ".") + n.get("name", "?")
    if k == "UnaryOperator" and n.get("opcode") == "*": return "*" + path(n["inner"][0])
    raise Unsupported("lvalue " + str(k))


def callee(n):
    return strip(n["inner"][0]).get("referencedDecl", {}).get("name") if n.get("kind") == "CallExpr" else None


def is_realloc(n): return callee(n) in ("realloc", "malloc")


def is_bailout(n):
    def p(m):
        return m.get("kind") in ("ReturnStmt", "BreakStmt") or callee(m) in ("panic", "abort", "exit", "free")
    return contains(n, p)


def find(n, pred):
    if isinstance(n, dict):
        if pred(n): return n
        for c in n.get("inner", []) or []:
            r = find(c, pred)
            if r is not None: return r
    return None


class Walk:
    def __init__(self, site, grow, env, alloc):
        self.site, self.grow, self.env, self.alloc = site, grow, dict(env), alloc
        self.guard = None
        self.reads = []
        self.fresh = 0
        self.path_guards = []

    def val(self, key):
        if key not in self.env: self.env[key] = sym(key)
        return self.env[key]

    def expr(self, n):
        n = strip(n)
        k = n.get("kind")
        if k == "IntegerLiteral": return P(int(n["value"]))
        if k in ("DeclRefExpr", "MemberExpr") or (k == "UnaryOperator" and n.get("opcode") == "*"): return self.val(path(n))
        if k == "BinaryOperator" and n.get("opcode") in ("+", "-", "*"):
            a, b = self.expr(n["inner"][0]), self.expr(n["inner"][1])
            return padd(a, b) if n["opcode"] == "+" else padd(a, b, -1) if n["opcode"] == "-" else pmul(a, b)
        if k == "BinaryOperator" and n.get("opcode") == "<<" and strip(n["inner"][1]).get("kind") == "IntegerLiteral":
            return pmul(self.expr(n["inner"][0]), P(2 ** int(strip(n["inner"][1])["value"])))
        if k == "UnaryOperator" and n.get("opcode") in ("++", "--"):
            key = path(n["inner"][0]); old = self.val(key)
            self.env[key] = padd(old, P(1), 1 if n["opcode"] == "++" else -1)
            return old if n.get("isPostfix") else self.env[key]
        raise Unsupported("expression " + str(k) + " " + str(n.get("opcode", "")))

    def cond(self, c):
        """the arithmetic conjuncts of a condition, as (op, lhs, rhs)"""
        c = strip(c)
        if c.get("kind") == "BinaryOperator" and c.get("opcode") == "&&":
            return self.cond(c["inner"][0]) + self.cond(c["inner"][1])
        if c.get("kind") == "BinaryOperator" and c.get("opcode") in CMP:
            try:
                return [(c["opcode"], self.expr(c["inner"][0]), self.expr(c["inner"][1]))]
            except Unsupported:
                return []
        return []

    def negated(self, c):
        c = strip(c)
        if c.get("kind") == "BinaryOperator" and c.get("opcode") == "||":
            return self.negated(c["inner"][0]) + self.negated(c["inner"][1])
        if c.get("kind") == "BinaryOperator" and c.get("opcode") in CMP:
            neg = {"==": "!=", "!=": "==", "<": ">=", ">=": "<", ">": "<=", "<=": ">"}[c["opcode"]]
            try:
                return [(neg, self.expr(c["inner"][0]), self.expr(c["inner"][1]))]
            except Unsupported:
                return []
        return []

    def read(self, var, call):
        kind = READERS[callee(call)]
        args = call["inner"][1:]
        ptr = strip(args[kind[1]])
        try:
            if ptr.get("kind") == "BinaryOperator" and ptr.get("opcode") == "+":
                l, r = ptr["inner"]
                if path(l) == self.site["buf"]: off = self.expr(r)
                elif path(r) == self.site["buf"]: off = self.expr(l)
                else: return
            elif path(ptr) == self.site["buf"]: off = P()
            else: return
        except Unsupported:
            return
        nbytes = pmul(self.expr(args[kind[2][1]]), self.expr(args[kind[2][2]])) if kind[2][0] == "mul" else self.expr(args[kind[2][1]])
        chars = padd(nbytes, P(kind[3]), -1)
        r = f"r{self.fresh}"; self.fresh += 1
        self.reads.append(dict(off=off, bytes=nbytes, chars=chars, alloc=self.alloc, r=r))
        if var is not None: self.env[var] = sym(r)

    def alloc_call(self, call):
        self.alloc = self.expr(call["inner"][-1])

    def assign_from(self, key, rhs):
        r = strip(rhs)
        call = find(r, lambda m: m.get("kind") == "CallExpr")
        if call is not None and callee(call) in READERS: self.read(key, call); return
        if call is not None and is_realloc(call): self.alloc_call(call); return
        try:
            self.env[key] = self.expr(r)
        except Unsupported:
            self.env[key] = sym(key + "'")

    def stmt(self, n):
        k = n.get("kind")
        if k == "CompoundStmt":
            for c in n.get("inner", []) or []: self.stmt(c)
        elif k == "DeclStmt":
            for v in n.get("inner", []):
                if v.get("kind") == "VarDecl" and any(isinstance(c, dict) and c.get("kind", "").endswith(("Expr", "Operator", "Literal")) for c in v.get("inner", []) or []):
                    self.assign_from(v["name"], v["inner"][-1])
        elif k == "IfStmt":
            cnd, then = n["inner"][0], n["inner"][1]
            if contains(then, is_realloc):
                g = self.cond(cnd)
                if len(g) != 1: raise Unsupported("growth guard is not one comparison")
                self.guard = g[0]
                if self.grow: self.stmt(then)
            elif is_bailout(then):
                # past `if (A || B) break;` neither A nor B holds
                self.path_guards += self.negated(cnd)
                return
            else:
                raise Unsupported("an if statement that is neither the growth guard nor a bail-out")
        elif k == "BinaryOperator" and n.get("opcode") == "=":
            try:
                key = path(n["inner"][0])
            except Unsupported:
                return
            self.assign_from(key, n["inner"][1])
        elif k == "CompoundAssignOperator":
            key = path(n["inner"][0]); op = n.get("opcode")
            call = find(strip(n["inner"][1]), lambda m: m.get("kind") == "CallExpr")
            if call is not None and callee(call) in READERS and op == "+=":      # pos += fread(...)
                old = self.val(key)
                self.read("__read_result", call)
                self.env[key] = padd(old, self.env.pop("__read_result"))
                return
            rhs = self.expr(n["inner"][1]); old = self.val(key)
            if op == "<<=" and strip(n["inner"][1]).get("kind") == "IntegerLiteral": self.env[key] = pmul(old, P(2 ** int(strip(n["inner"][1])["value"])))
            elif op in ("+=", "-=", "*="): self.env[key] = padd(old, rhs) if op == "+=" else padd(old, rhs, -1) if op == "-=" else pmul(old, rhs)
            else: raise Unsupported("operator " + op)
        elif k == "UnaryOperator" and n.get("opcode") in ("++", "--"):
            self.expr(n)
        elif k == "CallExpr":
            if callee(n) in READERS: self.read(None, n)
        elif k in LOOPS or k in ("ReturnStmt", "BreakStmt", "NullStmt", "ContinueStmt"):
            return
        # anything else (casts of calls for their effect, ...) carries no arithmetic


def simplify(body):
    """Rewrites of the syntax tree that keep the meaning and bring a loop into the shape the analysis reads: a local that only names a
    path (`const int old_size = *size;`, never assigned again) is replaced by that path; a local pointer that is assigned once, from the
    realloc of a buffer, stands for that buffer from then on; `&x[i]` is `x + i`."""
    import copy
    body = copy.deepcopy(body)
    assigned = {}
    def count_assign(n):
        if isinstance(n, dict):
            if n.get("kind") in ("BinaryOperator", "CompoundAssignOperator") and (n.get("opcode") == "=" or n.get("kind") == "CompoundAssignOperator"):
                l = strip(n["inner"][0])
                if l.get("kind") == "DeclRefExpr": assigned.setdefault(l["referencedDecl"]["name"], []).append(n)
            if n.get("kind") == "UnaryOperator" and n.get("opcode") in ("++", "--"):
                l = strip(n["inner"][0])
                if l.get("kind") == "DeclRefExpr": assigned.setdefault(l["referencedDecl"]["name"], []).append(n)
            for c in n.get("inner", []) or []: count_assign(c)
    count_assign(body)
    alias = {}
    def is_path(n):
        n = strip(n)
        k = n.get("kind")
        if k == "DeclRefExpr": return n["referencedDecl"].get("kind") == "ParmVarDecl"
        if k == "MemberExpr" or (k == "UnaryOperator" and n.get("opcode") == "*"): return is_path(n["inner"][0])
        return False
    def collect(n):
        if isinstance(n, dict):
            if n.get("kind") == "VarDecl" and n.get("inner") and n["name"] not in assigned and is_path(n["inner"][-1]) and "*" not in n.get("type", {}).get("qualType", "").replace("const", ""):
                alias[n["name"]] = n["inner"][-1]
            for c in n.get("inner", []) or []: collect(c)
    collect(body)
    for name, sites_ in assigned.items():
        if len(sites_) == 1 and sites_[0].get("opcode") == "=":
            r = strip(sites_[0]["inner"][1])
            if callee(r) == "realloc" and is_path(r["inner"][1]):
                alias[name] = r["inner"][1]
    def rewrite(n):
        if isinstance(n, dict):
            inner = n.get("inner")
            if inner:
                for i, c in enumerate(inner):
                    if isinstance(c, dict):
                        cs = c
                        if cs.get("kind") == "DeclRefExpr" and cs.get("referencedDecl", {}).get("name") in alias and cs["referencedDecl"].get("kind") == "VarDecl":
                            inner[i] = copy.deepcopy(alias[cs["referencedDecl"]["name"]])
                        elif cs.get("kind") == "UnaryOperator" and cs.get("opcode") == "&" and strip(cs["inner"][0]).get("kind") == "ArraySubscriptExpr":
                            sub = strip(cs["inner"][0])
                            inner[i] = {"kind": "BinaryOperator", "opcode": "+", "type": cs.get("type", {}), "inner": [sub["inner"][0], sub["inner"][1]]}
                        rewrite(inner[i])
    rewrite(body)
    # the declarations of the replaced locals, and assignments that have become `x = x`, carry nothing any more
    def prune(n):
        if isinstance(n, dict) and n.get("inner"):
            keep = []
            for c in n["inner"]:
                if isinstance(c, dict) and c.get("kind") == "DeclStmt" and all(v.get("name") in alias for v in c.get("inner", [])):
                    continue
                if isinstance(c, dict) and c.get("kind") == "BinaryOperator" and c.get("opcode") == "=":
                    try:
                        if path(c["inner"][0]) == path(c["inner"][1]): continue
                    except Unsupported:
                        pass
                keep.append(c)
            n["inner"] = keep
            for c in keep: prune(c)
    prune(body)
    return body


def analyse(site, funcs):
    body = simplify([c for c in funcs[site["func"]]["inner"] if c.get("kind") == "CompoundStmt"][0])
    stmts = body.get("inner", []) or []
    li = next((i for i, c in enumerate(stmts) if c.get("kind") in LOOPS), None)
    if li is None: raise Unsupported("no loop found")
    loop = stmts[li]
    parts0 = loop["inner"]
    lbody0 = parts0[1] if loop["kind"] == "WhileStmt" else parts0[0] if loop["kind"] == "DoStmt" else parts0[4]
    grow_call = find(lbody0, lambda m: callee(m) == "realloc")
    if grow_call is None: raise Unsupported("the loop does not enlarge a buffer with realloc")
    probe = Walk(dict(buf="?"), True, {}, P())
    site = dict(site)
    site["buf"] = path(grow_call["inner"][1])
    szs = sorted({x for m in probe.expr(grow_call["inner"][2]) for x in m})
    if len(szs) != 1: raise Unsupported("the size requested from realloc depends on " + str(szs))
    site["size"] = szs[0]
    rd = find(lbody0, lambda m: callee(m) in READERS)
    if rd is None: raise Unsupported("no read into the buffer found in the loop")
    ptr = strip(rd["inner"][1:][READERS[callee(rd)][1]])
    if not (ptr.get("kind") == "BinaryOperator" and ptr.get("opcode") == "+"): raise Unsupported("the read in the loop does not continue behind what is there")
    l_, r_ = ptr["inner"]
    try:
        site["pos"] = path(r_) if path(l_) == site["buf"] else path(l_) if path(r_) == site["buf"] else None
    except Unsupported:
        site["pos"] = None
    if site["pos"] is None: raise Unsupported("the read in the loop goes somewhere else than into the buffer that is enlarged")
    # before the loop: from the caller's contract (a buffer recorded as s bytes, a >= s allocated) or from the function's own malloc
    pre = Walk(site, True, {site["size"]: sym("s"), site["pos"]: sym("p")}, sym("a"))
    for c in stmts[:li]:
        pre.stmt(c)
        sz = pre.env.get(site["size"])
        if sz is not None and any(x not in ("p", "s", "a") and not x.startswith("r") for m in sz for x in m):
            pre.env[site["size"]] = sym("s")        # taken over from the caller (`int capacity = *size;`): a buffer recorded as s bytes
    parts = loop["inner"]
    if loop["kind"] == "WhileStmt": cnd, lbody = parts[0], parts[1]
    elif loop["kind"] == "DoStmt": lbody, cnd = parts[0], parts[1]
    else: cnd, lbody = parts[2], parts[4]
    res = {"pre": pre, "site": site}
    for grow in (True, False):
        w = Walk(site, grow, {site["size"]: sym("s"), site["pos"]: sym("p")}, sym("a"))
        w.loop_guards = [g for g in (w.cond(cnd) if isinstance(cnd, dict) and cnd else [])
                         if all(x in NAMES for side in g[1:] for m in side for x in m)]      # only what is about position and size
        w.stmt(lbody)
        if not w.reads: raise Unsupported("no read into the buffer found in the loop")
        w.loop_guards += [g for g in w.path_guards if all(x in NAMES for side in g[1:] for m in side for x in m)]
        res[grow] = w
    post = Walk(site, True, {site["size"]: sym("s"), site["pos"]: sym("p")}, sym("a"))
    idx = []
    for c in stmts[li + 1:]:
        def sub(m):
            if m.get("kind") == "ArraySubscriptExpr":
                try:
                    if path(m["inner"][0]) == site["buf"]: idx.append(post.expr(m["inner"][1]))
                except Unsupported:
                    pass
            for d in m.get("inner", []) or []:
                if isinstance(d, dict): sub(d)
        sub(c)
    res["post_index"] = idx
    return res


def initial_size(file="tools/discoverer.c", callee_name="read_whole_line"):
    """the constant size of the buffer that the caller of `callee_name` hands over (its `&size` argument), after macro expansion"""
    funcs = functions_of(ast_of(os.path.join(REPO, file)))
    for name, f in funcs.items():
        call = find(f, lambda m: callee(m) == callee_name)
        if call is None or name == callee_name: continue
        for arg in call["inner"][1:]:
            a_ = strip(arg)
            if a_.get("kind") == "UnaryOperator" and a_.get("opcode") == "&":
                try:
                    var = path(a_["inner"][0])
                except Unsupported:
                    continue
                decl = find(f, lambda m: m.get("kind") == "VarDecl" and m.get("name") == var and m.get("type", {}).get("qualType") in ("int", "size_t", "unsigned int", "long", "unsigned long"))
                if decl is None or not decl.get("inner"): continue
                try:
                    v = Walk(dict(buf="?"), True, {}, P()).expr(decl["inner"][-1])
                except Unsupported:
                    continue
                if all(m == () for m in v): return v.get((), 0)
    return None


NAMES = {"p": "p", "s": "s", "a": "a"}


def ln(p, extra=()):
    names = dict(NAMES); names.update({r: r for r in extra})
    for m in p:
        for s_ in m:
            if s_ not in names: raise Unsupported("the arithmetic depends on " + s_)
    t = lean_of(p, names)
    return f"({t})" if (" - " in t or " + " in t) else t


def nowrap(p, extra=()):
    """the subtraction in lean_of's rendering is not truncated: negative part <= positive part"""
    pos = {m: c for m, c in p.items() if c > 0}; neg = {m: -c for m, c in p.items() if c < 0}
    return f"{ln(neg, extra)} ≤ {ln(pos, extra)}" if neg else "True"


def guard_text(g, extra=()):
    op, l, r = g
    return f"{ln(l, extra)} {CMP[op]} {ln(r, extra)}"


BNAMES = {"p": "b.p", "s": "b.s", "a": "b.a"}


def lb(p, extra=()):
    """rendering over a `Buf` b"""
    names = dict(BNAMES); names.update({r: r for r in extra})
    for m in p:
        for s_ in m:
            if s_ not in names: raise Unsupported("the arithmetic depends on " + s_)
    t = lean_of(p, names)
    return f"({t})" if (" - " in t or " + " in t or " * " in t) else t


def lb_nowrap(p, extra=()):
    pos = {m: c for m, c in p.items() if c > 0}; neg = {m: -c for m, c in p.items() if c < 0}
    return f"{lb(neg, extra)} ≤ {lb(pos, extra)}" if neg else None


def lb_guard(g):
    op, l, r = g
    return f"{lb(l)} {CMP[op]} {lb(r)}"


def lifted(L, nm, site, r):
    """definitions of the loop as a transition system over `Cgreen.Loops.Buf` and the theorem that the one-turn facts hold in
    every state of every execution (generic induction: `Cgreen.Loops.always'`)"""
    g, k = r[True], r[False]
    has_guard = g.guard is not None
    loops = [lb_guard(x) for x in g.loop_guards]
    if len(g.reads) != 1 or (has_guard and len(k.reads) != 1): raise Unsupported("more than one read per turn")
    pre = site["pre"].replace("s", "b.s") if site["pre"] != "True" else None

    def path_defs(w):
        x = w.reads[0]
        chars = lb(x["chars"])
        end = f"⟨{lb(w.env[site['pos']], [x['r']])}, {lb(w.env[site['size']])}, {lb(w.alloc)}⟩"
        facts = [f"{lb(x['off'])} + {lb(x['bytes'])} ≤ {lb(x['alloc'])}", lb_nowrap(x["bytes"]), lb_nowrap(x["chars"]), f"1 ≤ {chars}"]
        return chars, end.replace(x["r"], "r"), " ∧ ".join(f for f in facts if f)
    # the read result symbol is called r0 in each walk: rename to r
    for w in (g, k):
        for x in w.reads: pass
    cg, eg, fg = path_defs(g)
    eg = eg.replace("r0", "r")
    if has_guard:
        ck, ek, fk = path_defs(k); ek = ek.replace("r0", "r")
    L.append(f"def {nm}_inv (b : Buf) : Prop := b.Inv" + (f" ∧ {pre}" if pre else ""))
    if loops: L.append(f"def {nm}_loops (b : Buf) : Prop := " + " ∧ ".join(loops))
    if loops: L.append(f"instance (b : Buf) : Decidable ({nm}_loops b) := by unfold {nm}_loops; infer_instance")
    if has_guard:
        L.append(f"def {nm}_grows (b : Buf) : Prop := {lb_guard(g.guard)}")
        L.append(f"instance (b : Buf) : Decidable ({nm}_grows b) := by unfold {nm}_grows; infer_instance")
    inner_chars = f"if {nm}_grows b then {cg} else {ck}" if has_guard else cg
    inner_turn = f"if {nm}_grows b then {eg} else {ek}" if has_guard else eg
    inner_good = f"({nm}_grows b → {fg}) ∧ (¬ {nm}_grows b → {fk})" if has_guard else fg
    L.append(f"def {nm}_chars (b : Buf) : Nat := " + (f"if {nm}_loops b then ({inner_chars}) else 0" if loops else inner_chars))
    L.append(f"def {nm}_turn (b : Buf) (r : Nat) : Buf := " + (f"if {nm}_loops b then ({inner_turn}) else b" if loops else inner_turn))
    L.append(f"def {nm}_good (b : Buf) : Prop := " + (f"{nm}_loops b → ({inner_good})" if loops else inner_good))
    unf_g = " ".join([f"{nm}_good"] + ([f"{nm}_loops"] if loops else []) + ([f"{nm}_grows"] if has_guard else []))
    cases = " <;> ".join(([f"by_cases hl : {nm}_loops b"] if loops else []) + ([f"by_cases hg : {nm}_grows b"] if has_guard else []))
    haves = "; ".join(([f"have hl' := hl; unfold {nm}_loops at hl'"] if loops else []) + ([f"have hg' := hg; unfold {nm}_grows at hg'"] if has_guard else []))
    simps = ", ".join([f"{nm}_turn", f"{nm}_chars"] + (["hl"] if loops else []) + (["hg"] if has_guard else []) + ["↓reduceIte"])
    body = f"({haves}; simp only [{simps}] at hr ⊢; omega)" if haves else f"(simp only [{simps}] at hr ⊢; omega)"
    L += [f"/-- `{site['func']}`: in every state of every execution of the loop - whatever the stream delivers, turn by turn - the",
          "invariant holds, every read stays inside the allocation, no length wraps around, and the read can deliver something. -/",
          f"theorem {nm}_always : ∀ (rs : List Nat) (b : Buf), {nm}_inv b → Admissible {nm}_chars {nm}_turn b rs →",
          f"    (∀ v ∈ visited {nm}_turn b rs, {nm}_inv v ∧ {nm}_good v) ∧ {nm}_inv (run {nm}_turn b rs) :=",
          f"  always' {nm}_inv {nm}_chars {nm}_turn {nm}_good",
          f"    (by intro b hb; unfold {nm}_inv Buf.Inv at hb; unfold {unf_g}; omega)",
          f"    (by intro b r hb hr; unfold {nm}_inv Buf.Inv at *; " + (f"{cases} <;> {body})" if cases else f"{body[1:-1]})")]
    return f"{nm}_always"


def prove(L, name, vars_, hyps, concl, doc=None):
    concl = [c for c in concl if c != "True"] or ["True"]
    if doc: L.append(f"/-- {doc} -/")
    L += [f"theorem {name} : ∀ {vars_} : Nat, " + " → ".join(hyps) + " →",
          "    " + " ∧ ".join(concl) + " := by",
          "  intros; refine ⟨" + ", ".join(["?_"] * len(concl)) + "⟩ <;> omega" if len(concl) > 1 else "  intros; omega"]


def render():
    L = ["import CgreenModel.Lemmas.Loops", "/-! GENERATED by translate/readloops.py from /repo's current sources - do not edit. -/", "namespace Cgreen.Gen.ReadLoops", "open Cgreen.Loops", ""]
    thms, problems = [], []
    for site in SITES:
        nm = site["name"]
        try:
            funcs = functions_of(ast_of(os.path.join(REPO, site["file"])))
            if site["func"] not in funcs: raise Unsupported("function not found")
            r = analyse(site, funcs)
            site = r["site"]
            pre = r["pre"]
            rs = [x["r"] for x in pre.reads]
            # ---- entry: what happens before the loop establishes the invariant ----
            hyps = ["s ≤ a", site["pre"]] + [f"{x['r']} ≤ {ln(x['chars'], rs)}" for x in pre.reads]
            concl = [f"{ln(x['off'], rs)} + {ln(x['bytes'], rs)} ≤ {ln(x['alloc'], rs)}" for x in pre.reads]
            concl += [nowrap(x["chars"], rs) for x in pre.reads]
            p0, s0, a0 = pre.env[site["pos"]], pre.env[site["size"]], pre.alloc
            concl += [f"{ln(p0, rs)} + 1 ≤ {ln(s0, rs)}", f"{ln(s0, rs)} ≤ {ln(a0, rs)}"]
            vars_ = " ".join(["p", "s", "a"] + rs)
            prove(L, f"{nm}_entry", vars_, hyps, concl, f"`{site['func']}` ({site['file']}): up to the loop.")
            thms.append(f"{nm}_entry")
            # ---- one turn of the loop, enlarging and not ----
            for grow in (True, False):
                w = r[grow]
                if w.guard is None and not grow: continue          # enlarged on every turn: one path only
                rs = [x["r"] for x in w.reads]
                hyps = ["p + 1 ≤ s", "s ≤ a", site["pre"]] + [guard_text(g) for g in w.loop_guards]
                if w.guard is not None:
                    hyps.append(guard_text(w.guard) if grow else f"¬ ({guard_text(w.guard)})")
                hyps += [f"{x['r']} ≤ {ln(x['chars'], rs)}" for x in w.reads]
                concl = []
                for x in w.reads:
                    concl += [f"{ln(x['off'], rs)} + {ln(x['bytes'], rs)} ≤ {ln(x['alloc'], rs)}", nowrap(x["bytes"], rs), nowrap(x["chars"], rs), f"1 ≤ {ln(x['chars'], rs)}"]
                pe, se, ae = w.env[site["pos"]], w.env[site["size"]], w.alloc
                concl += [f"{ln(pe, rs)} + 1 ≤ {ln(se, rs)}", f"{ln(se, rs)} ≤ {ln(ae, rs)}", "s ≤ " + ln(se, rs)]
                vars_ = " ".join(["p", "s", "a"] + rs)
                t = f"{nm}_{'grow' if grow else 'keep'}"
                prove(L, t, vars_, hyps, concl, f"one turn of the loop, {'enlarging the buffer' if grow else 'in the buffer as it is'}: every read inside the allocation, no wrap-around, progress, invariant.")
                thms.append(t)
            thms.append(lifted(L, nm, site, r))
            for k, ix in enumerate(r["post_index"]):
                t = f"{nm}_after_{k}"
                L += [f"theorem {t} : ∀ p s a : Nat, p + 1 ≤ s → s ≤ a → {ln(ix)} < a := by", "  intros; omega"]
                thms.append(t)
            L.append("")
        except (Unsupported, KeyError, IndexError, TypeError) as e:
            problems.append((nm, f"{type(e).__name__}: {e}"))
            L += [f"-- {nm}: NOT TRANSLATED ({type(e).__name__}: {e})", ""]
    L.append("end Cgreen.Gen.ReadLoops")
    for t in thms:
        L.append(f"#print axioms Cgreen.Gen.ReadLoops.{t}")
    return "\n".join(L) + "\n", thms, problems


if __name__ == "__main__":
    text, thms, problems = render()
    sys.stdout.write(text)
    for p in problems:
        sys.stderr.write("problem: %s: %s\n" % p)
