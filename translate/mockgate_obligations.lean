/-! ### Obligations (fixed text, `translate/mockgate_obligations.lean`) -/

/-- **The stages of a served call come in the model's order**: clause names are validated, the read-only clauses (`when`, captures) are
applied, then the content setters, then the side effects, and only then is the expectation counted down and retired. -/
theorem stages_in_order : stages = [.validate, .readOnly, .setters, .sideEffects, .retire] := by decide

/-- **The content setters are applied exactly when the read-only stage reported no failure**: whatever the reporter's counters were
before the call - whatever earlier tests of the suite or earlier suites left in them - and whatever else they are now. -/
theorem setters_gate (passes0 failures0 skips0 exceptions0 total_passes0 total_failures0 total_skips0 total_exceptions0
    passes1 failures1 skips1 exceptions1 total_passes1 total_failures1 total_skips1 total_exceptions1 : Int) :
    gate passes0 failures0 skips0 exceptions0 total_passes0 total_failures0 total_skips0 total_exceptions0
      passes1 failures1 skips1 exceptions1 total_passes1 total_failures1 total_skips1 total_exceptions1 = (failures0 == failures1) := by
  unfold gate
  first
  | rfl
  | (rw [Bool.eq_iff_iff]; simp; done)
  | (rw [Bool.eq_iff_iff]; simp; omega)
  | (rw [Bool.eq_iff_iff]; simp; constructor <;> intro h <;> omega)
