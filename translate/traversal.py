#!/usr/bin/env python3
"""Translator for the traversal of a suite (C01, C03, C08, C13): renders `run_every_test()` and `run_named_test()` of /repo's current
src/runner.c from the clang-14 JSON AST: the top-level statements of each as a skeleton of segments (start of the suite, a loop over
the suite's entries, the reset of the four counters, another loop, the completion notice, the end of the suite) and the body of each
loop as a Lean function from one entry (a test or a sub-suite, its name, whether the sub-suite holds the wanted test) to the events it
causes.  A fixed block of obligations says what the skeleton and each loop body must be: sub-suites first, each bracketed by the suite's
own setup and teardown; the counters reset; then the suite's own tests, forked unless CGREEN_NO_FORK; the completion notice; the end."""
import json, os, re, subprocess, sys

REPO = os.environ.get("VERIF_REPO", "/repo")
HERE = os.path.dirname(os.path.abspath(__file__))
COUNTERS = ["passes", "failures", "skips", "exceptions"]
IGNORED_CALLS = {"cgreen_time_get_current_milliseconds", "cgreen_time_duration_in_milliseconds", "run_specified_test_if_child", "count_tests"}


class Unsupported(Exception):
    pass


def ast_of(path):
    cmd = ["clang-14", "-Xclang", "-ast-dump=json", "-fsyntax-only", "-w", f"-I{REPO}", f"-I{REPO}/include", f"-I{REPO}/src", '-DVERSION="x"', os.path.join(REPO, path)]
    return json.loads(subprocess.run(cmd, stdout=subprocess.PIPE, stderr=subprocess.DEVNULL).stdout)


def strip(n):
    while n.get("kind") in ("ImplicitCastExpr", "ParenExpr", "CStyleCastExpr") and n.get("inner"):
        n = n["inner"][0]
    return n


ALIASES = {}      # locals (and, while a helper is rendered in place, its parameters) that stand for a path


def path_of(n):
    """suite->tests[i].Runnable.suite -> ('suite', 'tests', '[i]', 'Runnable', 'suite')"""
    n = strip(n)
    k = n.get("kind")
    if k == "DeclRefExpr":
        nm = n["referencedDecl"]["name"]
        return ALIASES.get(nm, (nm,))
    if k == "MemberExpr": return path_of(n["inner"][0]) + (n["name"],)
    if k == "ArraySubscriptExpr":
        idx = strip(n["inner"][1])
        return path_of(n["inner"][0]) + ("[" + (idx.get("referencedDecl", {}).get("name") or idx.get("value", "?")) + "]",)
    if k == "UnaryOperator" and n.get("opcode") in ("*", "&"): return path_of(n["inner"][0])
    return ("?",)


class Fn:
    def __init__(self, name, decl, named):
        self.name, self.named = name, named
        self.params = [p["name"] for p in decl.get("inner", []) if p.get("kind") == "ParmVarDecl"]
        self.suite = self.params[0]
        self.wanted = self.params[1] if named else None
        self.funcs = {}


def cond(f, n, ivar):
    n = strip(n)
    k = n.get("kind")
    if k == "UnaryOperator" and n["opcode"] == "!":
        return f"(!{cond(f, n['inner'][0], ivar)})"
    if k == "BinaryOperator" and n["opcode"] in ("&&", "||"):
        return f"({cond(f, n['inner'][0], ivar)} {n['opcode']} {cond(f, n['inner'][1], ivar)})"
    if k == "BinaryOperator" and n["opcode"] in ("==", "!="):
        a, b = strip(n["inner"][0]), strip(n["inner"][1])
        for x, y in ((a, b), (b, a)):
            px = path_of(x)
            if px[-1] == "type" and f"[{ivar}]" in px and y.get("kind") == "DeclRefExpr":
                which = y["referencedDecl"]["name"]
                if which not in ("test_function", "test_suite"): raise Unsupported("entry type compared with " + which)
                t = "e.isTest" if which == "test_function" else "e.isSuite"
                return t if n["opcode"] == "==" else f"(!{t})"
            if x.get("kind") == "CallExpr" and strip(x["inner"][0]).get("referencedDecl", {}).get("name") == "getenv":
                arg = strip(x["inner"][1])
                if arg.get("kind") == "StringLiteral" and arg.get("value") == '"CGREEN_NO_FORK"' and (y.get("kind") == "GNUNullExpr" or (y.get("kind") == "IntegerLiteral" and y.get("value") == "0")):
                    return "(!noFork)" if n["opcode"] == "==" else "noFork"
            if x.get("kind") == "CallExpr" and strip(x["inner"][0]).get("referencedDecl", {}).get("name") == "strcmp" and y.get("kind") == "IntegerLiteral" and y.get("value") == "0":
                args = [path_of(a_) for a_ in x["inner"][1:]]
                if f.named and any(p[-1] == "name" and f"[{ivar}]" in p for p in args) and any(p == (f.wanted,) for p in args):
                    return "(e.name == wanted)" if n["opcode"] == "==" else "(e.name != wanted)"
        raise Unsupported(f"{f.name}: comparison in a loop condition")
    if k == "CallExpr":
        cn = strip(n["inner"][0]).get("referencedDecl", {}).get("name")
        if cn == "has_test" and f.named:
            a0, a1 = path_of(n["inner"][1]), path_of(n["inner"][2])
            if a0[-2:] == ("Runnable", "suite") and f"[{ivar}]" in a0 and a1 == (f.wanted,):
                return "e.holdsWanted"
        if cn == "getenv":
            arg = strip(n["inner"][1])
            if arg.get("kind") == "StringLiteral" and arg.get("value") == '"CGREEN_NO_FORK"': return "noFork"
        raise Unsupported(f"{f.name}: call of {cn} in a condition")
    raise Unsupported(f"{f.name}: condition of kind {k}")


def call_event(f, n, ivar):
    """one call statement -> event text or None (ignored)"""
    callee = strip(n["inner"][0])
    if callee.get("kind") == "DeclRefExpr":
        cn = callee["referencedDecl"]["name"]
        if cn in IGNORED_CALLS: return None
        if cn == "send_reporter_completion_notification": return ".completion"
        if cn == f.name:
            a0 = path_of(n["inner"][1])
            ok = a0[-2:] == ("Runnable", "suite") and ivar and f"[{ivar}]" in a0 and a0[0] == f.suite
            if f.named: ok = ok and path_of(n["inner"][2]) == (f.wanted,)
            return ".enter" if ok else '.other "recursion into something else than this entry"'
        if cn in ("run_test_in_its_own_process", "run_test_in_the_current_process"):
            a0, a1 = path_of(n["inner"][1]), path_of(n["inner"][2])
            ok = a0 == (f.suite,) and a1[-2:] == ("Runnable", "test") and ivar and f"[{ivar}]" in a1 and a1[0] == f.suite
            ev = ".runForked" if cn == "run_test_in_its_own_process" else ".runInProcess"
            return ev if ok else f'.other "{cn} with other arguments than this suite and this entry"'
        return f'.other "{cn}"'
    p = path_of(callee)
    if p == (f.suite, "setup"): return ".setup"
    if p == (f.suite, "teardown"): return ".teardown"
    if p == ("reporter", "start_suite"): return ".startSuite"
    if p == ("reporter", "finish_suite"): return ".finishSuite"
    return '.other "' + "->".join(p) + '"'


def body_events(f, stmts, ivar):
    """statements of a loop body -> Lean term : List Ev (over `e`, `noFork`, `wanted`)"""
    parts = []
    for idx, s in enumerate(stmts):
        k = s.get("kind")
        if k == "CompoundStmt" and len(stmts) == 1:
            return body_events(f, s.get("inner", []), ivar)
        if k == "CompoundStmt":
            parts.append(body_events(f, s.get("inner", []), ivar))
        elif k == "IfStmt" and not s.get("hasElse") and [x.get("kind") for x in (s["inner"][1].get("inner", []) if s["inner"][1].get("kind") == "CompoundStmt" else [s["inner"][1]])] == ["ContinueStmt"]:
            # `if (c) continue;`: the rest of the body is for the entries for which c does not hold
            c = cond(f, s["inner"][0], ivar)
            rest = body_events(f, stmts[idx + 1:], ivar)
            parts.append(f"(if {c} then [] else {rest})")
            break
        elif k == "IfStmt":
            c = cond(f, s["inner"][0], ivar)
            th = body_events(f, [s["inner"][1]], ivar)
            el = body_events(f, [s["inner"][2]], ivar) if s.get("hasElse") else "[]"
            parts.append(f"(if {c} then {th} else {el})")
        elif k == "CallExpr":
            ev = call_event(f, s, ivar)
            if ev: parts.append(f"[{ev}]")
        elif k == "NullStmt":
            pass
        elif k == "DeclStmt":
            for v in s.get("inner", []):
                if v.get("kind") == "VarDecl" and v.get("inner"):
                    pth = path_of(v["inner"][0])
                    if "?" in pth: raise Unsupported(f"{f.name}: local {v['name']} in a loop over the entries")
                    ALIASES[v["name"]] = pth
        elif k == "ContinueStmt":
            raise Unsupported(f"{f.name}: continue in a loop over the entries")
        else:
            raise Unsupported(f"{f.name}: a {k} in a loop over the entries")
    return "(" + " ++ ".join(parts) + ")" if parts else "[]"


def render_fn(f, decl):
    body = next(c for c in decl["inner"] if c.get("kind") == "CompoundStmt").get("inner", [])
    segments, loops, resets = [], [], []

    def flush_resets():
        if resets:
            if sorted(resets) == sorted(COUNTERS): segments.append(".resetCounters")
            else: segments.extend(f'.other "only {c} reset"' for c in resets)
            del resets[:]

    def walk(stmts_, depth):
        for s in stmts_:
            k = s.get("kind")
            if k == "DeclStmt" or k == "NullStmt":
                continue           # time stamps, the loop variable
            if k == "BinaryOperator" and s.get("opcode") == "=":
                lhs, rhs = path_of(s["inner"][0]), strip(s["inner"][1])
                if lhs[0] == "reporter" and lhs[-1] in COUNTERS and rhs.get("kind") == "IntegerLiteral" and rhs.get("value") == "0":
                    resets.append(lhs[-1]); continue
                if lhs[0] == "reporter" and lhs[-1] in ("duration", "total_duration"):
                    continue
                raise Unsupported(f"{f.name}: assignment to {'->'.join(lhs)}")
            if k == "CallExpr":
                callee = strip(s["inner"][0])
                cn = callee.get("referencedDecl", {}).get("name") if callee.get("kind") == "DeclRefExpr" else None
                if cn in IGNORED_CALLS:
                    continue
                if cn in f.funcs and cn not in (f.name, "run_test_in_its_own_process", "run_test_in_the_current_process", "send_reporter_completion_notification", "has_test") and depth < 2:
                    # a helper of the same file: its statements in place, its parameters standing for what was passed
                    h = f.funcs[cn]
                    saved = dict(ALIASES)
                    for p_, a_ in zip([p_ for p_ in h.get("inner", []) if p_.get("kind") == "ParmVarDecl"], s["inner"][1:]):
                        ALIASES[p_["name"]] = path_of(a_)
                    walk(next(c for c in h["inner"] if c.get("kind") == "CompoundStmt").get("inner", []), depth + 1)
                    ALIASES.clear(); ALIASES.update(saved)
                    continue
                flush_resets()
                ev = call_event(f, s, None)
                if ev: segments.append(ev)
                continue
            flush_resets()
            if k == "ForStmt":
                init, _, c, inc, lb = s["inner"]
                ivar = None
                ci = strip(c) if c else {}
                if ci.get("kind") == "BinaryOperator" and ci.get("opcode") == "<" and path_of(ci["inner"][1]) == (f.suite, "size"):
                    ivar = path_of(ci["inner"][0])[0]
                ii = strip(init) if init else {}
                okinit = (ii.get("kind") == "BinaryOperator" and ii.get("opcode") == "=" and strip(ii["inner"][1]).get("value") == "0") or \
                         (ii.get("kind") == "DeclStmt" and strip(ii["inner"][0]["inner"][0]).get("value") == "0")
                ic = strip(inc) if inc else {}
                okinc = ic.get("kind") == "UnaryOperator" and ic.get("opcode") == "++"
                if not (ivar and okinit and okinc): raise Unsupported(f"{f.name}: a loop that is not `for (i = 0; i < suite->size; i++)`")
                name = f"{f.name}_loop{len(loops) + 1}"
                saved = dict(ALIASES)
                loops.append((name, body_events(f, [lb], ivar)))
                ALIASES.clear(); ALIASES.update(saved)
                segments.append(f".loop {len(loops)}")
            else:
                raise Unsupported(f"{f.name}: a {k} at the top level")

    walk(body, 0)
    flush_resets()
    L = [f"def {f.name}_skeleton : List Seg := [" + ", ".join(segments) + "]"]
    for name, t in loops:
        L.append(f"def {name} (noFork : Bool) (wanted : String) (e : Entry) : List Ev :=\n  {t}")
    return "\n".join(L), len(loops)


def generate():
    top = ast_of("src/runner.c").get("inner", [])
    funcs = {n["name"]: n for n in top if n.get("kind") == "FunctionDecl" and any(c.get("kind") == "CompoundStmt" for c in n.get("inner", []) or [])}
    out = []
    for name, named in (("run_every_test", False), ("run_named_test", True)):
        if name not in funcs: raise Unsupported(f"{name}: no definition in src/runner.c")
        fn = Fn(name, funcs[name], named); fn.funcs = funcs
        ALIASES.clear()
        t, nloops = render_fn(fn, funcs[name])
        if nloops != 2: raise Unsupported(f"{name}: {nloops} loops over the suite's entries, the obligations are about two (sub-suites, then own tests)")
        out.append(t)
    return "\n\n".join(out)


def render():
    head = ("/-! GENERATED by translate/traversal.py from /repo's working tree: `run_every_test()` and `run_named_test()`. -/\n"
            "set_option linter.unusedVariables false\nnamespace Cgreen.Gen.Traversal\n\n"
            "/-- an entry of a suite: a test or a sub-suite; `holdsWanted`: `has_test(sub-suite, name)` -/\n"
            "structure Entry where\n  isTest : Bool\n  name : String\n  holdsWanted : Bool := false\n  deriving DecidableEq, Repr\ndef Entry.isSuite (e : Entry) : Bool := !e.isTest\n\n"
            "inductive Ev | setup | teardown | enter | runForked | runInProcess | startSuite | finishSuite | completion | other (what : String)\n  deriving DecidableEq, Repr\n"
            "inductive Seg | startSuite | finishSuite | completion | resetCounters | setup | teardown | loop (k : Nat) | enter | runForked | runInProcess | other (what : String)\n  deriving DecidableEq, Repr\n\n")
    obligations = open(os.path.join(HERE, "traversal_obligations.lean")).read()
    thms = re.findall(r"^theorem (\S+)", obligations, re.M)
    try:
        defs = generate()
    except Unsupported as e:
        return head + "end Cgreen.Gen.Traversal\n", thms, [("runner.c traversal", str(e))]
    except (KeyError, StopIteration, IndexError, TypeError, ValueError) as e:
        return head + "end Cgreen.Gen.Traversal\n", thms, [("runner.c traversal", f"unexpected shape of the syntax tree ({type(e).__name__}: {e})")]
    text = head + defs + "\n\n" + obligations + "\nend Cgreen.Gen.Traversal\n" + "".join(f"#print axioms Cgreen.Gen.Traversal.{t}\n" for t in thms)
    return text, thms, []


if __name__ == "__main__":
    t, thms, problems = render()
    sys.stdout.write(t)
    for site, why in problems: print("-- PROBLEM:", why)
