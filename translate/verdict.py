#!/usr/bin/env python3
"""Translator for C01/C17: re-extracts from /repo's current sources (clang-14 JSON AST)
  * the expression run_test_suite() and run_single_test() compute their verdict from (src/runner.c), and
  * for every reporter, what its finish_suite does to the counters and in which order: the last read of the result channel
    (reporter_finish_suite / reporter_finish_test) and the folding of the suite's counters into the totals,
and renders them as Lean definitions with obligations (checked by `lake env lean` on every run)."""
import json, os, subprocess, sys

REPO = os.environ.get("VERIF_REPO", "/repo")
REPORTERS = [("src/text_reporter.c", "text_reporter_finish_suite"), ("src/cute_reporter.c", "cute_finish_suite"), ("src/cdash_reporter.c", "cdash_finish_suite"),
             ("src/xml_reporter.c", "xml_reporter_finish_suite"), ("src/libxml_reporter.c", "xml_reporter_finish_suite")]


class Unsupported(Exception):
    pass


def ast_of(path):
    cmd = ["clang-14", "-Xclang", "-ast-dump=json", "-fsyntax-only", "-w", f"-I{REPO}", f"-I{REPO}/include", f"-I{REPO}/src",
           "-I/usr/include/libxml2", '-DVERSION="x"', path]
    return json.loads(subprocess.run(cmd, stdout=subprocess.PIPE, stderr=subprocess.DEVNULL).stdout)


def strip(n):
    while n.get("kind") in ("ImplicitCastExpr", "ParenExpr", "CStyleCastExpr") and n.get("inner"):
        n = n["inner"][0]
    return n


def functions_of(ast):
    return {n["name"]: n for n in ast.get("inner", []) if n.get("kind") == "FunctionDecl" and any(c.get("kind") == "CompoundStmt" for c in n.get("inner", []) or [])}


def walk(n, fn):
    if isinstance(n, dict):
        fn(n)
        for c in n.get("inner", []) or []: walk(c, fn)


VARS = {"total_failures": "tf", "total_exceptions": "te"}


def bool_expr(n):
    """C expression over the reporter's totals -> Lean Bool text"""
    n = strip(n)
    k = n.get("kind")
    if k == "BinaryOperator":
        op = n["opcode"]
        a, b = n["inner"]
        if op in ("&&", "||"): return f"({bool_expr(a)} {op} {bool_expr(b)})"
        if op in ("==", "!=", ">", "<", ">=", "<="):
            lop = {"==": "==", "!=": "!=", ">": ">", "<": "<", ">=": "≥", "<=": "≤"}[op]
            t = f"({nat_expr(a)} {lop} {nat_expr(b)})"
            return t if op in ("==", "!=") else f"decide {t}"
    if k == "UnaryOperator" and n.get("opcode") == "!":
        return f"(!{bool_expr(n['inner'][0])})"
    if k in ("MemberExpr", "IntegerLiteral"):
        return f"({nat_expr(n)} != 0)"
    raise Unsupported("verdict expression " + str(k) + " " + str(n.get("opcode", "")))


def nat_expr(n):
    n = strip(n)
    k = n.get("kind")
    if k == "IntegerLiteral": return n["value"]
    if k == "MemberExpr" and n.get("name") in VARS: return VARS[n["name"]]
    if k == "BinaryOperator" and n.get("opcode") == "+": return f"({nat_expr(n['inner'][0])} + {nat_expr(n['inner'][1])})"
    raise Unsupported("the verdict depends on " + str(n.get("name") or k))


def verdict_of(funcs, name, depth=0):
    """The condition under which the function returns EXIT_SUCCESS (0), as Lean Bool text. Follows the code of the function path by
    path: boolean locals assigned from the reporter's totals, `return cond ? EXIT_SUCCESS : EXIT_FAILURE`, `return local`, `return`
    of a constant under an `if`, and a return through a helper of the same file (the helper is read the same way)."""
    if depth > 3 or name not in funcs: raise Unsupported(f"cannot follow {name}")
    env = {}

    def value(n):
        n = strip(n)
        if n.get("kind") == "DeclRefExpr" and n.get("referencedDecl", {}).get("name") in env:
            return env[n["referencedDecl"]["name"]]
        return bool_expr_env(n, env)

    def returned(e):
        """success (the value returned is 0) as Lean Bool text"""
        e = strip(e)
        k = e.get("kind")
        if k == "IntegerLiteral": return "true" if int(e["value"]) == 0 else "false"
        if k == "ConditionalOperator":
            cond, a, b = e["inner"]
            c = value(cond)
            return f"(({c} && {returned(a)}) || ((!{c}) && {returned(b)}))"
        if k == "CallExpr":
            callee = strip(e["inner"][0]).get("referencedDecl", {}).get("name")
            return verdict_of(funcs, callee, depth + 1)
        if k == "DeclRefExpr" and e.get("referencedDecl", {}).get("name") in env:
            return f"(!{env[e['referencedDecl']['name']]})"      # a status variable: 0 is success
        raise Unsupported("return expression of " + name)

    def block(nodes):
        """success condition of the first return reached on the way through these statements, None if none is reached"""
        for i, c in enumerate(nodes):
            k = c.get("kind")
            if k == "CompoundStmt":
                r = block((c.get("inner") or []) + nodes[i + 1:])
                return r
            if k == "DeclStmt":
                for v in c.get("inner", []):
                    if v.get("kind") == "VarDecl" and v.get("inner"):
                        try: env[v["name"]] = value(v["inner"][-1])
                        except Unsupported: pass
            elif k == "BinaryOperator" and c.get("opcode") == "=":
                lhs = strip(c["inner"][0])
                if lhs.get("kind") == "DeclRefExpr":
                    try: env[lhs["referencedDecl"]["name"]] = value(c["inner"][1])
                    except Unsupported: env.pop(lhs["referencedDecl"]["name"], None)
            elif k == "IfStmt":
                inner = c["inner"]
                has_return = [False]
                walk(c, lambda m: has_return.__setitem__(0, has_return[0] or m.get("kind") == "ReturnStmt"))
                if not has_return[0]: continue          # (validation, set-up: no verdict in there)
                cnd = value(inner[0])
                saved = dict(env)
                t = block([inner[1]] + nodes[i + 1:])
                env.clear(); env.update(saved)
                e = block(([inner[2]] if len(inner) > 2 else []) + nodes[i + 1:])
                env.clear(); env.update(saved)
                if t is None or e is None: raise Unsupported("a path without a return in " + name)
                return f"(({cnd} && {t}) || ((!{cnd}) && {e}))"
            elif k == "ReturnStmt" and c.get("inner"):
                return returned(c["inner"][0])
        return None

    body = [c for c in funcs[name]["inner"] if c.get("kind") == "CompoundStmt"][0]
    r = block([body])
    if r is None: raise Unsupported(f"no return statement read in {name}")
    return r


def bool_expr_env(n, env):
    n = strip(n)
    if n.get("kind") == "DeclRefExpr" and n.get("referencedDecl", {}).get("name") in env:
        return env[n["referencedDecl"]["name"]]
    k = n.get("kind")
    if k == "BinaryOperator" and n.get("opcode") in ("&&", "||"):
        return f"({bool_expr_env(n['inner'][0], env)} {n['opcode']} {bool_expr_env(n['inner'][1], env)})"
    if k == "UnaryOperator" and n.get("opcode") == "!":
        return f"(!{bool_expr_env(n['inner'][0], env)})"
    return bool_expr(n)


def folding_of(funcs, name):
    """the statements of a finish_suite that read the channel or fold a counter, in order"""
    seq = []
    body = [c for c in funcs[name]["inner"] if c.get("kind") == "CompoundStmt"][0]
    for st in body.get("inner", []) or []:
        def v(n):
            if n.get("kind") == "CallExpr":
                callee = strip(n["inner"][0]).get("referencedDecl", {}).get("name")
                if callee in ("reporter_finish_suite", "reporter_finish_test"): seq.append("read")
            if n.get("kind") == "CompoundAssignOperator" and n.get("opcode") == "+=":
                l, r = strip(n["inner"][0]), strip(n["inner"][1])
                if l.get("kind") == "MemberExpr" and l.get("name", "").startswith("total_") and r.get("kind") == "MemberExpr":
                    seq.append(f"{l['name']} += {r.get('name')}")
            if n.get("kind") == "BinaryOperator" and n.get("opcode") == "=":
                l = strip(n["inner"][0])
                if l.get("kind") == "MemberExpr" and l.get("name", "").startswith("total_"): seq.append(f"{l['name']} = ...")
        walk(st, v)
    return seq


def lean_str(s):
    return '"' + s.replace("\\", "\\\\").replace('"', '\\"') + '"'


def render():
    L = ["/-! GENERATED by translate/verdict.py from /repo's current sources - do not edit. -/", "namespace Cgreen.Gen.Verdict", ""]
    thms, problems = [], []
    try:
        funcs = functions_of(ast_of(os.path.join(REPO, "src/runner.c")))
        suite, single = verdict_of(funcs, "run_test_suite"), verdict_of(funcs, "run_single_test")
        L += ["/-- `run_test_suite()`: success as a function of the reporter's total failures and total exceptions. -/",
              f"def suiteSuccess (tf te : Nat) : Bool := {suite}",
              "/-- `run_single_test()`. -/",
              f"def singleSuccess (tf te : Nat) : Bool := {single}",
              "/-- Obligation: a whole-suite run succeeds exactly when no failure and no exception was counted (the verdict of the model). -/",
              "theorem suite_verdict : ∀ tf te : Nat, suiteSuccess tf te = (tf == 0 && te == 0) := by",
              "  intro tf te; cases tf <;> cases te <;> simp [suiteSuccess]",
              "/-- Obligation: and so does a single-test run (an exception there means the test's results could not be obtained). -/",
              "theorem single_verdict : ∀ tf te : Nat, singleSuccess tf te = (tf == 0 && te == 0) := by",
              "  intro tf te; cases tf <;> cases te <;> simp [singleSuccess]", ""]
        thms += ["suite_verdict", "single_verdict"]
    except (Unsupported, KeyError, IndexError) as e:
        problems.append(("verdict", f"{type(e).__name__}: {e}"))
    rows = []
    for path, fn in REPORTERS:
        try:
            funcs = functions_of(ast_of(os.path.join(REPO, path)))
            rows.append((f"{os.path.basename(path)}:{fn}", folding_of(funcs, fn)))
        except (Unsupported, KeyError, IndexError) as e:
            problems.append((f"{path}:{fn}", f"{type(e).__name__}: {e}"))
    L += ["/-- What every reporter's finish_suite does to the counters, in order. -/",
          "def finishSuite : List (String × List String) := [",
          ",\n".join(f"  ({lean_str(w)}, [{', '.join(lean_str(x) for x in seq)}])" for w, seq in rows), "]",
          "/-- Obligation: every reporter first reads what is left in the channel for the suite and only then folds each of the four",
          "counters of the suite into the totals, each exactly once (so that every reporter ends with the same totals). -/",
          f"theorem folding_after_the_last_read : finishSuite.length = {len(REPORTERS)} ∧ finishSuite.all (fun r =>",
          '    r.2.head? == some "read" && r.2.length == 5 &&',
          '    ["total_passes += passes", "total_failures += failures", "total_skips += skips", "total_exceptions += exceptions"].all (r.2.tail.contains ·)) = true := by decide +kernel',
          "", "end Cgreen.Gen.Verdict"]
    thms.append("folding_after_the_last_read")
    for t in thms: L.append(f"#print axioms Cgreen.Gen.Verdict.{t}")
    return "\n".join(L) + "\n", thms, problems


if __name__ == "__main__":
    text, thms, problems = render()
    sys.stdout.write(text)
    for p in problems: sys.stderr.write("problem: %s: %s\n" % p)
