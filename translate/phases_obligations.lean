/-! ### Obligations (fixed text, `translate/phases_obligations.lean`) -/

def phasesOf (l : List Ev) : List Phase := l.filterMap (fun e => match e with | .phase p => some p | _ => none)

def isPhase : Ev → Bool
  | .phase _ => true
  | _ => false

def isOther : Ev → Bool
  | .other _ => true
  | _ => false

/-- the phases of the model's script of a test (`script` of Model/Runner.lean, which the C08 theorems are about) -/
def modelPhases (su td : Bool) (t : Test) : List Phase := (script su td t).filterMap (fun s => match s with | .ev p => some p | _ => none)

theorem acts_have_no_phase (l : List Act) : (l.map Step.act).filterMap (fun s => match s with | .ev p => some p | _ => none) = [] := by
  induction l with
  | nil => rfl
  | cons a l ih => simp [List.filterMap_cons, ih]

theorem acts_have_no_phase' (l : List Act) : List.filterMap ((fun s => match s with | Step.ev p => some p | _ => none) ∘ Step.act) l = [] := by
  induction l with
  | nil => rfl
  | cons a l ih => simp [List.filterMap_cons, ih]

/-- **The phases of `run_the_test_code()` are the model's, in the model's order**: the suite's setup if it has one, otherwise the
context's if it has one; the body; the teardown by the same rule, applied independently; the mock tally last - each once. -/
theorem phases_are_the_models (su td tmo : Bool) (t : Test) :
    phasesOf (trace su td t.ctx.isSome t.ctx.isSome tmo) = modelPhases su td t := by
  unfold modelPhases script
  cases hc : t.ctx with
  | none => cases su <;> cases td <;> cases tmo <;> simp [List.filterMap_append, acts_have_no_phase, acts_have_no_phase'] <;> decide
  | some c =>
    obtain ⟨s, d⟩ := c
    cases su <;> cases td <;> cases tmo <;> simp [List.filterMap_append, acts_have_no_phase, acts_have_no_phase'] <;> decide

/-- **The per-test resets come first**: significant figures, strict mocks and the expectation queue are reset before anything else
the function does, whatever the guards are. -/
theorem resets_come_first (su td cs ct tmo : Bool) :
    ∀ r ∈ [Ev.resetFigs, Ev.resetMode, Ev.resetMocks], r ∈ (trace su td cs ct tmo).take 3 := by
  cases su <;> cases td <;> cases cs <;> cases ct <;> cases tmo <;> decide

/-- **The time limit covers the whole test**: when one is defined the timer is armed before the first fixture or the body, it is
never cancelled by this function, and it is not armed when none is defined. -/
theorem timer_covers_the_test (su td cs ct : Bool) :
    Ev.armTimer ∈ (trace su td cs ct true).takeWhile (fun e => !isPhase e)
    ∧ Ev.cancelTimer ∉ trace su td cs ct true
    ∧ Ev.armTimer ∉ trace su td cs ct false := by
  cases su <;> cases td <;> cases cs <;> cases ct <;> decide

/-- **Nothing else is called** between the resets and the tally (a call this translator does not know is rendered as `other`). -/
theorem nothing_else_is_called (su td cs ct tmo : Bool) : (trace su td cs ct tmo).any isOther = false := by
  cases su <;> cases td <;> cases cs <;> cases ct <;> cases tmo <;> decide
