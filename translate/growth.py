#!/usr/bin/env python3
"""Translator for C20: the arithmetic of every growable array in cgreen, re-extracted from /repo's current sources.

For each site (a function that may enlarge an array and then writes one element into it) a small symbolic execution
of the clang-14 AST yields, as polynomials over the initial element count `n` and capacity `c`:
  * the condition under which the array is enlarged,
  * the number of bytes requested from malloc/realloc and the element size it is a multiple of,
  * the capacity recorded afterwards, the index written, and the element count afterwards.
They are rendered as Lean definitions with the obligations "the index written is inside what was allocated and the
recorded capacity is not larger than what was allocated", proved by `omega` for all n and c. A shape the extractor does
not recognise is reported as such (the obligation is then missing, which the check reports)."""
import json, os, re, subprocess, sys
from fractions import Fraction

REPO = os.environ.get("VERIF_REPO", "/repo")

SITES = [
    # name, file, function, count variable, capacity variable, array, precondition on c (Lean), comment
    dict(name="vector_add", file="src/vector.c", func="cgreen_vector_add", count="vector->size", cap="vector->space", array="vector->items", pre="True"),
    dict(name="xml_push_file", file="src/xml_reporter.c", func="push_file", count="file_stack_p", cap="file_stack_size", array="file_stack", pre="0 < c"),
    dict(name="libxml_start_suite", file="src/libxml_reporter.c", func="xml_reporter_start_suite", count="context_stack_p", cap="context_stack_size", array="context_stack", pre="True"),
    dict(name="breadcrumb_push", file="src/breadcrumb.c", func="push_breadcrumb", count="breadcrumb->depth", cap="breadcrumb->space", array="breadcrumb->trail", pre="True"),
    dict(name="memory_pool_allocate", file="src/memory.c", func="memory_pool_allocate", count="pool->size", cap="pool->space", array="pool->blocks", pre="True"),
    dict(name="suite_add_test", file="src/suite.c", func="add_test_", count="suite->size", cap="suite->size", array="suite->tests", pre="True"),
    dict(name="suite_add_suite", file="src/suite.c", func="add_suite_", count="owner->size", cap="owner->size", array="owner->tests", pre="True"),
]


class Unsupported(Exception):
    pass


# ---- polynomials over symbols (dict: sorted tuple of symbols -> integer coefficient) ---------------
def P(const=0):
    return {(): const} if const else {}


def sym(s):
    return {(s,): 1}


def padd(a, b, k=1):
    r = dict(a)
    for m, c in b.items():
        r[m] = r.get(m, 0) + k * c
        if r[m] == 0: del r[m]
    return r


def pmul(a, b):
    r = {}
    for m1, c1 in a.items():
        for m2, c2 in b.items():
            m = tuple(sorted(m1 + m2))
            r[m] = r.get(m, 0) + c1 * c2
            if r[m] == 0: del r[m]
    return r


def pdiv_sym(a, s):
    """a / s when every monomial contains s exactly once, else None"""
    r = {}
    for m, c in a.items():
        if m.count(s) != 1: return None
        l = list(m); l.remove(s)
        r[tuple(l)] = c
    return r


def lean_of(p, names):
    """Lean Nat/Int-free rendering: positive terms minus negative terms (used inside omega goals over Int-cast-free Nat)."""
    pos, neg = [], []
    for m, c in sorted(p.items()):
        t = " * ".join(names[s] for s in m)
        if not m: t = str(abs(c))
        elif abs(c) != 1: t = f"{abs(c)} * {t}"
        (pos if c > 0 else neg).append(t)
    s = " + ".join(pos) if pos else "0"
    if neg: s = f"({s}) - ({' + '.join(neg)})"
    return s


# ---- AST helpers -----------------------------------------------------------------------------------
def ast_of(path):
    cmd = ["clang-14", "-Xclang", "-ast-dump=json", "-fsyntax-only", "-w", f"-I{REPO}", f"-I{REPO}/include", f"-I{REPO}/src",
           "-I/usr/include/libxml2", '-DVERSION="x"', "-DHAVE_LIBXML2_REPORTER=1", path]
    return json.loads(subprocess.run(cmd, stdout=subprocess.PIPE, stderr=subprocess.DEVNULL).stdout)


def strip(n):
    while n.get("kind") in ("ImplicitCastExpr", "ParenExpr", "CStyleCastExpr") and n.get("inner"):
        n = n["inner"][0]
    return n


def path_text(n):
    n = strip(n)
    k = n.get("kind")
    if k == "DeclRefExpr": return n.get("referencedDecl", {}).get("name", "?")
    if k == "MemberExpr": return path_text(n["inner"][0]) + ("->" if n.get("isArrow") else ".") + n.get("name", "?")
    raise Unsupported("lvalue " + str(k))


def functions_of(ast):
    out = {}
    for n in ast.get("inner", []):
        if n.get("kind") == "FunctionDecl" and any(c.get("kind") == "CompoundStmt" for c in n.get("inner", []) or []):
            out[n["name"]] = n
    return out


def contains(n, pred):
    if isinstance(n, dict):
        if pred(n): return True
        return any(contains(c, pred) for c in n.get("inner", []) or [])
    return False


def is_alloc_call(n):
    return n.get("kind") == "CallExpr" and strip(n["inner"][0]).get("referencedDecl", {}).get("name") in ("malloc", "realloc")


def is_bailout(n):
    """a nested `if` whose body gives up (returns, panics, aborts): not part of the arithmetic"""
    def p(m):
        if m.get("kind") == "ReturnStmt": return True
        if m.get("kind") == "CallExpr":
            return strip(m["inner"][0]).get("referencedDecl", {}).get("name") in ("panic", "abort", "exit", "die", "free")
        return False
    return contains(n, p)


class Exec:
    """Symbolic execution of one function along the path on which the array is (grow=True) or is not enlarged."""
    def __init__(self, funcs, site, grow):
        self.funcs, self.site, self.grow = funcs, site, grow
        self.env = {}
        self.guard = None       # (opcode, lhs poly, rhs poly)
        self.alloc = None       # poly (bytes)
        self.write = None       # poly (index)
        self.alloc_has_sizeof = False
        self.elem_type = None
        self.sizes = set()
        self.rename = {}        # while a helper is executed in place: its parameters -> what the caller passed

    def path(self, n):
        t = path_text(n)
        head = re.split(r"->|\.", t, 1)[0]
        if head in self.rename:
            return self.rename[head] + t[len(head):]
        return t

    def val(self, key):
        if key not in self.env:
            self.env[key] = sym(key)
        return self.env[key]

    def expr(self, n):
        n = strip(n)
        k = n.get("kind")
        if k == "IntegerLiteral": return P(int(n["value"]))
        if k in ("DeclRefExpr", "MemberExpr"): return self.val(self.path(n))
        if k == "UnaryExprOrTypeTraitExpr" and n.get("name") == "sizeof":
            t = n.get("argType", {}).get("qualType") or strip(n["inner"][0]).get("type", {}).get("qualType", "?")
            s = "sizeof(" + t + ")"; self.sizes.add(s)
            return sym(s)
        if k == "BinaryOperator" and n.get("opcode") in ("+", "-", "*"):
            a, b = self.expr(n["inner"][0]), self.expr(n["inner"][1])
            return padd(a, b) if n["opcode"] == "+" else padd(a, b, -1) if n["opcode"] == "-" else pmul(a, b)
        if k == "UnaryOperator" and n.get("opcode") in ("++", "--"):
            key = self.path(n["inner"][0])
            old = self.val(key)
            new = padd(old, P(1), 1 if n["opcode"] == "++" else -1)
            self.env[key] = new
            return old if n.get("isPostfix") else new
        raise Unsupported("expression " + str(k) + " " + str(n.get("opcode", "")))

    def stmt(self, n):
        k = n.get("kind")
        if k == "CompoundStmt":
            for c in n.get("inner", []) or []: self.stmt(c)
        elif k == "DeclStmt":
            for v in n.get("inner", []):
                if v.get("kind") == "VarDecl" and v.get("inner"):
                    init = v["inner"][-1]
                    if contains(init, is_alloc_call) or contains(init, lambda m: m.get("kind") == "CallExpr"):
                        self.scan(init)
                    else:
                        try: self.env[v["name"]] = self.expr(init)          # a local that names a sub-expression
                        except Unsupported: self.scan(init)
        elif k == "IfStmt":
            cond, then = n["inner"][0], n["inner"][1]
            if contains(then, is_alloc_call) or contains(then, lambda m: m.get("kind") == "CallExpr" and self.inlinable(m)):
                c = strip(cond)
                if c.get("kind") != "BinaryOperator" or c.get("opcode") not in ("==", ">=", ">", "<", "<="):
                    raise Unsupported("guard " + str(c.get("kind")))
                self.guard = (c["opcode"], self.expr(c["inner"][0]), self.expr(c["inner"][1]))
                if self.grow: self.stmt(then)
            elif is_bailout(then):
                return
            else:
                raise Unsupported("an if statement that is neither the growth guard nor a bail-out")
        elif k in ("ReturnStmt",):
            for c in n.get("inner", []) or []: self.scan(c)
        else:
            self.scan(n)

    def inlinable(self, call):
        name = strip(call["inner"][0]).get("referencedDecl", {}).get("name")
        return name in self.funcs and name != self.site["func"] and contains(self.funcs[name], is_alloc_call)

    def scan(self, n):
        """an expression statement: assignments, increments, calls"""
        n = strip(n) if n.get("kind") in ("ImplicitCastExpr", "ParenExpr", "CStyleCastExpr") else n
        k = n.get("kind")
        if k == "CallExpr":
            if is_alloc_call(n):
                # the allocation of the array itself: the one whose size is counted in elements (sizeof), else the first one
                size = self.expr(n["inner"][-1])
                has_sizeof = any(s.startswith("sizeof(") for m in size for s in m)
                if self.alloc is None or (has_sizeof and not self.alloc_has_sizeof):
                    self.alloc, self.alloc_has_sizeof = size, has_sizeof
                return
            if self.inlinable(n):
                callee = self.funcs[strip(n["inner"][0])["referencedDecl"]["name"]]
                body = [c for c in callee["inner"] if c.get("kind") == "CompoundStmt"][0]
                params = [p_ for p_ in callee.get("inner", []) if p_.get("kind") == "ParmVarDecl"]
                saved = dict(self.rename)
                for p_, a_ in zip(params, n["inner"][1:]):
                    try: self.rename[p_["name"]] = self.path(a_)
                    except Unsupported: pass
                self.stmt(body)
                self.rename = saved
                return
            for a in n["inner"][1:]:
                if contains(a, lambda m: m.get("kind") in ("UnaryOperator", "CompoundAssignOperator", "ArraySubscriptExpr")): self.scan(a)
            return
        if k == "CompoundAssignOperator":
            key = self.path(n["inner"][0]); rhs = self.expr(n["inner"][1]); old = self.val(key)
            op = n.get("opcode")
            self.env[key] = padd(old, rhs) if op == "+=" else padd(old, rhs, -1) if op == "-=" else pmul(old, rhs) if op == "*=" else None
            if self.env[key] is None: raise Unsupported("operator " + op)
            return
        if k == "BinaryOperator" and n.get("opcode") == "=":
            lhs = strip(n["inner"][0])
            if lhs.get("kind") == "ArraySubscriptExpr" or contains(lhs, lambda m: m.get("kind") == "ArraySubscriptExpr"):
                self.subscript(lhs)
                self.scan_rhs(n["inner"][1])
                return
            if lhs.get("kind") == "MemberExpr" and contains(lhs, lambda m: m.get("kind") == "ArraySubscriptExpr"):
                self.subscript(lhs); return
            key = self.path(lhs)
            r = strip(n["inner"][1])
            if contains(r, is_alloc_call):
                self.scan_rhs(r); return
            try:
                self.env[key] = self.expr(r)
            except Unsupported:
                self.env[key] = sym(key + "'")
            return
        if k == "UnaryOperator" and n.get("opcode") in ("++", "--"):
            self.expr(n); return
        if k == "UnaryOperator" and n.get("opcode") == "&":
            if contains(n, lambda m: m.get("kind") == "ArraySubscriptExpr"): self.subscript(strip(n["inner"][0]))
            return
        if k == "ArraySubscriptExpr":
            self.subscript(n); return
        for c in n.get("inner", []) or []:
            if isinstance(c, dict) and contains(c, lambda m: m.get("kind") in ("CallExpr", "UnaryOperator", "CompoundAssignOperator", "ArraySubscriptExpr")):
                self.scan(c)

    def scan_rhs(self, n):
        if contains(n, is_alloc_call):
            def find(m):
                if is_alloc_call(m): return m
                for c in m.get("inner", []) or []:
                    r = find(c)
                    if r: return r
            self.scan(find(n))
        elif contains(n, lambda m: m.get("kind") in ("UnaryOperator", "ArraySubscriptExpr")):
            self.scan(strip(n))

    def subscript(self, n):
        # find the ArraySubscriptExpr on the site's array
        def find(m):
            if m.get("kind") == "ArraySubscriptExpr": return m
            for c in m.get("inner", []) or []:
                r = find(c)
                if r: return r
        a = find(n)
        if a is None: return
        try:
            base = self.path(a["inner"][0])
        except Unsupported:
            return
        if base == self.site["array"] and self.write is None:
            t = strip(a["inner"][0]).get("type", {}).get("qualType", "")
            self.elem_type = t.rstrip()[:-1].rstrip() if t.rstrip().endswith("*") else None
            self.write = self.expr(a["inner"][1])
        else:
            self.expr(a["inner"][1])


def analyse(site, funcs):
    res = {}
    for grow in (True, False):
        ex = Exec(funcs, site, grow)
        body = [c for c in funcs[site["func"]]["inner"] if c.get("kind") == "CompoundStmt"][0]
        ex.stmt(body)
        if ex.guard is None and ex.alloc is not None: ex.guard = ("true", P(), P())      # enlarged on every call
        if ex.guard is None: raise Unsupported("no growth guard or allocation found")
        if ex.write is None: raise Unsupported("no write into " + site["array"] + " found")
        res[grow] = ex
    return res


def render():
    L = ["import CgreenModel.Lemmas.Loops", "/-! GENERATED by translate/growth.py from /repo's current sources - do not edit. -/", "namespace Cgreen.Gen.Growth", "open Cgreen.Loops", ""]
    thms, problems = [], []
    asts = {}
    for site in SITES:
        try:
            if site["file"] not in asts: asts[site["file"]] = functions_of(ast_of(os.path.join(REPO, site["file"])))
            funcs = asts[site["file"]]
            if site["func"] not in funcs: raise Unsupported("function not found")
            r = analyse(site, funcs)
            g, k = r[True], r[False]
            names = {site["count"]: "n", site["cap"]: "c"}
            for ex in (g, k):
                for p in [(ex.alloc or {}) if ex is g else {}, ex.write, ex.env.get(site["cap"], sym(site["cap"])), ex.env.get(site["count"], sym(site["count"])), ex.guard[1], ex.guard[2]]:
                    for m in p:
                        for s in m:
                            if s not in names and not s.startswith("sizeof("): raise Unsupported("the arithmetic depends on " + s)
            if g.alloc is None: raise Unsupported("no allocation on the growing path")
            szs = [s for m in g.alloc for s in m if s.startswith("sizeof(")]
            elems = g.alloc
            esize = "1"
            if szs:
                elems = pdiv_sym(g.alloc, szs[0])
                esize = szs[0]
                if elems is None or any(s.startswith("sizeof(") for m in elems for s in m):
                    raise Unsupported("the requested size is not (element size) x (a number of elements)")
                norm = lambda t: " ".join(t.replace("const ", "").split())
                if g.elem_type is not None and norm(esize[7:-1]) != norm(g.elem_type):
                    raise Unsupported(f"the size is counted in {esize} but the array's elements are {g.elem_type}")
            op, gl, gr = g.guard
            guard = "True" if op == "true" else f"{lean_of(gl, names)} {'=' if op == '==' else op.replace('>=', '≥').replace('<=', '≤')} {lean_of(gr, names)}"
            capG, capK = g.env.get(site["cap"], sym(site["cap"])), k.env.get(site["cap"], sym(site["cap"]))
            cntG, cntK = g.env.get(site["count"], sym(site["count"])), k.env.get(site["count"], sym(site["count"]))
            same = site["cap"] == site["count"]
            nm = site["name"]
            L += [f"/-- `{site['func']}` ({site['file']}): element size `{esize}`; enlarged when `{guard}`. -/",
                  f"def {nm}_allocElems (n c : Nat) : Nat := {lean_of(elems, names)}",
                  f"def {nm}_newCap (n c : Nat) : Nat := {lean_of(capG, names)}",
                  f"def {nm}_index_grow (n c : Nat) : Nat := {lean_of(g.write, names)}",
                  f"def {nm}_index_keep (n c : Nat) : Nat := {lean_of(k.write, names)}",
                  f"def {nm}_count_grow (n c : Nat) : Nat := {lean_of(cntG, names)}",
                  f"def {nm}_count_keep (n c : Nat) : Nat := {lean_of(cntK, names)}"]
            inv = "n = c" if same else "n ≤ c"
            post = (lambda cnt, cap: f"{cnt} = {cap}") if same else (lambda cnt, cap: f"{cnt} ≤ {cap}")
            pre_after = f" ∧ {site['pre'].replace('c', f'({nm}_newCap n c)')}" if site["pre"] != "True" else ""
            L += [f"theorem {nm}_grow_in_bounds : ∀ n c : Nat, {inv} → {site['pre']} → {guard} →",
                  f"    {nm}_index_grow n c < {nm}_allocElems n c ∧ {nm}_newCap n c ≤ {nm}_allocElems n c ∧ {post(f'{nm}_count_grow n c', f'{nm}_newCap n c')}{pre_after} := by",
                  f"  intro n c h _ hg; unfold {nm}_allocElems {nm}_newCap {nm}_index_grow {nm}_count_grow; omega"]
            thms.append(f"{nm}_grow_in_bounds")
            if op != "true":
                L += [f"theorem {nm}_keep_in_bounds : ∀ n c : Nat, {inv} → {site['pre']} → ¬ ({guard}) →",
                      f"    {nm}_index_keep n c < c ∧ {post(f'{nm}_count_keep n c', 'c')} := by",
                      f"  intro n c h _ hg; unfold {nm}_index_keep {nm}_count_keep; omega"]
                thms.append(f"{nm}_keep_in_bounds")
            # ---- lifted to every history of additions (generic induction: Cgreen.Loops.always_add) ----
            invA = ("a.n = a.c" if same else "a.n ≤ a.c") + (f" ∧ {site['pre'].replace('c', 'a.c')}" if site["pre"] != "True" else "")
            L.append(f"def {nm}_inv (a : Arr) : Prop := {invA}")
            if op != "true":
                L += [f"def {nm}_enlarges (a : Arr) : Prop := (fun n c : Nat => {guard}) a.n a.c",
                      f"instance (a : Arr) : Decidable ({nm}_enlarges a) := by unfold {nm}_enlarges; infer_instance",
                      f"def {nm}_step (a : Arr) : Arr := if {nm}_enlarges a then ⟨{nm}_count_grow a.n a.c, {nm}_newCap a.n a.c⟩ else ⟨{nm}_count_keep a.n a.c, a.c⟩",
                      f"def {nm}_good (a : Arr) : Prop := ({nm}_enlarges a → {nm}_index_grow a.n a.c < {nm}_allocElems a.n a.c ∧ {nm}_newCap a.n a.c ≤ {nm}_allocElems a.n a.c) ∧ (¬ {nm}_enlarges a → {nm}_index_keep a.n a.c < a.c)"]
                unf = f"{nm}_enlarges, {nm}_index_grow, {nm}_index_keep, {nm}_allocElems, {nm}_newCap"
                stepproof = (f"by_cases hg : {nm}_enlarges a <;> (have hg' := hg; simp only [{nm}_enlarges] at hg'; "
                             f"try simp only [{nm}_step, hg, ↓reduceIte, {nm}_count_grow, {nm}_count_keep, {nm}_newCap]; all_goals omega)")
            else:
                L += [f"def {nm}_step (a : Arr) : Arr := ⟨{nm}_count_grow a.n a.c, {nm}_newCap a.n a.c⟩",
                      f"def {nm}_good (a : Arr) : Prop := {nm}_index_grow a.n a.c < {nm}_allocElems a.n a.c ∧ {nm}_newCap a.n a.c ≤ {nm}_allocElems a.n a.c"]
                unf = f"{nm}_index_grow, {nm}_allocElems, {nm}_newCap"
                stepproof = f"(try simp only [{nm}_step, {nm}_count_grow, {nm}_newCap]; all_goals omega)"
            L += [f"/-- `{site['func']}`: in every state of every history of additions the element written is inside what was allocated and the",
                  "recorded capacity is not more than what was allocated. -/",
                  f"theorem {nm}_always : ∀ (k : Nat) (a : Arr), {nm}_inv a → ∀ v ∈ states {nm}_step k a, {nm}_inv v ∧ {nm}_good v :=",
                  f"  always_add {nm}_inv {nm}_good {nm}_step",
                  f"    (by intro a ha; unfold {nm}_inv at ha; try simp only [{nm}_good, {unf}]; all_goals omega)",
                  f"    (by intro a ha; unfold {nm}_inv at *; {stepproof})"]
            thms.append(f"{nm}_always")
            L.append("")
        except (Unsupported, KeyError, IndexError, TypeError) as e:
            problems.append((site["name"], f"{type(e).__name__}: {e}"))
            L += [f"-- {site['name']}: NOT TRANSLATED ({type(e).__name__}: {e})", ""]
    L.append("end Cgreen.Gen.Growth")
    for t in thms:
        L.append(f"#print axioms Cgreen.Gen.Growth.{t}")
    return "\n".join(L) + "\n", thms, problems


if __name__ == "__main__":
    text, thms, problems = render()
    sys.stdout.write(text)
    for p in problems:
        sys.stderr.write("problem: %s: %s\n" % p)
