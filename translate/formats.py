#!/usr/bin/env python3
"""Translator for C10: extracts, from /repo's current sources (clang-14 JSON AST),
  * every call of the reporter's assert_true(): the format argument (literal text, or the name of the variable passed)
    and the C types of the variadic arguments that follow it;
  * every constraint constructor's actual_value_message / expected_value_message / name literals;
  * the message templates of message_formatting.c (static const char arrays).
and renders them as a Lean file with decidable obligations, checked by `lake env lean` on every run."""
import json, os, re, subprocess, sys

REPO = os.environ.get("VERIF_REPO", "/repo")


def ast_of(path, extra=()):
    cmd = ["clang-14", "-Xclang", "-ast-dump=json", "-fsyntax-only", "-w", f"-I{REPO}", f"-I{REPO}/include", f"-I{REPO}/src",
           "-I/usr/include/libxml2", '-DVERSION="x"', *extra, path]
    out = subprocess.run(cmd, stdout=subprocess.PIPE, stderr=subprocess.DEVNULL).stdout
    return json.loads(out)


def walk(n, fn, func=None):
    if isinstance(n, dict):
        if n.get("kind") == "FunctionDecl" and "name" in n:
            func = n["name"]
        fn(n, func)
        for c in n.get("inner", []) or []:
            walk(c, fn, func)


def strip_casts(n):
    while n.get("kind") in ("ImplicitCastExpr", "ParenExpr", "CStyleCastExpr") and n.get("inner"):
        if n.get("kind") == "CStyleCastExpr":
            break
        n = n["inner"][0]
    return n


def literal_of(n):
    n = strip_casts(n)
    if n.get("kind") == "StringLiteral":
        return json.loads(n["value"]) if n["value"].startswith('"') else n["value"]
    return None


def ctype_of(n):
    t = n.get("type", {}).get("qualType", "")
    d = n.get("type", {}).get("desugaredQualType", t)
    for cand in (d, t):
        c = cand.replace("const ", "").strip()
        if c in ("char *", "char*"): return "cstr"
        if c in ("int", "unsigned int", "_Bool", "bool"): return "int32"
        if c in ("long", "unsigned long", "intptr_t", "uintptr_t", "size_t", "long long"): return "long"
        if c in ("double", "float"): return "dbl"
    if "*" in d: return "ptr"
    return "other:" + t


def extract(path):
    ast = ast_of(path)
    sites, fields, arrays = [], [], []
    params, calls = {}, []      # function -> parameter names; (caller, callee, argument nodes)

    def visit(n, func):
        k = n.get("kind")
        if k == "FunctionDecl" and "name" in n:
            ps = [c.get("name") for c in n.get("inner", []) or [] if c.get("kind") == "ParmVarDecl"]
            if ps or n["name"] not in params: params[n["name"]] = ps
        if k == "CallExpr":
            inner = n.get("inner", [])
            callee = strip_casts(inner[0]) if inner else {}
            if callee.get("kind") == "DeclRefExpr" and callee.get("referencedDecl", {}).get("name"):
                calls.append((func, callee["referencedDecl"]["name"], inner[1:]))
            # (*reporter->assert_true)(...)  : UnaryOperator(*) -> MemberExpr(assert_true)
            c = callee
            while c.get("kind") in ("UnaryOperator", "ParenExpr", "ImplicitCastExpr") and c.get("inner"):
                c = c["inner"][0]
            if c.get("kind") == "MemberExpr" and c.get("name") == "assert_true" and len(inner) >= 6:
                fmt = inner[5]
                lit = literal_of(fmt)
                if lit is None:
                    v = strip_casts(fmt)
                    name = v.get("referencedDecl", {}).get("name") or v.get("name") or v.get("kind")
                    sites.append({"func": func, "file": os.path.basename(path), "var": name, "args": [ctype_of(a) for a in inner[6:]]})
                else:
                    sites.append({"func": func, "file": os.path.basename(path), "fmt": lit, "args": [ctype_of(a) for a in inner[6:]]})
        if k == "BinaryOperator" and n.get("opcode") == "=":
            lhs, rhs = n["inner"][0], n["inner"][1]
            l = strip_casts(lhs)
            if l.get("kind") == "MemberExpr" and l.get("name") in ("actual_value_message", "expected_value_message", "name"):
                lit = literal_of(rhs)
                if lit is not None:
                    fields.append({"func": func, "field": l["name"], "lit": lit})
                else:
                    v = strip_casts(rhs)
                    fields.append({"func": func, "field": l["name"], "var": v.get("referencedDecl", {}).get("name", "?")})
        if k == "VarDecl" and n.get("storageClass") == "static" and n.get("inner"):
            lit = literal_of(n["inner"][0]) if n["inner"] else None
            if lit is not None and ("format" in n.get("name", "") or "message" in n.get("name", "") or n.get("name") in ("at_offset", "expected_content")):
                arrays.append({"name": n["name"], "lit": lit})
    walk(ast, visit)
    # a format that is a parameter of a helper function: the literals its callers pass are the formats (one level)
    resolved = []
    for st in sites:
        if "var" in st and st["var"] in (params.get(st["func"]) or []):
            idx = params[st["func"]].index(st["var"])
            lits = [literal_of(args[idx]) for caller, callee, args in calls if callee == st["func"] and idx < len(args)]
            if lits and all(l is not None for l in lits):
                for l in lits:
                    resolved.append({"func": st["func"], "file": st["file"], "fmt": l, "args": st["args"]})
                continue
        resolved.append(st)
    return resolved, fields, arrays


def expr_text(n):
    """source-like text of the small expressions that occur as strlen() arguments"""
    k = n.get("kind")
    inner = n.get("inner", []) or []
    if k in ("ImplicitCastExpr", "ParenExpr", "CStyleCastExpr"):
        return expr_text(inner[0]) if inner else "?"
    if k == "DeclRefExpr":
        return n.get("referencedDecl", {}).get("name", "?")
    if k == "MemberExpr":
        return expr_text(inner[0]) + ("->" if n.get("isArrow") else ".") + n.get("name", "?")
    return k or "?"


def extract_size(path, function="literal_failure_message_for", var="message_size"):
    """The size computation of the message buffer: the strlen() terms and the constant of the initialiser of `var`, and
    the strlen() terms added to it later with `+=`."""
    ast = ast_of(path)
    base, slack, added = [], [], []

    def strlens(n, out, consts):
        def v(m, func):
            if m.get("kind") == "CallExpr":
                inner = m.get("inner", [])
                callee = strip_casts(inner[0]) if inner else {}
                if callee.get("referencedDecl", {}).get("name") == "strlen" and len(inner) >= 2:
                    out.append(expr_text(inner[1]))
            if m.get("kind") == "IntegerLiteral":
                consts.append(int(m.get("value", "0")))
        walk(n, v)

    def visit(n, func):
        if func != function:
            return
        if n.get("kind") == "VarDecl" and n.get("name") == var:
            strlens(n, base, slack)
        if n.get("kind") == "CompoundAssignOperator" and n.get("opcode") == "+=":
            lhs = strip_casts(n["inner"][0])
            if lhs.get("referencedDecl", {}).get("name") == var:
                strlens(n["inner"][1], added, [])
    walk(ast, visit)
    return base, slack, added


def lean_str(s):
    out = '"'
    for ch in s:
        if ch == '"': out += '\\"'
        elif ch == "\\": out += "\\\\"
        elif ch == "\n": out += "\\n"
        elif ch == "\t": out += "\\t"
        elif ord(ch) < 32 or ord(ch) > 126: out += "\\x%02x" % ord(ch)
        else: out += ch
    return out + '"'


def lean_chars(s):
    """a `List Char` literal (kernel reduction of String.toList is slow; char lists reduce at once)"""
    def ch(c):
        if c == "'": return "'\\''"
        if c == "\\": return "'\\\\'"
        if c == "\n": return "'\\n'"
        if c == "\t": return "'\\t'"
        if ord(c) < 32 or ord(c) > 126: return "Char.ofNat %d" % ord(c)
        return "'" + c + "'"
    return "[" + ", ".join(ch(c) for c in s) + "]"


def generate():
    files = ["assertions.c", "constraint.c", "mocks.c", "message_formatting.c", "runner.c"]
    sites, fields, arrays = [], [], []
    for f in files:
        s, fl, ar = extract(os.path.join(REPO, "src", f))
        sites += [x for x in s if x["file"] == f]
        fields += fl; arrays += ar
    # legacy.h: the assert_true()/assert_false() macros (format and the expression passed as argument)
    legacy = open(os.path.join(REPO, "include", "cgreen", "legacy.h")).read()
    # (the reporter may be spelled get_test_reporter(), cgreen::get_test_reporter() or through a macro of the header's own)
    legacy_fmts = [(m[0], m[2]) for m in re.findall(r'#define (assert_(?:true|false))\(result\) \\\n\s*\(\*([\w:]+(?:\(\))?)->assert_true\)\(\2, FILENAME, __LINE__, [^,]+, (.*)\)', legacy)]
    return sites, fields, arrays, legacy_fmts


def render_size(arrays):
    """Lean text for the size computation of literal_failure_message_for() and its obligation."""
    base, slack, added = extract_size(os.path.join(REPO, "src", "message_formatting.c"))
    arr = {a["name"]: a["lit"] for a in arrays}
    L = ["/-- `literal_failure_message_for()`: the strlen() terms of the buffer size, its constant, and the terms added for string constraints. -/",
         "def sizeTerms : List String := [" + ", ".join(lean_str(t) for t in base) + "]",
         "def sizeSlack : Nat := " + str(sum(slack)),
         "def sizeStringTerms : List String := [" + ", ".join(lean_str(t) for t in added) + "]",
         "/-- Lengths of the fixed templates that are among the terms. -/",
         "def fixedTemplateLens : List (String × Nat) := [" + ", ".join(f"({lean_str(t)}, {len(arr[t])})" for t in base if t in arr) + "]",
         "",
         "/-- Obligation 5: the size covers what `C10_buffer_suffices` (Props/C10.lean) needs: the three texts and both value",
         "templates of the constraint are among the terms; the fixed templates among them are together at least as long as",
         "the fixed text of a message; both strings of a string constraint are added; the constant leaves room for two",
         "20-character integers, the blank, the line feed and the terminator. -/",
         'theorem message_size_covers :',
         '    ["constraint->actual_value_message", "constraint->expected_value_message", "constraint->expected_value_name", "constraint->name", "actual_string"].all (sizeTerms.contains ·) = true',
         '    ∧ ["constraint->expected_value.value.string_value", "actual_value"].all (sizeStringTerms.contains ·) = true',
         "    ∧ tExpected.length + tTo.length + tClose.length + tOpen.length + tClose.length + tNl.length ≤ (fixedTemplateLens.map (·.2)).sum",
         "    ∧ 2 * 20 + 2 ≤ sizeSlack := by decide +kernel",
         ""]
    return L


def render(sites, fields, arrays, legacy_fmts):
    L = ["import CgreenModel.Model.Format", "/-! GENERATED by translate/formats.py from /repo's current sources - do not edit. -/", "namespace Cgreen.Gen", "open Cgreen.Fmt", ""]
    ct = {"cstr": ".cstr", "int32": ".int32", "long": ".long", "dbl": ".dbl", "ptr": ".ptr"}
    L.append("/-- Every call of the reporter's `assert_true` with a literal format: (where, format, types of the arguments passed). -/")
    L.append("def literalSites : List (String × List Char × List CType) := [")
    rows = []
    for s in sites:
        if "fmt" in s:
            args = ", ".join(ct.get(a, ".ptr") for a in s["args"])
            rows.append(f'  -- {lean_str(s["fmt"])[:160]}\n  ({lean_str(s["file"] + ":" + str(s["func"]))}, {lean_chars(s["fmt"])}, [{args}])')
    L.append(",\n".join(rows)); L.append("]"); L.append("")
    L.append("/-- Calls whose format is not a literal: (where, the variable passed, number of arguments after it). -/")
    L.append("def variableSites : List (String × String × Nat) := [")
    L.append(",\n".join(f'  ({lean_str(s["file"] + ":" + str(s["func"]))}, {lean_str(str(s["var"]))}, {len(s["args"])})' for s in sites if "var" in s)); L.append("]"); L.append("")
    L.append("/-- Value-line templates set by the constraint constructors: (constructor, field, literal). -/")
    L.append("def valueTemplates : List (String × String × List Char) := [")
    L.append(",\n".join(f'  ({lean_str(str(f["func"]))}, {lean_str(f["field"])}, {lean_chars(f["lit"])})' for f in fields if "lit" in f and f["field"] != "name")); L.append("]"); L.append("")
    L.append("def legacyMacros : List (String × List Char) := [")
    L.append(",\n".join(f"  ({lean_str(n)}, {lean_chars(a)})" for n, a in legacy_fmts)); L.append("]"); L.append("")
    L += [
        "/-- Obligation 1: every literal format is well typed for the arguments passed with it: each conversion reads an",
        "argument of exactly its width, none reads an argument that is not there. -/",
        "theorem literal_sites_well_typed : literalSites.all (fun s => wellTyped s.2.1 s.2.2) = true := by decide +kernel",
        "",
        "/-- Obligation 2: a format that is not a literal is only ever the percent-doubled message built by",
        "`failure_message_for` (held in a variable called `message` or `failure_message`), passed without arguments; the one",
        "exception is `report_unexpected_call`, which chooses between two literal `[%s]` formats and passes the function name. -/",
        'theorem variable_sites_are_built_messages : variableSites.all (fun s => ((s.2.1 == "message" || s.2.1 == "failure_message") && s.2.2 == 0) || (s.1 == "mocks.c:report_unexpected_call" && s.2.1 == "message" && s.2.2 == 1)) = true := by decide +kernel',
        "",
        "/-- Obligation 3: every value-line template prints its one value with a pointer-width, string or double conversion",
        "(or is empty): never with a 32-bit one. -/",
        "theorem value_templates_full_width : valueTemplates.all (fun t => let cs := convs t.2.2; cs == [] || cs == [.ld] || cs == [.lx] || cs == [.s] || cs == [.f]) = true := by decide +kernel",
        "",
        "/-- Obligation 4: the legacy assert_true()/assert_false() macros pass the expression text as an argument of a `%s`",
        "format (never spliced into the format). -/",
        "theorem legacy_macros_use_percent_s : (legacyMacros.map (·.1)).contains \"assert_true\" = true ∧ (legacyMacros.map (·.1)).contains \"assert_false\" = true ∧ legacyMacros.all (fun m => " + lean_chars('"[%s] should be ') + ".isPrefixOf m.2 && " + lean_chars("STRINGIFY_TOKEN(result)") + ".isSuffixOf m.2) = true := by decide +kernel",
        "",
    ]
    L += render_size(arrays)
    L += [
        "end Cgreen.Gen",
        "#print axioms Cgreen.Gen.message_size_covers",
        "#print axioms Cgreen.Gen.literal_sites_well_typed",
        "#print axioms Cgreen.Gen.variable_sites_are_built_messages",
        "#print axioms Cgreen.Gen.value_templates_full_width",
        "#print axioms Cgreen.Gen.legacy_macros_use_percent_s",
    ]
    return "\n".join(L) + "\n"


if __name__ == "__main__":
    s, f, a, l = generate()
    sys.stdout.write(render(s, f, a, l))
