#!/usr/bin/env python3
"""Translator for the result reader (C02, C03, C18): renders `read_reporter_results()` of /repo's current src/reporter.c - the loop
condition, the loop body as a state transformer over the reporter's counters and the function's locals, and what it returns after
the loop - and the decision `reporter_finish_test()` takes on the reader's status, from the clang-14 JSON AST into Lean, followed by
a fixed block of obligations: run over any list of records, the rendered loop is `readResults` of Model/Runner.lean, and the rendered
decision is the model's.  The numbers of the record kinds and of the three finish statuses are read from the enums."""
import json, os, re, subprocess, sys

REPO = os.environ.get("VERIF_REPO", "/repo")
HERE = os.path.dirname(os.path.abspath(__file__))
COUNTERS = ["passes", "failures", "skips", "exceptions"]
RECS = ["pass", "fail", "skipped", "completion", "exception"]
FIN = {"FINISH_NOTIFICATION_RECEIVED": "received", "FINISH_TEST_SKIPPED": "skippedSt", "FINISH_NOTIFICATION_NOT_RECEIVED": "notReceived"}


class Unsupported(Exception):
    pass


def ast_of(path):
    cmd = ["clang-14", "-Xclang", "-ast-dump=json", "-fsyntax-only", "-w", f"-I{REPO}", f"-I{REPO}/include", f"-I{REPO}/src", '-DVERSION="x"', os.path.join(REPO, path)]
    return json.loads(subprocess.run(cmd, stdout=subprocess.PIPE, stderr=subprocess.DEVNULL).stdout)


def strip(n):
    while n.get("kind") in ("ImplicitCastExpr", "ParenExpr", "CStyleCastExpr") and n.get("inner"):
        n = n["inner"][0]
    return n


class Ctx:
    def __init__(self, enums, locals_, params):
        self.enums, self.locals, self.params = enums, locals_, params      # locals: name -> 'bool' | 'int'


def expr(cx, n):
    """-> (text, kind) with kind in int | bool; state is `s`, the record just received is `result`"""
    n0 = n
    n = strip(n)
    k = n.get("kind")
    if k == "IntegerLiteral" and n.get("value") == "0" and n0.get("type", {}).get("qualType", "").endswith("*"):
        return "NULL", "null"
    if k == "IntegerLiteral":
        return f"({n['value']} : Int)", "int"
    if k == "GNUNullExpr":
        return "NULL", "null"
    if k == "DeclRefExpr":
        d = n["referencedDecl"]
        if d["kind"] == "EnumConstantDecl":
            if d["name"] not in cx.enums: raise Unsupported("enumerator " + d["name"])
            return f"({cx.enums[d['name']]} : Int)", "int"
        if d["name"] in cx.locals:
            return ("result" if d["name"] == cx.locals.get("__loopvar") else f"s.{d['name']}"), cx.locals[d["name"]]
        if d["name"] in cx.params:
            return d["name"], cx.params[d["name"]]
        raise Unsupported("reference to " + d["name"])
    if k == "MemberExpr":
        base = strip(n["inner"][0])
        if base.get("kind") == "DeclRefExpr" and base["referencedDecl"]["name"] == "reporter" and n["name"] in COUNTERS:
            return f"(s.{n['name']} : Int)", "int"
        raise Unsupported("member " + n.get("name", "?"))
    if k == "UnaryOperator" and n["opcode"] == "!":
        t, kd = expr(cx, n["inner"][0])
        return f"(!{as_bool(t, kd)})", "bool"
    if k == "BinaryOperator":
        op = n["opcode"]
        a, b = n["inner"]
        if op in ("&&", "||"):
            ta, ka = expr(cx, a); tb, kb = expr(cx, b)
            return f"({as_bool(ta, ka)} {op} {as_bool(tb, kb)})", "bool"
        if op in ("==", "!=", "<", ">", "<=", ">="):
            ta, ka = expr(cx, a); tb, kb = expr(cx, b)
            if "null" in (ka, kb):
                other = ta if kb == "null" else tb
                okind = ka if kb == "null" else kb
                if okind != "ptr": raise Unsupported("comparison of a non-pointer with NULL")
                return (f"(!{other})" if op == "==" else other), "bool"       # a pointer parameter is rendered as "is not NULL"
            if ka == "bool" and kb == "bool" and op in ("==", "!="):
                return f"({ta} {op} {tb})", "bool"
            ta, tb = as_int(ta, ka), as_int(tb, kb)
            if op in ("==", "!="): return f"({ta} {op} {tb})", "bool"
            return f"(decide ({ta} {dict(zip(['<', '>', '<=', '>='], ['<', '>', '≤', '≥']))[op]} {tb}))", "bool"
    if k == "ConditionalOperator":
        c, a, b = n["inner"]
        tc, kc = expr(cx, c); ta, ka = expr(cx, a); tb, kb = expr(cx, b)
        if ka != kb: raise Unsupported("?: with branches of different kinds")
        return f"(if {as_bool(tc, kc)} then {ta} else {tb})", ka
    raise Unsupported(f"expression {k} {n.get('opcode', '')}")


def as_bool(t, k):
    if k == "bool": return t
    if k == "int": return f"({t} != 0)"
    if k == "ptr": return t
    raise Unsupported("truth value of " + k)


def as_int(t, k):
    if k == "int": return t
    if k == "bool": return f"(if {t} then (1 : Int) else 0)"
    raise Unsupported("integer value of " + k)


def stmt(cx, n):
    """-> Lean term of type St -> St × Option Int (none: fell through)"""
    k = n.get("kind")
    if k == "CompoundStmt":
        return seq(cx, n.get("inner", []))
    if k == "NullStmt":
        return "(fun s => (s, none))"
    if k == "ReturnStmt":
        t, kd = expr(cx, n["inner"][0])
        return f"(fun s => (s, some {as_int(t, kd)}))"
    if k == "IfStmt":
        parts = n["inner"]
        c, kc = expr(cx, parts[0])
        th = stmt(cx, parts[1])
        el = stmt(cx, parts[2]) if n.get("hasElse") else "(fun s => (s, none))"
        return f"(fun s => if {as_bool(c, kc)} then {th} s else {el} s)"
    if k == "UnaryOperator" and n["opcode"] in ("++",):
        tgt = strip(n["inner"][0])
        if tgt.get("kind") == "MemberExpr" and tgt["name"] in COUNTERS and strip(tgt["inner"][0]).get("referencedDecl", {}).get("name") == "reporter":
            return f"(fun s => ({{ s with {tgt['name']} := s.{tgt['name']} + 1 }}, none))"
        raise Unsupported("increment of something that is not a counter of the reporter")
    if k == "CompoundAssignOperator" and n["opcode"] == "+=":
        tgt = strip(n["inner"][0])
        lit = strip(n["inner"][1])
        if tgt.get("kind") == "MemberExpr" and tgt["name"] in COUNTERS and lit.get("kind") == "IntegerLiteral":
            return f"(fun s => ({{ s with {tgt['name']} := s.{tgt['name']} + {lit['value']} }}, none))"
        raise Unsupported("compound assignment")
    if k == "BinaryOperator" and n["opcode"] == "=":
        tgt = strip(n["inner"][0])
        if tgt.get("kind") == "DeclRefExpr" and tgt["referencedDecl"]["name"] in cx.locals and tgt["referencedDecl"]["name"] != cx.locals.get("__loopvar"):
            nm = tgt["referencedDecl"]["name"]
            t, kd = expr(cx, n["inner"][1])
            v = as_bool(t, kd) if cx.locals[nm] == "bool" else as_int(t, kd)
            return f"(fun s => ({{ s with {nm} := {v} }}, none))"
        if tgt.get("kind") == "MemberExpr" and tgt["name"] in COUNTERS:
            rhs = strip(n["inner"][1])
            # reporter->x = reporter->x + 1
            if rhs.get("kind") == "BinaryOperator" and rhs["opcode"] == "+":
                a, b = strip(rhs["inner"][0]), strip(rhs["inner"][1])
                if a.get("kind") == "MemberExpr" and a["name"] == tgt["name"] and b.get("kind") == "IntegerLiteral":
                    return f"(fun s => ({{ s with {tgt['name']} := s.{tgt['name']} + {b['value']} }}, none))"
        raise Unsupported("assignment")
    if k in ("ContinueStmt",):
        return "(fun s => (s, none))" if cx.locals.get("__tail") else (_ for _ in ()).throw(Unsupported("continue in the middle of the loop body"))
    raise Unsupported("statement " + str(k))


def seq(cx, items):
    if not items:
        return "(fun s => (s, none))"
    head, rest = items[0], items[1:]
    if head.get("kind") == "DeclStmt":
        raise Unsupported("declaration inside the loop")
    if not rest:
        return stmt(cx, head)
    return f"(fun s => andThen ({stmt(cx, head)} s) {seq(cx, rest)})"


def generate():
    ast = ast_of("src/reporter.c")
    top = ast.get("inner", [])
    enums = {}
    for n in top:
        if n.get("kind") == "EnumDecl":
            val = -1
            for c in n.get("inner", []):
                if c.get("kind") != "EnumConstantDecl": continue
                if c.get("inner"):
                    lit = strip(c["inner"][0])
                    while lit.get("kind") == "ConstantExpr": lit = strip(lit["inner"][0])
                    if lit.get("kind") != "IntegerLiteral": raise Unsupported("enumerator with a computed value")
                    val = int(lit["value"])
                else:
                    val += 1
                enums[c["name"]] = val
    for r in RECS + list(FIN):
        if r not in enums: raise Unsupported(f"no enumerator named {r} in src/reporter.c")
    fn = next((n for n in top if n.get("kind") == "FunctionDecl" and n.get("name") == "read_reporter_results" and any(c.get("kind") == "CompoundStmt" for c in n.get("inner", []) or [])), None)
    if fn is None: raise Unsupported("read_reporter_results: no definition")
    body = next(c for c in fn["inner"] if c.get("kind") == "CompoundStmt")["inner"]
    locals_, inits, i = {}, {}, 0
    while i < len(body) and body[i].get("kind") == "DeclStmt":
        for v in body[i]["inner"]:
            t = v["type"]["qualType"]
            kind = "bool" if t in ("bool", "_Bool") else "int" if t in ("int", "unsigned int", "long") else None
            if kind is None: raise Unsupported(f"local {v['name']} of type {t}")
            locals_[v["name"]] = kind
            if v.get("inner"):
                lit = strip(v["inner"][0])
                if lit.get("kind") != "IntegerLiteral": raise Unsupported(f"initialiser of {v['name']}")
                inits[v["name"]] = int(lit["value"])
        i += 1
    if i >= len(body) or body[i].get("kind") not in ("WhileStmt", "ForStmt"):
        raise Unsupported("read_reporter_results: no loop after the declarations")
    loop = body[i]
    parts = loop["inner"]
    cond, lbody = (parts[0], parts[1]) if loop["kind"] == "WhileStmt" else (None, None)
    if cond is None: raise Unsupported("a for loop")
    # the condition contains the receive: (result = receive_cgreen_message(...)) <op> <value>
    loopvar = None
    def find_assign(n):
        nonlocal loopvar
        if isinstance(n, dict):
            if n.get("kind") == "BinaryOperator" and n.get("opcode") == "=":
                l, r = strip(n["inner"][0]), strip(n["inner"][1])
                if r.get("kind") == "CallExpr" and strip(r["inner"][0]).get("referencedDecl", {}).get("name") == "receive_cgreen_message" and l.get("kind") == "DeclRefExpr":
                    loopvar = l["referencedDecl"]["name"]; n["__isrecv"] = True
            for c in n.get("inner", []) or []: find_assign(c)
    find_assign(cond)
    if loopvar is None: raise Unsupported("the loop condition does not receive into a local")
    locals_["__loopvar"] = loopvar
    cx = Ctx(enums, locals_, {})
    def cond_expr(n):
        m = strip(n)
        if m.get("__isrecv"): return "result", "int"
        if m.get("kind") == "BinaryOperator" and m["opcode"] in ("==", "!=", "<", ">", "<=", ">="):
            ta, ka = cond_expr(m["inner"][0]); tb, kb = cond_expr(m["inner"][1])
            op = m["opcode"]
            if op in ("==", "!="): return f"({as_int(ta, ka)} {op} {as_int(tb, kb)})", "bool"
            return f"(decide ({as_int(ta, ka)} {dict(zip(['<', '>', '<=', '>='], ['<', '>', '≤', '≥']))[op]} {as_int(tb, kb)}))", "bool"
        return expr(cx, n)
    ct, ck = cond_expr(cond)
    state_locals = [(n, k) for n, k in locals_.items() if n not in ("__loopvar", loopvar)]
    after = [s for s in body[i + 1:]]
    if len(after) != 1 or after[0].get("kind") != "ReturnStmt": raise Unsupported("what follows the loop is not a single return")
    rt, rk = expr(cx, after[0]["inner"][0])
    L = []
    L.append("structure St where")
    for c in COUNTERS: L.append(f"  {c} : Nat")
    for n, k in state_locals: L.append(f"  {n} : {'Bool' if k == 'bool' else 'Int'}")
    L.append("  deriving DecidableEq, Repr\n")
    L.append("def andThen (r : St × Option Int) (k : St → St × Option Int) : St × Option Int :=\n  match r.2 with | some v => (r.1, some v) | none => k r.1\n")
    L.append(f"/-- the loop goes on while this holds of what `receive_cgreen_message` returned -/\ndef cond (result : Int) : Bool := {as_bool(ct, ck)}\n")
    L.append(f"/-- the loop body for one record -/\ndef body (result : Int) : St → St × Option Int :=\n  {stmt(cx, lbody)}\n")
    L.append(f"/-- what is returned when the loop ends without a return -/\ndef after (s : St) : Int := {as_int(rt, rk)}\n")
    inits_txt = " ".join(f"({n} := {('true' if inits.get(n, 0) else 'false') if k == 'bool' else inits.get(n, 0)})" for n, k in state_locals)
    L.append("/-- the locals as the function initialises them -/\ndef start (c : Cnt) : St := { passes := c.p, failures := c.f, skips := c.s, exceptions := c.e" +
             "".join(f", {n} := {('true' if inits.get(n, 0) else 'false') if k == 'bool' else inits.get(n, 0)}" for n, k in state_locals) + " }\n")
    bools = [n for n, k in state_locals if k == "bool"]
    if len(bools) != 1 or len(state_locals) != 1:
        raise Unsupported("the obligations expect exactly one local besides the received record: the flag 'this test has sent a skipped record'")
    L.append(f"def flag (s : St) : Bool := s.{bools[0]}\ndef withFlag (s : St) (b : Bool) : St := {{ s with {bools[0]} := b }}\n")
    L.append("def code : Rec → Int\n" + "\n".join(f"  | .{r} => {enums[r]}" for r in RECS) + "\n")
    L.append("def fin (v : Int) : Option Finish :=\n  " + " else ".join(f"if v = {enums[c]} then some .{m}" for c, m in FIN.items()) + " else none\n")
    # the decision of reporter_finish_test()
    ft = next((n for n in top if n.get("kind") == "FunctionDecl" and n.get("name") == "reporter_finish_test" and any(c.get("kind") == "CompoundStmt" for c in n.get("inner", []) or [])), None)
    if ft is None: raise Unsupported("reporter_finish_test: no definition")
    fbody = next(c for c in ft["inner"] if c.get("kind") == "CompoundStmt")["inner"]
    statusvar = None
    for s in fbody:
        if s.get("kind") == "DeclStmt":
            for v in s["inner"]:
                init = strip(v["inner"][0]) if v.get("inner") else {}
                if init.get("kind") == "CallExpr" and strip(init["inner"][0]).get("referencedDecl", {}).get("name") == "read_reporter_results":
                    statusvar = v["name"]
    if statusvar is None: raise Unsupported("reporter_finish_test: the status of read_reporter_results is not kept in a local")
    cx2 = Ctx(enums, {}, {statusvar: "int", "message": "ptr"})
    branches = []      # (condition text, what the branch does: 'skip' | 'exception' | 'other')
    def classify(n):
        txt = json.dumps(n)
        if "show_incomplete" in txt or '"exceptions"' in txt: return "exception"
        if "show_skip" in txt: return "skip"
        return "other"
    def walk_if(n):
        if n.get("kind") != "IfStmt": return
        c, kc = expr(cx2, n["inner"][0])
        branches.append((as_bool(c, kc), classify(n["inner"][1])))
        if n.get("hasElse"):
            e = n["inner"][2]
            if e.get("kind") == "IfStmt": walk_if(e)
            elif e.get("kind") == "CompoundStmt" and len(e.get("inner", [])) == 1 and e["inner"][0].get("kind") == "IfStmt": walk_if(e["inner"][0])
            else: branches.append(("true", classify(e)))
    ifs = [s for s in fbody if s.get("kind") == "IfStmt"]
    if len(ifs) != 1: raise Unsupported("reporter_finish_test: expected one if-chain on the status")
    walk_if(ifs[0])
    def chain(kind):
        t = "false"
        for c, what in reversed(branches):
            t = f"(if {c} then {'true' if what == kind else 'false'} else {t})"
        return t
    L.append(f"/-- `reporter_finish_test`: the test is counted as an exception (and shown as incomplete) -/\ndef finishException ({statusvar} : Int) (message : Bool) : Bool := {chain('exception')}\n")
    L.append(f"/-- `reporter_finish_test`: the test is shown as skipped -/\ndef finishSkipped ({statusvar} : Int) (message : Bool) : Bool := {chain('skip')}\n")
    return "\n".join(L)


def render():
    head = ("import CgreenModel.Model.Runner\n/-! GENERATED by translate/reader.py from /repo's working tree: `read_reporter_results()` and the decision of `reporter_finish_test()`. -/\n"
            "set_option linter.unusedVariables false\nnamespace Cgreen.Gen.Reader\nopen Cgreen\n\n")
    obligations = open(os.path.join(HERE, "reader_obligations.lean")).read()
    thms = re.findall(r"^theorem (\S+)", obligations, re.M)
    problems = []
    try:
        defs = generate()
    except Unsupported as e:
        return head + "end Cgreen.Gen.Reader\n", thms, [("read_reporter_results", str(e))]
    except (KeyError, StopIteration, IndexError, TypeError) as e:
        return head + "end Cgreen.Gen.Reader\n", thms, [("read_reporter_results", f"unexpected shape of the syntax tree ({type(e).__name__}: {e})")]
    text = head + defs + "\n" + obligations + "\nend Cgreen.Gen.Reader\n" + "".join(f"#print axioms Cgreen.Gen.Reader.{t}\n" for t in thms)
    return text, thms, problems


if __name__ == "__main__":
    t, thms, problems = render()
    sys.stdout.write(t)
    for site, why in problems: print("-- PROBLEM:", why)
