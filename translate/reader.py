#!/usr/bin/env python3
"""Translator for the result reader (C02, C03, C18): renders `read_reporter_results()` of /repo's current src/reporter.c - the loop
condition, the loop body as a state transformer over the reporter's counters and the function's locals, and what it returns after
the loop - and the decision `reporter_finish_test()` takes on the reader's status, from the clang-14 JSON AST into Lean, followed by
a fixed block of obligations: run over any list of records, the rendered loop is `readResults` of Model/Runner.lean, and the rendered
decision is the model's.  The numbers of the record kinds and of the three finish statuses are read from the enums."""
import json, os, re, subprocess, sys

REPO = os.environ.get("VERIF_REPO", "/repo")
HERE = os.path.dirname(os.path.abspath(__file__))
COUNTERS = ["passes", "failures", "skips", "exceptions"]
RECS = ["pass", "fail", "skipped", "completion", "exception"]
FIN = {"FINISH_NOTIFICATION_RECEIVED": "received", "FINISH_TEST_SKIPPED": "skippedSt", "FINISH_NOTIFICATION_NOT_RECEIVED": "notReceived"}


class Unsupported(Exception):
    pass


def ast_of(path):
    cmd = ["clang-14", "-Xclang", "-ast-dump=json", "-fsyntax-only", "-w", f"-I{REPO}", f"-I{REPO}/include", f"-I{REPO}/src", '-DVERSION="x"', os.path.join(REPO, path)]
    return json.loads(subprocess.run(cmd, stdout=subprocess.PIPE, stderr=subprocess.DEVNULL).stdout)


def strip(n):
    while n.get("kind") in ("ImplicitCastExpr", "ParenExpr", "CStyleCastExpr") and n.get("inner"):
        n = n["inner"][0]
    return n


class Ctx:
    def __init__(self, enums, locals_, params, funcs=None, subst=None):
        self.enums, self.locals, self.params = enums, locals_, params      # locals: name -> 'bool' | 'int'
        self.funcs = funcs or {}          # functions of the translation unit (for small helpers, rendered in place)
        self.subst = subst or {}          # name -> (text, kind): parameters of a helper being rendered, locals defined by an expression
        self.st = "St"                    # the state type the statements work on
        self.calls = False                # statements that are calls are rendered (reporter_finish_test) rather than refused


def expr(cx, n):
    """-> (text, kind) with kind in int | bool; state is `s`, the record just received is `result`"""
    n0 = n
    n = strip(n)
    k = n.get("kind")
    if k == "IntegerLiteral" and n.get("value") == "0" and n0.get("type", {}).get("qualType", "").endswith("*"):
        return "NULL", "null"
    if k == "IntegerLiteral":
        return f"({n['value']} : Int)", "int"
    if k == "GNUNullExpr":
        return "NULL", "null"
    if k == "DeclRefExpr":
        d = n["referencedDecl"]
        if d["kind"] == "EnumConstantDecl":
            if d["name"] not in cx.enums: raise Unsupported("enumerator " + d["name"])
            return f"({cx.enums[d['name']]} : Int)", "int"
        if d["name"] in cx.subst:
            return cx.subst[d["name"]]
        if d["name"] in cx.locals:
            return ("result" if d["name"] == cx.locals.get("__loopvar") else f"s.{d['name']}"), cx.locals[d["name"]]
        if d["name"] in cx.params:
            return d["name"], cx.params[d["name"]]
        raise Unsupported("reference to " + d["name"])
    if k == "MemberExpr":
        base = strip(n["inner"][0])
        if base.get("kind") == "DeclRefExpr" and base["referencedDecl"]["name"] == "reporter" and n["name"] in COUNTERS:
            return f"(s.{n['name']} : Int)", "int"
        raise Unsupported("member " + n.get("name", "?"))
    if k == "UnaryOperator" and n["opcode"] == "!":
        t, kd = expr(cx, n["inner"][0])
        return f"(!{as_bool(t, kd)})", "bool"
    if k == "BinaryOperator":
        op = n["opcode"]
        a, b = n["inner"]
        if op in ("&&", "||"):
            ta, ka = expr(cx, a); tb, kb = expr(cx, b)
            return f"({as_bool(ta, ka)} {op} {as_bool(tb, kb)})", "bool"
        if op in ("==", "!=", "<", ">", "<=", ">="):
            ta, ka = expr(cx, a); tb, kb = expr(cx, b)
            if "null" in (ka, kb):
                other = ta if kb == "null" else tb
                okind = ka if kb == "null" else kb
                if okind != "ptr": raise Unsupported("comparison of a non-pointer with NULL")
                return (f"(!{other})" if op == "==" else other), "bool"       # a pointer parameter is rendered as "is not NULL"
            if ka == "bool" and kb == "bool" and op in ("==", "!="):
                return f"({ta} {op} {tb})", "bool"
            ta, tb = as_int(ta, ka), as_int(tb, kb)
            if op in ("==", "!="): return f"({ta} {op} {tb})", "bool"
            return f"(decide ({ta} {dict(zip(['<', '>', '<=', '>='], ['<', '>', '≤', '≥']))[op]} {tb}))", "bool"
    if k == "ConditionalOperator":
        c, a, b = n["inner"]
        tc, kc = expr(cx, c); ta, ka = expr(cx, a); tb, kb = expr(cx, b)
        if ka != kb: raise Unsupported("?: with branches of different kinds")
        return f"(if {as_bool(tc, kc)} then {ta} else {tb})", ka
    if k == "CallExpr":
        # a small helper of the same file whose body is one return: rendered in place, its parameters replaced by the arguments
        cn = strip(n["inner"][0]).get("referencedDecl", {}).get("name")
        h = cx.funcs.get(cn)
        if h is None: raise Unsupported(f"call of {cn}")
        body = next(c for c in h["inner"] if c.get("kind") == "CompoundStmt").get("inner", [])
        params = [p for p in h.get("inner", []) if p.get("kind") == "ParmVarDecl"]
        if len(params) != len(n["inner"]) - 1:
            raise Unsupported(f"call of {cn} with another number of arguments")
        sub = dict(cx.subst)
        for p_, a_ in zip(params, n["inner"][1:]):
            sub[p_["name"]] = expr(cx, a_)
        c3 = Ctx(cx.enums, cx.locals, cx.params, cx.funcs, sub)
        def value_of(stmts_):
            # `if (c) return a; ... return b;` as a conditional expression
            if not stmts_: raise Unsupported(f"call of {cn}: a path without return")
            h0, rest0 = stmts_[0], stmts_[1:]
            if h0.get("kind") == "ReturnStmt": return expr(c3, h0["inner"][0])
            if h0.get("kind") == "CompoundStmt": return value_of(h0.get("inner", []) + rest0)
            if h0.get("kind") == "IfStmt":
                tc, kc = expr(c3, h0["inner"][0])
                th_ = h0["inner"][1]; th_l = th_.get("inner", []) if th_.get("kind") == "CompoundStmt" else [th_]
                el_l = []
                if h0.get("hasElse"):
                    el_ = h0["inner"][2]; el_l = el_.get("inner", []) if el_.get("kind") == "CompoundStmt" else [el_]
                ta, ka = value_of(th_l + rest0); tb, kb = value_of(el_l + rest0)
                if ka != kb:
                    ta, tb, ka = (as_bool(ta, ka), as_bool(tb, kb), "bool") if "bool" in (ka, kb) else (as_int(ta, ka), as_int(tb, kb), "int")
                return f"(if {as_bool(tc, kc)} then {ta} else {tb})", ka
            raise Unsupported(f"call of {cn}, whose body is more than returns and ifs")
        return value_of(body)
    raise Unsupported(f"expression {k} {n.get('opcode', '')}")


def as_bool(t, k):
    if k == "bool": return t
    if k == "int": return f"({t} != 0)"
    if k == "ptr": return t
    raise Unsupported("truth value of " + k)


def as_int(t, k):
    if k == "int": return t
    if k == "bool": return f"(if {t} then (1 : Int) else 0)"
    raise Unsupported("integer value of " + k)


def stmt(cx, n):
    """-> Lean term of type St -> St × Option Int (none: fell through)"""
    k = n.get("kind")
    if k == "CompoundStmt":
        return seq(cx, n.get("inner", []))
    if k == "NullStmt":
        return f"(fun (s : {cx.st}) => goOn s)"
    if k == "ReturnStmt":
        t, kd = expr(cx, n["inner"][0])
        return f"(fun (s : {cx.st}) => ret s {as_int(t, kd)})"
    if k == "BreakStmt":
        return f"(fun (s : {cx.st}) => leave s)"      # leaves the loop (a `break` that ends a switch case never gets here)
    if k == "SwitchStmt":
        scrut, sk = expr(cx, n["inner"][0])
        comp = n["inner"][1]
        if comp.get("kind") != "CompoundStmt": raise Unsupported("switch without a block")
        # cases: labels (None = default) and the statements up to the break that ends them
        cases, labels, cur = [], [], None
        def open_case(c):
            nonlocal labels
            while c.get("kind") in ("CaseStmt", "DefaultStmt"):
                if c["kind"] == "CaseStmt":
                    lab = c["inner"][0]
                    while lab.get("kind") == "ConstantExpr": lab = lab["inner"][0]
                    t, kd = expr(cx, lab)
                    labels.append(as_int(t, kd)); c = c["inner"][-1]
                else:
                    labels.append(None); c = c["inner"][-1]
            return c
        for item in comp.get("inner", []):
            if item.get("kind") in ("CaseStmt", "DefaultStmt"):
                if cur is not None and cur["open"]:
                    raise Unsupported("a switch case that falls through into the next one")
                labels = []
                first = open_case(item)
                cur = {"labels": labels, "stmts": [], "open": True}
                cases.append(cur)
                item = first
            if cur is None: raise Unsupported("statement before the first case")
            if not cur["open"]: raise Unsupported("statement after the end of a case")
            if item.get("kind") == "BreakStmt": cur["open"] = False
            elif item.get("kind") == "ReturnStmt": cur["stmts"].append(item); cur["open"] = False
            elif item.get("kind") == "NullStmt": pass
            else: cur["stmts"].append(item)
        if cases and cases[-1]["open"]: cases[-1]["open"] = False      # the last case ends with the switch
        default = next((c for c in cases if None in c["labels"]), None)
        t = seq(cx, default["stmts"]) if default else f"(fun (s : {cx.st}) => goOn s)"
        for c in reversed(cases):
            labs = [l for l in c["labels"] if l is not None]
            if not labs: continue
            cond = " || ".join(f"({as_int(scrut, sk)} == {l})" for l in labs)
            t = f"(fun (s : {cx.st}) => if {cond} then {seq(cx, c['stmts'])} s else {t} s)"
        return t
    if k == "IfStmt":
        parts = n["inner"]
        c, kc = expr(cx, parts[0])
        th = stmt(cx, parts[1])
        el = stmt(cx, parts[2]) if n.get("hasElse") else f"(fun (s : {cx.st}) => goOn s)"
        return f"(fun (s : {cx.st}) => if {as_bool(c, kc)} then {th} s else {el} s)"
    if k == "UnaryOperator" and n["opcode"] in ("++",):
        tgt = strip(n["inner"][0])
        if tgt.get("kind") == "MemberExpr" and tgt["name"] in COUNTERS and strip(tgt["inner"][0]).get("referencedDecl", {}).get("name") == "reporter":
            return f"(fun (s : {cx.st}) => goOn {{ s with {tgt['name']} := s.{tgt['name']} + 1 }})"
        raise Unsupported("increment of something that is not a counter of the reporter")
    if k == "CompoundAssignOperator" and n["opcode"] == "+=":
        tgt = strip(n["inner"][0])
        lit = strip(n["inner"][1])
        if tgt.get("kind") == "MemberExpr" and tgt["name"] in COUNTERS and lit.get("kind") == "IntegerLiteral":
            return f"(fun (s : {cx.st}) => goOn {{ s with {tgt['name']} := s.{tgt['name']} + {lit['value']} }})"
        raise Unsupported("compound assignment")
    if k == "BinaryOperator" and n["opcode"] == "=":
        tgt = strip(n["inner"][0])
        if tgt.get("kind") == "DeclRefExpr" and tgt["referencedDecl"]["name"] in cx.locals and tgt["referencedDecl"]["name"] != cx.locals.get("__loopvar"):
            nm = tgt["referencedDecl"]["name"]
            t, kd = expr(cx, n["inner"][1])
            v = as_bool(t, kd) if cx.locals[nm] == "bool" else as_int(t, kd)
            return f"(fun (s : {cx.st}) => goOn {{ s with {nm} := {v} }})"
        if tgt.get("kind") == "MemberExpr" and tgt["name"] in COUNTERS:
            rhs = strip(n["inner"][1])
            # reporter->x = reporter->x + 1
            if rhs.get("kind") == "BinaryOperator" and rhs["opcode"] == "+":
                a, b = strip(rhs["inner"][0]), strip(rhs["inner"][1])
                if a.get("kind") == "MemberExpr" and a["name"] == tgt["name"] and b.get("kind") == "IntegerLiteral":
                    return f"(fun (s : {cx.st}) => goOn {{ s with {tgt['name']} := s.{tgt['name']} + {b['value']} }})"
        raise Unsupported("assignment")
    if k in ("ContinueStmt",):
        raise Unsupported("continue in the loop body")
    if k == "DeclStmt" and cx.calls:
        out = []
        for v in n["inner"]:
            if v.get("kind") != "VarDecl" or v["name"] not in cx.locals or not v.get("inner"): continue
            t, kd = expr(cx, v["inner"][0])
            val = as_bool(t, kd) if cx.locals[v["name"]] == "bool" else as_int(t, kd)
            out.append(f"(fun (s : {cx.st}) => goOn {{ s with {v['name']} := {val} }})")
        if not out: return f"(fun (s : {cx.st}) => goOn s)"
        t = out[-1]
        for o in reversed(out[:-1]): t = f"(fun (s : {cx.st}) => andThen ({o} s) {t})"
        return t
    if k == "CallExpr" and cx.calls:
        callee = strip(n["inner"][0])
        if callee.get("kind") == "UnaryOperator" and callee.get("opcode") == "*": callee = strip(callee["inner"][0])
        if callee.get("kind") == "MemberExpr":
            if callee["name"] == "show_skip": return f"(fun (s : {cx.st}) => goOn {{ s with skipShown := true }})"
            if callee["name"] == "show_incomplete": return f"(fun (s : {cx.st}) => goOn {{ s with incompleteShown := true }})"
            raise Unsupported("call through " + callee.get("name", "?"))
        cn = callee.get("referencedDecl", {}).get("name")
        if cn in ("memset", "pop_breadcrumb", "free", "fflush", "__builtin_va_start", "__builtin_va_end", "__builtin_va_copy"):
            return f"(fun (s : {cx.st}) => goOn s)"
        h = cx.funcs.get(cn)
        if h is None: raise Unsupported(f"call of {cn}")
        # a helper of the same file: its statements in place, value parameters replaced by the arguments
        params = [p_ for p_ in h.get("inner", []) if p_.get("kind") == "ParmVarDecl"]
        sub = dict(cx.subst)
        for p_, a_ in zip(params, n["inner"][1:]):
            try: sub[p_["name"]] = expr(cx, a_)
            except Unsupported: pass
        c2 = Ctx(cx.enums, cx.locals, cx.params, cx.funcs, sub); c2.st, c2.calls = cx.st, cx.calls
        hb = next(c for c in h["inner"] if c.get("kind") == "CompoundStmt")
        if any(x.get("kind") == "ReturnStmt" for x in hb.get("inner", [])): raise Unsupported(f"helper {cn} returns in the middle")
        return seq(c2, hb.get("inner", []))
    raise Unsupported("statement " + str(k))


def seq(cx, items):
    if not items:
        return f"(fun (s : {cx.st}) => goOn s)"
    head, rest = items[0], items[1:]
    if head.get("kind") == "DeclStmt" and not cx.calls:
        raise Unsupported("declaration inside the loop")
    if not rest:
        return stmt(cx, head)
    return f"(fun (s : {cx.st}) => andThen ({stmt(cx, head)} s) {seq(cx, rest)})"


def generate():
    ast = ast_of("src/reporter.c")
    top = ast.get("inner", [])
    enums = {}
    for n in top:
        if n.get("kind") == "EnumDecl":
            val = -1
            for c in n.get("inner", []):
                if c.get("kind") != "EnumConstantDecl": continue
                if c.get("inner"):
                    lit = strip(c["inner"][0])
                    while lit.get("kind") == "ConstantExpr": lit = strip(lit["inner"][0])
                    if lit.get("kind") != "IntegerLiteral": raise Unsupported("enumerator with a computed value")
                    val = int(lit["value"])
                else:
                    val += 1
                enums[c["name"]] = val
    for r in RECS + list(FIN):
        if r not in enums: raise Unsupported(f"no enumerator named {r} in src/reporter.c")
    fn = next((n for n in top if n.get("kind") == "FunctionDecl" and n.get("name") == "read_reporter_results" and any(c.get("kind") == "CompoundStmt" for c in n.get("inner", []) or [])), None)
    if fn is None: raise Unsupported("read_reporter_results: no definition")
    body = next(c for c in fn["inner"] if c.get("kind") == "CompoundStmt")["inner"]
    locals_, inits, i = {}, {}, 0
    while i < len(body) and body[i].get("kind") == "DeclStmt":
        for v in body[i]["inner"]:
            t = v["type"]["qualType"]
            kind = "bool" if t in ("bool", "_Bool") else "int" if t in ("int", "unsigned int", "long") else None
            if kind is None: raise Unsupported(f"local {v['name']} of type {t}")
            locals_[v["name"]] = kind
            if v.get("inner"):
                lit = strip(v["inner"][0])
                if lit.get("kind") != "IntegerLiteral": raise Unsupported(f"initialiser of {v['name']}")
                inits[v["name"]] = int(lit["value"])
        i += 1
    if i >= len(body) or body[i].get("kind") not in ("WhileStmt", "ForStmt"):
        raise Unsupported("read_reporter_results: no loop after the declarations")
    loop = body[i]
    funcs = {n["name"]: n for n in top if n.get("kind") == "FunctionDecl" and any(c.get("kind") == "CompoundStmt" for c in n.get("inner", []) or [])}

    def is_receive(n):
        n = strip(n)
        return n.get("kind") == "CallExpr" and strip(n["inner"][0]).get("referencedDecl", {}).get("name") == "receive_cgreen_message"

    loopvar = None
    if loop["kind"] == "WhileStmt":
        cond, lbody = loop["inner"][0], loop["inner"][1]
    else:
        parts = loop["inner"]      # init, (condition variable), condition, increment, body - absent ones are empty objects
        if any(p_ for p_ in parts[:-1] if p_ and p_.get("kind")):
            raise Unsupported("a for loop with an initialiser, a condition or an increment")
        cond, lbody = None, parts[-1]
    always = cond is not None and strip(cond).get("kind") in ("IntegerLiteral", "CXXBoolLiteralExpr") and str(strip(cond).get("value")) in ("1", "True", "true")
    if cond is None or always:
        # for (;;) { [const] int result = receive_cgreen_message(...); if (<stop condition>) break; ... }
        items = list(lbody.get("inner", [])) if lbody.get("kind") == "CompoundStmt" else [lbody]
        if len(items) < 2: raise Unsupported("an endless loop without a receive and a way out")
        first = items[0]
        if first.get("kind") == "DeclStmt" and len(first["inner"]) == 1 and first["inner"][0].get("inner") and is_receive(first["inner"][0]["inner"][0]):
            loopvar = first["inner"][0]["name"]; locals_[loopvar] = "int"
        elif first.get("kind") == "BinaryOperator" and first.get("opcode") == "=" and is_receive(first["inner"][1]) and strip(first["inner"][0]).get("kind") == "DeclRefExpr":
            loopvar = strip(first["inner"][0])["referencedDecl"]["name"]
        else:
            raise Unsupported("an endless loop that does not start by receiving a record")
        second = items[1]
        if second.get("kind") != "IfStmt" or second.get("hasElse"):
            raise Unsupported("an endless loop whose second statement is not `if (...) break;`")
        th = second["inner"][1]
        th_items = th.get("inner", []) if th.get("kind") == "CompoundStmt" else [th]
        if len(th_items) != 1 or th_items[0].get("kind") != "BreakStmt":
            raise Unsupported("an endless loop whose second statement is not `if (...) break;`")
        stop_cond = second["inner"][0]
        lbody = {"kind": "CompoundStmt", "inner": items[2:]}
        locals_["__loopvar"] = loopvar
        cx = Ctx(enums, locals_, {}, funcs)
        st, sk = expr(cx, stop_cond)
        ct, ck = f"(!{as_bool(st, sk)})", "bool"
    else:
        # while ((result = receive_cgreen_message(...)) <op> <value>)
        def find_assign(n):
            nonlocal loopvar
            if isinstance(n, dict):
                if n.get("kind") == "BinaryOperator" and n.get("opcode") == "=":
                    l, r = strip(n["inner"][0]), strip(n["inner"][1])
                    if is_receive(r) and l.get("kind") == "DeclRefExpr":
                        loopvar = l["referencedDecl"]["name"]; n["__isrecv"] = True
                for c in n.get("inner", []) or []: find_assign(c)
        find_assign(cond)
        if loopvar is None: raise Unsupported("the loop condition does not receive into a local")
        locals_["__loopvar"] = loopvar
        cx = Ctx(enums, locals_, {}, funcs)
        def cond_expr(n):
            m = strip(n)
            if m.get("__isrecv"): return "result", "int"
            if m.get("kind") == "BinaryOperator" and m["opcode"] in ("==", "!=", "<", ">", "<=", ">="):
                ta, ka = cond_expr(m["inner"][0]); tb, kb = cond_expr(m["inner"][1])
                op = m["opcode"]
                if op in ("==", "!="): return f"({as_int(ta, ka)} {op} {as_int(tb, kb)})", "bool"
                return f"(decide ({as_int(ta, ka)} {dict(zip(['<', '>', '<=', '>='], ['<', '>', '≤', '≥']))[op]} {as_int(tb, kb)}))", "bool"
            return expr(cx, n)
        ct, ck = cond_expr(cond)
    state_locals = [(n, k) for n, k in locals_.items() if n not in ("__loopvar", loopvar)]
    after = [s for s in body[i + 1:]]
    if len(after) != 1 or after[0].get("kind") != "ReturnStmt": raise Unsupported("what follows the loop is not a single return")
    rt, rk = expr(cx, after[0]["inner"][0])
    L = []
    L.append("structure St where")
    for c in COUNTERS: L.append(f"  {c} : Nat")
    for n, k in state_locals: L.append(f"  {n} : {'Bool' if k == 'bool' else 'Int'}")
    L.append("  deriving DecidableEq, Repr\n")
    L.append("/-- what a statement ends with: `none` goes on, `some none` leaves the loop, `some (some v)` returns `v` -/\nabbrev Out := Option (Option Int)\n")
    L.append("def goOn {σ : Type} (s : σ) : σ × Out := (s, none)\ndef leave {σ : Type} (s : σ) : σ × Out := (s, some none)\ndef ret {σ : Type} (s : σ) (v : Int) : σ × Out := (s, some (some v))\n")
    L.append("def andThen {σ : Type} (r : σ × Out) (k : σ → σ × Out) : σ × Out :=\n  match r.2 with | some v => (r.1, some v) | none => k r.1\n")
    L.append(f"/-- the loop goes on while this holds of what `receive_cgreen_message` returned -/\ndef cond (result : Int) : Bool := {as_bool(ct, ck)}\n")
    L.append(f"/-- the loop body for one record -/\ndef body (result : Int) : St → St × Out :=\n  {stmt(cx, lbody)}\n")
    L.append(f"/-- what is returned when the loop ends without a return -/\ndef after (s : St) : Int := {as_int(rt, rk)}\n")
    inits_txt = " ".join(f"({n} := {('true' if inits.get(n, 0) else 'false') if k == 'bool' else inits.get(n, 0)})" for n, k in state_locals)
    L.append("/-- the locals as the function initialises them -/\ndef start (c : Cnt) : St := { passes := c.p, failures := c.f, skips := c.s, exceptions := c.e" +
             "".join(f", {n} := {('true' if inits.get(n, 0) else 'false') if k == 'bool' else inits.get(n, 0)}" for n, k in state_locals) + " }\n")
    bools = [n for n, k in state_locals if k == "bool"]
    if len(bools) != 1 or len(state_locals) != 1:
        raise Unsupported("the obligations expect exactly one local besides the received record: the flag 'this test has sent a skipped record'")
    L.append(f"def flag (s : St) : Bool := s.{bools[0]}\ndef withFlag (s : St) (b : Bool) : St := {{ s with {bools[0]} := b }}\n")
    L.append("def code : Rec → Int\n" + "\n".join(f"  | .{r} => {enums[r]}" for r in RECS) + "\n")
    L.append("def fin (v : Int) : Option Finish :=\n  " + " else ".join(f"if v = {enums[c]} then some .{m}" for c, m in FIN.items()) + " else none\n")
    # what reporter_finish_test() does with the reader's status
    ft = funcs.get("reporter_finish_test")
    if ft is None: raise Unsupported("reporter_finish_test: no definition")
    fbody = next(c for c in ft["inner"] if c.get("kind") == "CompoundStmt")["inner"]
    statusvar, flocals, rest = None, {}, []
    for s_ in fbody:
        if s_.get("kind") == "DeclStmt":
            keep = False
            for v in s_["inner"]:
                init = strip(v["inner"][0]) if v.get("inner") else {}
                if init.get("kind") == "CallExpr" and strip(init["inner"][0]).get("referencedDecl", {}).get("name") == "read_reporter_results":
                    statusvar = v["name"]; continue
                t = v["type"]["qualType"].replace("const ", "")
                if t in ("bool", "_Bool"): flocals[v["name"]] = "bool"; keep = True
                elif t in ("int", "unsigned int", "long"): flocals[v["name"]] = "int"; keep = True
            if keep: rest.append(s_)
        else:
            rest.append(s_)
    if statusvar is None: raise Unsupported("reporter_finish_test: the status of read_reporter_results is not kept in a local")
    cx2 = Ctx(enums, flocals, {statusvar: "int", "message": "ptr"}, funcs)
    cx2.st, cx2.calls = "FSt", True
    cx2.subst[statusvar] = ("status", "int")
    L.append("structure FSt where")
    for c in COUNTERS: L.append(f"  {c} : Nat")
    for n_, k_ in flocals.items(): L.append(f"  {n_} : {'Bool' if k_ == 'bool' else 'Int'} := {'false' if k_ == 'bool' else '0'}")
    L.append("  skipShown : Bool := false\n  incompleteShown : Bool := false\n  deriving DecidableEq, Repr\n")
    L.append(f"/-- `reporter_finish_test` after the reader has returned `status` (`message`: the platform layer passed one) -/\ndef finish (status : Int) (message : Bool) : FSt → FSt × Out :=\n  {seq(cx2, rest)}\n")
    return "\n".join(L)


def render():
    head = ("import CgreenModel.Model.Runner\n/-! GENERATED by translate/reader.py from /repo's working tree: `read_reporter_results()` and the decision of `reporter_finish_test()`. -/\n"
            "set_option linter.unusedVariables false\nnamespace Cgreen.Gen.Reader\nopen Cgreen\n\n")
    obligations = open(os.path.join(HERE, "reader_obligations.lean")).read()
    thms = re.findall(r"^theorem (\S+)", obligations, re.M)
    problems = []
    try:
        defs = generate()
    except Unsupported as e:
        return head + "end Cgreen.Gen.Reader\n", thms, [("read_reporter_results", str(e))]
    except (KeyError, StopIteration, IndexError, TypeError) as e:
        return head + "end Cgreen.Gen.Reader\n", thms, [("read_reporter_results", f"unexpected shape of the syntax tree ({type(e).__name__}: {e})")]
    text = head + defs + "\n" + obligations + "\nend Cgreen.Gen.Reader\n" + "".join(f"#print axioms Cgreen.Gen.Reader.{t}\n" for t in thms)
    return text, thms, problems


if __name__ == "__main__":
    t, thms, problems = render()
    sys.stdout.write(t)
    for site, why in problems: print("-- PROBLEM:", why)
