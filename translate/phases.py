#!/usr/bin/env python3
"""Translator for the order of a test's phases (C08, C13, C14): renders `run_the_test_code()` of /repo's current src/runner.c from the
clang-14 JSON AST into a Lean function from the four guards (the suite has a setup / a teardown, the context has a setup / a
teardown) and "a time limit is defined" to the sequence of events the function goes through - the three per-test resets, arming
(or cancelling) the timer, the fixtures, the body, the mock tally, and any other call - followed by a fixed block of obligations:
the phases are the model's `script`, in that order; the resets come first; the timer is armed before the first fixture and never
cancelled by this function; nothing else is called."""
import json, os, re, subprocess, sys

REPO = os.environ.get("VERIF_REPO", "/repo")
HERE = os.path.dirname(os.path.abspath(__file__))


class Unsupported(Exception):
    pass


def ast_of(path):
    cmd = ["clang-14", "-Xclang", "-ast-dump=json", "-fsyntax-only", "-w", f"-I{REPO}", f"-I{REPO}/include", f"-I{REPO}/src", '-DVERSION="x"', os.path.join(REPO, path)]
    return json.loads(subprocess.run(cmd, stdout=subprocess.PIPE, stderr=subprocess.DEVNULL).stdout)


def strip(n):
    while n.get("kind") in ("ImplicitCastExpr", "ParenExpr", "CStyleCastExpr") and n.get("inner"):
        n = n["inner"][0]
    return n


ALIASES = {}
FUNCS = {}


def member_path(n):
    path = []
    n = strip(n)
    while n.get("kind") in ("MemberExpr", "UnaryOperator"):
        if n["kind"] == "MemberExpr": path.append(n["name"])
        n = strip(n["inner"][0])
    if n.get("kind") == "DeclRefExpr":
        nm = n["referencedDecl"]["name"]
        path.append(ALIASES.get(nm, nm))          # (a helper's parameter stands for what the caller passed)
        return tuple(reversed(path))
    return None


CALLS = {"significant_figures_for_assert_double_are": "resetFigs", "clear_mocks": "resetMocks", "run": "phase .body", "tally_mocks": "phase .tally",
         "run_setup_for": "phase .ctxSetup", "run_teardown_for": "phase .ctxTeardown", "die_in": "armTimer", "validate_per_test_timeout_value": None,
         "per_test_timeout_value": None}
MEMBER_CALLS = {("suite", "setup"): "phase .suiteSetup", ("suite", "teardown"): "phase .suiteTeardown",
                ("spec", "context", "setup"): "phase .ctxSetup", ("spec", "context", "teardown"): "phase .ctxTeardown"}
GUARDS = {"has_setup": "su", "has_teardown": "td", "per_test_timeout_defined": "tmo"}
MEMBER_GUARDS = {("spec", "context", "setup"): "cs", ("spec", "context", "teardown"): "ct", ("suite", "setup"): "su", ("suite", "teardown"): "td"}


def guard(n):
    n = strip(n)
    k = n.get("kind")
    if k == "CallExpr":
        cn = strip(n["inner"][0]).get("referencedDecl", {}).get("name")
        if cn in GUARDS: return GUARDS[cn]
        raise Unsupported(f"condition calls {cn}")
    if k == "BinaryOperator" and n["opcode"] in ("!=", "=="):
        a, b = n["inner"]
        for x, y in ((a, b), (b, a)):
            ys = strip(y)
            if ys.get("kind") in ("GNUNullExpr",) or (ys.get("kind") == "IntegerLiteral" and ys.get("value") == "0"):
                p = member_path(x)
                if p in MEMBER_GUARDS:
                    return MEMBER_GUARDS[p] if n["opcode"] == "!=" else f"(!{MEMBER_GUARDS[p]})"
        raise Unsupported("comparison in a condition")
    if k == "MemberExpr":
        p = member_path(n)
        if p in MEMBER_GUARDS: return MEMBER_GUARDS[p]
    if k == "UnaryOperator" and n["opcode"] == "!":
        return f"(!{guard(n['inner'][0])})"
    if k == "BinaryOperator" and n["opcode"] in ("&&", "||"):
        return f"({guard(n['inner'][0])} {n['opcode']} {guard(n['inner'][1])})"
    raise Unsupported(f"condition of kind {k}")


def calls_in(n, out):
    """events of the calls inside one expression statement, innermost first (arguments are evaluated before the call)"""
    n = strip(n)
    if n.get("kind") == "CallExpr":
        for a in n["inner"][1:]:
            calls_in(a, out)
        callee = strip(n["inner"][0])
        if callee.get("kind") == "DeclRefExpr":
            cn = callee["referencedDecl"]["name"]
            if cn == "cgreen_mocks_are":
                arg = strip(n["inner"][1]).get("referencedDecl", {}).get("name", "?")
                out.append("resetMode" if arg == "strict_mocks" else f"other \"cgreen_mocks_are({arg})\"")
            elif cn == "alarm":
                arg = strip(n["inner"][1])
                out.append("cancelTimer" if arg.get("kind") == "IntegerLiteral" and arg.get("value") == "0" else "armTimer")
            elif cn == "die_in":
                arg = strip(n["inner"][1])
                out.append("cancelTimer" if arg.get("kind") == "IntegerLiteral" and arg.get("value") == "0" else "armTimer")
            elif cn in ("run", "run_setup_for", "run_teardown_for") and strip(n["inner"][1]).get("referencedDecl", {}).get("name") != "spec":
                out.append(f'other "{cn}(something other than this test)"')
            elif cn in CALLS:
                if CALLS[cn]: out.append(CALLS[cn])
            else:
                out.append(f'other "{cn}"')
        else:
            p = member_path(callee)
            if p in MEMBER_CALLS: out.append(MEMBER_CALLS[p])
            else: out.append(f'other "{".".join(p) if p else "?"}"')
        return
    for c in n.get("inner", []) or []:
        calls_in(c, out)


def stmts(items):
    """-> Lean term : List Ev"""
    return seq(items)[0]


def seq(items):
    """statements -> (Lean term : List Ev, every path through them ends in a return)"""
    parts = []
    for idx, s in enumerate(items):
        k = s.get("kind")
        if k == "CompoundStmt":
            t, ret = seq(s.get("inner", []))
            parts.append(t)
            if ret: return "(" + " ++ ".join(parts) + ")", True
        elif k == "IfStmt":
            c = guard(s["inner"][0])
            th, thr = seq([s["inner"][1]])
            el, elr = seq([s["inner"][2]]) if s.get("hasElse") else ("[]", False)
            if thr or elr:
                # what follows the `if` is reached only on the branches that do not return
                rest, restr = seq(items[idx + 1:])
                a = th if thr else f"({th} ++ {rest})"
                b = el if elr else f"({el} ++ {rest})"
                parts.append(f"(if {c} then {a} else {b})")
                return "(" + " ++ ".join(parts) + ")", (thr or restr) and (elr or restr)
            parts.append(f"(if {c} then {th} else {el})")
        elif k in ("NullStmt",):
            pass
        elif k == "ReturnStmt":
            if s.get("inner"):
                evs = []
                calls_in(s["inner"][0], evs)
                if evs: parts.append("[" + ", ".join(fmt_ev(e) for e in evs) + "]")
            return ("(" + " ++ ".join(parts) + ")" if parts else "[]"), True
        elif k in ("DeclStmt", "WhileStmt", "ForStmt", "DoStmt", "SwitchStmt", "GotoStmt", "CXXTryStmt"):
            raise Unsupported(f"a {k} in run_the_test_code()")
        elif k == "CallExpr" and strip(s["inner"][0]).get("kind") == "DeclRefExpr" and strip(s["inner"][0])["referencedDecl"]["name"] in FUNCS \
                and strip(s["inner"][0])["referencedDecl"]["name"] not in CALLS and strip(s["inner"][0])["referencedDecl"]["name"] not in GUARDS \
                and strip(s["inner"][0])["referencedDecl"]["name"] not in ("cgreen_mocks_are", "alarm", "die_in", "run_the_test_code") and len(ALIASES) < 12:
            h = FUNCS[strip(s["inner"][0])["referencedDecl"]["name"]]
            saved = dict(ALIASES)
            for p_, a_ in zip([p_ for p_ in h.get("inner", []) if p_.get("kind") == "ParmVarDecl"], s["inner"][1:]):
                ap = member_path(a_)
                if ap and len(ap) == 1: ALIASES[p_["name"]] = ap[0]
            parts.append(seq(next(c for c in h["inner"] if c.get("kind") == "CompoundStmt").get("inner", []))[0])      # (a return ends the helper only)
            ALIASES.clear(); ALIASES.update(saved)
        else:
            evs = []
            calls_in(s, evs)
            if evs:
                parts.append("[" + ", ".join(fmt_ev(e) for e in evs) + "]")
    return ("(" + " ++ ".join(parts) + ")" if parts else "[]"), False


def fmt_ev(e):
    if e.startswith("other"): return ".other " + e[6:]
    if e.startswith("phase"): return ".phase " + e[6:]
    return "." + e


def generate():
    top = ast_of("src/runner.c").get("inner", [])
    FUNCS.clear(); ALIASES.clear()
    FUNCS.update({n["name"]: n for n in top if n.get("kind") == "FunctionDecl" and any(c.get("kind") == "CompoundStmt" for c in n.get("inner", []) or [])})
    fn = next((n for n in top if n.get("kind") == "FunctionDecl" and n.get("name") == "run_the_test_code" and any(c.get("kind") == "CompoundStmt" for c in n.get("inner", []) or [])), None)
    if fn is None: raise Unsupported("run_the_test_code: no definition in src/runner.c")
    body = next(c for c in fn["inner"] if c.get("kind") == "CompoundStmt")
    # the helpers that wrap a fixture or the body must still call what their name says
    for helper, member in (("run_setup_for", ("spec", "context", "setup")), ("run_teardown_for", ("spec", "context", "teardown")), ("run", ("spec", "run"))):
        h = next((n for n in top if n.get("kind") == "FunctionDecl" and n.get("name") == helper and any(c.get("kind") == "CompoundStmt" for c in n.get("inner", []) or [])), None)
        if h is None: raise Unsupported(f"{helper}: no definition")
        found = []
        def walk(n):
            if isinstance(n, dict):
                if n.get("kind") == "CallExpr":
                    p = member_path(strip(n["inner"][0]))
                    if p: found.append(p)
                for c in n.get("inner", []) or []: walk(c)
        walk(h)
        if found.count(member) != 1 or any(p != member and p[:1] in (("spec",), ("suite",)) for p in found):
            raise Unsupported(f"{helper}() calls {found}, expected exactly one call of {'->'.join(member)}")
    return "def trace (su td cs ct tmo : Bool) : List Ev :=\n  " + stmts(body.get("inner", []))


def render():
    head = ("import CgreenModel.Model.Runner\n/-! GENERATED by translate/phases.py from /repo's working tree: what `run_the_test_code()` goes through. -/\n"
            "set_option linter.unusedVariables false\nnamespace Cgreen.Gen.Phases\nopen Cgreen\n\n"
            "inductive Ev | resetFigs | resetMode | resetMocks | armTimer | cancelTimer | phase (p : Phase) | other (name : String)\n  deriving DecidableEq, Repr\n\n")
    obligations = open(os.path.join(HERE, "phases_obligations.lean")).read()
    thms = re.findall(r"^theorem (\S+)", obligations, re.M)
    try:
        defs = generate()
    except Unsupported as e:
        return head + "end Cgreen.Gen.Phases\n", thms, [("run_the_test_code", str(e))]
    except (KeyError, StopIteration, IndexError, TypeError) as e:
        return head + "end Cgreen.Gen.Phases\n", thms, [("run_the_test_code", f"unexpected shape of the syntax tree ({type(e).__name__}: {e})")]
    text = head + defs + "\n\n" + obligations + "\nend Cgreen.Gen.Phases\n" + "".join(f"#print axioms Cgreen.Gen.Phases.{t}\n" for t in thms)
    return text, thms, []


if __name__ == "__main__":
    t, thms, problems = render()
    sys.stdout.write(t)
    for site, why in problems: print("-- PROBLEM:", why)
