/-! ### Obligations (fixed text, `translate/comparators_obligations.lean`): every function rendered above from the C equals the
function of `Model/Compare.lean` that the theorems of `Props/C05.lean` are about. The proofs unfold the rendered function, rewrite
the calls of other rendered functions by the obligations already proved, and close what is left by `simp` over the model's
definitions and `omega` over the `wrap`s - so that they do not depend on how the C happens to be written. -/
namespace Gen
open Cgreen.Cmp

def argsInt (e a : Word) : CSem.Args := { eInt := e.toInt, aInt := a.toInt }
def argsStr (e a : CStr) : CSem.Args := { eStr := e, aStr := a }
def argsMem (e : List UInt8) (a : Option (List UInt8)) (size : Nat) : CSem.Args := { eMem := e, aMem := a, size := size }

theorem toInt_beq (e a : Word) : (e.toInt == a.toInt) = (e == a) := by
  rw [Bool.eq_iff_iff]; simp [BitVec.toInt_inj]
theorem toInt_bne (e a : Word) : (e.toInt != a.toInt) = (e != a) := by
  simp [bne, toInt_beq]
theorem toInt_lt (e a : Word) : decide (e.toInt < a.toInt) = e.slt a := by
  rw [Bool.eq_iff_iff]; simp only [BitVec.slt]; first | done | exact decide_eq_true_iff.trans decide_eq_true_iff.symm
theorem toInt_gt (e a : Word) : decide (e.toInt > a.toInt) = a.slt e := toInt_lt a e
theorem toInt_le (e a : Word) : decide (e.toInt ≤ a.toInt) = !(a.slt e) := by
  rw [← toInt_lt]; rw [Bool.eq_iff_iff]; simp
theorem toInt_ge (e a : Word) : decide (e.toInt ≥ a.toInt) = !(e.slt a) := toInt_le a e

/-- closes a goal between Booleans left after unfolding: the model's definitions on one side, the C's spelling on the other -/
macro "cmp_close" : tactic => `(tactic| first
  | rfl
  | (simp [argsInt, argsStr, argsMem, toInt_beq, toInt_bne, toInt_lt, toInt_gt, toInt_le, toInt_ge, wantValue, doNotWantValue, wantGreater, wantLesser,
      stringsAreEqual, stringContains, strcmpEq, CSem.strcmp_beq, CSem.strstr, CSem.memcmp_beq, CSem.memcmp_beq', wantContents, doNotWantContents,
      wantBeginning, doNotWantBeginning, doNotWantEnd, StrC.eval, CSem.strcmp_beq']; done)
  | (rw [Bool.eq_iff_iff]; simp [argsInt, argsStr, argsMem, toInt_beq, toInt_bne, toInt_lt, toInt_gt, toInt_le, toInt_ge, wantValue, doNotWantValue, wantGreater, wantLesser,
      stringsAreEqual, stringContains, strcmpEq, CSem.strcmp_beq, CSem.strstr, CSem.memcmp_beq, CSem.memcmp_beq', wantContents, doNotWantContents,
      wantBeginning, doNotWantBeginning, doNotWantEnd, StrC.eval, CSem.strcmp_beq', CSem.wrap] <;> omega))

-- @needs strings_are_equal
theorem strings_are_equal_is_model (a e : Option CStr) : Gen.strings_are_equal a e = stringsAreEqual a e := by
  cases a <;> cases e <;> simp only [Gen.strings_are_equal] <;> cmp_close

-- @needs string_contains
theorem string_contains_is_model (a e : Option CStr) : Gen.string_contains a e = stringContains a e := by
  cases a <;> cases e <;> simp only [Gen.string_contains] <;> cmp_close

-- @needs compare_want_value
theorem compare_want_value_is_model (e a : Word) : Gen.compare_want_value (argsInt e a) = wantValue e a := by
  simp only [Gen.compare_want_value]; cmp_close

-- @needs compare_want_value compare_do_not_want_value
theorem compare_do_not_want_value_is_model (e a : Word) : Gen.compare_do_not_want_value (argsInt e a) = doNotWantValue e a := by
  simp only [Gen.compare_do_not_want_value, compare_want_value_is_model]; cmp_close

-- @needs compare_want_greater_value
theorem compare_want_greater_value_is_model (e a : Word) : Gen.compare_want_greater_value (argsInt e a) = wantGreater e a := by
  simp only [Gen.compare_want_greater_value]; cmp_close

-- @needs compare_want_lesser_value
theorem compare_want_lesser_value_is_model (e a : Word) : Gen.compare_want_lesser_value (argsInt e a) = wantLesser e a := by
  simp only [Gen.compare_want_lesser_value]; cmp_close

-- @needs compare_want_contents
theorem compare_want_contents_is_model (e : List UInt8) (a : Option (List UInt8)) (size : Nat) :
    Gen.compare_want_contents (argsMem e a size) = wantContents e a size := by
  cases a <;> simp only [Gen.compare_want_contents] <;> cmp_close

-- @needs compare_want_contents compare_do_not_want_contents
theorem compare_do_not_want_contents_is_model (e : List UInt8) (a : Option (List UInt8)) (size : Nat) :
    Gen.compare_do_not_want_contents (argsMem e a size) = doNotWantContents e a size := by
  cases a <;> simp only [Gen.compare_do_not_want_contents, compare_want_contents_is_model] <;> cmp_close

-- @needs strings_are_equal compare_want_string
theorem compare_want_string_is_model (e a : CStr) : Gen.compare_want_string (argsStr e a) = StrC.eval .isEqualToString a e := by
  simp only [Gen.compare_want_string, argsStr, strings_are_equal_is_model]; cmp_close

-- @needs strings_are_equal compare_want_string compare_do_not_want_string
theorem compare_do_not_want_string_is_model (e a : CStr) : Gen.compare_do_not_want_string (argsStr e a) = StrC.eval .isNotEqualToString a e := by
  first
  | (simp only [Gen.compare_do_not_want_string, compare_want_string_is_model]; cmp_close)
  | (simp only [Gen.compare_do_not_want_string, argsStr, strings_are_equal_is_model]; cmp_close)

-- @needs string_contains compare_want_substring
theorem compare_want_substring_is_model (e a : CStr) : Gen.compare_want_substring (argsStr e a) = StrC.eval .containsString a e := by
  simp only [Gen.compare_want_substring, argsStr, string_contains_is_model]; cmp_close

-- @needs string_contains compare_want_substring compare_do_not_want_substring
theorem compare_do_not_want_substring_is_model (e a : CStr) : Gen.compare_do_not_want_substring (argsStr e a) = StrC.eval .doesNotContainString a e := by
  first
  | (simp only [Gen.compare_do_not_want_substring, compare_want_substring_is_model]; cmp_close)
  | (simp only [Gen.compare_do_not_want_substring, argsStr, string_contains_is_model]; cmp_close)

-- @needs strpos
theorem strpos_is_model (h n : CStr) : Gen.strpos h n = (Cgreen.Cmp.strpos h n : Int) := by
  unfold Gen.strpos Cgreen.Cmp.strpos CSem.strstr
  cases hs : Cgreen.Cmp.strstr h n with
  | none => show Cgreen.Gen.NOT_FOUND = ((Cgreen.Cmp.NOT_FOUND : Nat) : Int); decide
  | some off => simp [CSem.wrap, toU32]

-- @needs strpos compare_want_beginning_of_string
theorem compare_want_beginning_of_string_is_model (e a : CStr) : Gen.compare_want_beginning_of_string (argsStr e a) = wantBeginning e a := by
  simp only [Gen.compare_want_beginning_of_string, argsStr, strpos_is_model]; cmp_close

-- @needs strpos compare_want_beginning_of_string compare_do_not_want_beginning_of_string
theorem compare_do_not_want_beginning_of_string_is_model (e a : CStr) : Gen.compare_do_not_want_beginning_of_string (argsStr e a) = doNotWantBeginning e a := by
  first
  | (simp only [Gen.compare_do_not_want_beginning_of_string, compare_want_beginning_of_string_is_model]; cmp_close)
  | (simp only [Gen.compare_do_not_want_beginning_of_string, argsStr, strpos_is_model]; cmp_close)

-- @needs compare_want_end_of_string
theorem compare_want_end_of_string_is_model (e a : CStr) : Gen.compare_want_end_of_string (argsStr e a) = wantEnd e a := by
  have hs : CSem.wrap 32 true (CSem.wrap 64 false (CSem.strlen a - CSem.wrap 64 false (CSem.wrap 32 true (CSem.strlen e)))) = toI32 (toI32 (a.length : Int) - toI32 (e.length : Int)) := by
    simp only [CSem.wrap, CSem.strlen, toI32]; simp; omega
  simp only [Gen.compare_want_end_of_string, argsStr, wantEnd, hs]
  generalize toI32 (toI32 (a.length : Int) - toI32 (e.length : Int)) = start
  by_cases hx : start < 0
  · have h1 : ¬ (0 ≤ start) := by omega
    have h2 : ¬ (start ≥ 0) := by omega
    simp [hx, h1, h2]
  · have h1 : 0 ≤ start := by omega
    have h2 : start ≥ 0 := by omega
    simp [hx, h1, h2, CSem.suffix, CSem.strcmp_beq, CSem.strcmp_beq', strcmpEq]

-- @needs compare_want_end_of_string compare_do_not_want_end_of_string
theorem compare_do_not_want_end_of_string_is_model (e a : CStr) : Gen.compare_do_not_want_end_of_string (argsStr e a) = doNotWantEnd e a := by
  simp only [Gen.compare_do_not_want_end_of_string, compare_want_end_of_string_is_model]; cmp_close

end Gen
