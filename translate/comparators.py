#!/usr/bin/env python3
"""Translator for C05: renders the comparator functions of /repo's current sources (src/constraint.c `compare_*`, `strpos`;
src/string_comparison.c) from their clang-14 JSON AST into Lean definitions over `Cgreen.CSem` (every integer conversion and
every arithmetic operation the AST shows becomes an explicit `wrap`), followed by a fixed block of obligations: each generated
function equals the hand-written model function (`Model/Compare.lean`) that the C05 theorems are about.  Lean checks the file on
every run; a function the translator cannot render is reported as a problem (the obligation is then not shown to hold)."""
import json, os, subprocess, sys

REPO = os.environ.get("VERIF_REPO", "/repo")
HERE = os.path.dirname(os.path.abspath(__file__))

FUNCS = [("src/string_comparison.c", "strings_are_equal"), ("src/string_comparison.c", "string_contains"),
         ("src/constraint.c", "compare_want_value"), ("src/constraint.c", "compare_do_not_want_value"),
         ("src/constraint.c", "compare_want_greater_value"), ("src/constraint.c", "compare_want_lesser_value"),
         ("src/constraint.c", "compare_want_contents"), ("src/constraint.c", "compare_do_not_want_contents"),
         ("src/constraint.c", "compare_want_string"), ("src/constraint.c", "compare_do_not_want_string"),
         ("src/constraint.c", "compare_want_substring"), ("src/constraint.c", "compare_do_not_want_substring"),
         ("src/constraint.c", "strpos"),
         ("src/constraint.c", "compare_want_beginning_of_string"), ("src/constraint.c", "compare_do_not_want_beginning_of_string"),
         ("src/constraint.c", "compare_want_end_of_string"), ("src/constraint.c", "compare_do_not_want_end_of_string")]


class Unsupported(Exception):
    pass


def ast_of(path):
    cmd = ["clang-14", "-Xclang", "-ast-dump=json", "-fsyntax-only", "-w", f"-I{REPO}", f"-I{REPO}/include", f"-I{REPO}/src",
           "-I/usr/include/libxml2", '-DVERSION="x"', os.path.join(REPO, path)]
    return json.loads(subprocess.run(cmd, stdout=subprocess.PIPE, stderr=subprocess.DEVNULL).stdout)


INT_TYPES = {"int": (32, True), "unsigned int": (32, False), "long": (64, True), "unsigned long": (64, False), "intptr_t": (64, True),
             "size_t": (64, False), "ptrdiff_t": (64, True), "long long": (64, True), "unsigned long long": (64, False), "uintptr_t": (64, False),
             "unsigned char": (8, False), "char": (8, True), "signed char": (8, True), "short": (16, True), "unsigned short": (16, False)}


def ctype(n):
    t = n.get("type", {})
    q = t.get("desugaredQualType") or t.get("qualType", "")
    return q.replace("const ", "").strip()


def int_type(n):
    t = ctype(n)
    if t in INT_TYPES:
        return INT_TYPES[t]
    q = n.get("type", {}).get("qualType", "").replace("const ", "").strip()
    if q in INT_TYPES:
        return INT_TYPES[q]
    return None


def is_pointer(n):
    return ctype(n).endswith("*")


class Fn:
    """One function being translated: its parameters (name -> kind) and the locals bound so far."""
    def __init__(self, name, decl, globals_, known):
        self.name, self.decl, self.globals, self.known = name, decl, globals_, known
        self.params = [p for p in decl.get("inner", []) if p.get("kind") == "ParmVarDecl"]
        self.is_compare = [ctype(p) for p in self.params] == ["Constraint *", "CgreenValue"]
        self.locals = {}
        self.ensure = None
        self.null_tested = set()
        if not self.is_compare:
            body = next(c for c in decl["inner"] if c.get("kind") == "CompoundStmt")
            self._find_null_tests(body)

    def _find_null_tests(self, n):
        if isinstance(n, dict):
            if n.get("kind") == "BinaryOperator" and n.get("opcode") in ("==", "!="):
                a, b = n["inner"]
                for x, y in ((a, b), (b, a)):
                    if is_null(y):
                        r = strip_casts(x)
                        if r.get("kind") == "DeclRefExpr" and r["referencedDecl"]["kind"] == "ParmVarDecl":
                            self.null_tested.add(r["referencedDecl"]["name"])
            for c in n.get("inner", []) or []:
                self._find_null_tests(c)

    def param_kind(self, p):
        t = ctype(p)
        if t == "char *":
            return "optstr" if p["name"] in self.null_tested else "str"
        if int_type(p):
            return "int"
        raise Unsupported(f"{self.name}: parameter {p.get('name')} of type {t}")

    def signature(self):
        if self.is_compare:
            return "(c : CSem.Args)"
        parts = []
        for p in self.params:
            k = self.param_kind(p)
            parts.append(f"({p['name']} : {'Option CStr' if k == 'optstr' else 'CStr' if k == 'str' else 'Int'})")
        return " ".join(parts)

    def return_type(self):
        rt = self.decl["type"]["qualType"].split("(")[0].strip()
        if rt in ("bool", "_Bool"):
            return "Bool"
        if rt.replace("const ", "") in INT_TYPES:
            return "Int"
        raise Unsupported(f"{self.name}: return type {rt}")


def strip_casts(n):
    while n.get("kind") in ("ImplicitCastExpr", "ParenExpr", "CStyleCastExpr") and n.get("inner"):
        n = n["inner"][0]
    return n


def is_null(n):
    m = strip_casts(n)
    if m.get("kind") == "GNUNullExpr":
        return True
    if m.get("kind") == "IntegerLiteral" and m.get("value") == "0" and is_pointer(n):
        return True
    return False


def member_path(n):
    """constraint->expected_value.value.string_value -> ['constraint', 'expected_value', 'value', 'string_value']"""
    path = []
    while n.get("kind") == "MemberExpr":
        path.append(n["name"]); n = strip_casts(n["inner"][0])
    if n.get("kind") == "DeclRefExpr":
        path.append(n["referencedDecl"]["name"])
        return list(reversed(path))
    return None


ARGS = {("constraint", "expected_value", "value", "integer_value"): ("c.eInt", "int"), ("actual", "value", "integer_value"): ("c.aInt", "int"),
        ("constraint", "expected_value", "value", "string_value"): ("c.eStr", "str"), ("actual", "value", "string_value"): ("c.aStr", "str"),
        ("constraint", "expected_value", "value", "pointer_value"): ("c.eMem", "mem"), ("constraint", "size_of_expected_value"): ("c.size", "int")}


def as_bool(txt, kind):
    if kind == "bool":
        return txt
    if kind == "int":
        return f"({txt} != 0)"
    if kind == "optstr" or kind == "optmem" or kind.startswith("into:"):
        return f"({txt}).isSome"
    raise Unsupported("truth value of a " + kind)


def as_int(txt, kind):
    if kind == "int":
        return txt
    if kind == "bool":
        return f"(if {txt} then 1 else 0)"
    raise Unsupported("integer value of a " + kind)


def expr(f, n):
    """-> (Lean text, kind); kinds: int, bool, str (non-null string), optstr, mem (non-null block), optmem, into:<base> (Option Nat: offset into string <base>)"""
    k = n.get("kind")
    if k == "ParenExpr":
        return expr(f, n["inner"][0])
    if k == "ImplicitCastExpr" or k == "CStyleCastExpr":
        ck = n.get("castKind")
        inner = n["inner"][0]
        if ck in ("LValueToRValue", "NoOp", "FunctionToPointerDecay", "ArrayToPointerDecay", "BitCast"):
            return expr(f, inner)
        if ck == "IntegralCast":
            t, kind = expr(f, inner)
            it = int_type(n)
            if ctype(n) in ("bool", "_Bool"):
                return as_bool(t, kind), "bool"
            if not it:
                raise Unsupported(f"{f.name}: conversion to {ctype(n)}")
            src = int_type(inner)
            t = as_int(t, kind)
            if src and src == it:
                return t, "int"
            return f"(CSem.wrap {it[0]} {'true' if it[1] else 'false'} {t})", "int"
        if ck in ("IntegralToBoolean", "PointerToBoolean"):
            t, kind = expr(f, inner)
            return as_bool(t, kind), "bool"
        if ck == "IntegralToPointer":
            # the one use: `(void *)actual.value.integer_value`, the actual value read as a pointer to a block of memory
            p = member_path(strip_casts(inner))
            if p and tuple(p) == ("actual", "value", "integer_value"):
                return "c.aMem", "optmem"
            raise Unsupported(f"{f.name}: an integer used as a pointer")
        if ck == "NullToPointer":
            return "none", "null"
        raise Unsupported(f"{f.name}: cast {ck}")
    if k == "GNUNullExpr":
        return "none", "null"
    if k == "IntegerLiteral":
        return f"({n['value']} : Int)", "int"
    if k == "CXXBoolLiteralExpr":
        return ("true" if n.get("value") else "false"), "bool"
    if k == "DeclRefExpr":
        d = n["referencedDecl"]
        nm = d["name"]
        if d["kind"] == "ParmVarDecl":
            if f.is_compare:
                raise Unsupported(f"{f.name}: parameter {nm} used as a whole")
            p = next(p for p in f.params if p["name"] == nm)
            return nm, f.param_kind(p)
        if d["kind"] == "VarDecl":
            if nm in f.locals:
                return f.locals[nm]
            if nm in f.globals:
                return f"Gen.{nm}", "int"
        raise Unsupported(f"{f.name}: reference to {nm}")
    if k == "MemberExpr":
        p = member_path(n)
        if p and tuple(p) in ARGS and f.is_compare:
            return ARGS[tuple(p)]
        raise Unsupported(f"{f.name}: member access {p}")
    if k == "UnaryOperator":
        op = n["opcode"]
        if op == "!":
            t, kind = expr(f, n["inner"][0])
            return f"(!{as_bool(t, kind)})", "bool"
        if op == "-":
            t, kind = expr(f, n["inner"][0])
            it = int_type(n)
            return f"(CSem.wrap {it[0]} {'true' if it[1] else 'false'} (-{as_int(t, kind)}))", "int"
        if op == "&":
            sub = strip_casts(n["inner"][0])
            if sub.get("kind") == "ArraySubscriptExpr":
                b, bk = expr(f, sub["inner"][0]); i, ik = expr(f, sub["inner"][1])
                if bk == "str":
                    return f"(CSem.suffix {b} {as_int(i, ik)})", "str"
        raise Unsupported(f"{f.name}: unary {op}")
    if k == "BinaryOperator":
        op = n["opcode"]
        a, b = n["inner"]
        if op in ("&&", "||"):
            ta, ka = expr(f, a); tb, kb = expr(f, b)
            return f"({as_bool(ta, ka)} {op} {as_bool(tb, kb)})", "bool"
        if op in ("==", "!="):
            for x, y in ((a, b), (b, a)):
                if is_null(y):
                    t, kind = expr(f, x)
                    if kind in ("optstr", "optmem") or kind.startswith("into:"):
                        return (f"({t}).isNone" if op == "==" else f"({t}).isSome"), "bool"
                    raise Unsupported(f"{f.name}: comparison of a {kind} with NULL")
        if op in ("==", "!=", "<", ">", "<=", ">="):
            ta, ka = expr(f, a); tb, kb = expr(f, b)
            if ka == "bool" and kb == "bool" and op in ("==", "!="):
                return f"({ta} {op} {tb})", "bool"
            ta, tb = as_int(ta, ka), as_int(tb, kb)
            if op in ("==", "!="):
                return f"({ta} {op} {tb})", "bool"
            lop = {"<": "<", ">": ">", "<=": "≤", ">=": "≥"}[op]
            return f"(decide ({ta} {lop} {tb}))", "bool"
        if op in ("+", "-", "*"):
            ta, ka = expr(f, a); tb, kb = expr(f, b)
            if op == "-" and ka.startswith("into:") and kb == "str" and ka == "into:" + tb:
                return f"((({ta}).getD 0 : Nat) : Int)", "int"          # pointer difference inside one string
            if op == "+" and ka == "str" and kb == "int":
                return f"(CSem.suffix {ta} {tb})", "str"            # pointer into a string, moved forward
            if op == "+" and kb == "str" and ka == "int":
                return f"(CSem.suffix {tb} {ta})", "str"
            it = int_type(n)
            if not it:
                raise Unsupported(f"{f.name}: arithmetic in type {ctype(n)}")
            return f"(CSem.wrap {it[0]} {'true' if it[1] else 'false'} ({as_int(ta, ka)} {op} {as_int(tb, kb)}))", "int"
        raise Unsupported(f"{f.name}: binary {op}")
    if k == "ConditionalOperator":
        c, a, b = n["inner"]
        tc, kc = expr(f, c); ta, ka = expr(f, a); tb, kb = expr(f, b)
        if ka != kb:
            raise Unsupported(f"{f.name}: branches of ?: of different kinds")
        return f"(if {as_bool(tc, kc)} then {ta} else {tb})", ka
    if k == "CallExpr":
        callee = strip_casts(n["inner"][0])
        if callee.get("kind") != "DeclRefExpr":
            raise Unsupported(f"{f.name}: indirect call")
        cn = callee["referencedDecl"]["name"]
        if cn not in f.known and f.ensure is not None and cn not in ("strlen", "strcmp", "memcmp", "strstr"):
            try: f.ensure(cn)
            except Unsupported: pass
        if cn in f.known and f.known[cn].is_compare:
            if not f.is_compare or [strip_casts(a).get("referencedDecl", {}).get("name") for a in n["inner"][1:]] != ["constraint", "actual"]:
                raise Unsupported(f"{f.name}: call of {cn} with other arguments than its own")
            return f"(Gen.{cn} c)", "bool" if f.known[cn].return_type() == "Bool" else "int"
        args = [expr(f, a) for a in n["inner"][1:]]
        def need(i, kind):
            t, kd = args[i]
            if kd == kind: return t
            if kind == "mem" and kd == "optmem": return f"(({t}).getD [])"      # (only reached behind the NULL test)
            if kind == "optstr" and kd == "str": return f"(some {t})"
            if kind == "str" and kd == "optstr": return f"(({t}).getD [])"      # (only reached behind the NULL test)
            if kind == "int": return as_int(t, kd)
            raise Unsupported(f"{f.name}: argument {i} of {cn} is a {kd}, not a {kind}")
        if cn == "strlen":
            return f"(CSem.strlen {need(0, 'str')})", "int"
        if cn == "strcmp":
            return f"(CSem.strcmp {need(0, 'str')} {need(1, 'str')})", "int"
        if cn == "memcmp":
            return f"(CSem.memcmp {need(0, 'mem')} {need(1, 'mem')} {need(2, 'int')})", "int"
        if cn == "strstr":
            return f"(CSem.strstr {need(0, 'str')} {need(1, 'str')})", "into:" + need(0, "str")
        if cn not in f.known and f.ensure is not None:
            f.ensure(cn)            # a helper function of the same translation unit: rendered as well (and unfolded by `simp` in the obligations)
        if cn in f.known:
            g = f.known[cn]
            if g.is_compare:
                return f"(Gen.{cn} c)", "bool" if g.return_type() == "Bool" else "int"
            ts = [need(i, g.param_kind(p)) for i, p in enumerate(g.params)]
            return f"(Gen.{cn} {' '.join(ts)})", "bool" if g.return_type() == "Bool" else "int"
        raise Unsupported(f"{f.name}: call of {cn}")
    raise Unsupported(f"{f.name}: expression {k}")


def ret(f, n):
    t, kind = expr(f, n)
    return as_bool(t, kind) if f.return_type() == "Bool" else as_int(t, kind)


def stmts(f, items, indent):
    """A statement list that ends by returning on every path -> Lean term"""
    pad = "  " * indent
    if not items:
        raise Unsupported(f"{f.name}: a path without return")
    s, rest = items[0], items[1:]
    k = s.get("kind")
    if k == "ReturnStmt":
        return pad + ret(f, s["inner"][0])
    if k == "DeclStmt":
        out = []
        for v in s["inner"]:
            if v.get("kind") != "VarDecl" or not v.get("inner"):
                raise Unsupported(f"{f.name}: declaration without initialiser")
            t, kind = expr(f, v["inner"][0])
            it = int_type(v)
            if kind == "int" and not it:
                raise Unsupported(f"{f.name}: local {v['name']} of type {ctype(v)}")
            f.locals[v["name"]] = (v["name"], kind)
            out.append(f"{pad}let {v['name']} := {t}")
        return "\n".join(out) + "\n" + stmts(f, rest, indent)
    if k == "IfStmt":
        parts = s["inner"]
        c, kc = expr(f, parts[0])
        then = parts[1]["inner"] if parts[1].get("kind") == "CompoundStmt" else [parts[1]]
        saved = dict(f.locals)
        tt = stmts(f, then, indent + 1)
        f.locals = dict(saved)
        if s.get("hasElse"):
            els = parts[2]["inner"] if parts[2].get("kind") == "CompoundStmt" else [parts[2]]
            et = stmts(f, els + rest, indent + 1)
        else:
            et = stmts(f, rest, indent + 1)
        return f"{pad}if {as_bool(c, kc)} then\n{tt}\n{pad}else\n{et}"
    if k == "CompoundStmt":
        return stmts(f, s.get("inner", []) + rest, indent)
    if k == "NullStmt":
        return stmts(f, rest, indent)
    raise Unsupported(f"{f.name}: statement {k}")


def const_global(name, decl, fn):
    if not decl.get("inner"):
        raise Unsupported(f"global {name} without initialiser")
    t, kind = expr(fn, decl["inner"][0])
    return f"def Gen.{name} : Int := {as_int(t, kind)}"


def generate():
    """-> (Lean text of the generated definitions, names translated, problems)"""
    asts = {}
    out, done, problems = [], [], []
    known = {}
    roots = {n for _, n in FUNCS}

    def tu(path):
        if path not in asts:
            asts[path] = ast_of(path)
        return asts[path].get("inner", [])

    def translate(path, name, helper):
        top = tu(path)
        decl = next((n for n in top if n.get("kind") == "FunctionDecl" and n.get("name") == name and any(c.get("kind") == "CompoundStmt" for c in n.get("inner", []) or [])), None)
        if decl is None:
            raise Unsupported(f"{name}: no definition in {path}")
        globs = {n["name"]: n for n in top if n.get("kind") == "VarDecl" and n.get("inner") and "const" in n.get("type", {}).get("qualType", "")}
        f = Fn(name, decl, globs, known)
        in_progress.add(name)
        def ensure(callee):
            if callee in known or callee in in_progress:
                return
            for pth in [path] + [p_ for p_ in ("src/constraint.c", "src/string_comparison.c") if p_ != path]:
                if any(n.get("kind") == "FunctionDecl" and n.get("name") == callee and any(c.get("kind") == "CompoundStmt" for c in n.get("inner", []) or []) for n in tu(pth)):
                    translate(pth, callee, callee not in roots)
                    return
            raise Unsupported(f"{name}: call of {callee}, which is not defined in these sources")
        f.ensure = ensure
        body = next(c for c in decl["inner"] if c.get("kind") == "CompoundStmt")
        used = set()
        def walk(n):
            if isinstance(n, dict):
                if n.get("kind") == "DeclRefExpr" and n["referencedDecl"]["kind"] == "VarDecl" and n["referencedDecl"]["name"] in globs: used.add(n["referencedDecl"]["name"])
                for c in n.get("inner", []) or []: walk(c)
        walk(body)
        pre = []
        for g in sorted(used):
            if ("global", g) not in done:
                pre.append(const_global(g, globs[g], f)); done.append(("global", g))
        text = f"def Gen.{name} {f.signature()} : {f.return_type()} :=\n" + stmts(f, body.get("inner", []), 1)
        if helper:
            text += f"\nattribute [local simp] Gen.{name}"
        out.extend(pre + [text])
        known[name] = f
        in_progress.discard(name)
        done.append(("fn", name))

    in_progress = set()
    for path, name in FUNCS:
        if name in known:
            continue
        try:
            in_progress.clear()
            translate(path, name, False)
        except Unsupported as e:
            problems.append(str(e))
        except (KeyError, StopIteration, IndexError) as e:
            problems.append(f"{name}: unexpected shape of the syntax tree ({type(e).__name__}: {e})")
    return "\n\n".join(out), [n for k, n in done if k == "fn"], problems


def render():
    defs, names, problems = generate()
    head = ("import CgreenModel.Lemmas.CSem\n/-! GENERATED by translate/comparators.py from /repo's working tree - the comparator functions as the C writes them. -/\n"
            "set_option linter.unusedVariables false\nnamespace Cgreen\nopen Cgreen.Cmp (CStr)\n\n")
    obligations = open(os.path.join(HERE, "comparators_obligations.lean")).read()
    # an obligation about a function that could not be rendered is left out (and reported as not shown by the caller)
    blocks = obligations.split("\n-- @needs ")
    kept = [blocks[0]]
    thms = []
    for b in blocks[1:]:
        first, _, rest = b.partition("\n")
        needs = first.split()
        if all(n in names for n in needs):
            kept.append(rest)
    text = head + defs + "\n\n" + "\n".join(kept) + "\nend Cgreen\n"
    import re
    all_thms = re.findall(r"^theorem (\S+)", obligations, re.M)
    thms = re.findall(r"^theorem (\S+)", text, re.M)
    text += "".join(f"#print axioms Cgreen.Gen.{t}\n" for t in thms)
    # every obligation of the fixed block is reported: one whose function could not be rendered has no `#print axioms` line and does not check
    return text, all_thms, [(p_.split(":")[0], p_) for p_ in problems]


if __name__ == "__main__":
    t, thms, problems = render()
    sys.stdout.write(t)
    for site, why in problems:
        print("-- PROBLEM:", why)
