/* Correspondence harness for the mock expectation queue: executes operation lines (grammar in
 * lean/Driver/MocksDrv.lean) against the real mocks.c and prints, after every operation, what it
 * reported (checks attributed to declaration ids, returned value) and the pending queue (through the
 * CGREEN_VERIF dump hook).
 *
 *   mock_ops < ops   (blocks separated by lines "---"; every block starts from a fresh state)
 */
#include <cgreen/cgreen.h>
#include <cgreen/mocks.h>
#include <stdio.h>
#include <stdlib.h>
#include <string.h>
#include <stdint.h>

#ifdef __cplusplus
using namespace cgreen;
#endif

extern void cgreen_verif_dump_expectations(FILE *out);
extern CgreenTest *current_test;

static char outbuf[1 << 16];
static size_t outlen;

static void record(TestReporter *reporter, const char *file, int line, int result, const char *message, ...) {
    (void)reporter; (void)message;
    if (strcmp(file, "ops") == 0)
        outlen += snprintf(outbuf + outlen, sizeof outbuf - outlen, "%sc%d:%d", outlen ? " " : "", line, result ? 1 : 0);
    else
        outlen += snprintf(outbuf + outlen, sizeof outbuf - outlen, "%scU:%d", outlen ? " " : "", result ? 1 : 0);
}

/* the names are prefixes of one another: an expectation is found by the whole name */
static intptr_t f0(void) { return mock(); }
static intptr_t f1(intptr_t a_b) { return mock(a_b); }
/* parameter names that are prefixes of one another, in both orders */
static intptr_t f1_b(intptr_t a_b, intptr_t a) { return mock(a_b, a); }
static intptr_t f1_bc(intptr_t a_b, intptr_t a, intptr_t a_b_c) { return mock(a_b, a, a_b_c); }
#define f2 f1_b
#define f3 f1_bc
static const char *fnames[4] = { "f0", "f1", "f1_b", "f1_bc" };
static const char *pnames[3] = { "a_b", "a", "a_b_c" };

typedef struct { int g; intptr_t a[3]; } SideCall;
static SideCall side_pool[4096];
static int side_used;
static void side_callback(void *data) {
    SideCall *sc = (SideCall *)data;
    if (sc->g == 0) (void)f0(); else if (sc->g == 1) (void)f1(sc->a[0]); else if (sc->g == 2) (void)f2(sc->a[0], sc->a[1]); else (void)f3(sc->a[0], sc->a[1], sc->a[2]);
}

static CgreenTest dummy_test = { 0, &defaultContext, "unexpected", NULL, "unexpected-call", 0 };

int main(void) {
    static char line[1 << 16];
    TestReporter *reporter = create_reporter();
    reporter->assert_true = &record;
    setup_reporting(reporter);
    current_test = &dummy_test;
    int next_id = 0;
    cgreen_mocks_are(strict_mocks);
    while (fgets(line, sizeof line, stdin)) {
        line[strcspn(line, "\n")] = 0;
        if (!strcmp(line, "---")) {
            clear_mocks();
            cgreen_mocks_are(strict_mocks);
            next_id = 0;
            printf("---\n");
            continue;
        }
        if (!line[0]) continue;
        outlen = 0; outbuf[0] = 0;
        char *save;
        char *op = strtok_r(line, " ", &save);
        if (!strcmp(op, "mode")) {
            char *m = strtok_r(NULL, " ", &save);
            cgreen_mocks_are(!strcmp(m, "loose") ? loose_mocks : !strcmp(m, "learning") ? learning_mocks : strict_mocks);
        } else if (!strcmp(op, "tally")) {
            /* tally_mocks() prints learned mocks to stderr in learning mode; harmless */
            tally_mocks(reporter);
        } else if (!strcmp(op, "call")) {
            int f = atoi(strtok_r(NULL, " ", &save));
            intptr_t a[3] = { 0, 0, 0 };
            for (int i = 0; i < 3; i++) { char *t = strtok_r(NULL, " ", &save); if (t) a[i] = (intptr_t)strtoll(t, NULL, 10); }
            intptr_t r = f == 0 ? f0() : f == 1 ? f1(a[0]) : f == 2 ? f2(a[0], a[1]) : f3(a[0], a[1], a[2]);
            outlen += snprintf(outbuf + outlen, sizeof outbuf - outlen, "%sr%lld", outlen ? " " : "", (long long)r);
        } else {
            int f = atoi(strtok_r(NULL, " ", &save));
            Constraint *cs[40];
            int n = 0;
            for (char *t = strtok_r(NULL, " ", &save); t && n < 38; t = strtok_r(NULL, " ", &save)) {
                if (t[0] == 't') cs[n++] = times_(atoi(t + 1));
                else if (t[0] == 'r') cs[n++] = create_return_value_constraint((intptr_t)strtoll(t + 1, NULL, 10));
                else if (t[0] == 's') {
                    SideCall *sc = &side_pool[side_used++ % 4096];
                    memset(sc, 0, sizeof *sc);
                    char *colon = strchr(t, ':');
                    sc->g = atoi(t + 1);
                    if (colon) { int k = 0; for (char *p = colon + 1; *p && k < 3; k++) { sc->a[k] = (intptr_t)strtoll(p, &p, 10); if (*p == ',') p++; } }
                    cs[n++] = create_with_side_effect_constraint(&side_callback, sc);
                }
                else if (t[0] == 'w') {
                    int p; char cmp[8]; long long v;
                    sscanf(t + 1, "%d:%2s:%lld", &p, cmp, &v);
                    Constraint *c = !strcmp(cmp, "eq") ? create_equal_to_value_constraint((intptr_t)v, "v")
                                  : !strcmp(cmp, "ne") ? create_not_equal_to_value_constraint((intptr_t)v, "v")
                                  : !strcmp(cmp, "lt") ? create_less_than_value_constraint((intptr_t)v, "v")
                                  : create_greater_than_value_constraint((intptr_t)v, "v");
                    cs[n++] = when_(pnames[p], c);
                }
            }
            while (n < 40) cs[n++] = NULL;
            int id = next_id++;
#define ALL cs[0],cs[1],cs[2],cs[3],cs[4],cs[5],cs[6],cs[7],cs[8],cs[9],cs[10],cs[11],cs[12],cs[13],cs[14],cs[15],cs[16],cs[17],cs[18],cs[19], \
            cs[20],cs[21],cs[22],cs[23],cs[24],cs[25],cs[26],cs[27],cs[28],cs[29],cs[30],cs[31],cs[32],cs[33],cs[34],cs[35],cs[36],cs[37],cs[38],cs[39]
            if (!strcmp(op, "expect")) expect_(reporter, fnames[f], "ops", id, ALL, (Constraint *)0);
            else if (!strcmp(op, "always")) always_expect_(reporter, fnames[f], "ops", id, ALL, (Constraint *)0);
            else never_expect_(reporter, fnames[f], "ops", id, ALL, (Constraint *)0);
        }
        printf("out %s | q ", outbuf);
        cgreen_verif_dump_expectations(stdout);
        printf("\n");
    }
    printf("---\n");
    fflush(stdout);
    return 0;
}
