/* Correspondence harness for C12: values through mocks, in an ASan build with guard bytes.
 *   ret <v>            will_return(v)                       -> returned value (served once and under always_expect twice)
 *   retd <hexbits>     will_return_double(d) + unbox_double  -> bits
 *   box <hexbits>      unbox_double(box_double(d))           -> bits
 *   byval <size> <hex> will_return_by_value(struct, size), served three times by one expectation -> hex of each copy
 *   setc <bufsize> <offset> <size> <hexsrc>  will_set_contents_of_output_parameter -> the whole buffer (0xAA filled) in hex
 *   cap <size> <v>     will_capture_parameter into a 1/2/4/8-byte variable between guards -> guards+variable in hex
 *   capn <pos> <v0> <v1> <v2> <v3>  capture of parameter number pos of a 4-ary mock whose names are prefixes of one another
 */
#include <cgreen/cgreen.h>
#include <cgreen/mocks.h>
#include <stdio.h>
#include <stdlib.h>
#include <string.h>
#include <stdint.h>
#include <stdarg.h>
#ifdef __cplusplus
using namespace cgreen;
#endif
static int nfail;
static void capture(TestReporter *r, const char *f, int l, int result, const char *m, ...) { (void)r;(void)f;(void)l;(void)m; if (!result) nfail++; }
static intptr_t f_ret(void) { return mock(); }
static void *f_ptr(void) { return (void *)mock(); }
static void f_out(void *out) { mock(out); }
static void f_cap(intptr_t v) { mock(v); }
static intptr_t f_capr(intptr_t v) { return mock(v); }
static void f_two(double a, double b) { mock(box_double(a), box_double(b)); }
static void f_cap4(intptr_t n, intptr_t next, intptr_t nex, intptr_t xn) { mock(n, next, nex, xn); }
extern CgreenTest *current_test;
static CgreenTest dummy = { 0, &defaultContext, "t", NULL, "f", 1 };
static size_t unhex(const char *h, unsigned char *out) { size_t n = 0; if (!strcmp(h, "-")) return 0; while (h[0] && h[1]) { unsigned v; sscanf(h, "%2x", &v); out[n++] = (unsigned char)v; h += 2; } return n; }
static void hexout(const unsigned char *p, size_t n) { for (size_t i = 0; i < n; i++) printf("%02x", p[i]); }
int main(void) {
    static char line[1 << 16], hx[1 << 15];
    static unsigned char bytes[1 << 14];
    TestReporter *reporter = create_reporter();
    reporter->assert_true = &capture;
    setup_reporting(reporter);
    current_test = &dummy;
    while (fgets(line, sizeof line, stdin)) {
        nfail = 0;
        if (!strncmp(line, "state ", 6)) {
            /* the reporter's counters as a test finds them when earlier tests of its suite / earlier suites have failed or passed */
            int f, tf, p; sscanf(line, "state %d %d %d", &f, &tf, &p);
            reporter->failures = f; reporter->total_failures = tf; reporter->passes = p; reporter->total_passes = p + tf;
            printf("state");
        } else if (!strncmp(line, "ret ", 4)) {
            long long v; sscanf(line, "ret %lld", &v);
            expect(f_ret, will_return(v));
            long long r1 = (long long)f_ret();
            always_expect(f_ret, will_return(v));
            long long r2 = (long long)f_ret(), r3 = (long long)f_ret();
            clear_mocks();
            printf("%lld %lld %lld", r1, r2, r3);
        } else if (!strncmp(line, "retd ", 5) || !strncmp(line, "box ", 4)) {
            unsigned long long b; double d;
            sscanf(line + (line[0] == 'r' ? 5 : 4), "%llx", &b); memcpy(&d, &b, 8);
            double out;
            if (line[0] == 'r') { expect(f_ret, will_return_double(d)); out = unbox_double(f_ret()); clear_mocks(); }
            else out = unbox_double(box_double(d));
            unsigned long long ob; memcpy(&ob, &out, 8);
            printf("%016llx", ob);
        } else if (!strncmp(line, "box2 ", 5)) {
            /* several boxes alive at once: made first, opened later (in the other order), and two boxed arguments of one mock call */
            unsigned long long b1, b2, o1, o2, o3, o4; double d1, d2;
            sscanf(line + 5, "%llx %llx", &b1, &b2); memcpy(&d1, &b1, 8); memcpy(&d2, &b2, 8);
            intptr_t x1 = box_double(d1), x2 = box_double(d2);
            double r2 = unbox_double(x2), r1 = unbox_double(x1);
            double c1 = 0, c2 = 0;
            expect(f_two, will_capture_parameter(a, c1), will_capture_parameter(b, c2));
            f_two(d1, d2);
            clear_mocks();
            memcpy(&o1, &r1, 8); memcpy(&o2, &r2, 8); memcpy(&o3, &c1, 8); memcpy(&o4, &c2, 8);
            printf("%016llx %016llx %016llx %016llx", o1, o2, o3, o4);
        } else if (!strncmp(line, "retu ", 5)) {
            /* the value of will_return() when a clause of the same expectation names a parameter the mock does not pass (that clause is
               reported; the call is served all the same) */
            long long v; sscanf(line, "retu %lld", &v);
            expect(f_capr, when(no_such_parameter, is_equal_to(1)), will_return(v));
            long long r1 = (long long)f_capr(5);
            clear_mocks();
            printf("%lld", r1);
        } else if (!strncmp(line, "byval ", 6)) {
            int size; sscanf(line, "byval %d %32767s", &size, hx);
            size_t n = unhex(hx, bytes);
            unsigned char *src = (unsigned char *)malloc(n ? n : 1); memcpy(src, bytes, n);      /* exact size: over-reads are caught */
            expect(f_ptr, create_return_by_value_constraint((intptr_t)src, (size_t)size), times(3));
            memset(src, 0x55, n); free(src);                                   /* the constraint must hold its own copy */
            for (int k = 0; k < 3; k++) {
                unsigned char *got = (unsigned char *)f_ptr();
                if (got) { hexout(got, size); free(got); } else printf("NULL");
                printf(k < 2 ? " " : "");
            }
            clear_mocks();
        } else if (!strncmp(line, "setc ", 5) || !strncmp(line, "setw ", 5) || !strncmp(line, "setp ", 5)) {
            int bufsize, off, size; sscanf(line + 5, "%d %d %d %32767s", &bufsize, &off, &size, hx);
            size_t n = unhex(hx, bytes);
            unsigned char *src = (unsigned char *)malloc(n ? n : 1); memcpy(src, bytes, n);
            unsigned char *buf = (unsigned char *)malloc(bufsize); memset(buf, 0xAA, bufsize);
            /* "setc": the setter alone; "setw": behind a when() clause for the same parameter; "setp": behind a capture of it */
            void *seen = NULL;
            if (line[3] == 'w') expect(f_out, when(out, is_non_null), will_set_contents_of_output_parameter(out, src, size));
            else if (line[3] == 'p') expect(f_out, will_capture_parameter(out, seen), will_set_contents_of_output_parameter(out, src, size));
            else expect(f_out, will_set_contents_of_output_parameter(out, src, size));
            f_out(buf + off);
            if (line[3] == 'p' && seen != buf + off) nfail += 100;
            clear_mocks();
            hexout(buf, bufsize);
            free(buf); free(src);
        } else if (!strncmp(line, "cap ", 4)) {
            int size; long long v; sscanf(line, "cap %d %lld", &size, &v);
            struct { unsigned char g1[8]; union { int8_t a; int16_t b; int32_t c; int64_t d; } u; unsigned char g2[8]; } s;
            memset(&s, 0xAA, sizeof s); memset(&s.u, 0xCC, sizeof s.u);
            if (size == 1) expect(f_cap, will_capture_parameter(v, s.u.a));
            else if (size == 2) expect(f_cap, will_capture_parameter(v, s.u.b));
            else if (size == 4) expect(f_cap, will_capture_parameter(v, s.u.c));
            else expect(f_cap, will_capture_parameter(v, s.u.d));
            f_cap((intptr_t)v);
            clear_mocks();
            hexout(s.g1, 8); hexout((unsigned char *)&s.u, size); hexout(s.g2, 8);
        } else if (!strncmp(line, "capn ", 5)) {
            int pos; long long v[4]; sscanf(line, "capn %d %lld %lld %lld %lld", &pos, &v[0], &v[1], &v[2], &v[3]);
            intptr_t got = -1;
            if (pos == 0) expect(f_cap4, will_capture_parameter(n, got));
            else if (pos == 1) expect(f_cap4, will_capture_parameter(next, got));
            else if (pos == 2) expect(f_cap4, will_capture_parameter(nex, got));
            else expect(f_cap4, will_capture_parameter(xn, got));
            f_cap4((intptr_t)v[0], (intptr_t)v[1], (intptr_t)v[2], (intptr_t)v[3]);
            clear_mocks();
            printf("%lld", (long long)got);
        } else continue;
        printf(" f%d\n", nfail);
    }
    return 0;
}
