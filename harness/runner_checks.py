"""Checks of the runner cluster (C01 C02 C03 C04 C08 C13 C17 C18): Lean re-check + correspondence of
Model.Runner with the real library on generated scenarios + the property's own oracle on every
implementation observation."""
import itertools, random, os, json, re
from concurrent.futures import ThreadPoolExecutor
from common import *
from scenario import *

REPORTERS_ALL = ["text", "quiet", "cute", "xml", "libxml", "cdash"]


class Bench:
    """Built implementation + harness + a pool of work directories."""

    def __init__(self, ctx, asan=False):
        self.ctx = ctx
        self.impl = build_impl(ctx, asan=asan)
        self.exe = compile_harness(ctx, self.impl, "scenario_run", ["scenario_run.c"])
        self.pool = ThreadPoolExecutor(max_workers=NCPU)
        self.n = 0
        self.hung = 0

    def run_many(self, jobs, env=None, timeout=60, nofile=None, sigint_ignored=False):
        """jobs: list of (scenario_text, reporter). Returns list of Obs (same order)."""
        def one(ij):
            i, (txt, rep) = ij
            wd = os.path.join(self.ctx.work, f"run{i % (NCPU * 2)}-{os.getpid()}-{i}")
            # once several runs have not ended in the time allowed (a change that makes runs hang), the rest get a short limit: the check
            # reports the runs that do not terminate instead of waiting for hundreds of them
            t = timeout if self.hung < 6 else min(timeout, 5)
            if self.hung >= 30:      # (dozens of runs have hung: the remaining ones are not started, they count as not terminating)
                o = Obs(); o.rc, o.stdout, o.stderr, o.timeout, o.returned = None, "", "", True, None
                o.events, o.fingerprints, o.files, o.reporter = [], [], {}, rep
                return o
            try:
                o = run_impl(self.exe, txt, rep, wd, env=env, timeout=t, nofile=nofile, sigint_ignored=sigint_ignored)
                if o.timeout: self.hung += 1
                return o
            finally:
                shutil.rmtree(wd, ignore_errors=True)
        return list(self.pool.map(one, enumerate(jobs)))


def per_test_truth(m):
    """{path: (passes, failures, skips, exceptions, failing checks executed)}; the last differs from `failures`
    only when the process died between printing a failure message and delivering its record."""
    return {l.split(" ")[1]: tuple(int(x) for x in l.split(" ")[2:7]) for l in m.lines if l.startswith("ttruth ")}


def observed_totals(o, reporter):
    for l in impl_proj(o, reporter):
        if l.startswith("totals "):
            return l.split(" ")[1:5]
    return None


def observed_per_test(o, reporter, scen):
    """{path: (failure lines, exception lines)} as far as the reporter shows them."""
    res = {"/".join(p): [0, 0] for p, _ in scen.root.tests()}
    names = {}
    for p, _ in scen.root.tests():
        names.setdefault(p[-1], []).append("/".join(p))
    if reporter in ("text", "quiet"):
        for l in impl_proj(o, reporter, top=scen.root.name):
            k, _, path = l.partition(" ")
            if k in ("fail", "exc"):
                res.setdefault(path, [0, 0])[0 if k == "fail" else 1] += 1
    return res


# ---- oracles: the property itself, judged on what the implementation showed ---------------------
def oracle_C01(scen, m, o, reporter):
    """status = failure iff some check failed or some test ended abnormally (truth from the spec side)."""
    t = m.truth
    should_fail = t[1] + t[3] > 0
    st = status_of(o)
    if st in ("0", "1"):
        if (st == "1") != should_fail:
            return f"verdict {st} but truth (p f s e) = {t}"
        # main() returns what the run returned: that is the verdict the caller of the test program sees
        if o.rc is not None and (o.rc == 0) != (st == "0") and not o.timeout:
            return f"the run returned {o.returned} and main() returned that, but the process ended with exit status {o.rc} (truth (p f s e) = {t})"
    else:
        # the run did not return: the process ended from inside test code; it must not look like success
        if st in ("exit0",) :
            return f"run ended with exit status 0 from inside a test (truth {t}); a run that did not complete must not report success"
        if st == "timeout":
            return "run did not terminate"
    return None


def oracle_C03(scen, m, o, reporter):
    errs = []
    if status_of(o) not in ("0", "1"):
        return None
    tot = observed_totals(o, reporter)
    t = m.truth
    if reporter == "text":
        if tot is None or tuple(int(x) for x in tot) != t:
            errs.append(f"text totals {tot} but truth {t}")
        sums = [0, 0, 0, 0]
        for l in impl_proj(o, reporter):
            if l.startswith("suite "):
                for i, x in enumerate(l.split(" ")[2:6]):
                    sums[i] += int(x)
        if tot is not None and [str(x) for x in sums] != list(tot):
            errs.append(f"per-suite lines add up to {sums}, totals line says {tot}")
    if reporter == "cute":
        if tot is None or (int(tot[0]), int(tot[1]), int(tot[3])) != (t[0], t[1], t[3]):
            errs.append(f"cute totals {tot} but truth {t}")
    if reporter in ("text", "quiet"):
        tt = per_test_truth(m)
        obs = observed_per_test(o, reporter, scen)
        for path, c in tt.items():
            got = obs.get(path, [0, 0])
            if got[0] != c[4] or got[1] != c[3]:
                errs.append(f"test {path}: {got[0]} failure / {got[1]} exception lines name it, truth is {c[4]} failing checks executed / {c[3]} exceptions")
        for path in obs:
            if path not in tt and any(obs[path]):
                errs.append(f"lines attributed to unknown test {path}")
    if reporter == "cute":
        tt = per_test_truth(m)
        byname = {}
        for path, c in tt.items():
            byname.setdefault(path.split("/")[-1], []).append(c)
        seq = impl_proj(o, reporter)
        cur = None
        status = {}
        for l in seq:
            k, _, name = l.partition(" ")
            if k == "starting": cur = name; status[name] = []
            elif k in ("success", "failure", "error") and cur is not None and name == cur:
                status[name].append(k)
        for name, cs in byname.items():
            if len(cs) != 1 or name not in status:
                continue
            c = cs[0]
            ok = c[1] + c[3] == 0
            if ok != ("success" in status[name]):
                errs.append(f"cute marks {name} {status[name]} but truth {c}")
            if (c[4] > 0) != ("failure" in status[name]):
                errs.append(f"cute shows {status[name]} for {name} whose truth is {c}: a failure message is missing or spurious")
            if (c[3] > 0) != ("error" in status[name]):
                errs.append(f"cute shows {status[name]} for {name} whose truth is {c}: an error line is missing or spurious")
    if reporter == "libxml":
        # the counts each suite file claims for the suite are the sums over the suite's own tests
        tt = per_test_truth(m)
        own = {}
        for path, c in tt.items():
            a = own.setdefault("-".join(path.split("/")[:-1]), [0, 0, 0])
            a[0] += c[1]; a[1] += c[3]; a[2] += c[2]
        for a in xml_suite_attrs(o):
            name = a.get("name", "")
            want = own.get(name, [0, 0, 0])
            got = [a.get("failures"), a.get("errors"), a.get("skipped")]
            if got != [str(x) for x in want]:
                errs.append(f"libxml2 report of suite {name}: failures/errors/skipped attributes {got}, its own tests had {want}")
    return "; ".join(errs[:4]) if errs else None


def facts_of(scen, m):
    """Structural facts for known-finding predicates."""
    f = {"mode": scen.mode.split(":")[0]}
    # an instance of F02: the model says the test's process ended abnormally after it had sent a `skipped` record
    f["skip_then_die"] = bool(m) and any(l.startswith("notok ") for l in m.lines)
    f["inproc_uexit"] = scen.mode != "fork" and any(a == "U" for _, t in scen.root.tests() for a in t.acts() if not t.x)
    return f


# ---- shrinking -----------------------------------------------------------------------------------
def shrink(scen, still_fails, budget=60):
    """Greedy: drop tests/suites, drop acts, while the predicate still holds."""
    cur = scen
    changed = True
    n = 0
    while changed and n < budget:
        changed = False
        for cand in shrink_candidates(cur):
            n += 1
            if n > budget:
                break
            if still_fails(cand):
                cur = cand
                changed = True
                break
    return cur


def shrink_candidates(scen):
    # remove an item
    def walk(s, path):
        for i, it in enumerate(s.items):
            yield path + [i]
            if isinstance(it, S):
                yield from walk(it, path + [i])
    for pos in list(walk(scen.root, [])):
        c = scen.copy()
        s = c.root
        for i in pos[:-1]:
            s = s.items[i]
        del s.items[pos[-1]]
        if list(c.root.tests()):
            yield c
    # remove an act
    for pos in list(walk(scen.root, [])):
        c0 = scen.copy()
        s = c0.root
        for i in pos[:-1]:
            s = s.items[i]
        it = s.items[pos[-1]]
        if isinstance(it, T):
            for field in ("body", "setup", "teardown"):
                for k in range(len(getattr(it, field))):
                    c = scen.copy()
                    s2 = c.root
                    for i in pos[:-1]:
                        s2 = s2.items[i]
                    del getattr(s2.items[pos[-1]], field)[k]
                    yield c


# ---- the generic loop ------------------------------------------------------------------------------
def explore(ctx, bench, scens, reporters, oracle, label, check_events=True, env=None):
    """Run every scenario under every reporter on the implementation and on the model; compare; judge."""
    models = run_model_scenarios([s.text() for s in scens])
    jobs = [(s.text(), r) for s in scens for r in reporters]
    obs = bench.run_many(jobs, env=env)
    k = 0
    disagreements, oracle_fail = [], []
    for s, m in zip(scens, models):
        for r in reporters:
            o = obs[k]; k += 1
            ds = compare(m, o, r, check_events=check_events)
            if ds:
                disagreements.append((s, r, ds, m, o))
            if oracle:
                e = oracle(s, m, o, r)
                if e:
                    oracle_fail.append((s, r, e, m, o))
    stats = ctx.coverage.setdefault("correspondence", {"cases": 0, "disagreements": 0, "oracle_evaluations": 0, "oracle_failures": 0})
    stats["cases"] += len(jobs)
    stats["disagreements"] += len(disagreements)
    stats["oracle_evaluations"] += len(jobs) if oracle else 0
    stats["oracle_failures"] += len(oracle_fail)
    return disagreements, oracle_fail


def report(ctx, bench, disagreements, oracle_fail, oracle, label, facts_fn=None):
    facts_fn = facts_fn or facts_of
    """Turn oracle failures into violations (shrunk replay) and disagreements into a broken
    correspondence obligation followed by a search around the disagreeing case."""
    seen = set()
    classes = {}
    for item in oracle_fail:
        s, r, e, m, o = item
        key = (re.sub(r"\d+", "N", e)[:60], s.mode.split(":")[0])
        if key not in classes or len(s.text()) < len(classes[key][0].text()):
            classes[key] = item
    for s, r, e, m, o in list(classes.values())[:8]:
        def still(c):
            mm = run_model_scenarios([c.text()])[0]
            oo = bench.run_many([(c.text(), r)])[0]
            return oracle(c, mm, oo, r) is not None
        # (a run that does not terminate is not shrunk: every attempt would wait for the time limit again)
        small = s if (o.timeout or "terminate" in e) else shrink(s, still, budget=40)
        mm = run_model_scenarios([small.text()])[0]
        oo = bench.run_many([(small.text(), r)])[0]
        e2 = oracle(small, mm, oo, r) or e
        facts = facts_fn(small, mm)
        facts["reporter"] = r
        key = (r, small.text())
        if key in seen:
            continue
        seen.add(key)
        replay = f"# reporter: {r}\n# run: harness/scenario_run <this file> {r} <outdir>   (built by ./check {ctx.prop})\n# what: {e2}\n" + small.text() + \
                 "\n# implementation output:\n" + "\n".join("# " + l for l in oo.stdout.split("\n")[:40]) + f"\n# status: {status_of(oo)}\n"
        ctx.violation(f"[{label}] {e2}", replay, found_input=True, facts=facts)
    ctx.oblige(f"correspondence {label}: model and implementation agree on every generated scenario",
               not disagreements, "; ".join(f"{r}: {ds[0]}" for s, r, ds, m, o in disagreements[:3]))
    if disagreements and not oracle_fail:
        # search: neighbours of the disagreeing cases, judged by the oracle
        tried = 0
        for s, r, ds, m, o in disagreements[:4]:
            cands = list(itertools.islice(shrink_candidates(s), 60))
            for rep in ([r] + [x for x in ("text", "cute") if x != r]):
                mm = run_model_scenarios([c.text() for c in cands]) if cands else []
                oo = bench.run_many([(c.text(), rep) for c in cands])
                for c, m1, o1 in zip(cands, mm, oo):
                    tried += 1
                    e = oracle(c, m1, o1, rep) if oracle else None
                    if e:
                        ctx.violation(f"[{label}] {e}", f"# reporter: {rep}\n# what: {e}\n" + c.text(), found_input=True, facts=facts_fn(c, m1))
                        return
        s, r, ds, m, o = disagreements[0]
        body = f"correspondence {label} broken: {ds}\n# reporter {r}\n" + s.text() + "\n# implementation output:\n" + \
               "\n".join("# " + l for l in o.stdout.split("\n")[:40]) + f"\n# searched {tried} neighbouring scenarios with the property oracle: no property failure found\n"
        ctx.violation(f"[{label}] model/implementation correspondence no longer holds: {ds[0]}", body, found_input=False,
                      facts={"obligation": f"correspondence {label}"})


def sample_of(scens, n=3):
    return [s.text() for s in scens[:n]]


def small_scope_trees():
    """All trees with at most 3 nodes below the top, as shapes."""
    shapes = []
    shapes.append(lambda ts: S("top", items=ts[:1]))
    shapes.append(lambda ts: S("top", items=ts[:2]))
    shapes.append(lambda ts: S("top", items=ts[:3]))
    shapes.append(lambda ts: S("top", items=[S("a", items=ts[:1])]))
    shapes.append(lambda ts: S("top", items=[S("a", items=ts[:1]), ts[1]]))
    shapes.append(lambda ts: S("top", items=[ts[1], S("a", items=ts[:1])]))
    shapes.append(lambda ts: S("top", items=[S("a", items=ts[:2])]))
    shapes.append(lambda ts: S("top", items=[S("a", items=[S("b", items=ts[:1])])]))
    shapes.append(lambda ts: S("top", items=[S("a"), ts[0]]))
    shapes.append(lambda ts: S("top", items=[S("a", items=ts[:1]), S("b", items=ts[1:2])]))
    return shapes


BEHAVIOUR_BODIES = {
    "pass": ["P", "P"], "fail": ["P", "F"], "failfirst": ["F", "P"], "empty": [], "skip": ["S", "P"], "skipfail": ["P", "S", "F"],
    "segv": ["P", "K11"], "kill": ["K9"], "abrt": ["F", "K6"], "term": ["K15"], "exit": ["P", "E"], "uexit": ["U"], "mockf": ["MF"], "mockp": ["MP"],
}


def small_scope(rng, n, behaviours=None):
    """Random picks from the small-scope space: shape x behaviour assignment (the full space is enumerated
    in the thorough tier)."""
    out = []
    shapes = small_scope_trees()
    keys = behaviours or (list(BEHAVIOUR_BODIES) + ["xskip"])
    for _ in range(n):
        sh = rng.choice(shapes)
        ts = []
        for i in range(3):
            b = rng.choice(keys)
            ts.append(T(f"t{i}", x=1, body=["P"]) if b == "xskip" else T(f"t{i}", body=BEHAVIOUR_BODIES[b]))
        out.append(Scen(sh(ts)))
    return out


def all_small_scope(behaviours=None):
    shapes = small_scope_trees()
    keys = behaviours or (list(BEHAVIOUR_BODIES) + ["xskip"])
    for sh in shapes:
        for combo in itertools.product(keys, repeat=3):
            ts = [T(f"t{i}", x=1, body=["P"]) if b == "xskip" else T(f"t{i}", body=BEHAVIOUR_BODIES[b]) for i, b in enumerate(combo)]
            yield Scen(sh(ts))
