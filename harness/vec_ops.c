/* Correspondence harness for CgreenVector: `a <x>` add, `r <pos>` remove, `g <pos>` get; prints the
 * returned element (`-` for NULL/PANIC) and the size. Blocks separated by `---`. ASan build. */
#include <cgreen/vector.h>
#include <stdio.h>
#include <stdlib.h>
#include <string.h>
#include <stdint.h>
#ifdef __cplusplus
using namespace cgreen;
#endif
extern void panic_set_output_buffer(const char *buffer);
int main(void) {
    char line[256];
    static char panicbuf[2000];
    panic_set_output_buffer(panicbuf);
    CgreenVector *v = create_cgreen_vector(NULL);
    while (fgets(line, sizeof line, stdin)) {
        if (!strncmp(line, "---", 3)) { destroy_cgreen_vector(v); v = create_cgreen_vector(NULL); printf("---\n"); continue; }
        char k; long n;
        if (sscanf(line, "%c %ld", &k, &n) != 2) continue;
        void *r = NULL;
        if (k == 'a') cgreen_vector_add(v, (void *)(intptr_t)(n + 1));        /* stored +1 so that 0 is distinguishable from NULL */
        else if (k == 'r') r = cgreen_vector_remove(v, (int)n);
        else r = cgreen_vector_get(v, (int)n);
        if (r) printf("%ld %d\n", (long)((intptr_t)r - 1), cgreen_vector_size(v));
        else printf("- %d\n", cgreen_vector_size(v));
    }
    printf("---\n");
    return 0;
}
