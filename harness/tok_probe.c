/* Correspondence harness for the mock argument-list tokenizer: one hex-encoded string per line in;
 * out: names, double markers, and the number of actuals mock_() would read (commas + 1). */
#include <cgreen/vector.h>
#include <stdio.h>
#include <stdlib.h>
#include <string.h>
#include <stdbool.h>
#ifdef __cplusplus
using namespace cgreen;
#endif
extern CgreenVector *create_vector_of_names(const char *parameters);
extern CgreenVector *create_vector_of_double_markers_for(const char *parameters);
int main(void) {
    static char line[1 << 16], s[1 << 15];
    while (fgets(line, sizeof line, stdin)) {
        line[strcspn(line, "\n")] = 0;
        size_t n = 0;
        if (strcmp(line, "-")) for (char *h = line; h[0] && h[1]; h += 2) { unsigned v; sscanf(h, "%2x", &v); s[n++] = (char)v; }
        s[n] = 0;
        char *exact = (char *)malloc(n + 1);      /* exact-size copy: ASan sees any over-read */
        memcpy(exact, s, n + 1);
        CgreenVector *names = create_vector_of_names(exact);
        CgreenVector *markers = create_vector_of_double_markers_for(exact);
        printf("names ");
        for (int i = 0; i < cgreen_vector_size(names); i++) printf("%s%s", i ? "|" : "", (char *)cgreen_vector_get(names, i));
        printf(" markers ");
        for (int i = 0; i < cgreen_vector_size(markers); i++) printf("%d", *(bool *)cgreen_vector_get(markers, i) ? 1 : 0);
        int count = 0;
        if (n) { count = 1; for (size_t i = 0; i < n; i++) if (exact[i] == ',') count++; }
        printf(" count %d\n", count);
        destroy_cgreen_vector(names); destroy_cgreen_vector(markers); free(exact);
    }
    return 0;
}
