"""One function per property: check_Cxx(ctx)."""
import random
from common import *
from scenario import *
from runner_checks import *


def sizes(ctx, quick, thorough):
    return quick if ctx.tier == "quick" else thorough


def runner_lean(ctx):
    ok, out, failed = lean_check(ctx)
    return ok


def check_C01(ctx):
    runner_lean(ctx)
    rng = random.Random(ctx.seed * 1000 + 1)
    bench = Bench(ctx)
    n = sizes(ctx, 60, 1500)
    scens = []
    for mode in ("fork", "inproc"):
        for s in small_scope(rng, sizes(ctx, 25, 300)):
            s.mode = mode; scens.append(s)
        for _ in range(n // 2):
            scens.append(Scen(gen_tree(rng), mode=mode))
    reporters = ["text", "quiet", "cute"]
    dis, orf = explore(ctx, bench, scens, reporters, oracle_C01, "C01")
    report(ctx, bench, dis, orf, oracle_C01, "C01")
    ctx.coverage["samples"] = sample_of(scens)
    ctx.coverage["rule"] = "scenario = suite tree x behaviour per test x mode, each run under every listed reporter; small-scope shapes + random structured trees"
    ctx.coverage["evaluations"] = ctx.coverage["correspondence"]["cases"]
    ctx.coverage["distinct_nontrivial"] = len({s.text() for s in scens if any(a != "P" for _, t in s.root.tests() for a in t.acts())})


def check_C03(ctx):
    runner_lean(ctx)
    rng = random.Random(ctx.seed * 1000 + 3)
    bench = Bench(ctx)
    scens = small_scope(rng, sizes(ctx, 40, 400)) + [Scen(gen_tree(rng, max_tests=14)) for _ in range(sizes(ctx, 60, 1500))]
    reporters = ["text", "quiet", "cute"]
    dis, orf = explore(ctx, bench, scens, reporters, oracle_C03, "C03")
    report(ctx, bench, dis, orf, oracle_C03, "C03")
    ctx.coverage["samples"] = sample_of(scens)
    ctx.coverage["evaluations"] = ctx.coverage["correspondence"]["cases"]
    ctx.coverage["distinct_nontrivial"] = len({s.text() for s in scens})
