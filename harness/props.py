"""One function per property: check_Cxx(ctx)."""
import sys
sys.setrecursionlimit(20000)
import random, re, subprocess, sys, hashlib, tempfile
from common import *
from scenario import *
from runner_checks import *


def sizes(ctx, quick, thorough):
    return quick if ctx.tier == "quick" else thorough


def runner_lean(ctx):
    ok, out, failed = lean_check(ctx)
    return ok


def generated_obligations(ctx, render, namespace, only, what, sites=None):
    """Run one of the translators of translate/, let Lean check the generated file, record each generated theorem as an obligation."""
    text, thms, problems = render()
    path = os.path.join(ctx.work, "Gen" + namespace.split(".")[-1] + ".lean")
    open(path, "w").write(text)
    with LakeLock():
        res = sh(["lake", "env", "lean", path], cwd=LEAN)
    for site, why in problems:
        if sites is None or any(x in site for x in sites):
            ctx.oblige(f"{what}: {site} extracted from the source", False, why)
    for thm in thms:
        if only is not None and thm not in only:
            continue
        m = re.search(r"'%s\.%s' (does not depend on any axioms|depends on axioms: \[([^\]]*)\])" % (re.escape(namespace), thm), res.stdout)
        axs = [a.strip() for a in (m.group(2) or "").split(",") if a.strip()] if m else ["?"]
        ok = m is not None and all(a in ALLOWED_AXIOMS for a in axs)
        ctx.oblige(f"generated obligation {namespace}.{thm} ({what}, regenerated from /repo's sources)", ok, "" if ok else res.stdout[-500:])
    ctx.coverage.setdefault("generated_sha", hashlib.sha256(text.encode()).hexdigest()[:16])


def reader_obligations(ctx):
    """translate/reader.py: read_reporter_results() and the decision of reporter_finish_test(), rendered from the current source, are the model's"""
    import reader as rd
    generated_obligations(ctx, rd.render, "Cgreen.Gen.Reader", None, "read_reporter_results() and the decision of reporter_finish_test() rendered into Lean")


def phase_obligations(ctx, only=None):
    """translate/phases.py: what run_the_test_code() goes through, rendered from the current source, against the model's script"""
    import phases as ph
    generated_obligations(ctx, ph.render, "Cgreen.Gen.Phases", only, "run_the_test_code() rendered into Lean")


def mockgate_obligations(ctx):
    """translate/mockgate.py: the stages of mock_() and the guard of its content-setting stage, rendered from the current source"""
    import mockgate as mg
    generated_obligations(ctx, mg.render, "Cgreen.Gen.MockGate", None, "the stages of mock_() rendered into Lean")


def traversal_obligations(ctx, only=None):
    """translate/traversal.py: run_every_test() and run_named_test() rendered from the current source, against the model's order"""
    import traversal as tv
    generated_obligations(ctx, tv.render, "Cgreen.Gen.Traversal", only, "the traversal of a suite (run_every_test, run_named_test) rendered into Lean")


def platform_obligations(ctx, only=None):
    """translate/platform.py: the paths of run_test_in_its_own_process(), rendered from the current source"""
    import platform_paths as pf
    generated_obligations(ctx, pf.render, "Cgreen.Gen.Platform", only, "the paths of run_test_in_its_own_process() rendered into Lean")


def outside_bracket_scens():
    """Scenarios in which a failed check reaches the channel outside a test's own bracket: (scenario, description)."""
    late = []
    for pos in ("setup", "teardown"):
        fx = (["F"], []) if pos == "setup" else ([], ["F"])
        for shape in range(4):
            inner = S("inner", items=[T("a", body=["P"]), T("b", body=["P", "P"])])
            if shape == 0: root = S("top", su=1, td=1, items=[inner]); root.fixture = fx
            elif shape == 1: root = S("top", su=1, td=1, items=[inner, T("c", body=["P"])]); root.fixture = fx
            elif shape == 2: mid = S("mid", su=1, td=1, items=[inner]); mid.fixture = fx; root = S("top", items=[mid])
            else: mid = S("mid", su=1, td=1, items=[inner]); mid.fixture = fx; root = S("top", items=[S("first", items=[T("p", body=["P"])]), mid, T("q", body=["P"])])
            for mode in ("fork", "inproc"):
                late.append((Scen(root, mode=mode), f"a failed check in the suite {pos} fixture that the reporting process runs around a sub-suite"))
    for mode in ("fork", "inproc"):      # ... and the test that runs next fails a check of its own
        inner = S("inner", items=[T("a", body=["F"]), T("b", body=["P"])])
        root = S("top", su=1, td=1, items=[inner, T("c", body=["F", "P"])]); root.fixture = (["F"], ["F"])
        late.append((Scen(root, mode=mode), "a failed check in the suite fixtures that the reporting process runs around a sub-suite, before a test that fails itself"))
    for shape in range(4):
        z = T("z", body=["P", "AX"])
        if shape == 0: root = S("top", items=[T("a", body=["P"]), z])
        elif shape == 1: root = S("top", items=[z])
        elif shape == 2: root = S("top", items=[S("inner", items=[T("a", body=["P"]), z])])
        else: root = S("top", items=[S("inner", items=[z]), T("b", body=["P"])])
        late.append((Scen(root, mode="fork"), "a failed check in an exit handler of the last test's process, after its completion notice"))
    return late


def verdict_under_every_reporter(ctx, bench, scens, label, what):
    """The run's verdict under the reporters that write files (XML, libxml2, CDash) - whose totals are folded by code of their own - judged
    by the same oracle as under the text reporter: failure exactly when a check failed or a test ended abnormally."""
    reps = ["xml", "libxml", "cdash"]
    models = run_model_scenarios([s.text() for s in scens])
    obs = bench.run_many([(s.text(), r) for s in scens for r in reps])
    shown, k = 0, 0
    for s, m in zip(scens, models):
        for r in reps:
            o = obs[k]; k += 1
            if m.halted is not None:
                continue
            e = oracle_C01(s, m, o, r)
            if e and shown < 4:
                shown += 1
                fs = facts_of(s, m)
                ctx.violation(f"[{label}] {what}, {r} reporter: {e}", f"# reporter: {r}   harness/scenario_run <file> {r} <outdir>\n" + s.text()[:6000], found_input=True, facts=dict(fs, rep=r))
    ctx.coverage["verdict_runs_under_file_writing_reporters"] = len(obs)


def check_C01(ctx):
    runner_lean(ctx)
    reader_obligations(ctx)
    traversal_obligations(ctx, ["every_test_skeleton", "every_test_sub_suites", "every_test_own_tests", "named_test_skeleton"])
    import verdict as vd
    generated_obligations(ctx, vd.render, "Cgreen.Gen.Verdict", ["suite_verdict", "single_verdict"], "the verdict expressions of run_test_suite() and run_single_test()", sites=["verdict"])
    rng = random.Random(ctx.seed * 1000 + 1)
    bench = Bench(ctx)
    n = sizes(ctx, 60, 1500)
    scens = []
    for mode in ("fork", "inproc"):
        for s in small_scope(rng, sizes(ctx, 25, 300)):
            s.mode = mode; scens.append(s)
        for _ in range(n // 2):
            scens.append(Scen(gen_tree(rng), mode=mode))
    # a green test that makes exactly as many checks as leave room for its completion notice, and one fewer: the run is green
    for mode in ("fork", "inproc"):
        for k in (4095, 4094):
            scens.append(Scen(S("top", items=[S("inner", items=[T("full", body=["P"] * k)]), T("b", body=["P"])]), mode=mode))
    # a single test run by name that leaves through exit(0) (code under test that calls exit): never a successful run
    for nm, body in (("t", ["P", "E"]), ("t", ["E"]), ("t", ["F", "E"])):
        scens.append(Scen(S("top", items=[T("a", body=["P"]), S("inner", items=[T(nm, body=body)])]), mode="single:" + nm))
    # a test that announces skip_test() and then ends abnormally, everything else green (finding F02 in this property's terms: the run succeeds)
    scens.append(Scen(S("top", items=[T("a", body=["P"]), T("v", body=["P", "S", "K11"]), T("b", body=["P"])]), mode="fork"))
    scens.append(Scen(S("top", items=[S("inner", items=[T("v", body=["S", "E"])]), T("b", body=["P"])]), mode="fork"))
    # many failed checks: the verdict a test program passes on as its exit status is failure for every number of them (an exit
    # status keeps eight bits of what main() returns)
    for mode in ("fork", "inproc"):
        scens.append(Scen(S("top", items=[T("a", body=["P"]), T("many", body=["F"] * 256)]), mode=mode))
        scens.append(Scen(S("top", items=[S("s1", items=[T("h1", body=["F"] * 128)]), S("s2", items=[T("h2", body=["F"] * 128), T("ok", body=["P"])])]), mode=mode))
        scens.append(Scen(S("top", items=[T("many", body=["F"] * 512), T("b", body=["P", "P"])]), mode=mode))
    scens.append(Scen(S("top", items=[T("many", body=["F"] * 255), T("dies", body=["P", "K11"])]), mode="fork"))
    # a test whose process is killed while it exits, after its completion notice, in an otherwise green run
    for point in ("after_completion", "at_exit"):
        for how in ("9", "11", "6", "15"):
            for shape in (0, 1):
                v = T("v", body=["P", "P"])
                root = S("top", items=[T("a", body=["P"]), v, T("b", body=["P"])]) if shape == 0 else S("top", items=[S("inner", items=[v]), T("b", body=["P"])])
                scens.append(Scen(root, mode="fork", kill=(point, 1, how, "v")))
    reporters = ["text", "quiet", "cute"]
    dis, orf = explore(ctx, bench, scens, reporters, oracle_C01, "C01")
    report(ctx, bench, dis, orf, oracle_C01, "C01")
    verdict_under_every_reporter(ctx, bench, [sc for sc in scens if sc.mode == "fork"][: sizes(ctx, 60, 600)] + scens[-16:], "C01", "the run's verdict")
    # Failed checks that reach the channel outside a test's own bracket - in a suite's legacy fixture run by the reporting
    # process around a sub-suite, or in an exit handler of the test's process, after its completion notice - are failed
    # checks of the run all the same. The model treats suite fixtures as logging only, so this family is judged by the
    # property's oracle alone: the verdict must be failure under every reporter.
    late = outside_bracket_scens()
    lobs = bench.run_many([(sc.text(), r) for sc, _ in late for r in REPORTERS_ALL])
    k = 0; lshown = 0
    for sc, lab in late:
        for r in REPORTERS_ALL:
            o = lobs[k]; k += 1
            if status_of(o) in ("0", "exit0") and lshown < 4:
                lshown += 1
                ctx.violation(f"[C01] {lab}: the run's verdict is success under the {r} reporter", f"# reporter: {r}   harness/scenario_run <file> {r} <outdir>\n" + sc.text(), found_input=True,
                              facts={"outside_bracket": True, "rep": r})
    # ... and the totals of these runs are what the channel model says (theorem C01_every_record_counted is about it)
    louts = run_model(["faults"], "".join("\n".join(["k -"] + legs_of(sc)) + "\n---\n" for sc, _ in late)).split("\n")[:-1]
    nld = 0
    for i, ((sc, lab), mo) in enumerate(zip(late, louts)):
        o = lobs[i * len(REPORTERS_ALL) + REPORTERS_ALL.index("text")]
        got = observed_totals(o, "text")
        if got is None or [str(int(x)) for x in got] != mo.split(" ")[1:5]:
            nld += 1
            if nld <= 3: ctx.oblige("correspondence C01 (records outside a test's bracket)", False, f"{lab}, {sc.mode}: model totals {mo.split(' ')[1:5]}, text reporter {got}\n{sc.text()}")
    ctx.oblige("correspondence C01: the totals of runs with failed checks outside a test's bracket are what the channel model says", nld == 0, f"{nld} of {len(late)} disagree")
    ctx.coverage["outside_bracket_runs"] = len(lobs)
    ctx.coverage["samples"] = sample_of(scens)
    ctx.coverage["rule"] = "scenario = suite tree x behaviour per test x mode, each run under every listed reporter; small-scope shapes + random structured trees"
    ctx.coverage["evaluations"] = ctx.coverage["correspondence"]["cases"]
    ctx.coverage["distinct_nontrivial"] = len({s.text() for s in scens if any(a != "P" for _, t in s.root.tests() for a in t.acts())})


def check_C03(ctx):
    runner_lean(ctx)
    reader_obligations(ctx)
    traversal_obligations(ctx, ["every_test_skeleton", "every_test_sub_suites", "every_test_own_tests"])
    rng = random.Random(ctx.seed * 1000 + 3)
    bench = Bench(ctx)
    scens = small_scope(rng, sizes(ctx, 40, 400)) + [Scen(gen_tree(rng, max_tests=14)) for _ in range(sizes(ctx, 60, 1500))]
    # one test run by name (run_single_test): the same accounting, for every kind of test at every depth
    singles = []
    for sc in scens[:sizes(ctx, 60, 600)]:
        tests = [t for _, t in sc.root.tests()]
        names = [t.name for t in tests]
        if not tests or len(set(names)) != len(names):
            continue
        t = rng.choice(tests)
        if any(a[0] in "KEUZ" for a in t.acts()):
            continue      # an abnormal end in the runner's own process ends the run: that is C01's
        c = sc.copy(); c.mode = "single:" + t.name; c.kill = None
        singles.append(c)
    scens += singles
    # the same trees with every test in the reporting process (CGREEN_NO_FORK): what a reporter keeps per test is then shared by all tests
    shared = []
    for sc in scens[:sizes(ctx, 80, 800)]:
        if sc.mode != "fork" or sc.kill or any(a[0] in "KEUZ" for _, t in sc.root.tests() for a in t.acts()):
            continue
        c = sc.copy(); c.mode = "inproc"
        shared.append(c)
    scens += shared
    # a test that calls skip_test() more than once (in its context's setup and again in its body; twice in the body) is one skipped test
    for mode in ("fork", "inproc"):
        scens.append(Scen(S("top", items=[T("a", body=["P"]), T("twice", body=["S", "P", "S"]), T("b", body=["P", "F"])]), mode=mode))
        scens.append(Scen(S("top", items=[S("db", items=[T("guarded", ctx=1, setup=["S"], body=["S", "P"]), T("other", ctx=1, setup=["S"], body=["P"])]), T("b", body=["P"])]), mode=mode))
    # a test that announces skip_test() and then ends abnormally (finding F02 in this property's terms: its exception is in no total)
    scens.append(Scen(S("top", items=[T("a", body=["P"]), T("v", body=["P", "S", "K11"]), T("b", body=["P", "F"])]), mode="fork"))
    reporters = ["text", "quiet", "cute", "libxml"]
    dis, orf = explore(ctx, bench, scens, reporters, oracle_C03, "C03")
    report(ctx, bench, dis, orf, oracle_C03, "C03")
    # checks made outside any test's bracket (a suite's fixture that the reporting process runs around a sub-suite; an exit handler of
    # a test's process): they are counted in the suite that is being finished, and the per-suite lines still add up to the grand total,
    # which is what the channel model says (C01_every_record_counted)
    late = outside_bracket_scens()
    lobs = bench.run_many([(sc.text(), r) for sc, _ in late for r in ("text", "cute")])
    louts = run_model(["faults"], "".join("\n".join(["k -"] + legs_of(sc)) + "\n---\n" for sc, _ in late)).split("\n")[:-1]
    lshown = 0
    for i, ((sc, lab), mo) in enumerate(zip(late, louts)):
        o, oc = lobs[2 * i], lobs[2 * i + 1]
        want = mo.split(" ")[1:5]
        tot = observed_totals(o, "text")
        sums = [0, 0, 0, 0]
        for l in impl_proj(o, "text"):
            if l.startswith("suite "):
                for j, x in enumerate(l.split(" ")[2:6]):
                    sums[j] += int(x)
        errs = []
        if tot is None or [str(int(x)) for x in tot] != want:
            errs.append(f"the text reporter's totals are {tot}, what happened is {want} (passes, failures, skips, exceptions)")
        if tot is not None and [str(x) for x in sums] != [str(int(x)) for x in tot]:
            errs.append(f"the per-suite lines add up to {sums}, the totals line says {list(tot)}")
        ctot = observed_totals(oc, "cute")
        if ctot is None or [str(int(ctot[0])), str(int(ctot[1])), str(int(ctot[3]))] != [want[0], want[1], want[3]]:
            errs.append(f"CUTE's totals are {ctot}, what happened is {want}")
        if errs and lshown < 4:
            lshown += 1
            ctx.violation(f"[C03] {lab} ({sc.mode}): " + "; ".join(errs), "# reporter: text   harness/scenario_run <file> text <outdir>\n" + sc.text(), found_input=True, facts={"outside_bracket": True})
    ctx.coverage["outside_bracket_runs"] = len(lobs)
    # what CUTE says about every test, against the model of its memo (Model/Cute.lean, theorems C03_cute_status / C03_cute_sequence):
    # the tests of a run in the order they ran, with the failed checks each executed, the failure records counted, and how it ended
    csc = [sc for sc in scens if sc.mode in ("fork", "inproc") and len({t.name for _, t in sc.root.tests()}) == len(list(sc.root.tests()))][: sizes(ctx, 120, 1500)]
    cms = run_model_scenarios([sc.text() for sc in csc])
    cobs = bench.run_many([(sc.text(), "cute") for sc in csc])
    cin, cmeta = [], []
    for sc, m, o in zip(csc, cms, cobs):
        if m.halted is not None or status_of(o) not in ("0", "1"):
            continue
        tt = {path.split("/")[-1]: c for path, c in per_test_truth(m).items()}
        order, per, cur = [], {}, None
        for l in impl_proj(o, "cute"):
            k, _, name = l.partition(" ")
            if k == "starting" and name in tt: cur = name; order.append(name); per[name] = "S"
            elif k in ("failure", "error", "success") and name == cur: per[name] += {"failure": "F", "error": "E", "success": "O"}[k]
            elif k in ("beginning", "ending"): cur = None
        if not order:
            continue
        cin.append("\n".join([f"mode {sc.mode}"] + [f"{tt[n][4]} {tt[n][1]} {1 if tt[n][3] else 0}" for n in order]) + "\n---\n")
        cmeta.append((sc, order, per))
    ncd = 0
    if cin:
        couts = run_model(["cute"], "".join(cin)).split("---\n")
        for (sc, order, per), co in zip(cmeta, couts):
            want = co.strip().split("\n")
            got = [per[n] for n in order]
            if got != want:
                ncd += 1
                if ncd <= 3:
                    ctx.oblige("correspondence C03 (CUTE status lines)", False, f"tests {order}: CUTE shows {got} (S starting, F failure, E error, O success), the model {want}\n{sc.text()}")
    ctx.oblige("correspondence C03: the CUTE reporter's lines for every test are what the model of its memo says", ncd == 0 and len(cin) > 20, f"{ncd} of {len(cin)} runs differ")
    ctx.coverage["cute_model_runs"] = len(cin)
    ctx.coverage["samples"] = sample_of(scens)
    ctx.coverage["evaluations"] = ctx.coverage["correspondence"]["cases"]
    ctx.coverage["distinct_nontrivial"] = len({s.text() for s in scens})


KILL_POINTS =["before_setup", "after_setup", "after_body", "after_teardown", "after_tally", "before_write", "after_write",
               "after_completion", "at_exit"]
KILL_HOWS = ["11", "9", "6", "15", "13", "exit", "_exit"]


def oracle_C02(scen, m, o, reporter):
    """The dying test is one exception, what it delivered is counted, the verdict is failure, the others
    are reported as their own truth says (= as when the dying test is absent)."""
    e = oracle_C03(scen, m, o, reporter)
    if e:
        return e
    if m.truth[3] > 0 and status_of(o) != "1":
        return f"a test ended abnormally (truth {m.truth}) but the verdict is {status_of(o)}"
    return None


def c02_facts(scen, m):
    f = facts_of(scen, m)
    if scen.kill:
        f["kill_point"] = scen.kill[0]
        f["kill_how"] = scen.kill[2]
        f["late_abort"] = scen.kill[0] in ("after_completion", "at_exit") and scen.kill[2] == "6"
    return f


def check_C02(ctx):
    runner_lean(ctx)
    reader_obligations(ctx)
    platform_obligations(ctx)
    rng = random.Random(ctx.seed * 1000 + 2)
    bench = Bench(ctx)
    scens = []
    # systematic: every kill point x every way of dying x position of the dying test x history class
    histories = {
        "plain": lambda: [T("h1", body=["P", "F"]), T("h2", body=["P"])],
        "skipping": lambda: [T("h1", body=["S", "P"]), T("h2", x=1, body=["P"])],
        "dying": lambda: [T("h1", body=["P", "K11"]), T("h2", body=["F", "E"])],
    }
    victims = [lambda: T("v", ctx=1, body=["P", "F", "MF", "P"], setup=["P"], teardown=["F"]),
               lambda: T("v", body=["F"]), lambda: T("v", body=[]), lambda: T("v", body=["P", "S", "F"])]
    n = 0
    for point in KILL_POINTS:
        for how in KILL_HOWS:
            for hname, h in histories.items():
                n += 1
                if ctx.tier == "quick" and (n + ctx.seed) % 3 != 0:
                    continue
                v = victims[n % len(victims)]()
                occs = [1] if point not in ("before_write", "after_write") else [1, 2, 5, 6, 7]
                for occ in occs:
                    pos = n % 3
                    items = h()
                    post = [T("p1", body=["P", "F"]), T("p2", body=["MP"])]
                    tests = items[:pos] + [v] + items[pos:] + post
                    root = S("top", items=[S("inner", su=n % 2, td=(n // 2) % 2, items=tests[:3]), *tests[3:]])
                    scens.append(Scen(root, kill=(point, occ, how, "v")))
    # random: die acts anywhere in random trees
    for _ in range(sizes(ctx, 150, 3000)):
        scens.append(Scen(gen_tree(rng, max_tests=8)))
    reporters = ["text", "cute"]
    dis, orf = explore(ctx, bench, scens, reporters, oracle_C02, "C02")
    global facts_of_saved
    report(ctx, bench, dis, orf, oracle_C02, "C02", facts_fn=c02_facts)
    # differential: the same run without the dying test gives the other tests the same results
    sub = [s for s in scens if s.kill][: sizes(ctx, 40, 400)]
    for point, how in (("after_body", "11"), ("before_setup", "9"), ("after_write", "6"), ("after_body", "exit"), ("after_teardown", "_exit"), ("after_completion", "15")):
        for shape in (0, 1):      # ... in an otherwise green run: the death is the only thing wrong
            v = T("v", body=["P", "P"])
            root = S("top", items=[T("a", body=["P"]), v, T("b", body=["QI", "P"])]) if shape == 0 else S("top", items=[S("inner", items=[T("a", body=["P"]), v]), T("b", body=["QI", "P"])])
            sub.append(Scen(root, mode="fork", kill=(point, 1, how, "v")))
    without = []
    for s in sub:
        c = s.copy(); c.kill = None
        for su in c.root.suites():
            su.items = [i for i in su.items if not (isinstance(i, T) and i.name == "v")]
        without.append(c)
    a = bench.run_many([(s.text(), "text") for s in sub])
    b = bench.run_many([(s.text(), "text") for s in without])
    bad = 0
    for s, oa, ob in zip(sub, a, b):
        pa = observed_per_test(oa, "text", s); pb = observed_per_test(ob, "text", s)
        for path in pb:
            if path.endswith("/v"):
                continue
            if pa.get(path) != pb.get(path):
                bad += 1
                ctx.violation(f"[C02] test {path} is reported differently when test v dies ({s.kill}) than when v is absent: {pa.get(path)} vs {pb.get(path)}",
                              s.text(), found_input=True, facts={"kill_point": s.kill[0]})
                break
    # the verdict and the one error entry under the reporters that write files (the run's verdict comes from the reporter's own totals)
    others = ["quiet", "xml", "libxml", "cdash"]
    kms = run_model_scenarios([s.text() for s in sub])
    kobs = bench.run_many([(s.text(), r) for s in sub for r in others])
    kk = 0; kshown = 0
    for s, m in zip(sub, kms):
        for r in others:
            o = kobs[kk]; kk += 1
            if m.halted is not None or any(l.startswith("notok ") for l in m.lines):      # (F02 instances are reported by the main pass)
                continue
            if m.truth[3] > 0 and status_of(o) != "1" and kshown < 4:
                kshown += 1
                ctx.violation(f"[C02] {r} reporter: a test ended abnormally (truth {m.truth}) but the verdict is {status_of(o)}", f"# reporter: {r}\n" + s.text(), found_input=True, facts=dict(c02_facts(s, m), rep=r))
            if r in ("xml", "libxml") and status_of(o) in ("0", "1"):
                cases, errors = xml_testcases(o)
                nerr = sum(c[3] for c in cases)
                if not errors and nerr != m.truth[3] and kshown < 4:
                    kshown += 1
                    ctx.violation(f"[C02] {r} reporter: {nerr} error elements for {m.truth[3]} abnormally ended tests", f"# reporter: {r}\n" + s.text(), found_input=True, facts=dict(c02_facts(s, m), rep=r))
            if r == "libxml" and status_of(o) in ("0", "1"):
                # ... and counted once: in the counts of its own suite, in no other suite's (every suite file carries its suite's counts)
                e = oracle_C03(s, m, o, "libxml")
                if e and kshown < 6:
                    kshown += 1
                    ctx.violation(f"[C02] a test that ended abnormally is not counted exactly once, in its own suite: {e}", f"# reporter: {r}\n" + s.text(), found_input=True, facts=dict(c02_facts(s, m), rep=r))
    # through cgreen-runner: a library in which a test's process is killed, before and after a library that is all green - the runner's exit
    # status says failure wherever the dying test's library stands on the command line
    rimpl = build_impl(ctx, runner=True, tag="runner")
    ldir = os.path.join(ctx.work, "c02libs"); os.makedirs(ldir)
    open(os.path.join(ldir, "dying.c"), "w").write('#include <cgreen/cgreen.h>\n#include <signal.h>\n#include <unistd.h>\nEnsure(passes_then_is_killed) { assert_that(1, is_equal_to(1)); kill(getpid(), SIGKILL); }\nEnsure(healthy_neighbour) { assert_that(1, is_equal_to(1)); }\n')
    open(os.path.join(ldir, "healthy.c"), "w").write('#include <cgreen/cgreen.h>\nEnsure(all_is_well) { assert_that(1, is_equal_to(1)); }\n')
    for nm in ("dying", "healthy"):
        r = sh(["gcc", "-shared", "-fPIC", "-w", f"-I{REPO}/include", os.path.join(ldir, nm + ".c"), "-o", os.path.join(ldir, f"lib{nm}_tests.so"), f"-L{rimpl['dir']}", "-lcgreen"])
        if r.returncode != 0:
            raise BuildError("test library: " + r.stdout[-1500:])
    for args in (["libdying_tests.so"], ["libdying_tests.so", "libhealthy_tests.so"], ["libhealthy_tests.so", "libdying_tests.so"], ["libdying_tests.so", "libhealthy_tests.so", "libhealthy_tests.so"], ["-q", "libdying_tests.so", "libhealthy_tests.so"]):
        e = dict(os.environ); e["LD_LIBRARY_PATH"] = rimpl["dir"]; e.pop("CGREEN_NO_FORK", None)
        try:
            rr = subprocess.run([rimpl["runner"]] + args, cwd=ldir, stdout=subprocess.PIPE, stderr=subprocess.PIPE, env=e, timeout=60); rc = rr.returncode
        except subprocess.TimeoutExpired:
            rc = "timeout"
        if rc == 0 or rc == "timeout":
            ctx.violation(f"[C02] cgreen-runner {' '.join(args)}: a test's process is killed (libdying_tests.so: passes_then_is_killed), the runner " + ("does not terminate" if rc == "timeout" else "exits with status 0"),
                          "# libdying_tests.so: Ensure(passes_then_is_killed) { assert_that(1, is_equal_to(1)); kill(getpid(), SIGKILL); } and a healthy test; libhealthy_tests.so: one passing test\ncgreen-runner " + " ".join(args),
                          found_input=True, facts={"runner_libraries": True})
    ctx.coverage["differential_pairs"] = len(sub)
    ctx.coverage["samples"] = sample_of(scens)
    ctx.coverage["evaluations"] = ctx.coverage["correspondence"]["cases"] + 2 * len(sub) + len(kobs)
    ctx.coverage["distinct_nontrivial"] = len({s.text() for s in scens})
    ctx.coverage["kill_points"] = KILL_POINTS
    ctx.coverage["ways_of_dying"] = KILL_HOWS


def measure_cap(bench):
    s = Scen(S("top", items=[T("big", body=["P"] * 20000)]))
    o = bench.run_many([(s.text(), "text")])[0]
    tot = observed_totals(o, "text")
    return int(tot[0])


def oracle_C18(scen, m, o, reporter):
    if status_of(o) == "timeout":
        return "run did not terminate"
    if scen.mode == "fork":
        e = oracle_C03(scen, m, o, reporter)
        if e:
            return e
        return oracle_C01(scen, m, o, reporter)
    # in-process: the writer owns the verdict; an overflow ends the run with a failing (signal) status
    st = status_of(o)
    overflow = any(len([a for a in t.acts() if a in ("P", "F", "S")]) + 1 > scen.cap for _, t in scen.root.tests())
    if overflow:
        if st in ("0", "exit0"):
            return f"a test overflowed the result channel in-process but the run ended with status {st}"
        return None
    return oracle_C03(scen, m, o, reporter) or oracle_C01(scen, m, o, reporter)


def check_C18(ctx):
    runner_lean(ctx)
    reader_obligations(ctx)
    rng = random.Random(ctx.seed * 1000 + 18)
    bench = Bench(ctx)
    cap = measure_cap(bench)
    ctx.coverage["measured_capacity_records"] = cap
    ctx.oblige("the result channel has a finite measured capacity (model parameter `cap`)", cap > 0, str(cap))
    ks = [0, 1, cap - 2, cap - 1, cap, cap + 1, cap + 2, 2 * cap, 2 * cap + 1, 3 * cap - 1]
    if ctx.tier == "thorough":
        ks += [cap - 3, cap + 3, cap // 2, 2 * cap - 1, 3 * cap, 3 * cap + 7] + [rng.randrange(cap - 50, cap + 50) for _ in range(10)]
    scens = []
    for k in ks:
        for what in ("P", "F", "mix"):
            body = [what] * k if what != "mix" else [rng.choice("PF") for _ in range(k)]
            for pos in (0, 1, 2):
                for mode in ("fork", "inproc"):
                    if ctx.tier == "quick" and (len(scens) + ctx.seed) % 2 == 1 and k not in (cap - 1, cap, cap + 1):
                        scens.append(None); continue
                    # with all-pass neighbours the overflow is the only thing wrong in the run
                    others = [T("a", body=["P", "F"] if what != "P" else ["P", "P"]), T("b", body=["P"])]
                    tests = others[:pos] + [T("big", body=body)] + others[pos:]
                    root = S("top", items=[S("inner", items=tests[:2]), tests[2]]) if pos != 1 else S("top", items=tests)
                    scens.append(Scen(root, mode=mode, cap=cap))
    scens = [s for s in scens if s is not None]
    # a test that has a process of its own alive (a helper, a server it talks to) while it overflows the channel
    for k in (cap - 1, cap, cap + 10):
        for pos in (0, 1):
            tests = [T("a", body=["P"])][:pos] + [T("big", body=["HP"] + ["P"] * k)] + [T("b", body=["P", "P"])]
            scens.append(Scen(S("top", items=tests), mode="fork", cap=cap))
    # what the reporter has already counted in this suite (a skipped test, an exception, failures) when the big test comes
    for k in (cap - 1, cap, cap + 1, 2 * cap + 3):
        for before in ([T("sk", x=1, body=["P"])], [T("sk", body=["S"])], [T("sk", body=["P", "S"]), T("a", body=["P"])], [T("ex", body=["K11"])], [T("fl", body=["F", "F"])]):
            for mode in ("fork", "inproc"):
                if ctx.tier == "quick" and k == 2 * cap + 3 and mode == "inproc": continue
                scens.append(Scen(S("top", items=[S("inner", items=[t.copy() for t in before] + [T("big", body=["P"] * k), T("b", body=["P"])])]), mode=mode, cap=cap))
    # a test that has called skip_test() before it overflows the channel (the instance of finding F02 in this property's terms)
    for k in (cap, cap + 10):
        scens.append(Scen(S("top", items=[T("a", body=["P"]), T("big", body=["S"] + ["P"] * k), T("b", body=["P"])]), mode="fork", cap=cap))
    dis, orf = explore(ctx, bench, scens, ["text", "cute"], oracle_C18, "C18", check_events=True)
    report(ctx, bench, dis, orf, oracle_C18, "C18")
    # checks that an exit handler of the test's process makes after the completion notice has gone out (a checking destructor, a leak
    # detector): below the channel's capacity they are all counted; when they fill the channel the test's process is ended and the test is
    # an exception; the failing check among them makes the verdict failure either way. (Judged by the oracle alone: the runner model
    # has no exit handlers. When what the handler wrote fills the channel to the last page, the reporting process's own next notice
    # does not fit either and the run ends there, killed by the signal it raises for that: a failing end, no count reported - accepted.)
    late = []
    for body_n, late_n in ((10, 20), (0, 5), (cap // 2, cap // 2 - 10), (cap - 5, 2), (cap - 2, 0), (cap - 1, 0), (cap - 1000, 3000), (cap // 2, cap), (3, cap - 5), (3, cap - 4), (3, cap + 20)):
        for shape in (0, 1):
            big = T("big", body=["P"] * body_n + [f"AL{late_n}"])
            root = S("top", items=[T("a", body=["P"]), big, T("b", body=["P", "P"])]) if shape == 0 else S("top", items=[S("inner", items=[big]), T("b", body=["P", "P"])])
            late.append((Scen(root, mode="fork", cap=cap), body_n, late_n, 3 if shape == 0 else 2))
    lobs = bench.run_many([(sc.text(), "text") for sc, _, _, _ in late], timeout=120)
    lshown = 0
    for (sc, body_n, late_n, others), o in zip(late, lobs):
        tot = observed_totals(o, "text")
        st = status_of(o)
        what = None
        if st == "timeout":
            what = "the run does not terminate"
        elif st in ("0", "exit0"):
            what = f"the run ends with status {st} although a check failed (totals {tot})"
        elif st == "1" and tot is not None and int(tot[3]) == 0 and (int(tot[0]), int(tot[1])) != (body_n + late_n + others, 1):
            what = f"no exception is reported, yet the totals {tot} are not the {body_n + late_n + others} passes and 1 failure that were made"
        if what and lshown < 4:
            lshown += 1
            ctx.violation(f"[C18] a test that makes {body_n} checks and whose exit handler makes {late_n} more and a failing one (the channel holds {cap} records): {what}",
                          "# reporter: text   harness/scenario_run <file> text <outdir>\n" + (sc.text() if len(sc.text()) < 4000 else sc.text()[:300] + f"\n# ... test big: {body_n} x P, then AL{late_n}"), found_input=True,
                          facts={"late_checks": True, "body": body_n, "late": late_n})
    # a test that ignores SIGPIPE (as network code does) and overflows the channel: the signal the writer raises for itself does not end it, so
    # nothing more is sent - no completion notice either - and the test is an exception; what was lost is never silently "let stand"
    ig = []
    for body_n, tail in ((cap, ["F"] * 5), (cap + 3, ["P"]), (cap - 1, ["P", "F"]), (2 * cap, ["F"])):
        sc = Scen(S("top", items=[T("a", body=["P"]), T("big", body=["IP"] + ["P"] * body_n + tail), T("b", body=["P"])]), mode="fork", cap=cap)
        ig.append((sc, body_n, tail))
    iobs = bench.run_many([(sc.text(), "text") for sc, _, _ in ig], timeout=120)
    for (sc, body_n, tail), o in zip(ig, iobs):
        tot = observed_totals(o, "text"); st = status_of(o)
        made = (body_n + tail.count("P") + 3, tail.count("F"))
        what = None
        if st == "timeout": what = "the run does not terminate"
        elif st in ("0", "exit0"): what = f"the run ends with status {st} although results were lost (totals {tot}, made {made})"
        elif st == "1" and tot is not None and int(tot[3]) == 0 and (int(tot[0]), int(tot[1])) != made:
            what = f"no exception is reported, yet the totals {tot} are not the {made} (passes, failures) that were made"
        if what and lshown < 6:
            lshown += 1
            ctx.violation(f"[C18] a test that ignores SIGPIPE and makes {body_n + len(tail)} checks (the channel holds {cap} records): {what}",
                          "# reporter: text   harness/scenario_run <file> text <outdir>\n" + sc.text()[:300] + f"\n# ... test big: IP, {body_n} x P, then {' '.join(tail)}", found_input=True, facts={"ignores_sigpipe": True})
    ctx.coverage["exit_handler_runs"] = len(late)
    # the verdict of a run in which a test overflows the channel, under the reporters that fold their totals themselves: the
    # overflowing test in a sub-suite that is not the last one to finish, everything else green
    vs = []
    for k in (cap - 1, cap, cap + 1, 3 * cap):
        big = T("big", body=["P"] * k)
        vs.append(Scen(S("top", items=[S("first", items=[big.copy()]), S("second", items=[T("b", body=["P"])])]), mode="fork", cap=cap))
        vs.append(Scen(S("top", items=[S("mid", items=[S("deep", items=[big.copy()]), T("a", body=["P"])]), T("c", body=["P"])]), mode="fork", cap=cap))
        vs.append(Scen(S("top", items=[T("a", body=["P"]), big.copy()]), mode="fork", cap=cap))
    verdict_under_every_reporter(ctx, bench, vs, "C18", "a test that makes about as many checks as the channel holds")
    # the same through cgreen-runner: a library whose test makes N checks, run as one of several tests and as the one selected test
    # (which cgreen-runner runs in its own process): success only if all N results are reported
    rimpl = build_impl(ctx, runner=True, tag="runner")
    ldir = os.path.join(ctx.work, "c18lib"); os.makedirs(ldir)
    open(os.path.join(ldir, "big.c"), "w").write('#include <cgreen/cgreen.h>\n#include <stdlib.h>\nEnsure(big_makes_many_checks) { int i, n = atoi(getenv("C18_N")); for (i = 0; i < n; i++) assert_that(i, is_equal_to(i)); }\n'
                                                 'Ensure(small_passes) { assert_that(1, is_equal_to(1)); }\n')
    r = sh(["gcc", "-shared", "-fPIC", "-w", f"-I{REPO}/include", os.path.join(ldir, "big.c"), "-o", os.path.join(ldir, "libbig_tests.so"), f"-L{rimpl['dir']}", "-lcgreen"])
    if r.returncode != 0:
        raise BuildError("test library: " + r.stdout[-1500:])
    nrun = rshown = nhung = 0
    for n in (cap - 1, cap, cap + 1, 5 * cap):
        for args, label in (([], "all tests"), (["big_makes_many_checks"], "the one test selected by name"), (["big*"], "the one test selected by a pattern"), (["-q", "big_makes_many_checks"], "the one test selected by name, quiet")):
            e = dict(os.environ); e["C18_N"] = str(n); e["LD_LIBRARY_PATH"] = rimpl["dir"]; e.pop("CGREEN_NO_FORK", None)
            if nhung >= 2: continue      # (runs that do not end have been reported; no need to wait for more of them)
            try:
                rr = subprocess.run([rimpl["runner"]] + [a_ for a_ in args if a_.startswith("-")] + ["libbig_tests.so"] + [a_ for a_ in args if not a_.startswith("-")], cwd=ldir, stdout=subprocess.PIPE, stderr=subprocess.PIPE, env=e, timeout=60)
                rc, outp = rr.returncode, rr.stdout.decode("latin-1")
            except subprocess.TimeoutExpired:
                rc, outp = "timeout", ""
                nhung += 1
            nrun += 1
            want_passes = n + (0 if args and not args[-1].startswith("-") else 1)
            mt = re.findall(r"(\d+) pass", re.sub(r"\x1b\[[0-9;]*m", "", outp))
            reported = max([int(x) for x in mt], default=0)
            if rc == "timeout" or (rc == 0 and "-q" not in args and reported != want_passes) or (rc == 0 and n + 1 > cap):
                if rshown < 4:
                    rshown += 1
                    ctx.violation(f"[C18] cgreen-runner, {label}, a test that makes {n} checks (the channel holds {cap} records): " +
                                  ("the run does not terminate" if rc == "timeout" else f"exit status 0 with {reported} passes reported of {want_passes} checks made"),
                                  f"# a library with  Ensure(big_makes_many_checks) {{ for (i = 0; i < {n}; i++) assert_that(i, is_equal_to(i)); }}  and one small passing test\ncgreen-runner {' '.join(args[:1] if args and args[0].startswith('-') else [])} libbig_tests.so {' '.join(a_ for a_ in args if not a_.startswith('-'))}",
                                  found_input=True, facts={"runner_overflow": True, "n": n})
    ctx.coverage["runner_overflow_runs"] = nrun
    ctx.coverage["samples"] = [f"k={len(t.body)} checks in test 'big', mode {s.mode}" for s in scens[:6] for _, t in s.root.tests() if t.name == "big"]
    ctx.coverage["evaluations"] = ctx.coverage["correspondence"]["cases"]
    ctx.coverage["distinct_nontrivial"] = len({s.text() for s in scens})
    ctx.coverage["check_counts"] = sorted(set(ks))


def expected_phases(su, td, t):
    ph = []
    if su: ph.append("suiteSetup")
    elif t.ctx: ph.append("ctxSetup")
    ph.append("body")
    if td: ph.append("suiteTeardown")
    elif t.ctx: ph.append("ctxTeardown")
    return ph


def oracle_C08(scen, m, o, reporter):
    """Judged on the implementation's own event log: per executed test the phases are a prefix of
    setup/body/teardown (all of them when the test completes), in one process; xEnsure tests log nothing;
    a suite's fixtures bracket each sub-suite once, in the runner's process."""
    evs = [l.split(" ") for l in o.events if l.startswith("ev ")]
    by_path = {}
    for _, pid, path, ph in evs:
        by_path.setdefault(path, []).append((pid, ph))
    single = scen.mode[7:] if scen.mode.startswith("single:") else None
    errs = []

    def walk(s, path, reached):
        p = path + [s.name]
        subs = [i for i in s.items if isinstance(i, S)]
        if single is not None:
            subs = [c for c in subs if any(t.name == single for _, t in c.tests())]
        # brackets: events logged at the suite's own path
        got = by_path.get("/".join(p), [])
        if reached:
            want = []
            for c in subs:
                if s.su: want.append("suiteSetup")
                if s.td: want.append("suiteTeardown")
            if status_of(o) in ("0", "1"):
                if [ph for _, ph in got] != want:
                    errs.append(f"suite {'/'.join(p)}: fixture events around sub-suites {[ph for _, ph in got]}, expected {want}")
                if any(pid != "0" for pid, _ in got):
                    errs.append(f"suite {'/'.join(p)}: sub-suite fixtures ran outside the runner's process")
        for c in subs:
            walk(c, p, reached)
        for t in s.items:
            if not isinstance(t, T):
                continue
            tp = "/".join(p + [t.name])
            got = by_path.get(tp, [])
            if t.x or (single is not None and t.name != single):
                if got:
                    errs.append(f"test {tp} must not run anything but logged {got}")
                continue
            want = expected_phases(s.su, s.td, t)
            seq = [ph for _, ph in got]
            if seq != want[:len(seq)]:
                errs.append(f"test {tp}: phases {seq} are not a prefix of {want}")
            if len({pid for pid, _ in got}) > 1:
                errs.append(f"test {tp}: phases ran in several processes {got}")
            tt = per_test_truth(m).get(tp)
            completes = tt is not None and tt[3] == 0
            if completes and status_of(o) in ("0", "1") and seq != want:
                errs.append(f"test {tp} completed but its phases were {seq}, expected {want}")
            if got and scen.mode == "fork" and got[0][0] == "0":
                errs.append(f"test {tp}: test code ran in the runner's process in forking mode")
            # the tally is the last phase: expectations declared by the teardown (and the setup) are tallied too
            if completes and status_of(o) in ("0", "1") and (any(a in ("MG", "ML") for a in t.body) or (t.ctx and any(a in ("MF", "MP") for a in t.setup + t.teardown))):
                obs = per_obs.get(tp, [0, 0])
                if obs[0] != tt[4]:
                    errs.append(f"test {tp}: {obs[0]} failures reported, but the expectations its setup, body and teardown declare leave {tt[4]} at a tally that comes after the teardown")
    per_obs = observed_per_test(o, "text", scen) if reporter == "text" else {}
    walk(scen.root, [], True)
    return "; ".join(errs[:3]) if errs else None


def check_C08(ctx):
    runner_lean(ctx)
    phase_obligations(ctx)
    traversal_obligations(ctx)
    platform_obligations(ctx, ["switched_off_test", "test_process"])
    rng = random.Random(ctx.seed * 1000 + 8)
    bench = Bench(ctx)
    scens = []
    # systematic fixture combinations x outcomes
    outcomes = {"pass": ["P"], "fail": ["F", "P"], "skip": ["S", "P"], "die": ["P", "K11", "P"], "exit": ["E"], "mock": ["MF", "MP"],
                "learning": ["MG", "MF", "MP"], "loose": ["ML", "MF"]}      # the tally is made whatever the mock mode the test ends in
    for su in (0, 1):
        for td in (0, 1):
            for ctxv in (0, 1):
                for oname, body in outcomes.items():
                    t = T("t", ctx=ctxv, body=body, setup=["P"] if ctxv else [], teardown=["F"] if ctxv and oname == "fail" else ["MF", "MP"] if ctxv and oname in ("mock", "pass") else [])
                    root = S("top", su=su, td=td, items=[S("sub", su=td, td=su, items=[T("u", ctx=ctxv, body=["P"]), T("x", x=1, body=["P"])]), t])
                    for mode in ("fork", "inproc", "single:t", "single:u", "single:x"):
                        if mode != "fork" and oname in ("die", "exit") and ctx.tier == "quick" and (su + td + ctxv) % 2:
                            continue
                        scens.append(Scen(root.copy(), mode=mode))
    for _ in range(sizes(ctx, 80, 2000)):
        tree = gen_tree(rng, max_tests=8)
        mode = rng.choice(["fork", "fork", "inproc"])
        if rng.random() < 0.25:
            names = [t.name for _, t in tree.tests()]
            if names:
                mode = "single:" + rng.choice(names)
        scens.append(Scen(tree, mode=mode))
    dis, orf = explore(ctx, bench, scens, ["text"], oracle_C08, "C08", check_events=True)
    report(ctx, bench, dis, orf, oracle_C08, "C08")
    # a test whose body runs another suite in its own process (as cgreen's own tests of the runner do): both the outer and the
    # inner test get their own fixtures, once each, in order (judged by the oracle alone; the model has no nested runs)
    nexe = compile_harness(ctx, bench.impl, "nested_run", ["nested_run.c"])
    nshown = 0
    for mode in ("fork", "inproc", "single"):
        for inner in ("single", "suite"):
            for fx in ("ctx", "suitefix", "both"):
                log = os.path.join(ctx.work, f"nested-{mode}-{inner}-{fx}.log")
                e = dict(os.environ); e.pop("CGREEN_NO_FORK", None)
                try:
                    subprocess.run([nexe, mode, inner, fx, log], stdout=subprocess.PIPE, stderr=subprocess.PIPE, env=e, timeout=60)
                except subprocess.TimeoutExpired:
                    pass
                evs = [l.split(" ")[1] for l in open(log).read().split("\n") if " " in l] if os.path.exists(log) else []
                su, sd = (["suite_setup"], ["suite_teardown"]) if fx != "ctx" else ([], [])
                cs, cd = (["outer_setup"], ["outer_teardown"]) if fx == "ctx" else ([], [])      # a suite's own fixtures take the place of the context's
                want = su + cs + ["outer_body_begin", "inner_setup", "inner_body", "inner_teardown", "outer_body_end"] + cd + sd
                if mode != "single": want += su + cs + ["plain_body"] + cd + sd
                if evs != want and nshown < 4:
                    nshown += 1
                    i = next((i for i, (x, y) in enumerate(zip(evs, want)) if x != y), min(len(evs), len(want)))
                    ctx.violation(f"[C08] a test that runs another suite in its own process ({mode}; inner suite through {'run_single_test' if inner == 'single' else 'run_test_suite, CGREEN_NO_FORK'}; outer fixtures: {fx}): "
                                  f"event #{i} is {evs[i] if i < len(evs) else 'missing'}, expected {want[i] if i < len(want) else 'nothing more'}; all events: {evs}",
                                  f"harness/nested_run {mode} {inner} {fx} <logfile>", found_input=True, facts={"nested_run": True, "mode": mode})
    ctx.coverage["nested_runs"] = 18
    # the four spellings of a test definition through the real macros (Ensure / xEnsure, with and without a context)
    fexe = compile_harness(ctx, bench.impl, "ensure_forms", ["ensure_forms.c"])
    fshown = nforms = 0
    TESTS = [("plain_runs", False, False), ("plain_is_skipped", True, False), ("in_context_runs", False, True), ("in_context_is_skipped", True, True)]
    for fx in ("ctx", "suitefix"):
        for mode in ["fork", "inproc"] + ["single:" + t for t, _, _ in TESTS]:
            log = os.path.join(ctx.work, f"forms-{fx}-{mode.replace(':', '_')}.log")
            e = dict(os.environ); e.pop("CGREEN_NO_FORK", None)
            try:
                r = subprocess.run([fexe, mode, fx, log], stdout=subprocess.PIPE, stderr=subprocess.PIPE, env=e, timeout=60)
                out = r.stdout.decode("latin-1")
            except subprocess.TimeoutExpired:
                out = "timeout"
            nforms += 1
            evs = [l.split(" ", 1)[1] for l in open(log).read().split("\n") if " " in l] if os.path.exists(log) else []
            want, npass, nskip = [], 0, 0
            for t, skipped, inctx in TESTS:
                if mode.startswith("single:") and mode[7:] != t: continue
                if skipped: nskip += 1; continue
                npass += 1
                pre, post = (["suite_setup"], ["suite_teardown"]) if fx == "suitefix" else ((["before_each"], ["after_each"]) if inctx else ([], []))
                want += pre + [f"body {t}"] + post
            wtot = f"totals {npass} 0 {nskip} 0 rc 0"
            if (evs != want or wtot not in out) and fshown < 4:
                fshown += 1
                ctx.violation(f"[C08] Ensure/xEnsure spellings ({mode}, {'suite fixtures' if fx == 'suitefix' else 'context fixtures'}): events {evs}, expected {want}; the run says `{out.strip()[:80]}`, expected `{wtot}`",
                              f"harness/ensure_forms {mode} {fx} <logfile>", found_input=True, facts={"ensure_forms": True, "mode": mode.split(":")[0]})
    ctx.coverage["ensure_forms_runs"] = nforms
    ctx.coverage["samples"] = sample_of(scens)
    ctx.coverage["evaluations"] = ctx.coverage["correspondence"]["cases"]
    ctx.coverage["distinct_nontrivial"] = len({s.text() for s in scens})


def reporter_view(o, reporter, scen):
    """What one reporter says happened: (verdict, totals dict with the counts it reports, per-test dict name -> (failures, exceptions) or None)."""
    v = status_of(o)
    tot, per = {}, None
    if reporter == "text":
        t = observed_totals(o, "text")
        if t: tot = dict(p=int(t[0]), f=int(t[1]), s=int(t[2]), e=int(t[3]))
        per = {k.split("/")[-1]: tuple(x) for k, x in observed_per_test(o, "text", scen).items()}
    elif reporter == "quiet":
        per = {k.split("/")[-1]: tuple(x) for k, x in observed_per_test(o, "quiet", scen).items()}
        tot = dict(f=sum(x[0] for x in per.values()), e=sum(x[1] for x in per.values()))
    elif reporter == "cute":
        t = observed_totals(o, "cute")
        if t: tot = dict(p=int(t[0]), f=int(t[1]), e=int(t[3]))
        names = {t.name for _, t in scen.root.tests()}
        per = {}
        for l in impl_proj(o, "cute"):
            k, _, name = l.partition(" ")
            if k == "starting": per[name] = [0, 0]
            elif k == "failure" and name in per: per[name][0] = 1      # CUTE shows the first failure of a test only
            elif k == "error" and name in per: per[name][1] += 1
            elif k == "success" and name in per: per[name].append("ok")
        tot["okset"] = sorted(k for k, x in per.items() if "ok" in x)
        per = {k: tuple(x[:2]) for k, x in per.items()}
    elif reporter in ("xml", "libxml"):
        cases, errors = xml_testcases(o)
        if errors:
            return v, {"xmlerror": errors[0]}, None
        tot = dict(f=sum(c[2] for c in cases), e=sum(c[3] for c in cases), s=sum(c[4] for c in cases))
        per = {c[1]: (c[2], c[3]) for c in cases}
    elif reporter == "cdash":
        pt, err = cdash_counts(o)
        if err:
            return v, {"xmlerror": err}, None
        tot = dict(p=sum(x[0] for x in pt.values()), f=sum(x[1] for x in pt.values()), e=sum(x[2] for x in pt.values()))
        per = {k: (x[1], x[2]) for k, x in pt.items()}
        for _, t in scen.root.tests():
            per.setdefault(t.name, (0, 0))
    return v, tot, per


def check_C17(ctx):
    runner_lean(ctx)
    import verdict as vd
    generated_obligations(ctx, vd.render, "Cgreen.Gen.Verdict", ["folding_after_the_last_read"], "what each reporter's finish_suite does to the counters", sites=["reporter.c"])
    rng = random.Random(ctx.seed * 1000 + 17)
    bench = Bench(ctx)
    scens = [s for s in small_scope(rng, sizes(ctx, 40, 500))] + [Scen(gen_tree(rng, max_tests=8)) for _ in range(sizes(ctx, 50, 1200))]
    # the same under run_single_test(): one test by name, nested at any depth
    for sc in list(scens[:sizes(ctx, 40, 400)]):
        tests = [t for _, t in sc.root.tests()]
        names = [t.name for t in tests]
        if not tests or len(set(names)) != len(names):
            continue
        t = rng.choice(tests)
        if any(a[0] in "KEUZ" for a in t.acts()):
            continue
        c = sc.copy(); c.mode = "single:" + t.name; c.kill = None
        scens.append(c)
    # a test's process dying at every named point of its life, in every way - also after its completion notice, where only the
    # message handed to finish_test() tells a reporter that the test was killed
    # (not between a result's display and its delivery: CDash and the XML reporters display in the test's process, so an entry
    # whose record was never delivered is what such a death looks like, not a disagreement about what was counted)
    n = 0
    for point in KILL_POINTS:
        for how in KILL_HOWS:
            n += 1
            if point == "before_write" or (ctx.tier == "quick" and point not in ("after_completion", "at_exit") and (n + ctx.seed) % 2):
                continue
            v = T("v", body=["P", "F", "P"]) if n % 2 else T("v", ctx=1, body=["P"], setup=["P"], teardown=["P"])
            tests = [T("a", body=["P"]), v, T("b", body=["P", "P"])]
            root = S("top", items=tests) if n % 3 else S("top", items=[S("inner", items=tests[:2]), tests[2]])
            scens.append(Scen(root, kill=(point, 1, how, "v")))
    reps = REPORTERS_ALL
    models = run_model_scenarios([s.text() for s in scens])
    obs = bench.run_many([(s.text(), r) for s in scens for r in reps])
    k = 0
    ndis = 0
    shown = set()
    for s, m in zip(scens, models):
        views = {}
        for r in reps:
            o = obs[k]; k += 1
            views[r] = reporter_view(o, r, s)
            ds = compare(m, o, r, check_events=False)
            if ds:
                ndis += 1
                ctx.oblige(f"correspondence C17 ({r})", False, ds[0]) if ndis <= 3 else None
        # the property: every pair of reporters agrees on every count both report, on attribution and on the verdict
        errs = []
        ref = views["text"]
        for r in reps:
            v, tot, per = views[r]
            if "xmlerror" in tot:
                errs.append(f"{r}: output is not well-formed ({tot['xmlerror']})")
                continue
            if v != ref[0]:
                errs.append(f"verdict under {r} is {v}, under text {ref[0]}")
            if "okset" in tot and ref[2] is not None:
                want = sorted(n for n, x in ref[2].items() if x[0] == 0 and x[1] == 0 and n in per)
                if tot["okset"] != want:
                    errs.append(f"{r} marks {tot['okset']} as successful, text shows no failure or exception for {want}")
            for key in tot:
                if key in ref[1] and tot[key] != ref[1][key]:
                    errs.append(f"{r} reports {key}={tot[key]}, text reports {key}={ref[1][key]}")
            if per is not None and ref[2] is not None:
                for name, x in per.items():
                    y = ref[2].get(name, (0, 0))
                    if r == "cute":
                        y = (min(1, y[0]), y[1])
                    if tuple(x) != tuple(y):
                        errs.append(f"{r} attributes (failures, exceptions)={tuple(x)} to test {name}, text attributes {tuple(y)}")
        if errs:
            key = re.sub(r"\d+", "N", errs[0])[:70]
            if key not in shown and len(shown) < 6:
                shown.add(key)
                f = facts_of(s, m)
                ctx.violation("[C17] " + "; ".join(errs[:3]), "# run under every reporter: harness/scenario_run <file> <reporter> <outdir>\n" + s.text(), found_input=True, facts=f)
    # failed checks outside a test's bracket (suite fixtures run by the reporting process, exit handlers): every reporter must
    # come to the same verdict and the same number of failures (judged among the reporters; the runner model does not cover these)
    late = outside_bracket_scens()
    lobs = bench.run_many([(sc.text(), r) for sc, _ in late for r in reps])
    k = 0
    for sc, lab in late:
        row = {}
        for r in reps:
            row[r] = lobs[k]; k += 1
        verdicts = {r: status_of(o) for r, o in row.items()}
        fails = {r: int(observed_totals(row[r], r)[1]) for r in ("text", "cute") if observed_totals(row[r], r)}
        # which tests show a failure of their own: text (failure lines naming the test) and CUTE (its '#failure' line)
        tper = {k.split("/")[-1]: v[0] > 0 for k, v in observed_per_test(row["text"], "text", sc).items()}
        cper, cur = {}, None
        for l in impl_proj(row["cute"], "cute"):
            kk_, _, name = l.partition(" ")
            if kk_ == "starting": cur = name; cper[name] = False
            elif kk_ == "failure" and cur is not None and name == cur: cper[name] = True
        own = {t.name: any(a[0] in "FXY" for a in t.body) for _, t in sc.root.tests()}
        for name, has in own.items():
            if has and not (tper.get(name) and cper.get(name)) and len(shown) < 8:
                shown.add(("own", name, sc.mode))
                ctx.violation(f"[C17] {lab}: test {name} fails a check of its own; text shows a failure for it: {tper.get(name)}, CUTE shows one: {cper.get(name)}",
                              "# run under the text and the CUTE reporter: harness/scenario_run <file> <reporter> <outdir>\n" + sc.text(), found_input=True, facts={"outside_bracket": True})
        if (len(set(verdicts.values())) > 1 or len(set(fails.values())) > 1) and len(shown) < 8:
            shown.add(lab[:40] + sc.mode)
            ctx.violation(f"[C17] {lab}: the reporters disagree: verdicts {verdicts}, failures counted {fails}", "# run under every reporter: harness/scenario_run <file> <reporter> <outdir>\n" + sc.text(),
                          found_input=True, facts={"outside_bracket": True})
    # one reporter object used for two runs (several run_test_suite() calls; cgreen-runner given several libraries): what it has counted in
    # the first run is still in what it reports after the second, under every reporter alike - the second run here is one passing test
    twice = []
    for first in ([T("a", body=["P", "F"]), T("b", body=["P"])], [T("a", body=["P"]), T("b", body=["P", "K11"])], [T("a", body=["P", "P"])], [T("a", body=["S"]), T("b", body=["F", "F"])]):
        for shape in (0, 1):
            sc = Scen(S("top", items=[t.copy() for t in first]) if shape == 0 else S("top", items=[S("inner", items=[t.copy() for t in first[:1]])] + [t.copy() for t in first[1:]]))
            sc.rerun = True
            twice.append(sc)
    tobs = bench.run_many([(sc.text(), r) for sc in twice for r in reps])
    k = 0
    for sc in twice:
        row = {}
        for r in reps:
            row[r] = tobs[k]; k += 1
        verdicts = {r: status_of(o) for r, o in row.items()}
        tt, tc = observed_totals(row["text"], "text"), observed_totals(row["cute"], "cute")
        errs = []
        if len(set(verdicts.values())) > 1:
            errs.append(f"the second run's verdict differs among the reporters: {verdicts}")
        if tt is None or tc is None or (tt[0], tt[1], tt[3]) != (tc[0], tc[1], tc[3]):
            errs.append(f"after the second run the text reporter's totals are {tt}, CUTE's {tc} (passes, failures, skipped, exceptions)")
        if errs and len(shown) < 10:
            shown.add("twice" + str(len(shown)))
            ctx.violation("[C17] one reporter used for two runs (the second: one passing test): " + "; ".join(errs), "# run under every reporter: harness/scenario_run <file> <reporter> <outdir>\n" + sc.text(),
                          found_input=True, facts={"two_runs": True})
    # failed checks whose message is one long line (a quoted document, a long string): every reporter still counts each of them, and what
    # the same test fails afterwards, under the test that made them
    longs = []
    for L in (200, 990, 1100, 2500):
        doc = ('{"k": "<a&b>", ' * (L // 16 + 1))[:L]
        longs.append(Scen(S("top", items=[T("a", body=["P"]), T("differs", body=["X" + doc.encode().hex(), "F"]), T("b", body=["F"])])))
    gobs = bench.run_many([(sc.text(), r) for sc in longs for r in ("text", "xml", "libxml", "cute")])
    for i, sc in enumerate(longs):
        row = dict(zip(("text", "xml", "libxml", "cute"), gobs[4 * i: 4 * i + 4]))
        tper = {k.split("/")[-1]: v[0] for k, v in observed_per_test(row["text"], "text", sc).items()}
        errs = []
        for r in ("xml", "libxml"):
            cases, perr = xml_testcases(row[r])
            xper = {c[1]: c[2] for c in cases}
            if perr: errs.append(f"the {r} report is not well-formed ({perr[0][:80]})")
            elif any(xper.get(n, 0) != tper.get(n, 0) for n in ("a", "differs", "b")):
                errs.append(f"{r} shows failures per test {xper}, text {tper}")
        ct = observed_totals(row["cute"], "cute"); tt = observed_totals(row["text"], "text")
        if ct is None or tt is None or ct[1] != tt[1]: errs.append(f"CUTE counts {ct and ct[1]} failures, text {tt and tt[1]}")
        if errs and len(shown) < 12:
            shown.add("long" + str(i))
            ctx.violation(f"[C17] a failed check with a one-line message of {len(bytes.fromhex(sc.root.items[1].body[0][1:]))} characters: " + "; ".join(errs),
                          "# run under every reporter: harness/scenario_run <file> <reporter> <outdir>\n" + sc.text()[:6000], found_input=True, facts={"long_message": True})
    ctx.coverage["long_message_runs"] = len(gobs)
    ctx.coverage["two_runs_with_one_reporter"] = len(tobs)
    ctx.coverage["correspondence"] = {"cases": len(obs) + len(lobs), "disagreements": ndis, "oracle_evaluations": len(scens) + len(late)}
    ctx.oblige("correspondence C17: model and implementation agree under every reporter", ndis == 0, f"{ndis} disagreements")
    ctx.coverage["samples"] = sample_of(scens)
    ctx.coverage["evaluations"] = len(obs)
    ctx.coverage["distinct_nontrivial"] = len({s.text() for s in scens})
    ctx.coverage["reporters"] = reps


# ---- C04 / C13: per-test framework state -------------------------------------------------------
FW_ACTS = ["P", "F", "MF", "MC", "ML", "MG", "CU", "EC", "G2", "G12", "D", "W", "P", "CU", "D", "QI"]


def gen_fw_test(rng, name, allow_read_global):
    n = rng.choice([1, 2, 3, 4, 6])
    acts = [rng.choice(FW_ACTS + (["R"] if allow_read_global else [])) for _ in range(n)]
    if rng.random() < 0.15:
        acts += ["MF"] * rng.choice([4, 5, 7, 9])     # many expectations left pending
    if rng.random() < 0.3:
        # a test of a context: what its setup selects (mock mode, figures, expectations) is in force in the body and the teardown
        return T(name, ctx=1, body=acts, setup=[rng.choice(["ML", "MG", "G2", "G12", "MF", "EC", "W", "P", "MS"]) for _ in range(rng.choice([1, 1, 2]))],
                 teardown=[rng.choice(["CU", "D", "P", "MF"]) for _ in range(rng.choice([0, 1, 2]))])
    return T(name, body=acts)


def run_pertest_model(texts):
    out = run_model(["pertest"], "".join(t + "---\n" for t in texts))
    blocks, cur = [], {}
    for l in out.split("\n"):
        if l == "---":
            blocks.append(cur); cur = {}
        elif l.startswith("test "):
            w = l.split(" ")
            cur[w[1]] = [x for x in w[2:] if x]
        elif l.startswith("error"):
            raise RuntimeError(l)
    return blocks


def fw_observed(o, scen):
    """Per test name: (failure lines, of which 'called too many times')."""
    per = {t.name: [0, 0] for _, t in scen.root.tests()}
    cur = None
    for l in o.stdout.split("\n"):
        m = re.match(r"^(.*?):(\d+): (Failure|Exception): (.*)$", l)
        if m:
            crumbs = [x for x in m.group(4).strip().split(" -> ") if x]
            cur = crumbs[-1] if crumbs else None
            if cur in per and m.group(3) == "Failure":
                per[cur][0] += 1
        elif cur in per and "was called too many times" in l:
            per[cur][1] += 1
    return {k: tuple(v) for k, v in per.items()}


def fw_expected(res):
    return {name: (sum(1 for r in rs if r in "FT"), sum(1 for r in rs if r == "T")) for name, rs in res.items()}


def check_C04(ctx):
    ok, out, failed = lean_check(ctx)
    reader_obligations(ctx)      # (every test's records are read up to its own end marker: nothing of one test is left for the next)
    platform_obligations(ctx, ["reporting_process", "test_process"])      # the order Model/Signals.lean assumes: fork, then ignore - wait - allow
    rng = random.Random(ctx.seed * 1000 + 4)
    bench = Bench(ctx)
    sets = []
    for i in range(sizes(ctx, 40, 500)):
        n = rng.choice([2, 3, 4, 5, 6])
        tests = [gen_fw_test(rng, f"t{k}", allow_read_global=True) for k in range(n)]
        if rng.random() < 0.3:
            tests[rng.randrange(n)].body.append(rng.choice(["K11", "E", "S"]))   # tests may die or skip too
        sets.append(tests)
    # designed sets, run in every order: a test that leaves quietly (exit(), _exit(): no completion notice, no signal) comes first,
    # last, and right after a sub-suite
    designed = [[T("quits", body=["P", "E"]), T("plain", body=["P"]), T("fails", body=["F"])],
                [T("quits", body=["E"]), T("plain", body=["P", "P"]), T("fails", body=["P", "F"])]]
    sets = designed + sets
    scens, groups = [], []
    for tests in sets:
        orders = [list(tests)]
        if any(tests is d for d in designed):
            import itertools
            orders = [list(p) for p in itertools.permutations(tests)] * 3      # (each order in each of the three shapes below)
            orders.sort(key=lambda o: [t.name for t in o])
        for _ in range(0 if any(tests is d for d in designed) else sizes(ctx, 4, 10)):
            p = list(tests); rng.shuffle(p); orders.append(p)
        for _ in range(2):
            sub = [t for t in tests if rng.random() < 0.6]
            if sub: orders.append(sub)
        # nested variant: half of them in a sub-suite
        g = []
        for k, order in enumerate(orders):
            if k % 5 == 4:      # a sub-suite that ends up without tests (its only test is not in this subset), registered first
                root = S("top", items=[S("emptied", items=[]), S("inner", items=[t.copy() for t in order[:1]])] + [t.copy() for t in order[1:]])
            elif k % 3 == 2 and len(order) > 1:
                root = S("top", items=[S("inner", items=[t.copy() for t in order[: len(order) // 2]])] + [t.copy() for t in order[len(order) // 2:]])
            else:
                root = S("top", items=[t.copy() for t in order])
            g.append(len(scens)); scens.append(Scen(root, mode="fork"))
        groups.append(g)
    obs = bench.run_many([(s.text(), "text") for s in scens])
    # pertest model takes scripts without the dying/skipping acts' effects: strip them for the model (they end/mark the test only)
    def model_text(s):
        c = s.copy()
        for _, t in c.root.tests():
            dies = any(a in ("K11", "E") for a in t.body)
            # a test that dies never reaches the tally: what it left pending is not reported
            t.body = [a for a in t.body if a not in ("K11", "E", "S") and not (dies and a == "MF")]
            if dies:      # (the dying act is the last one of the body: the teardown never runs)
                t.teardown = []
                t.setup = [a for a in t.setup if a != "MF"]
        return c.text()
    models = run_pertest_model([model_text(s) for s in scens])
    ndis = 0
    shown = 0
    for g in groups:
        ref = {}
        for idx in g:
            s, o, m = scens[idx], obs[idx], models[idx]
            got = fw_observed(o, s)
            exp = fw_expected(m)
            for name in got:
                if got[name] != exp.get(name):
                    ndis += 1
                    if ndis <= 3:
                        ctx.oblige("correspondence C04 (per-test framework state)", False, f"test {name}: model {exp.get(name)} impl {got[name]} in\n{s.text()}")
            # the property itself: the same test is reported the same in every order / subset
            for name, v in got.items():
                if name in ref and ref[name][0] != v and shown < 6:
                    shown += 1
                    ctx.violation(f"[C04] test {name} is reported as (failures, too-many-calls)={v} in one registration order and {ref[name][0]} in another",
                                  "# two runs of the same tests in different orders / subsets (text reporter, forking mode)\n# run A:\n" + ref[name][1] + "\n# run B:\n" + s.text(),
                                  found_input=True, facts={"mode": "fork"})
                ref.setdefault(name, (v, s.text()))
    # ... including how it ended: the failure and exception lines that name a test are the same in every order and subset
    for g in groups:
        refl = {}
        for idx in g:
            s, o = scens[idx], obs[idx]
            if status_of(o) not in ("0", "1"):
                continue
            for path, v in observed_per_test(o, "text", s).items():
                name = path.split("/")[-1]
                if name in refl and refl[name][0] != tuple(v) and shown < 8:
                    shown += 1
                    ctx.violation(f"[C04] test {name} has (failure lines, exception lines)={tuple(v)} in one registration order and {refl[name][0]} in another",
                                  "# two runs of the same tests in different orders / subsets (text reporter, forking mode)\n# run A:\n" + refl[name][1] + "\n# run B:\n" + s.text(), found_input=True, facts={"mode": "fork", "lines": True})
                refl.setdefault(name, (tuple(v), s.text()))
    # ... also after a test whose process was killed while it was exiting (after its completion notice), and after a test that reported an
    # exception of its own and then completed (what cgreen sends for a C++ test body that throws): in every order the lines that name each
    # test are the same (judged among the orders; the per-test model has neither)
    import itertools as _it
    special = []
    for kind in ("late", "thrown"):
        base = [T("v", body=["P"] if kind == "late" else ["P", "XN", "P"]), T("plain_failure", body=["P", "F"]), T("quits", body=["E"]), T("ok", body=["P"])]
        for order in list(_it.permutations(base))[:: 2]:
            for shape in (0, 1):
                items = [t.copy() for t in order]
                root = S("top", items=items) if shape == 0 else S("top", items=[S("inner", items=items[:2])] + items[2:])
                special.append((kind, Scen(root, mode="fork", kill=("at_exit", 1, "15", "v") if kind == "late" else None)))
    sobs = bench.run_many([(sc.text(), "text") for _, sc in special])
    sref = {}
    for (kind, sc), o in zip(special, sobs):
        if status_of(o) not in ("0", "1"):
            continue
        known = {"/".join(p_) for p_, _ in sc.root.tests()}
        per = observed_per_test(o, "text", sc)
        stray = [p_ for p_, v in per.items() if p_ not in known and any(v)]
        if stray and shown < 10:
            shown += 1
            ctx.violation(f"[C04] after a test that {'was killed while exiting' if kind == 'late' else 'reported an exception and completed'}: failure or exception lines name `{stray[0]}`, which is no test of the run",
                          "# reporter: text   harness/scenario_run <file> text <outdir>\n" + sc.text(), found_input=True, facts={"mode": "fork", "lines": True, "after": kind})
        for path_, v in per.items():
            name = path_.split("/")[-1]
            if path_ not in known: continue
            key = (kind, name)
            if key in sref and sref[key][0] != tuple(v) and shown < 10:
                shown += 1
                ctx.violation(f"[C04] test {name} has (failure lines, exception lines)={tuple(v)} in one registration order and {sref[key][0]} in another (one of the tests {'is killed while exiting' if kind == 'late' else 'reports an exception and completes'})",
                              "# two runs of the same tests in different orders (text reporter, forking mode)\n# run A:\n" + sref[key][1] + "\n# run B:\n" + sc.text(), found_input=True, facts={"mode": "fork", "lines": True, "after": kind})
            sref.setdefault(key, (tuple(v), sc.text()))
    ctx.coverage["orders_after_late_death_or_thrown_exception"] = len(special)
    # what a test inherits from the runner - signal dispositions, blocked signals, open descriptors - is the same for every
    # test, wherever it stands and whatever ran (or died) before it
    for g in groups:
        seen = {}
        for idx in g:
            s, o = scens[idx], obs[idx]
            for l in o.fingerprints:
                path, _, fp = l.partition(" ")
                depth = path.count("/")
                key = fp if depth == 1 else None      # (the descriptor count is compared among tests of the outermost suite)
                if key is None: fp = " ".join(x for x in fp.split(" ") if not x.startswith("fds:"))
                seen.setdefault(depth == 1, {}).setdefault(fp, (path.split("/")[-1], s.text()))
        for flat, fps in seen.items():
            if len(fps) > 1 and shown < 8:
                shown += 1
                (fa, (na, ta)), (fb, (nb, tb)) = list(fps.items())[:2]
                ctx.violation(f"[C04] what a test inherits from the runner depends on what ran before it: test {na} starts with `{fa}`, test {nb} with `{fb}` (signal dispositions for signals 1-31: D default, I ignored, H handled)",
                              "# (forking mode, text reporter; harness/scenario_run writes <outdir>/fingerprints)\n# run A:\n" + ta + "\n# run B:\n" + tb, found_input=True, facts={"mode": "fork", "inherited_state": True})
    # ... also under a reporter that keeps files of its own per test and per suite (libxml2): tests of the same suite inherit the same
    lx = [scens[g[0]] for g in groups]
    lobs = bench.run_many([(s.text(), "libxml") for s in lx])
    for s, o in zip(lx, lobs):
        by_suite = {}
        for l in o.fingerprints:
            path, _, fp = l.partition(" ")
            by_suite.setdefault(path.rsplit("/", 1)[0], {}).setdefault(fp, path.split("/")[-1])
        for suite, fps in by_suite.items():
            if len(fps) > 1 and shown < 8:
                shown += 1
                (fa, na), (fb, nb) = list(fps.items())[:2]
                ctx.violation(f"[C04] libxml2 reporter: what a test inherits from the runner depends on what ran before it: in suite {suite} test {na} starts with `{fa}`, test {nb} with `{fb}`",
                              "# (forking mode, libxml2 reporter; harness/scenario_run writes <outdir>/fingerprints)\n" + s.text(), found_input=True, facts={"mode": "fork", "inherited_state": True, "rep": "libxml"})
    # ... and when the test program itself was started with Ctrl-C ignored (`nohup`, a background job of a shell without job
    # control, many CI runners): the first test must find what every later test finds
    ig = [scens[i] for g in groups[: sizes(ctx, 12, 60)] for i in g[:2]]
    iobs = bench.run_many([(s.text(), "text") for s in ig], sigint_ignored=True)
    n_ig = 0
    for s, o in zip(ig, iobs):
        by_depth = {}
        for l in o.fingerprints:
            path, _, fp = l.partition(" ")
            fp = " ".join(x for x in fp.split(" ") if not x.startswith("fds:"))
            by_depth.setdefault(fp, path.split("/")[-1])
        n_ig += len(o.fingerprints)
        if len(by_depth) > 1 and shown < 10:
            shown += 1
            (fa, na), (fb, nb) = list(by_depth.items())[:2]
            ctx.violation(f"[C04] test program started with SIGINT ignored: what a test inherits from the runner depends on what ran before it: test {na} starts with `{fa}`, test {nb} with `{fb}` (signal dispositions for signals 1-31: D default, I ignored, H handled)",
                          "# (forking mode, text reporter, the test program started with SIGINT ignored - e.g. `nohup ./scenario_run ...`; harness/scenario_run writes <outdir>/fingerprints)\n" + s.text(),
                          found_input=True, facts={"mode": "fork", "inherited_state": True, "start": "sigint-ignored"})
    ctx.coverage["started_with_sigint_ignored"] = {"runs": len(ig), "tests_fingerprinted": n_ig}
    # correspondence with the model of the runner's handling of SIGINT (Model/Signals.lean, theorem C04_sigint_inherited): what each
    # test's process starts with, in the order the runner forks them, for a program started with SIGINT default and ignored
    def sigints(o):
        return "".join(l.split("sig:", 1)[1][1] for l in o.fingerprints if "sig:" in l)
    pairs = [("D", sigints(o)) for o in obs if o.fingerprints] + [("I", sigints(o)) for o in iobs if o.fingerprints]
    mouts = run_model(["sigint"], "".join(f"{d} {'0' * len(g)}\n" for d, g in pairs)).split("\n")
    nsd = sum(1 for (d, g), mo in zip(pairs, mouts) if g != mo)
    ctx.oblige("correspondence C04: every test's process starts with the SIGINT disposition the model says (program started with SIGINT default / ignored)", nsd == 0 and len(pairs) > 0,
               f"{nsd} of {len(pairs)} runs differ" + "".join(f"; started {d}: tests found {g}, model {mo}" for (d, g), mo in list(zip(pairs, mouts))[:400] if g != mo)[:300])
    ctx.coverage["sigint_model_runs"] = len(pairs)
    # the same orders as another reporter shows them: what CUTE says about a test (its status lines) does not depend on the order either
    cobs = bench.run_many([(s.text(), "cute") for s in scens])
    for g in groups:
        ref = {}
        for idx in g:
            s, o = scens[idx], cobs[idx]
            if status_of(o) not in ("0", "1"):
                continue
            per, cur = {}, None
            for l in impl_proj(o, "cute"):
                k, _, name = l.partition(" ")
                if k == "starting": cur = name; per[name] = []
                elif k in ("success", "failure", "error") and cur is not None and name == cur: per[name].append(k)
            for name, v in per.items():
                if name in ref and ref[name][0] != v and shown < 8:
                    shown += 1
                    ctx.violation(f"[C04] the CUTE reporter shows test {name} as {v} in one registration order and as {ref[name][0]} in another",
                                  "# two runs of the same tests in different orders / subsets (CUTE reporter, forking mode)\n# run A:\n" + ref[name][1] + "\n# run B:\n" + s.text(),
                                  found_input=True, facts={"mode": "fork", "rep": "cute"})
                ref.setdefault(name, (v, s.text()))
    ctx.oblige("correspondence C04: model and implementation agree on every generated run", ndis == 0, f"{ndis} disagreements")
    ctx.coverage["correspondence"] = {"cases": len(scens) * 2, "disagreements": ndis, "oracle_evaluations": len(scens) * 2}
    ctx.coverage["samples"] = sample_of(scens, 2)
    ctx.coverage["evaluations"] = len(scens)
    ctx.coverage["distinct_nontrivial"] = len({s.text() for s in scens})
    ctx.coverage["test_sets"] = len(sets)


def check_C13(ctx):
    ok, out, failed = lean_check(ctx)
    phase_obligations(ctx, ["resets_come_first", "phases_are_the_models"])
    traversal_obligations(ctx, ["named_test_skeleton", "named_test_sub_suites", "named_test_own_tests"])
    rng = random.Random(ctx.seed * 1000 + 13)
    bench = Bench(ctx)
    scens = []
    trip = []
    for i in range(sizes(ctx, 60, 800)):
        n = rng.choice([2, 3, 4, 5])
        tests = [gen_fw_test(rng, f"t{k}", allow_read_global=False) for k in range(n)]
        if i in (1, 2):      # an all-green run whose last (i == 1) or first (i == 2) test is switched off: the program's exit status is the same in every mode
            tests = [T("t0", body=["P"]), T("t1", body=["P", "P"]), T("t2", body=["P"])]
            tests.insert(3 if i == 1 else 0, T("x", x=1, body=["P"]))
        if i in (1, 2):
            pass
        elif rng.random() < 0.2:
            tests.insert(rng.randrange(n), T("x", x=1, body=["P"]))
        elif i % 5 == 2:
            tests.append(T("x", x=1, body=["P"]))      # a switched-off test is the last thing the process meets
        if i not in (1, 2) and rng.random() < 0.2:
            tests[0].body.append("S")
        root = S("top", items=[S("inner", items=[t.copy() for t in tests[:1]])] + [t.copy() for t in tests[1:]]) if i % 3 == 0 else S("top", items=[t.copy() for t in tests])
        if i % 4 == 1 and len(tests) >= 4:
            # three levels, with suites that do not hold the wanted test listed before the entry that does
            cp = [t.copy() for t in tests]
            root = S("top", items=[S("mid", items=[S("s1", items=cp[:1]), S("s2", items=cp[1:3]), cp[3]])] + cp[4:])
        a = len(scens)
        scens.append(Scen(root.copy(), mode="fork"))
        scens.append(Scen(root.copy(), mode="inproc"))
        singles = []
        for t in tests:
            if not t.x:
                singles.append((t.name, len(scens)))
                scens.append(Scen(root.copy(), mode="single:" + t.name))
        trip.append((a, a + 1, singles))
    obs = bench.run_many([(s.text(), "text") for s in scens])

    def model_text(s):
        c = s.copy()
        for _, t in c.root.tests():
            t.body = [a for a in t.body if a != "S"]
        c.root.items = c.root.items
        return c.text()
    models = run_pertest_model([model_text(s) for s in scens])
    ndis = shown = 0
    for s, o, m in zip(scens, obs, models):
        got = fw_observed(o, s)
        exp = fw_expected(m)
        for name, v in exp.items():
            t = next(t for _, t in s.root.tests() if t.name == name)
            if t.x:
                continue
            if got.get(name) != v:
                ndis += 1
                if ndis <= 3:
                    ctx.oblige("correspondence C13 (per-test framework state)", False, f"test {name}: model {v} impl {got.get(name)} in\n{s.text()}")
    for a, b, singles in trip:
        fa, fb = fw_observed(obs[a], scens[a]), fw_observed(obs[b], scens[b])
        ta, tb = observed_totals(obs[a], "text"), observed_totals(obs[b], "text")
        errs = []
        for name in fa:
            if fa[name] != fb.get(name):
                errs.append(f"test {name}: forked (failures, too-many-calls)={fa[name]}, CGREEN_NO_FORK {fb.get(name)}")
        if ta != tb:
            errs.append(f"totals forked {ta}, CGREEN_NO_FORK {tb}")
        if status_of(obs[a]) != status_of(obs[b]):
            errs.append(f"verdict forked {status_of(obs[a])}, CGREEN_NO_FORK {status_of(obs[b])}")
        elif obs[a].rc != obs[b].rc and not obs[a].timeout and not obs[b].timeout:
            errs.append(f"the test program's exit status is {obs[a].rc} forked and {obs[b].rc} with CGREEN_NO_FORK (both runs returned {status_of(obs[a])})")
        for name, idx in singles:
            fs = fw_observed(obs[idx], scens[idx])
            if fs.get(name) != fa.get(name):
                errs.append(f"test {name}: forked {fa.get(name)}, run_single_test {fs.get(name)}")
        if errs and shown < 6:
            shown += 1
            ctx.violation("[C13] " + "; ".join(errs[:3]), "# the same suite under the three execution modes (text reporter)\n" + scens[a].text() + "\n" + scens[b].text(), found_input=True,
                          facts={"mode": "inproc"})
    # the same three modes as the CUTE reporter shows them: the status lines of every test (its '#failure' line is the only place
    # a message appears in) are the same in every mode
    def cute_view(o):
        per, cur = {}, None
        for l in impl_proj(o, "cute"):
            k, _, name = l.partition(" ")
            if k == "starting": cur = name; per[name] = []
            elif k in ("success", "failure", "error") and cur is not None and name == cur: per[name].append(k)
        return per
    cobs = bench.run_many([(s.text(), "cute") for s in scens])
    for a, b, singles in trip:
        if status_of(cobs[a]) not in ("0", "1") or status_of(cobs[b]) not in ("0", "1"):
            continue
        va, vb = cute_view(cobs[a]), cute_view(cobs[b])
        errs = [f"test {n}: CUTE shows {va[n]} forked and {vb.get(n)} with CGREEN_NO_FORK" for n in va if va[n] != vb.get(n)]
        for name, idx in singles:
            vs = cute_view(cobs[idx])
            if status_of(cobs[idx]) in ("0", "1") and vs.get(name) != va.get(name):
                errs.append(f"test {name}: CUTE shows {va.get(name)} forked and {vs.get(name)} through run_single_test")
        if errs and shown < 8:
            shown += 1
            ctx.violation("[C13] " + "; ".join(errs[:3]), "# the same suite under the three execution modes (CUTE reporter)\n" + scens[a].text() + "\n" + scens[b].text(), found_input=True, facts={"mode": "inproc", "rep": "cute"})
    # ... and as the two XML reporters show them: every test's testcase element has the same failure, error and skipped children in
    # every mode (a test that fails a check and then skips itself writes its failures in one process and its skip in another when forked,
    # in the same process otherwise)
    for rep in ("xml", "libxml"):
        xobs = bench.run_many([(s.text(), rep) for s in scens])
        def xview(o):
            cases, errors = xml_testcases(o)
            return None if errors else {c[1]: (c[2], c[3], c[4]) for c in cases}
        for a, b, singles in trip:
            if status_of(xobs[a]) not in ("0", "1") or status_of(xobs[b]) not in ("0", "1"):
                continue
            va, vb = xview(xobs[a]), xview(xobs[b])
            if va is None or vb is None:
                errs = [f"the {rep} report is not well-formed (forked: {va is not None}, CGREEN_NO_FORK: {vb is not None})"]
            else:
                errs = [f"test {n}: {rep} shows (failures, errors, skipped)={va[n]} forked and {vb.get(n)} with CGREEN_NO_FORK" for n in va if va[n] != vb.get(n)]
                for name, idx in singles:
                    vs = xview(xobs[idx])
                    if status_of(xobs[idx]) in ("0", "1") and vs is not None and vs.get(name) != va.get(name):
                        errs.append(f"test {name}: {rep} shows (failures, errors, skipped)={va.get(name)} forked and {vs.get(name)} through run_single_test")
            if errs and shown < 10:
                shown += 1
                ctx.violation("[C13] " + "; ".join(errs[:3]), f"# the same suite under the three execution modes\n# reporter: {rep}\n" + scens[a].text() + "\n" + scens[b].text(), found_input=True, facts={"mode": "inproc", "rep": rep})
        ctx.coverage[f"modes_compared_under_{rep}"] = len(trip)
    # settings made outside any test - by a suite's fixture that the reporting process runs around a sub-suite, or by the
    # program before the run - must not make the modes differ either (not modelled: the three modes are compared with each other)
    outside = []
    # (the last pair is not a framework setting but the program's own memory: what an enclosing suite's fixture wrote is there for the
    # test in every mode, which shows that the same fixtures run around it)
    for setting, probe in (("G3", "D"), ("G2", "D"), ("ML", "CU"), ("MG", "CU"), ("W", "R")):
        for shape in range(3):
            tests = [T(f"t{k}", body=[probe] + (["P"] if k % 2 else [])) for k in range(rng.choice([2, 3, 4]))]
            if shape == 0:
                root = S("top", su=1, td=1, items=[S("inner", items=tests[:-1]), tests[-1]]); root.fixture = ([setting], [])
                sc = Scen(root)
            elif shape == 1:
                inner = S("inner", su=1, items=[S("innermost", items=tests)]); inner.fixture = ([setting], [])
                sc = Scen(S("top", items=[inner]))
            else:
                sc = Scen(S("top", items=tests)); sc.pre = [setting]
            outside.append(sc)
    ojobs, oidx = [], []
    for sc in outside:
        names = [t.name for _, t in sc.root.tests()]
        row = []
        for mode in ["fork", "inproc"] + ["single:" + n for n in names]:
            c = sc.copy(); c.mode = mode
            row.append((mode, len(ojobs))); ojobs.append(c)
        oidx.append(row)
    oobs = bench.run_many([(c.text(), "text") for c in ojobs])
    for sc, row in zip(outside, oidx):
        base = fw_observed(oobs[row[0][1]], ojobs[row[0][1]])
        errs = []
        for mode, j in row[1:]:
            got = fw_observed(oobs[j], ojobs[j])
            for name, v in got.items():
                if mode.startswith("single:") and name != mode[7:]:
                    continue
                if base.get(name) != v:
                    errs.append(f"test {name}: forked (failures, too-many-calls)={base.get(name)}, {mode} {v}")
        if errs and shown < 8:
            shown += 1
            ctx.violation("[C13] a setting made outside any test makes the execution modes differ: " + "; ".join(errs[:3]),
                          "# the same suite under the execution modes (text reporter): cfg line fork / inproc / single:<test>\n" + sc.text(), found_input=True, facts={"outside_setting": True})
    ctx.oblige("correspondence C13: model and implementation agree on every generated run", ndis == 0, f"{ndis} disagreements")
    ctx.coverage["correspondence"] = {"cases": len(scens) + len(ojobs), "disagreements": ndis, "oracle_evaluations": len(trip) + len(outside)}
    ctx.coverage["samples"] = sample_of(scens, 3)
    ctx.coverage["evaluations"] = len(scens)
    ctx.coverage["distinct_nontrivial"] = len({s.text() for s in scens})


# ---- C06 / C07: mocks ---------------------------------------------------------------------------
from mock_checks import *


def mocks_bench(ctx, asan=False):
    impl = build_impl(ctx, asan=asan)
    exe = compile_harness(ctx, impl, "mock_ops", ["mock_ops.c"])
    return impl, exe


def mocks_explore(ctx, exe, blocks, label, env=None):
    """impl vs model (outputs and queue state after every step) and impl vs per-function specification."""
    impl, rc, err = run_impl_ops(exe, blocks, env=env)
    if rc != 0 or len(impl) < len(blocks):
        # the driver died: find the history, shrink it, report the sanitizer's verdict
        k = min(len(impl), len(blocks) - 1)
        bad = [o for o in blocks[k] if o]

        def crashes(cand):
            _, rc2, _ = run_impl_ops(exe, [cand], env=env)
            return rc2 != 0
        if crashes(bad):
            # drop whole prefixes/suffixes first (long histories), then single operations
            step = max(1, len(bad) // 2)
            while step >= 1:
                i = 0
                while i < len(bad):
                    cand = bad[:i] + bad[i + step:]
                    if cand and crashes(cand): bad = cand
                    else: i += step
                step //= 2
        _, rc2, err2 = run_impl_ops(exe, [bad], env=env)
        summary = " ".join(l.strip() for l in (err2 or err).split("\n") if "ERROR:" in l or "SUMMARY:" in l or l.strip().startswith("#0") or l.strip().startswith("#1 "))[:400]
        ctx.violation(f"[{label}] the mock machinery crashed (exit {rc2 or rc}) on a history of {len(bad)} operations: {summary}",
                      "# feed to harness/mock_ops (ASan/UBSan build)\n" + "\n".join(bad), found_input=True,
                      facts={"crash": True, "len": len(bad), "vector_remove": "cgreen_vector_remove" in (err2 or err), "size100": len(bad) >= 100})
        return
    model = run_model_ops("mocks", blocks)
    spec = run_model_ops("mockspec", blocks)
    ndis = nspec = 0
    for ops, a, m, s in zip(blocks, impl, model, spec):
        ops = [o for o in ops if o]
        i = first_diff(ops, m, a, lambda l: (outs_of(l), queue_of(l)))
        if i is not None:
            ndis += 1
            if ndis <= 3:
                ctx.oblige(f"correspondence {label}: model and implementation agree after every operation", False,
                           f"op #{i} `{ops[i] if i < len(ops) else '?'}`: model `{m[i] if i < len(m) else None}` impl `{a[i] if i < len(a) else None}`")
        j = first_diff(ops, s, a, outs_of)
        if j is not None:
            nspec += 1
            if nspec <= 4:
                def fails(cand):
                    ia, rc2, _ = run_impl_ops(exe, [cand], env=env)
                    sa = run_model_ops("mockspec", [cand])
                    return rc2 != 0 or first_diff(cand, sa[0], ia[0], outs_of) is not None
                small = shrink_ops(ops, fails)
                ia, _, _ = run_impl_ops(exe, [small], env=env)
                sa = run_model_ops("mockspec", [small])
                jj = first_diff(small, sa[0], ia[0], outs_of)
                facts = {"times0": any(" t0" in o or " t-" in o for o in small), "ltgt": any(":lt:" in o or ":gt:" in o for o in small)}
                what = f"operation #{jj} `{small[jj] if jj is not None and jj < len(small) else '?'}` reports {outs_of(ia[0][jj]) if jj is not None and jj < len(ia[0]) else None}; " \
                       f"the per-function FIFO specification says {outs_of(sa[0][jj]) if jj is not None and jj < len(sa[0]) else None}"
                ctx.violation(f"[{label}] {what}", "# feed to harness/mock_ops (built by ./check)\n" + "\n".join(small), found_input=True, facts=facts)
    st = ctx.coverage.setdefault("correspondence", {"cases": 0, "disagreements": 0, "oracle_evaluations": 0, "oracle_failures": 0, "operations": 0})
    st["cases"] += len(blocks); st["disagreements"] += ndis; st["oracle_evaluations"] += len(blocks); st["oracle_failures"] += nspec
    st["operations"] += sum(len(b) for b in blocks)
    return ndis, nspec


MACRO_PREAMBLE = r"""/* GENERATED by harness/props.py (macro_layer): the operation histories of the mock correspondence, written with the public
 * macros of <cgreen/mocks.h> (expect, always_expect, never_expect, when, times, will_return, is_equal_to, ...) instead of the
 * functions behind them. Same output protocol as harness/mock_ops.c. */
#include <cgreen/cgreen.h>
#include <cgreen/mocks.h>
#include <stdio.h>
#include <stdlib.h>
#include <string.h>
#include <stdint.h>
#ifdef __cplusplus
using namespace cgreen;
#endif
extern "C_OR_NOT" void cgreen_verif_dump_expectations(FILE *out);
static char outbuf[1 << 16];
static size_t outlen;
static void record(TestReporter *reporter, const char *file, int line, int result, const char *message, ...) {
    (void)reporter; (void)message;
    if (strcmp(file, "ops") == 0)
        outlen += snprintf(outbuf + outlen, sizeof outbuf - outlen, "%sc%d:%d", outlen ? " " : "", line, result ? 1 : 0);
    else
        outlen += snprintf(outbuf + outlen, sizeof outbuf - outlen, "%scU:%d", outlen ? " " : "", result ? 1 : 0);
}
static intptr_t f0(void) { return mock(); }
static intptr_t f1(intptr_t a_b) { return mock(a_b); }
static intptr_t f1_b(intptr_t a_b, intptr_t a) { return mock(a_b, a); }
static intptr_t f1_bc(intptr_t a_b, intptr_t a, intptr_t a_b_c) { return mock(a_b, a, a_b_c); }
/* the same functions under other names, as a header that renames an interface does it (fopen -> fopen64) */
#define f1_renamed f1
#define f1_b_renamed f1_b
static void emit(void) { printf("out %s | q ", outbuf); cgreen_verif_dump_expectations(stdout); printf("\n"); outlen = 0; outbuf[0] = 0; }
static void ret(intptr_t r) { outlen += snprintf(outbuf + outlen, sizeof outbuf - outlen, "%sr%lld", outlen ? " " : "", (long long)r); }
"""


def macro_layer(ctx, impl, rng, label):
    """The public macro layer of <cgreen/mocks.h> against the same model: generated histories compiled into a translation unit that
    declares every expectation with expect()/always_expect()/never_expect() and their clause macros (each on a line of its own
    numbered with #line, so that a check is attributed to its declaration exactly as in harness/mock_ops.c)."""
    from mock_checks import gen_history, run_model_ops, outs_of
    blocks = []
    while len(blocks) < sizes(ctx, 150, 1500):
        b = [o for o in gen_history(rng, rng.choice([3, 6, 10, 16]))]
        if any(tok.startswith("s") for o in b for tok in o.split(" ")[2:] if o.split(" ")[0] in ("expect", "always", "never")): continue
        blocks.append(b)
    FN, PN = ["f0", "f1", "f1_b", "f1_bc"], ["a_b", "a", "a_b_c"]
    CONS = {"eq": "is_equal_to", "ne": "is_not_equal_to", "lt": "is_less_than", "gt": "is_greater_than"}
    out = [MACRO_PREAMBLE]
    for k, b in enumerate(blocks):
        out.append(f"static void block_{k}(TestReporter *reporter) {{\n    int unused_{k} = 0; (void)unused_{k}; (void)reporter;")
        nid = 0
        for o in b:
            t = o.split(" ")
            if t[0] == "mode":
                out.append(f"    cgreen_mocks_are({t[1]}_mocks); emit();")
            elif t[0] == "tally":
                out.append("    tally_mocks(reporter); emit();")
            elif t[0] == "call":
                f = int(t[1]); ar = [0, 1, 2, 3][f]
                args = [(t[2 + i] if 2 + i < len(t) else "0") + "LL" for i in range(ar)]
                out.append(f"    ret({FN[f]}({', '.join('(intptr_t)' + a for a in args)})); emit();")
            else:
                f = int(t[1]); clauses = []
                for tok in t[2:]:
                    if tok[0] == "t": clauses.append(f"times({int(tok[1:])})")
                    elif tok[0] == "r": clauses.append(f"will_return({int(tok[1:])}LL)")
                    elif tok[0] == "w":
                        pp, cmp_, v = tok[1:].split(":")
                        clauses.append(f"when({PN[int(pp)]}, {CONS[cmp_]}({int(v)}LL))")
                macro = {"expect": "expect", "always": "always_expect", "never": "never_expect"}[t[0]]
                fname = FN[f] + "_renamed" if f in (1, 2) and rng.random() < 0.4 else FN[f]      # declared through a renaming macro: the name is the function's
                out.append(f'#line {nid} "ops"\n    {macro}({", ".join([fname] + clauses)}); emit();')
                nid += 1
        out.append("}")
    out.append("extern CgreenTest *current_test;\nstatic CgreenTest dummy_test = { 0, &defaultContext, \"unexpected\", NULL, \"unexpected-call\", 0 };")
    out.append("int main(void) {\n    TestReporter *reporter = create_reporter();\n    reporter->assert_true = &record;\n    setup_reporting(reporter);\n    current_test = &dummy_test;")
    for k in range(len(blocks)):
        out.append(f"    clear_mocks(); cgreen_mocks_are(strict_mocks); block_{k}(reporter); printf(\"---\\n\");")
    out.append("    fflush(stdout);\n    return 0;\n}")
    model = run_model_ops("mocks", blocks)
    nrun = 0
    for lang in ("c", "c++"):
        src = "\n".join(out).replace('extern "C_OR_NOT" ', 'extern "C" ' if lang == "c++" else "extern ")
        path = os.path.join(ctx.work, f"macro_ops_{label}.{'c' if lang == 'c' else 'cpp'}")
        open(path, "w").write(src)
        try:
            exe = compile_harness(ctx, impl, f"macro_ops_{lang}", [path], cxx=(lang == "c++"), extra=["-w"], out=f"macro_ops_{label}_{'c' if lang == 'c' else 'cpp'}")
        except BuildError as e:
            ctx.oblige(f"the generated histories compile through the public mock macros ({lang})", False, str(e)[-600:])
            continue
        got, rc, err = run_impl_ops(exe, [], env=asan_env())
        nrun += 1
        if rc != 0 or len(got) != len(blocks):
            k = min(len(got), len(blocks) - 1)
            ctx.violation(f"[{label}] histories written with the public mock macros ({lang}): the program ended with {rc} in history #{k}: " +
                          " ".join(l.strip() for l in err.split("\n") if "ERROR" in l or "SUMMARY" in l)[:300],
                          "# the history (grammar of harness/mock_ops), written with expect()/always_expect()/never_expect()/when()/times()/will_return()\n" + "\n".join(blocks[k]),
                          found_input=True, facts={"crash": True, "macro_layer": True})
            continue
        ndis = 0
        for b, a, m in zip(blocks, got, model):
            ia, ma = [outs_of(l) for l in a], [outs_of(l) for l in m]
            if ia != ma:
                ndis += 1
                if ndis <= 3:
                    j = next((i for i, (x, y) in enumerate(zip(ia, ma)) if x != y), min(len(ia), len(ma)))
                    ctx.violation(f"[{label}] written with the public mock macros ({lang}), operation #{j} `{b[j] if j < len(b) else '?'}` reports {ia[j] if j < len(ia) else None}; "
                                  f"through the functions behind the macros (and in the model) it reports {ma[j] if j < len(ma) else None}",
                                  "# the history (grammar of harness/mock_ops); the generated program declares each expectation with the macro of <cgreen/mocks.h>\n" + "\n".join(b),
                                  found_input=True, facts={"macro_layer": True})
        ctx.oblige(f"correspondence {label}: histories written with the public mock macros ({lang}) behave as the model says", ndis == 0, f"{ndis} histories disagree")
    ctx.coverage["macro_layer"] = {"histories": len(blocks), "languages_run": nrun}


def check_C06(ctx):
    lean_check(ctx)
    rng = random.Random(ctx.seed * 1000 + 6)
    impl, exe = mocks_bench(ctx, asan=True)
    blocks = [gen_history(rng, rng.choice([3, 6, 10, 20, 40])) for _ in range(sizes(ctx, 1500, 40000))]
    # histories in which expectations have side effects that call other mocked functions
    blocks += [gen_history(rng, rng.choice([4, 8, 14, 25]), side=0.35) for _ in range(sizes(ctx, 600, 15000))]
    blocks += [gen_long_history(rng, n) for n in ([99, 100, 101, 199, 200, 201, 350] if ctx.tier == "quick" else [98, 99, 100, 101, 102, 199, 200, 201, 299, 300, 301, 350, 450])]
    # corpus of minimised past disagreements first
    corpus = [["expect 1 r10", "expect 0 r20 s1:0", "expect 2 r30", "call 0", "call 2 0 0", "call 0", "tally"], ["expect 0 t0 r8", "call 0", "tally"], ["expect 0 t0 r8", "expect 0 r9", "call 0", "call 0", "tally"],
              ["expect 1 w0:lt:2", "call 1 3", "tally"], ["never 0", "never 0", "call 0", "tally"],
              ["always 2 r5", "expect 2", "call 2 1 1", "tally"]]
    r = mocks_explore(ctx, exe, corpus + blocks, "C06", env=asan_env())
    macro_layer(ctx, impl, rng, "C06")
    if r:
        ctx.oblige("correspondence C06: model and implementation agree after every operation of every history", r[0] == 0, f"{r[0]} histories disagree")
    ctx.coverage["samples"] = [" ; ".join(b[:12]) for b in blocks[:3]]
    ctx.coverage["evaluations"] = len(blocks) + len(corpus)
    ctx.coverage["distinct_nontrivial"] = len({tuple(b) for b in blocks})
    ctx.coverage["history_lengths"] = sorted({len(b) for b in blocks})[-8:]


def conforms_family():
    """Systematic families with an arithmetic oracle: (ops, expected all-pass?) under strict mocks."""
    fam = []
    for n in range(0, 7):
        for k in range(0, 7):
            calls = ["call 0"] * k
            fam.append((["expect 0 t%d r3" % n] + calls + ["tally"], k == n, f"times({n}) with {k} calls"))
            fam.append((["expect 0"] * n + calls + ["tally"], k == n, f"{n} expect() with {k} calls"))
    for k in range(0, 5):
        fam.append((["never 0"] + ["call 0"] * k + ["tally"], k == 0, f"never_expect with {k} calls"))
        fam.append((["always 0 r1"] + ["call 0"] * k + ["tally"], True, f"always_expect with {k} calls"))
        fam.append((["expect 1 w0:eq:2"] + ["call 1 2"] * k + ["tally"], k == 1, f"expect with eq constraint, {k} matching calls"))
        fam.append((["always 1 w0:gt:1"] + ["call 1 %d" % (3 - v) for v in range(k)] + ["tally"], k <= 2, f"always_expect with gt 1 constraint, calls 3,2,1.. ({k} calls)"))
        fam.append((["always 1 w0:lt:2"] + ["call 1 %d" % v for v in range(k)] + ["tally"], k <= 2, f"always_expect with lt constraint, calls 0..{k-1}"))
    fam.append((["always 0", "expect 0", "tally"], False, "declaration after always_expect"))
    fam.append((["never 0", "expect 0", "tally"], False, "declaration after never_expect"))
    fam.append((["call 0", "tally"], False, "unexpected call (strict)"))
    fam.append((["mode loose", "call 0", "tally"], True, "unexpected call (loose)"))
    fam.append((["mode learning", "call 0", "tally"], True, "unexpected call (learning)"))
    return fam


def check_C07(ctx):
    lean_check(ctx)
    rng = random.Random(ctx.seed * 1000 + 7)
    impl, exe = mocks_bench(ctx, asan=True)
    fam = conforms_family()
    res, rc, err = run_impl_ops(exe, [f[0] for f in fam], env=asan_env())
    shown = 0
    for (ops, should_pass, desc), out in zip(fam, res):
        checks = [c for l in out for c in outs_of(l) if c.startswith("c")]
        passed = all(c.endswith(":1") for c in checks)
        rets = [c for l in out for c in outs_of(l) if c.startswith("r")]
        if passed != should_pass and shown < 6:
            shown += 1
            ctx.violation(f"[C07] {desc}: the strict-mock test {'passes' if passed else 'fails'} (checks {checks}, returns {rets}) but calls made {'match' if should_pass else 'do not match'} calls declared",
                          "# feed to harness/mock_ops\n" + "\n".join(ops), found_input=True,
                          facts={"times0": any(" t0" in o for o in ops), "ltgt": any(":lt:" in o or ":gt:" in o for o in ops)})
    ctx.coverage["systematic_family"] = len(fam)
    # the mock mode a test selects - in its body, in its context's setup or in a suite's setup fixture - is the one its calls meet:
    # with loose or learning mocks a call without an expectation yields nothing, with strict mocks one failure
    rbench = Bench(ctx)
    mjobs, mmeta = [], []
    for mode_act, nfail in (("ML", 0), ("MG", 0), ("MS", 1), (None, 1)):
        for where in ("body", "context setup", "suite setup"):
            for run_mode in ("fork", "inproc", "single:t"):
                sel = [mode_act] if mode_act else []
                if where == "body": root = S("top", items=[T("pre", body=["P"]), T("t", body=sel + ["CU", "P"])])
                elif where == "context setup": root = S("top", items=[T("pre", body=["P"]), T("t", ctx=1, setup=sel, body=["CU", "P"])])
                else:
                    inner = S("inner", su=1, td=1, items=[T("t", body=["CU", "P"])]); inner.fixture = (sel, [])
                    root = S("top", items=[T("pre", body=["P"]), inner])
                sc = Scen(root, mode=run_mode)
                mjobs.append((sc.text(), "text")); mmeta.append((mode_act, nfail, where, run_mode, sc))
    # ... and it is that test's alone: the test that runs next in the same process meets strict mocks again
    for mode_act in ("ML", "MG"):
        for where in ("body", "context setup"):
            for run_mode in ("fork", "inproc"):
                first = T("first", body=[mode_act, "CU", "P"]) if where == "body" else T("first", ctx=1, setup=[mode_act], body=["CU", "P"])
                sc = Scen(S("top", items=[first, T("t", body=["CU", "P"])]), mode=run_mode)
                mjobs.append((sc.text(), "text")); mmeta.append((None, 1, f"body, after a test that selected {'loose' if mode_act == 'ML' else 'learning'} mocks in its {where}", run_mode, sc))
    mobs = rbench.run_many(mjobs)
    mshown = 0
    for (mode_act, nfail, where, run_mode, sc), o in zip(mmeta, mobs):
        got = fw_observed(o, sc).get("t", (None, None))[0]
        if got != nfail and mshown < 4:
            mshown += 1
            name = {"ML": "loose mocks", "MG": "learning mocks", "MS": "strict mocks", None: "the default (strict) mocks"}[mode_act]
            ctx.violation(f"[C07] {name} selected in the test's {where} ({run_mode}): a call without an expectation yields {got} failures, expected {nfail}",
                          "# reporter: text   harness/scenario_run <file> text <outdir>   (ML/MG/MS: cgreen_mocks_are(loose/learning/strict); CU: a call that has no expectation)\n" + sc.text(),
                          found_input=True, facts={"mock_mode_where": where})
    ctx.coverage["mock_mode_selection_runs"] = len(mjobs)
    blocks = [gen_history(rng, rng.choice([3, 6, 10, 20])) for _ in range(sizes(ctx, 1500, 40000))]
    # ... and histories in which a served call has a side effect that calls other mocked functions (the bookkeeping of the outer call must
    # survive the nested one: what was served is used up, nothing else is)
    blocks += [gen_history(rng, rng.choice([4, 8, 14]), side=0.4) for _ in range(sizes(ctx, 500, 12000))]
    corpus = [["expect 1 r10", "expect 0 r20 s1:0", "expect 2 r30", "call 0", "call 2 0 0", "call 0", "tally"],
              ["expect 0 t1 r1 s1:0", "expect 1 r2", "expect 2 r3", "call 0", "call 2 0 0", "tally"], ["expect 0 t1 r1 s1:0", "expect 1 r2", "expect 2 r3", "call 0", "tally"]]
    blocks = corpus + blocks
    r = mocks_explore(ctx, exe, blocks, "C07", env=asan_env())
    macro_layer(ctx, impl, rng, "C07")
    if r:
        ctx.oblige("correspondence C07: model and implementation agree after every operation of every history", r[0] == 0, f"{r[0]} histories disagree")
    ctx.coverage["samples"] = [" ; ".join(f[0]) for f in fam[:4]]
    ctx.coverage["evaluations"] = len(blocks) + len(fam)
    ctx.coverage["distinct_nontrivial"] = len({tuple(b) for b in blocks}) + len(fam)


# ---- C05: constraints ---------------------------------------------------------------------------
INT_NAMES = ["isEqualTo", "isNotEqualTo", "isGreaterThan", "isLessThan", "isNull", "isNonNull", "isTrue", "isFalse",
             "assertEqual", "assertNotEqual", "assertTrue", "assertFalse", "assertEqualMsg", "assertNotEqualMsg", "isEqualToHex", "assertTrueMsg", "assertFalseMsg"]
STR_NAMES = ["isEqualToString", "isNotEqualToString", "containsString", "doesNotContainString", "beginsWithString",
             "doesNotBeginWithString", "endsWithString", "doesNotEndWithString", "assertStringEqual", "assertStringNotEqual",
             "assertStringEqualMsg", "assertStringNotEqualMsg"]


def int_oracle(name, a, e):
    return {"isEqualTo": a == e, "isNotEqualTo": a != e, "isGreaterThan": a > e, "isLessThan": a < e, "isNull": a == 0, "isNonNull": a != 0,
            "isTrue": a != 0, "isFalse": a == 0, "assertEqual": a == e, "assertNotEqual": a != e, "assertTrue": a != 0, "assertFalse": a == 0, "assertTrueMsg": a != 0, "assertFalseMsg": a == 0,
            "assertEqualMsg": a == e, "assertNotEqualMsg": a != e, "isEqualToHex": a == e}[name]


def str_oracle(name, a, e):
    return {"isEqualToString": a == e, "isNotEqualToString": a != e, "containsString": e in a, "doesNotContainString": e not in a,
            "beginsWithString": a.startswith(e), "doesNotBeginWithString": not a.startswith(e), "endsWithString": a.endswith(e),
            "doesNotEndWithString": not a.endswith(e), "assertStringEqual": a == e, "assertStringNotEqual": a != e,
            "assertStringEqualMsg": a == e, "assertStringNotEqualMsg": a != e}[name]


def hexs(b):
    return b.hex() if b else "-"


def run_probe(exe, lines, env=None, timeout=600):
    r = subprocess.run([exe], input=("\n".join(lines) + "\n").encode(), stdout=subprocess.PIPE, stderr=subprocess.PIPE, env=env, timeout=timeout)
    return r.stdout.decode().split("\n")[:-1], r.returncode, r.stderr.decode("latin-1")[:3000]


def check_C05(ctx):
    lean_check(ctx)
    # ---- the translator: the comparator functions rendered from the current sources into Lean (every conversion and every arithmetic
    # operation of the clang AST an explicit `wrap`); Lean proves each equal to the model function the C05 theorems are about ----
    import comparators as cmptr
    generated_obligations(ctx, cmptr.render, "Cgreen.Gen", None, "the comparator functions of src/constraint.c and src/string_comparison.c rendered into Lean")
    rng = random.Random(ctx.seed * 1000 + 5)
    impl = build_impl(ctx, asan=True)
    exe_c = compile_harness(ctx, impl, "cmp_probe_c", ["cmp_probe.c"], out="cmp_probe_c")
    exe_cpp = compile_harness(ctx, impl, "cmp_probe_cpp", ["cmp_probe.c"], cxx=True, extra=["-x", "c++"], out="cmp_probe_cpp")
    B = [0, 1, -1, 2, -2, 2**31 - 1, 2**31, 2**31 + 1, -2**31, -2**31 - 1, -2**31 + 1, 2**32 - 1, 2**32, 2**32 + 1, -2**32, -2**32 + 1, -2**32 - 1,
         2**63 - 1, -2**63, 2**63 - 2, -2**63 + 1, 2**62, -2**62, 2**33, 5 * 2**32, 3 * 2**31]
    cases = []   # (line, expected bool, description)
    for a in B:
        for e in B:
            for n in INT_NAMES:
                if ctx.tier == "quick" and n in ("assertEqualMsg", "assertNotEqualMsg", "isEqualToHex") and (a + e) % 3:
                    continue
                cases.append((f"int {n} {a} {e}", int_oracle(n, a, e)))
    for _ in range(sizes(ctx, 3000, 60000)):
        a = rng.choice([rng.randrange(-2**63, 2**63), rng.choice(B) + rng.randrange(-3, 4)])
        e = rng.choice([a, a + rng.choice([1, -1, 2**31, -2**31, 2**32, -2**32, 2**33]), rng.randrange(-2**63, 2**63), rng.choice(B)])
        a = max(-2**63, min(2**63 - 1, a)); e = max(-2**63, min(2**63 - 1, e))
        n = rng.choice(INT_NAMES)
        cases.append((f"int {n} {a} {e}", int_oracle(n, a, e)))
    # strings: all pairs over {a,b,%} up to a length, every constraint
    alpha = [b"a", b"b", b"%"]
    maxlen = sizes(ctx, 3, 4)
    strs = [b""]
    for L in range(1, maxlen + 1):
        strs += [bytes(x) for x in __import__("itertools").product(b"ab%", repeat=L)]
    for a in strs:
        for e in strs:
            if ctx.tier == "quick" and len(a) + len(e) > 5 and rng.random() < 0.6:
                continue
            for n in STR_NAMES:
                if n.endswith("Msg") and rng.random() < 0.7:
                    continue
                cases.append((f"str {n} {hexs(a)} {hexs(e)}", str_oracle(n, a, e)))
    for _ in range(sizes(ctx, 1500, 30000)):
        a = bytes(rng.choice(b"ab%s x") for _ in range(rng.choice([0, 1, 5, 17, 64, 300])))
        e = rng.choice([a, a[: rng.randrange(len(a) + 1)], a[rng.randrange(len(a) + 1):], a[1:-1] if len(a) > 2 else a, a + b"a", b"a" + a,
                        bytes(rng.choice(b"ab%") for _ in range(rng.choice([0, 1, 2, 3])))])
        n = rng.choice(STR_NAMES)
        cases.append((f"str {n} {hexs(a)} {hexs(e)}", str_oracle(n, a, e)))
    # long strings that agree for a long way: the difference (or the end of one of them) comes late
    for L in (255, 256, 1023, 1024, 1025, 2048, 4097):
        a = bytes(rng.choice(b"abc") for _ in range(L))
        for at in sorted({0, L // 2, L - 2, L - 1}):
            for e in (a[:at] + b"X" + a[at + 1:], a[:at], a + b"tail", a):
                for n in rng.sample(STR_NAMES, min(len(STR_NAMES), 5)):
                    cases.append((f"str {n} {hexs(a)} {hexs(e)}", str_oracle(n, a, e)))
    # memory: all sizes 1..16 with a difference at every offset (and none), NULL actual, both forms
    for size in range(1, sizes(ctx, 17, 33)):
        base = bytes(rng.randrange(256) for _ in range(size + 4))
        for off in list(range(size + 2)) + [None]:
            other = bytearray(base)
            if off is not None:
                other[off] ^= 0x5a
            eq = bytes(other[:size]) == base[:size]
            cases.append((f"mem pos {size} {base[:size].hex()} {bytes(other[:size]).hex()}", eq))
            cases.append((f"mem neg {size} {base[:size].hex()} {bytes(other[:size]).hex()}", not eq))
        cases.append((f"mem pos {size} {base[:size].hex()} NULL", False))
        cases.append((f"mem neg {size} {base[:size].hex()} NULL", False))
    lines = [c[0] for c in cases]
    model = run_model(["cmp"], "\n".join(lines) + "\n").split("\n")[:-1]
    ndis = nor = 0
    # C++ only: the same string cases with the expected value as a `std::string *` (strp) and with the actual one as a `std::string *` (strq)
    PTR_NAMES = ("isEqualToString", "isNotEqualToString", "containsString", "doesNotContainString", "beginsWithString")
    ptr_cases = [(("strp " if k % 2 == 0 else "strq ") + c[0][4:], c[1]) for k, c in enumerate(c for c in cases if c[0].startswith("str ") and c[0].split(" ")[1] in PTR_NAMES)]
    got, rc, err = run_probe(exe_cpp, [c[0] for c in ptr_cases], env=asan_env())
    if rc != 0 or len(got) != len(ptr_cases):
        bad = ptr_cases[min(len(got), len(ptr_cases) - 1)][0]
        ctx.violation(f"[C05] the C++ probe crashed (exit {rc}) on `{bad}`: " + " ".join(l for l in err.split("\n") if "ERROR" in l or "SUMMARY" in l)[:300], bad, found_input=True, facts={"crash": True})
    else:
        for (line, want), g in zip(ptr_cases, got):
            if g != ("1" if want else "0"):
                nor += 1
                if nor <= 4:
                    ctx.violation(f"[C05] C++ ({'expected value' if line.startswith('strp') else 'actual value'} given as a std::string pointer): `{line}` {'passes' if g == '1' else 'fails' if g == '0' else 'reports ' + g}, the documented relation {'holds' if want else 'does not hold'}",
                                  "# feed to harness/cmp_probe_cpp\n" + line, found_input=True, facts={"name": line.split(' ')[1], "cpp_pointer_overload": True})
    ctx.coverage["cpp_pointer_overload_cases"] = len(ptr_cases)
    for label, exe in (("C", exe_c), ("C++ (std::string overloads)", exe_cpp)):
        got, rc, err = run_probe(exe, lines, env=asan_env())
        if rc != 0 or len(got) != len(lines):
            bad = lines[min(len(got), len(lines) - 1)]
            ctx.violation(f"[C05] the {label} probe crashed (exit {rc}) on `{bad}`: " + " ".join(l for l in err.split("\n") if "ERROR" in l or "SUMMARY" in l)[:300],
                          bad, found_input=True, facts={"crash": True})
            continue
        for (line, want), g, m in zip(cases, got, model):
            if g != m:
                ndis += 1
                if ndis <= 3:
                    ctx.oblige(f"correspondence C05 ({label})", False, f"`{line}`: model {m} impl {g}")
            if g != ("1" if want else "0"):
                nor += 1
                if nor <= 6:
                    ctx.violation(f"[C05] {label}: `{line}` {'passes' if g == '1' else 'fails' if g == '0' else 'reports ' + g}, the documented relation {'holds' if want else 'does not hold'}",
                                  "# feed to harness/cmp_probe_c / cmp_probe_cpp\n" + line, found_input=True, facts={"name": line.split(' ')[1]})
    ctx.oblige("correspondence C05: model and implementation agree on every operand pair (C and C++ entry points)", ndis == 0, f"{ndis} disagreements")
    ctx.coverage["correspondence"] = {"cases": 2 * len(lines), "disagreements": ndis, "oracle_evaluations": 2 * len(lines), "oracle_failures": nor}
    ctx.coverage["samples"] = [lines[0], lines[len(lines) // 2], lines[-1]]
    ctx.coverage["evaluations"] = 2 * len(lines)
    ctx.coverage["distinct_nontrivial"] = len(set(lines))
    ctx.coverage["families"] = {"int_boundary_grid": len(B) ** 2 * len(INT_NAMES), "strings_up_to_length": maxlen, "memory_sizes": "1..16 x every offset"}


# ---- C15: doubles -------------------------------------------------------------------------------
import struct
from fractions import Fraction


def d2bits(x):
    return struct.unpack("<Q", struct.pack("<d", x))[0]


def bits2d(b):
    return struct.unpack("<d", struct.pack("<Q", b & (2**64 - 1)))[0]


def nextafter_bits(b, k):
    """k ulps away in magnitude ordering (same sign)."""
    m = b & (2**63 - 1)
    m = max(0, min(0x7fefffffffffffff, m + k))
    return (b & (1 << 63)) | m


def gen_double_pairs(rng, n):
    pairs = []
    specials = [0.0, -0.0, 5e-324, -5e-324, 2.2250738585072014e-308, 1.7976931348623157e308, -1.7976931348623157e308, 1.0, -1.0, 0.1, 1e308, 9.999999999999999e307]
    for _ in range(n):
        kind = rng.random()
        if kind < 0.15:
            x = rng.choice(specials)
        elif kind < 0.45:
            k = rng.randrange(-307, 308)
            x = float(10) ** k
            x = bits2d(nextafter_bits(d2bits(x), rng.choice([0, 0, -1, 1, -2, 2, -3, 3])))
            if rng.random() < 0.3: x = -x
        elif kind < 0.55:
            x = bits2d(rng.randrange(1, 2**52))          # subnormal
            if rng.random() < 0.5: x = -x
        else:
            x = bits2d(rng.randrange(0, 0x7fefffffffffffff) | (rng.randrange(2) << 63))
        k2 = rng.random()
        if k2 < 0.15: y = x
        elif k2 < 0.35: y = bits2d(nextafter_bits(d2bits(x), rng.choice([1, -1, 2, -2, 5, 100, -100])))
        elif k2 < 0.75:
            figs = rng.randrange(1, 16)
            rel = Fraction(10) ** (-figs) * Fraction(rng.choice([1, 2, 5, 9, 10, 11, 50, 99, 100, 101, 1000]), 10)
            try:
                y = float(Fraction(x) * (1 + rel * rng.choice([1, -1])))
            except OverflowError:
                y = x
        elif k2 < 0.85: y = -x
        else: y = rng.choice(specials)
        if y in (float("inf"), float("-inf")) or y != y: y = x
        pairs.append((x, y))
    return pairs


ABS_TOL = Fraction(2) ** -1022 * 10**8


def exact_T(x, y, n):
    return max(abs(Fraction(x)), abs(Fraction(y))) * Fraction(10) ** (1 - n)


def check_C15(ctx):
    lean_check(ctx)
    rng = random.Random(ctx.seed * 1000 + 15)
    impl = build_impl(ctx, asan=False)
    exe = compile_harness(ctx, impl, "cmp_probe_c", ["cmp_probe.c"], out="cmp_probe_c")
    pairs = gen_double_pairs(rng, sizes(ctx, 4000, 120000))
    names = ["eq", "ne", "lt", "gt", "legacyEq", "legacyNe", "legacyEqMsg", "legacyNeMsg", "mockEq", "mockNe", "mockLt", "mockGt"]
    lines, meta = [], []
    for (x, y) in pairs:
        figs_list = [rng.randrange(1, 16)] if ctx.tier == "quick" else [rng.randrange(1, 16), rng.randrange(1, 16)]
        for n in figs_list:
            for nm in (names if rng.random() < 0.25 else ["eq", "ne", "lt", "gt"]):
                lines.append(f"dbl {nm} {n} {d2bits(x):016x} {d2bits(y):016x}"); meta.append((nm, n, x, y))
            # symmetry partner and a lower figure count
            lines.append(f"dbl eq {n} {d2bits(y):016x} {d2bits(x):016x}"); meta.append(("eq", n, y, x))
            m = rng.randrange(1, n + 1)
            lines.append(f"dbl eq {m} {d2bits(x):016x} {d2bits(y):016x}"); meta.append(("eq", m, x, y))
    state = {"ndis": 0, "nslack": 0, "nexact": 0, "shown": 0, "dis_cases": []}

    def viol(what, line, facts):
        if state["shown"] < 8:
            if ctx.violation("[C15] " + what, "# feed to harness/cmp_probe_c (dbl <form> <figures> <bits of actual> <bits of expected>)\n" + line, found_input=True, facts=facts):
                state["shown"] += 1

    def near_threshold(x, y, n):
        """is |x-y| within a relative 2^-40 of one of the decision thresholds, or the larger magnitude within 2^-48 of a power of ten?"""
        d = abs(Fraction(x) - Fraction(y)); T = exact_T(x, y, n)
        L = max(abs(Fraction(x)), abs(Fraction(y)))
        thrs = [T, T / 10, ABS_TOL]
        if L > 0:
            import math
            k = math.floor(math.log10(L))
            while Fraction(10) ** k > L: k -= 1
            while Fraction(10) ** (k + 1) <= L: k += 1
            thrs.append(Fraction(10) ** (1 + k - n))      # the accuracy the algorithm actually compares with: 10^(1+floor(log10 L)-n)
        for thr in thrs:
            if thr > 0 and abs(d - thr) <= thr * Fraction(1, 2**40):
                return True
        if L > 0:
            for kk in (k, k + 1):
                p = Fraction(10) ** kk
                if abs(L - p) <= p * Fraction(1, 2**48):
                    return True
        return False

    def run_pass(lines, meta, record_dis):
        got, rc, err = run_probe(exe, lines)
        model = run_model(["dbl"], "\n".join(lines) + "\n").split("\n")[:-1]
        if rc != 0 or len(got) != len(lines):
            ctx.violation(f"[C15] the probe crashed (exit {rc}): {err[:300]}", lines[min(len(got), len(lines) - 1)], found_input=True, facts={"crash": True})
            return
        res = {}
        for (nm, n, x, y), g in zip(meta, got):
            res[(nm, n, d2bits(x), d2bits(y))] = g
        for (nm, n, x, y), g, mm, line in zip(meta, got, model, lines):
            m, mex = mm.split(" ")
            if g != m:
                if record_dis:
                    state["ndis"] += 1
                    state["dis_cases"].append((x, y, n))
                    if state["ndis"] <= 3:
                        ctx.oblige("correspondence C15: the binary64 instance of the model and the implementation agree on every pair", False, f"`{line}` model {m} impl {g}")
            if g != mex and record_dis:
                state["nexact"] += 1
                if not near_threshold(x, y, n) and nm in ("eq", "ne", "legacyEq", "legacyNe", "legacyEqMsg", "legacyNeMsg", "mockEq", "mockNe"):
                    state["nslack"] += 1
                    state.setdefault("slack_cases", []).append(f"{nm} {n} figures {x!r} ({d2bits(x):016x}) vs {y!r} ({d2bits(y):016x}): impl {g}, exact instance {mex}")
            fx, fy = Fraction(x), Fraction(y)
            d = abs(fx - fy); T = exact_T(x, y, n)
            band = near_threshold(x, y, n)
            if nm in ("eq", "legacyEq", "legacyEqMsg", "mockEq"):
                sym = res.get(("eq", n, d2bits(y), d2bits(x)))
                if nm == "eq" and sym is not None and sym != g:
                    viol(f"not symmetric: equal({x!r}, {y!r}) at {n} figures is {g}, with operands swapped {sym}", line, {"law": "symmetry"})
                if x == y and g != "1":
                    viol(f"{x!r} is not equal to itself at {n} figures", line, {"law": "reflexive"})
                if d > T and d >= ABS_TOL and g == "1":
                    viol(f"accepted as equal at {n} figures although they differ by more than max(|x|,|y|)*10^(1-n): {x!r} vs {y!r}", line, {"f27_band": band, "law": "upper"})
                if d < T / 10 and g == "0":
                    viol(f"rejected at {n} figures although they differ by less than a tenth of the tolerance: {x!r} vs {y!r}", line, {"f27_band": band, "law": "lower"})
                if nm == "eq" and g == "1":
                    for mfig in range(1, n):
                        r2 = res.get(("eq", mfig, d2bits(x), d2bits(y)))
                        if r2 == "0":
                            viol(f"equal at {n} figures but not at {mfig} figures: {x!r} vs {y!r}", line, {"f27_band": band, "law": "monotone"})
            if nm in ("ne", "legacyNe", "legacyNeMsg", "mockNe"):
                eqname = {"ne": "eq", "legacyNe": "legacyEq", "legacyNeMsg": "legacyEqMsg", "mockNe": "mockEq"}[nm]
                r2 = res.get((eqname, n, d2bits(x), d2bits(y))) or res.get(("eq", n, d2bits(x), d2bits(y)))
                if r2 is not None and r2 == g:
                    viol(f"{nm} and {eqname} are not complements on {x!r}, {y!r} at {n} figures (both {g})", line, {"law": "complement"})
            if nm in ("lt", "mockLt"):        # actual x < expected y
                if fx < fy and g != "1": viol(f"is_less_than_double rejects the strictly ordered pair {x!r} < {y!r} at {n} figures", line, {"f27_band": band, "law": "lt-accept"})
                if fx > fy + T and g == "1": viol(f"is_less_than_double accepts {x!r} although it exceeds {y!r} by more than the tolerance at {n} figures", line, {"f27_band": band, "law": "lt-reject"})
            if nm in ("gt", "mockGt"):
                if fx > fy and g != "1": viol(f"is_greater_than_double rejects the strictly ordered pair {x!r} > {y!r} at {n} figures", line, {"f27_band": band, "law": "gt-accept"})
                if fx < fy - T and g == "1": viol(f"is_greater_than_double accepts {x!r} although it is below {y!r} by more than the tolerance at {n} figures", line, {"f27_band": band, "law": "gt-reject"})

    run_pass(lines, meta, True)
    if state["dis_cases"]:
        # search: the full battery of laws around every pair on which model and implementation disagreed
        l2, m2 = [], []
        for (x, y, n) in state["dis_cases"][:300]:
            for (p, q) in ((x, y), (y, x), (x, x), (y, y)):
                for nm in names:
                    for nn in sorted({n, max(1, n - 1), 1, min(15, n + 1)}):
                        l2.append(f"dbl {nm} {nn} {d2bits(p):016x} {d2bits(q):016x}"); m2.append((nm, nn, p, q))
        run_pass(l2, m2, False)
    ndis, nslack, nexact = state["ndis"], state["nslack"], state["nexact"]
    ctx.oblige("correspondence C15: the binary64 instance of the model and the implementation agree on every pair", ndis == 0, f"{ndis} disagreements")
    ctx.oblige("the exact instance differs from the implementation on equality only inside the rounding band (2^-40 relative around a threshold, or a larger magnitude within 2^-48 of a power of ten)",
               nslack == 0, f"{nslack} equality cases outside the band: " + "; ".join(state.get("slack_cases", [])[:3]))
    ctx.coverage["correspondence"] = {"cases": len(lines), "disagreements": ndis, "exact_instance_differs": nexact, "equality_outside_band": nslack, "oracle_evaluations": len(lines)}
    ctx.coverage["samples"] = lines[:3]
    ctx.coverage["evaluations"] = len(lines)
    ctx.coverage["distinct_nontrivial"] = len(set(lines))


# ---- replay -------------------------------------------------------------------------------------
def replay(ctx, path):
    """Re-run one replay file written by a check against the current working tree and print what happens."""
    txt = open(path).read()
    body = "\n".join(l for l in txt.split("\n") if not l.startswith("#"))
    print(txt.split("\n")[0])
    if body.lstrip().startswith("cfg "):
        rep = re.search(r"^# reporter: (\w+)", txt, re.M)
        reps = [rep.group(1)] if rep else ["text"]
        bench = Bench(ctx)
        for block in [b for b in re.split(r"\n(?=cfg )", body.strip()) if b.strip()]:
            try:
                m = run_model_scenarios([block + "\n"])[0]
            except RuntimeError:
                m = None      # a scenario with acts the runner model does not have (exit handlers ...): the implementation's run only
            for r in reps:
                o = bench.run_many([(block + "\n", r)], timeout=120)[0]
                print(f"--- reporter {r}: status {status_of(o)}" + (f" (model {model_status(m)}), truth {m.truth}" if m else " (not a scenario of the runner model)"))
                print(o.stdout[:3000]); print(o.stderr[-1500:])
                if m: print("disagreements:", compare(m, o, r))
    elif re.search(r"^(expect|always|never|call|tally|mode) ", body, re.M):
        impl, exe = mocks_bench(ctx, asan=True)
        ops = [l for l in body.split("\n") if l.strip()]
        ia, rc, err = run_impl_ops(exe, [ops], env=asan_env())
        ma = run_model_ops("mocks", [ops]); sa = run_model_ops("mockspec", [ops])
        print("exit", rc, err[-600:] if rc else "")
        for i, op in enumerate(ops):
            print(f"{op:40s} impl {ia[0][i] if ia and i < len(ia[0]) else None} | model {ma[0][i] if i < len(ma[0]) else None} | spec {sa[0][i] if i < len(sa[0]) else None}")
    elif re.search(r"^(int|str|mem|dbl) ", body, re.M):
        impl = build_impl(ctx, asan=True)
        exe = compile_harness(ctx, impl, "cmp_probe_c", ["cmp_probe.c"], out="cmp_probe_c")
        lines = [l for l in body.split("\n") if l.strip()]
        got, rc, err = run_probe(exe, lines, env=asan_env())
        cmd = "dbl" if lines[0].startswith("dbl") else "cmp"
        model = run_model([cmd], "\n".join(lines) + "\n").split("\n")
        for l, g, m in zip(lines, got, model):
            print(f"{l}: impl {g} model {m}")
        if rc: print("exit", rc, err[-800:])
    else:
        print(txt)


# ---- C20: bookkeeping ---------------------------------------------------------------------------
def growth_step():
    m = re.search(r"vector->space\s*\+=\s*(\d+)", open(os.path.join(REPO, "src", "vector.c")).read())
    if m:
        return int(m.group(1))
    # not spelled `space += <number>`: take it from what the growth translator extracts (vector_add_newCap = step + c)
    import growth as gr0
    m0 = re.search(r"def vector_add_newCap \(n c : Nat\) : Nat := (\d+) \+ c", gr0.render()[0])
    return int(m0.group(1)) if m0 else None


def gen_vec_history(rng, step, target):
    ops = []
    size = 0
    for i in range(target):
        ops.append(f"a {i}"); size += 1
    for _ in range(rng.choice([3, 10, 40])):
        r = rng.random()
        if r < 0.35 and size:
            pos = rng.choice([0, size - 1, size // 2, rng.randrange(size)])
            ops.append(f"r {pos}"); size -= 1
        elif r < 0.5:
            ops.append(f"a {1000 + len(ops)}"); size += 1
        elif r < 0.8 and size:
            ops.append(f"g {rng.choice([0, size - 1, rng.randrange(size)])}")
        else:
            ops.append(rng.choice([f"g {size}", f"r {size}", f"g {size + 5}", f"r {size + 1}"]))     # illegal positions: PANIC + NULL
    return ops


def discoverer_family(ctx, rng, tag):
    """tools/discoverer.c: the real discover_tests_in() (with `nm` replaced by `cat`, sanitizers on) against the Lean model
    `Lines.discover` and an independent oracle, on symbol listings whose lines have every length around every size the line
    buffer can have. The theorems (C20_line_of_any_length, C20_listing_read_whole, C09_discovery) hold for every initial
    size from 3 bytes; the size in the source is read here and checked against that hypothesis."""
    import readloops as rl0
    size0 = rl0.initial_size()      # the `&size` the caller hands to read_whole_line(), from the AST (after macro expansion)
    ctx.oblige("the discoverer's line buffer starts at a constant size of at least 3 bytes (hypothesis of C20_line_of_any_length and C09_discovery)",
               size0 is not None and size0 >= 3, f"size: {size0}")
    if not size0 or size0 < 3:
        return
    impl = build_impl(ctx, asan=True, tag=tag)
    exe = compile_harness(ctx, impl, "disc_probe", ["disc_probe.c", os.path.join(REPO, "tools", "io.c"), os.path.join(REPO, "tools", "test_item.c")],
                          extra=[f"-I{REPO}/tools", "-w"])
    PRE = "0000000000004010 D CgreenSpec__"

    def test_line(total, ctxname):
        """a definition line of `total` characters including its line feed (None when it cannot be that short)"""
        n = total - 1 - len(PRE) - len(ctxname) - 4
        if n < 1: return None
        name = "".join(rng.choice("abcdefghij_") if k % 2 and k + 1 < n else rng.choice("klmnopqrst") for k in range(n))     # no "__", no "_" at the end
        return ("test", ctxname, name, PRE + ctxname + "__" + name + "__")

    def other_line(total):
        n = max(0, total - 1)
        kind = rng.choice(["T", "U", "D", "spec-not-def", "blank"])
        if kind == "T": txt = ("0000000000001000 T " + "f" * n)[:n]
        elif kind == "U": txt = ("                 U " + "m" * n)[:n]
        elif kind == "D": txt = ("0000000000004040 D " + "v" * n)[:n]
        elif kind == "spec-not-def": txt = ("0000000000001200 T CgreenSpec__Ctx__" + "w" * n)[:n]
        else: txt = " " * n
        return ("other", None, None, txt)

    def listing_of(lines, final_newline=True):
        body = "\n".join(l[3] for l in lines) + ("\n" if final_newline and lines else "")
        return body

    cases = []     # (label, lines, final_newline)
    bounds = [size0 << k for k in range(0, 4 if ctx.tier == "quick" else 5)]
    for B in bounds:
        for d in range(-3, 4):
            total = B - 2 + d
            for ctxname in ("Ctx", "default"):
                t = test_line(total, ctxname)
                if t is None: continue
                follow = test_line(rng.randrange(40, 80), "Ctx")
                warm = [test_line(B // 2 + 10, "Ctx")] if B > size0 else []     # brings the buffer to B bytes first (when B is not the initial size)
                warm = [w for w in warm if w]
                cases.append((f"a test whose line is {total} characters (buffer {B})", warm + [t, follow, other_line(20)], True))
            cases.append((f"another line of {total} characters followed by a test", [other_line(total), test_line(60, "Ctx")], True))
    for _ in range(sizes(ctx, 40, 400)):
        lines = []
        for _ in range(rng.randrange(1, 9)):
            total = rng.choice([rng.randrange(1, 120), rng.choice(bounds) - 2 + rng.randrange(-2, 3), rng.randrange(1, 5000)])
            l = test_line(total, rng.choice(["Ctx", "default", "A_b"])) if rng.random() < 0.6 else other_line(total)
            lines.append(l or other_line(total))
        cases.append(("random listing", lines, rng.random() < 0.85))
    d = os.path.join(ctx.work, "listings"); os.makedirs(d, exist_ok=True)

    def run_impl(batch):
        paths = []
        for k, (label, lines, fin) in enumerate(batch):
            pth = os.path.join(d, f"l{k}.txt"); open(pth, "w").write(listing_of(lines, fin)); paths.append(pth)
        r = subprocess.run([exe] + paths, stdout=subprocess.PIPE, stderr=subprocess.PIPE, env=asan_env(), timeout=600)
        out = r.stdout.decode("latin-1").split("\n")[:-1]
        return out, r.returncode, r.stderr.decode("latin-1")

    def hx(t): return t.encode().hex() if t else "-"

    def want_of(lines):
        items = [f"{hx(c)}:{hx(n)}:{hx(txt[txt.index('CgreenSpec__'):])}" for kind, c, n, txt in lines if kind == "test"]
        return (f"n={len(items)} " + " ".join(items)).rstrip()

    def describe(lines, fin):
        return "\n".join(f"# line {i + 1}: {len(l[3]) + 1} characters with its line feed, " + (f"test {l[1]}:<{len(l[2])} characters>" if l[0] == "test" else "no test")
                         for i, l in enumerate(lines)) + ("" if fin else "\n# (the last line has no line feed)")

    out, rc, err = run_impl(cases)
    minp = "".join(f"{size0} {hx(listing_of(lines, fin))}\n" for _, lines, fin in cases)
    mout = run_model(["discover"], minp).split("\n")
    ndis = nor = 0
    if rc != 0 or len(out) != len(cases):
        k = min(len(out), len(cases) - 1)
        label, lines, fin = cases[k]
        ctx.violation(f"[{ctx.prop}] the discoverer crashed or stopped (exit {rc}) reading a listing ({label}): " +
                      " ".join(l.strip() for l in err.split("\n") if "ERROR" in l or "SUMMARY" in l or l.strip().startswith("#0"))[:300],
                      describe(lines, fin) + "\n" + listing_of(lines, fin), found_input=True, facts={"crash": True, "where": "discoverer"})
    for k, ((label, lines, fin), a) in enumerate(zip(cases, out)):
        mo = mout[k] if k < len(mout) else ""
        mm = re.match(r"safe=(\w+) (n=.*)$", mo)
        mitems = mm.group(2).rstrip() if mm else None
        if mm and mm.group(1) != "true":
            ctx.oblige("the model itself reads every piece inside the buffer", False, label)
        if a.rstrip() != mitems:
            ndis += 1
            if ndis <= 3:
                ctx.oblige("correspondence (discoverer)", False, f"{label}: model `{(mitems or '')[:80]}` impl `{a[:80]}`")
        w = want_of(lines)
        if a.rstrip() != w:
            nor += 1
            if nor <= 4:
                # shrink: drop lines while the discoverer still finds something else than what is listed
                cur = list(lines)
                changed = True
                while changed and len(cur) > 1:
                    changed = False
                    for i in range(len(cur)):
                        cand = cur[:i] + cur[i + 1:]
                        o2, rc2, _ = run_impl([("", cand, fin)])
                        if rc2 != 0 or not o2 or o2[0].rstrip() != want_of(cand):
                            cur, changed = cand, True
                            break
                o2, rc2, _ = run_impl([("", cur, fin)])
                got = o2[0] if o2 else f"(exit {rc2})"
                ng = re.match(r"n=(\d+)", got)
                ndef = sum(1 for l in cur if l[0] == 'test')
                same_count = ng and int(ng.group(1)) == ndef
                gl = [len(x.split(":")[2]) // 2 for x in got.split(" ")[1:] if x.count(":") == 2]
                wl = [len(l[3]) - l[3].index("CgreenSpec__") for l in cur if l[0] == "test"]
                ctx.violation((f"[{ctx.prop}] the discoverer finds tests with other names than the listing defines (specification names of {gl} characters, defined: {wl})" if same_count else
                               f"[{ctx.prop}] the discoverer finds {ng.group(1) if ng else got[:40]} tests in a listing that defines {ndef}") +
                              f" (line lengths with line feed: {[len(l[3]) + 1 for l in cur]}; the line buffer starts at {size0} bytes)",
                              describe(cur, fin) + "\n# feed to harness/disc_probe (tools/discoverer.c with nm replaced by cat):\n" + listing_of(cur, fin),
                              found_input=True, facts={"where": "discoverer", "line_lengths": [len(l[3]) + 1 for l in cur]})
    ctx.oblige("correspondence (discoverer): model and implementation find the same tests, with the same names, in every listing", ndis == 0, f"{ndis} listings disagree")
    ctx.coverage["discoverer"] = {"listings": len(cases), "initial_buffer": size0, "buffer_sizes_probed": bounds,
                                  "line_lengths": [min(len(l[3]) + 1 for _, ls, _ in cases for l in ls), max(len(l[3]) + 1 for _, ls, _ in cases for l in ls)],
                                  "listings_without_final_line_feed": sum(1 for c in cases if not c[2]), "oracle_disagreements": nor}


def suite_building_family(ctx, rng):
    """Suites built with add_test(), add_tests(several) and add_suite() in every mix and order, sanitizers on: count_tests() and the
    totals of the run are those of the list of tests added (every fifth test fails a check)."""
    impl = build_impl(ctx, asan=True)
    NT, MAXK = 160, 12
    src = ['#include <cgreen/cgreen.h>', '#include <stdio.h>', '#include <stdlib.h>', '#include <string.h>']
    for i in range(NT):
        src.append(f"Ensure(t{i}) {{ assert_that({i} % 5, is_not_equal_to(4)); }}")
    src.append("static TestSuite *leaf(void) { TestSuite *s = create_named_test_suite(\"leaf\"); add_test(s, t0); return s; }")
    src.append("int main(int argc, char **argv) {\n  TestSuite *top = create_named_test_suite(\"top\");\n  int next = 0;\n  for (int a = 1; a < argc; a++) {\n    if (!strcmp(argv[a], \"t\")) { switch (next) {")
    for i in range(NT):
        src.append(f"      case {i}: add_test(top, t{i}); break;")
    src.append("      default: return 90; } next++; }\n    else if (!strcmp(argv[a], \"s\")) add_suite(top, leaf());\n    else { int k = atoi(argv[a] + 1); switch (next * 100 + k) {")
    for base in range(0, NT - MAXK, 1):
        for k in range(2, MAXK + 1):
            if (base * 7 + k) % 9 == 0 or base % 16 in (0, 15, 14) or base < 6:      # (enough starting points for every count; a full table would be 1800 cases)
                # (the function behind add_tests(), with the tests' specifications: the macro itself hands over the test *functions* of
                # Ensure()-defined tests where specifications are expected - an API left over from before contexts, see DESIGN.md section 7)
                src.append(f"      case {base * 100 + k}: add_tests_(top, \"{', '.join(f't{base + j}' for j in range(k))}\", {', '.join(f'&spec_name(default, t{base + j})' for j in range(k))}); break;")
    src.append("      default: return 91; } next += k; }\n  }\n  printf(\"count %d\\n\", count_tests(top));\n  int st = run_test_suite(top, create_text_reporter());\n  destroy_test_suite(top);\n  return st; }")
    text = "\n".join(src) + "\n"
    have = set(int(x) for x in re.findall(r"case (\d+): add_tests", text))
    path = os.path.join(ctx.work, "suite_build.c"); open(path, "w").write(text)
    exe = compile_harness(ctx, impl, "suite_build", [path], out="suite_build")
    plans = []
    for first in range(2, MAXK + 1):      # add_tests first, then single additions and sub-suites; and the other way round
        plans.append([f"T{first}"] + ["t"] * 3)
        plans.append([f"T{first}", "s", "t"])
        plans.append(["t"] * (first % 4) + [f"T{first}", "t", "t"])
    for _ in range(sizes(ctx, 60, 600)):
        plans.append([rng.choice(["t", "t", "s", f"T{rng.randrange(2, MAXK + 1)}"]) for _ in range(rng.randrange(1, 14))])
    ran = bad = 0
    for plan in plans:
        nxt, ok, tests, leaves = 0, True, [], 0
        for op in plan:
            if op == "t": tests.append(nxt); nxt += 1
            elif op == "s": leaves += 1
            else:
                k = int(op[1:])
                if nxt * 100 + k not in have: ok = False; break
                tests += list(range(nxt, nxt + k)); nxt += k
        if not ok or nxt > NT:
            continue
        ran += 1
        r = subprocess.run([exe] + plan, stdout=subprocess.PIPE, stderr=subprocess.PIPE, env=asan_env(), timeout=120)
        out, err = r.stdout.decode("latin-1"), r.stderr.decode("latin-1")
        nfail = sum(1 for i in tests if i % 5 == 4)
        npass = len(tests) - nfail + leaves
        want_count = len(tests) + leaves
        m = re.search(r"count (\d+)", out)
        tot = parse_counts(out.split("Completed")[-1]) if "Completed" in out else None
        problem = None
        if "ERROR: AddressSanitizer" in err or "runtime error" in err or r.returncode < 0:
            problem = "undefined behaviour in cgreen itself: " + " ".join(l.strip() for l in err.split("\n") if "ERROR" in l or "SUMMARY" in l or "runtime error" in l)[:260]
        elif not m or int(m.group(1)) != want_count:
            problem = f"count_tests() says {m.group(1) if m else None}, {want_count} tests were added"
        elif tot is None or (tot[0], tot[1]) != (npass, nfail) or (r.returncode != 0) != (nfail > 0):
            problem = f"the run reports {tot} (passes, failures, skipped, exceptions) and exit status {r.returncode}; the tests added make {npass} passes and {nfail} failures"
        if problem and bad < 3:
            bad += 1
            ctx.violation(f"[C20] a suite built by `{' '.join(plan)}` (t = add_test, T<k> = add_tests with k tests, s = add_suite): {problem}",
                          "# (sanitizer build) <work>/suite_build " + " ".join(plan) + "\n# generated by suite_building_family() in harness/props.py: Ensure(t0..t159), every fifth fails one check\n",
                          found_input=True, facts={"where": "suite.c", "what": "suite building"})
    ctx.coverage["suite_building_plans"] = ran
    ctx.oblige("C20: suites built through add_test / add_tests / add_suite in every mix were run", ran > 30, str(ran))


def check_C20(ctx):
    lean_check(ctx)
    rng = random.Random(ctx.seed * 1000 + 20)
    step = growth_step()
    ctx.oblige("the vector growth step is a positive constant read from src/vector.c (the theorems hold for every positive step)", bool(step) and step > 0, str(step))
    if not step:
        return
    # ---- the translator: the arithmetic of every growable array, re-extracted from the current sources; Lean proves, for all
    # element counts and capacities, that the index written is inside what was allocated and the capacity recorded is not larger ----
    import growth as gr
    gtext, gthms, gproblems = gr.render()
    gpath = os.path.join(ctx.work, "GenGrowth.lean")
    open(gpath, "w").write(gtext)
    with LakeLock():
        gres = sh(["lake", "env", "lean", gpath], cwd=LEAN)
    for site, why in gproblems:
        ctx.oblige(f"growth site {site}: arithmetic extracted from the source", False, why)
    for thm in gthms:
        m = re.search(r"'Cgreen\.Gen\.Growth\.%s' (does not depend on any axioms|depends on axioms: \[([^\]]*)\])" % thm, gres.stdout)
        axs = [a.strip() for a in (m.group(2) or "").split(",") if a.strip()] if m else ["?"]
        ok = m is not None and all(a in ALLOWED_AXIOMS for a in axs)
        ctx.oblige(f"generated obligation Cgreen.Gen.Growth.{thm} (growth arithmetic regenerated from /repo's sources)", ok, "" if ok else gres.stdout[-500:])
    ctx.coverage["growth_sites_translated"] = sorted({t.rsplit("_", 3)[0] for t in gthms})
    # ---- second translator: the loops that read a stream into a buffer they enlarge (libxml2 reporter: a test's results;
    # discoverer: a line of the symbol listing): every read inside the allocation, no wrap-around, progress, room for the terminator ----
    import readloops as rl
    rtext, rthms, rproblems = rl.render()
    rpath = os.path.join(ctx.work, "GenReadLoops.lean")
    open(rpath, "w").write(rtext)
    with LakeLock():
        rres = sh(["lake", "env", "lean", rpath], cwd=LEAN)
    for site, why in rproblems:
        ctx.oblige(f"read loop {site}: arithmetic extracted from the source", False, why)
    for thm in rthms:
        m = re.search(r"'Cgreen\.Gen\.ReadLoops\.%s' (does not depend on any axioms|depends on axioms: \[([^\]]*)\])" % thm, rres.stdout)
        axs = [a.strip() for a in (m.group(2) or "").split(",") if a.strip()] if m else ["?"]
        ok = m is not None and all(a in ALLOWED_AXIOMS for a in axs)
        ctx.oblige(f"generated obligation Cgreen.Gen.ReadLoops.{thm} (read-loop arithmetic regenerated from /repo's sources)", ok, "" if ok else rres.stdout[-600:])
    ctx.coverage["read_loops_translated"] = sorted({t.rsplit("_", 1)[0] if not re.search(r"_after_\d+$", t) else re.sub(r"_after_\d+$", "", t) for t in rthms})
    ctx.coverage["generated_sha"] = hashlib.sha256(gtext.encode()).hexdigest()[:16]
    impl = build_impl(ctx, asan=True)
    exe = compile_harness(ctx, impl, "vec_ops", ["vec_ops.c"])
    targets = sorted({0, 1, step - 1, step, step + 1, 2 * step - 1, 2 * step, 2 * step + 1, 3 * step, 3 * step + 1})
    blocks = [gen_vec_history(rng, step, t) for t in targets for _ in range(sizes(ctx, 6, 60))]
    # drain completely from the head / from the tail at exactly the boundaries
    for t in (step, 2 * step):
        blocks.append([f"a {i}" for i in range(t)] + ["r 0"] * t + ["r 0", "g 0"])
        blocks.append([f"a {i}" for i in range(t)] + [f"r {t - 1 - i}" for i in range(t)])
    inp = "".join("\n".join(b) + "\n---\n" for b in blocks)
    r = subprocess.run([exe], input=inp.encode(), stdout=subprocess.PIPE, stderr=subprocess.PIPE, env=asan_env(), timeout=600)
    impl_out = r.stdout.decode().split("---\n")
    model_out = run_model(["vec", str(step)], inp).split("---\n")
    if r.returncode != 0:
        k = max(0, len(impl_out) - 1)
        err = r.stderr.decode("latin-1")
        ctx.violation(f"[C20] the vector crashed (exit {r.returncode}) in a history of {len(blocks[min(k, len(blocks)-1)])} operations: " +
                      " ".join(l.strip() for l in err.split("\n") if "ERROR" in l or "SUMMARY" in l or l.strip().startswith("#0"))[:300],
                      "# feed to harness/vec_ops (ASan)\n" + "\n".join(blocks[min(k, len(blocks) - 1)]), found_input=True, facts={"crash": True, "where": "vector"})
    ndis = 0
    for b, a, m in zip(blocks, impl_out, model_out):
        if a != m:
            ndis += 1
            if ndis <= 3:
                al, ml = a.split("\n"), m.split("\n")
                i = next((i for i, (x, y) in enumerate(zip(al, ml)) if x != y), min(len(al), len(ml)))
                ctx.oblige("correspondence C20 (vector)", False, f"op #{i} `{b[i] if i < len(b) else '?'}`: model `{ml[i] if i < len(ml) else None}` impl `{al[i] if i < len(al) else None}`")
        if "OOB" in m:
            ctx.oblige("the model itself reports no out-of-bounds access", False, m[:200])
    ctx.oblige("correspondence C20: vector model and implementation agree on every history (results and sizes)", ndis == 0, f"{ndis} histories disagree")
    nvec = len(blocks)
    # ---- a suite's array of tests, filled through every public way of adding (add_test, add_tests with several, add_suite) in any mix ----
    suite_building_family(ctx, rng)
    # ---- the discoverer's line buffer: lines of every length around every size the buffer can have ----
    discoverer_family(ctx, rng, "asan")
    # ---- what cgreen-runner says when it has to give up names the file it could not load: a message of any length ----
    rimpl = build_impl(ctx, asan=True, runner=True, tag="asan-runner")
    bdir = os.path.join(ctx.work, "unloadable"); os.makedirs(bdir)
    bsrc = os.path.join(bdir, "u.c")
    open(bsrc, "w").write('#include <cgreen/cgreen.h>\nextern void cgreen_verif_no_such_function(void);\nEnsure(uses_it) { cgreen_verif_no_such_function(); assert_that(1, is_equal_to(1)); }\n')
    r = sh(["gcc", "-shared", "-fPIC", "-w", f"-I{REPO}/include", bsrc, "-o", os.path.join(bdir, "libunloadable_tests.so"), f"-L{rimpl['dir']}", "-lcgreen"])
    if r.returncode != 0:
        raise BuildError("test library: " + r.stdout[-1500:])
    npanic = 0
    for plen in ([40, 300, 470, 520, 1100, 3000] if ctx.tier == "quick" else [40, 200, 300, 400, 450, 470, 480, 490, 500, 520, 700, 990, 1100, 2000, 3000, 3900]):
        d = os.path.join(ctx.work, "pp")
        rel = ""
        while len(rel) < plen:
            rel = os.path.join(rel, "d" * min(200, plen - len(rel)))
        os.makedirs(os.path.join(d, rel), exist_ok=True)
        shutil.copy(os.path.join(bdir, "libunloadable_tests.so"), os.path.join(d, rel, "libunloadable_tests.so"))
        r = subprocess.run([rimpl["runner"], os.path.join(rel, "libunloadable_tests.so")], cwd=d, stdout=subprocess.PIPE, stderr=subprocess.PIPE,
                           env=asan_env({"LD_LIBRARY_PATH": rimpl["dir"]}), timeout=120)
        err = r.stderr.decode("latin-1")
        npanic += 1
        L = len(os.path.join(rel, "libunloadable_tests.so"))
        if "ERROR: AddressSanitizer" in err or "runtime error" in err or r.returncode in (98, 99) or r.returncode < 0:
            ctx.violation(f"[C20] a library that cannot be loaded, under a path of {L} characters: undefined behaviour in cgreen-runner while it reports that (exit {r.returncode}): " +
                          " ".join(l.strip() for l in err.split("\n") if "ERROR" in l or "SUMMARY" in l or re.match(r"\s*#[0-3] ", l))[:300],
                          f"# a shared library with an undefined symbol, copied to a relative path of {L} characters\ncgreen-runner <path>/libunloadable_tests.so", found_input=True,
                          facts={"crash": True, "where": "panic", "what": "long message"})
            shutil.rmtree(d, ignore_errors=True)
            break
        if r.returncode == 0 or "libunloadable_tests.so" not in err + r.stdout.decode("latin-1"):
            ctx.violation(f"[C20] a library that cannot be loaded, under a path of {L} characters: cgreen-runner exits with {r.returncode} and " +
                          ("does not name the library" if r.returncode != 0 else "reports success"),
                          f"cgreen-runner <a relative path of {L} characters>/libunloadable_tests.so", found_input=True, facts={"where": "panic", "what": "long message"})
            shutil.rmtree(d, ignore_errors=True)
            break
        shutil.rmtree(d, ignore_errors=True)
    ctx.coverage["unloadable_library_path_lengths"] = npanic
    # ---- names, nesting, counts under every reporter, sanitizers on ----
    bench = Bench(ctx, asan=True)
    scens, labels = [], []
    lengths = [1, 50, 90, 91, 92, 93, 99, 100, 101, 128, 255, 256, 257, 999, 1000, 1001, 1023, 1024, 1025, 4095, 4096, 5000] if ctx.tier == "thorough" else [1, 60, 91, 95, 100, 101, 256, 999, 1001, 1100, 5000]
    for L in lengths:
        name = "n" * L
        scens.append(Scen(S("top", items=[S(name, items=[T("t", body=["P", "F"])])]))); labels.append(f"suite name of {L} characters")
        scens.append(Scen(S(name, items=[T("t", body=["P", "F"])]))); labels.append(f"top suite name of {L} characters")
        scens.append(Scen(S("top", items=[T("t" * L, body=["P", "F"])]))); labels.append(f"test name of {L} characters")
    for depth in ([1, 5, 50, 99, 100, 101, 120] if ctx.tier == "quick" else [1, 5, 50, 98, 99, 100, 101, 102, 150, 300]):
        root = S("a", items=[])          # one-character names: the XML reporters' file names grow with the depth (NAME_MAX)
        cur = root
        for i in range(1, depth):
            nxt = S("a", items=[]); cur.items.append(nxt); cur = nxt
        cur.items.append(T("leaf", body=["P", "F"]))
        scens.append(Scen(root)); labels.append(f"suites nested {depth} deep")
    for count in (step - 1, step, step + 1, 2 * step + 1):
        scens.append(Scen(S("top", items=[T(f"t{i}", body=["P"] if i % 7 else ["F"]) for i in range(count)]))); labels.append(f"{count} tests in one suite")
    # any number of sibling sub-suites: a test run by name is found in whichever of them it is
    for nsib in (1, 2, 3, 6, 17):
        for pick in sorted({0, nsib // 2, nsib - 1}):
            root = S("top", items=[S("mid", items=[S(f"s{i}", items=[T(f"t{i}", body=["P", "F"])]) for i in range(nsib)])])
            scens.append(Scen(root, mode=f"single:t{pick}")); labels.append(f"{nsib} sibling sub-suites, the test in sub-suite {pick} run by name")
    # the results of one test outgrow what a reporter keeps them in (the libxml2 reporter reads a test's results back through a
    # buffer that starts at 4096 bytes; a failure is some 200 bytes)
    for nf in ([1, 15, 19, 20, 21, 22, 25, 45, 300] if ctx.tier == "quick" else [1, 10, 15, 17, 18, 19, 20, 21, 22, 23, 24, 25, 30, 40, 41, 42, 45, 80, 90, 170, 300, 700]):
        scens.append(Scen(S("top", items=[T("a", body=["P"]), T("many", body=["F"] * nf + ["P"]), T("b", body=["F"])]))); labels.append(f"{nf} failing checks in one test")
    # a failure message that quotes a long name or text (the name of a mocked function, a file name, a compared string): the message
    # reaches the reporter as a format with that text among its arguments, and as a finished (percent-doubled) format
    for L in ([40, 98, 100, 998, 1000, 1002, 1500, 4000] if ctx.tier == "quick" else [40, 97, 98, 99, 100, 101, 500, 997, 998, 999, 1000, 1001, 1002, 1023, 1024, 1500, 2047, 2048, 4000, 9000]):
        txt = ("long_name_" * (L // 10 + 1))[:L]
        for kind in ("X", "Y"):
            scens.append(Scen(S("top", items=[T("a", body=["P"]), T("quotes", body=["P", kind + txt.encode().hex(), "P"]), T("b", body=["F"])])))
            labels.append(f"a failure message of {L} characters given as {'an argument of a format' if kind == 'X' else 'a finished format'}")
    # the text reporter's summary lines at their longest: every kind of count present, several digits each, colours on (as cgreen-runner
    # writes them on a terminal), under a short and under a long suite name
    colour_scens, colour_labels = [], []
    for nm in ("s", "n" * 3000):
        tests = [T("many", body=["P"] * 1234 + ["F"] * 12), T("sk1", body=["S"]), T("sk2", body=["P", "S"]), T("x1", body=["K6"]), T("x2", body=["P", "K11"])]
        colour_scens.append(Scen(S(nm, items=[S("inner", items=[t.copy() for t in tests]), T("own", body=["P", "F"])])))
        colour_labels.append(f"summary lines with passes, skipped, failures and exceptions of several digits, colours on, suite name of {len(nm)} characters")
    jobs = [(s.text(), r) for s in scens for r in REPORTERS_ALL]
    # deeper than a per-suite file name allows: the XML reporters through their printer hooks, the others as they are
    DEEP_REPS = ["text", "cute", "cdash", "xmlp", "libxmlp"]
    deep_scens, deep_labels = [], []
    for depth in ([199, 201, 301, 450, 1001] if ctx.tier == "quick" else [199, 200, 201, 299, 300, 301, 302, 399, 401, 450, 801, 999, 1000, 1001, 1500]):
        root = S("a", items=[]); cur = root
        for i in range(1, depth):
            nxt = S("a", items=[]); cur.items.append(nxt); cur = nxt
        cur.items.append(T("leaf", body=["P", "F"]))
        deep_scens.append(Scen(root)); deep_labels.append(f"suites nested {depth} deep")
    # two long names nested in one another (the XML reporter joins them into one path)
    for L1, L2 in ((2040, 2060), (4090, 10), (4095, 4095), (3000, 3000)):
        deep_scens.append(Scen(S("p" * L1, items=[S("q" * L2, items=[T("leaf", body=["P", "F"])])]))); deep_labels.append(f"suite name of {L2} characters inside one of {L1}")
    obs = bench.run_many(jobs, env=asan_env(), timeout=120)
    # (judged apart: crash / sanitizer report, and the totals)
    sig_env2 = asan_env(); sig_env2["ASAN_OPTIONS"] += ":handle_segv=0:handle_abort=0"
    cobs2 = bench.run_many([(s.text(), "textc") for s in colour_scens], env=sig_env2, timeout=120)
    for s_, lab_, o_ in zip(colour_scens, colour_labels, cobs2):
        bad_ = o_.timeout or "ERROR: AddressSanitizer" in o_.stderr or "runtime error" in o_.stderr or (o_.rc is not None and (o_.rc < 0 or o_.rc in (98, 99)))
        tot_ = parse_counts(re.sub(r"\x1b\[[0-9;]*m", "", o_.stdout).split("Completed")[-1]) if "Completed" in o_.stdout else None
        if bad_ or tot_ != (1237, 13, 2, 2):
            ctx.violation(f"[C20] {lab_}: " + (("undefined behaviour / crash in cgreen itself (exit %s): " % o_.rc) + " ".join(l.strip() for l in o_.stderr.split("\n") if "ERROR" in l or "SUMMARY" in l or "runtime error" in l)[:240] if bad_
                                             else f"the totals line says {tot_}, what happened is (1237, 13, 2, 2)"),
                          "# reporter: textc (the text reporter with colours on)   (sanitizer build: harness/scenario_run <file> textc <outdir>)\n" + s_.text()[:3000], found_input=True, facts={"where": "text_reporter", "what": "summary line"})
    ctx.coverage["coloured_summary_runs"] = len(cobs2)
    djobs = [(s.text(), r) for s in deep_scens for r in DEEP_REPS]
    obs += bench.run_many(djobs, env=asan_env(), timeout=120)
    jobs += djobs
    # more tests, and more suites, than the process may have open files: what is kept per test or per suite is released again
    fd_scens = [Scen(S("top", items=[T(f"t{i}", body=["P"] if i % 9 else ["F"]) for i in range(70)])),
                Scen(S("top", items=[S(f"s{i}", items=[T(f"t{i}", body=["P"])]) for i in range(70)]))]
    fd_labels = ["70 tests with 40 file descriptors", "70 suites with 40 file descriptors"]
    fjobs = [(s.text(), r) for s in fd_scens for r in REPORTERS_ALL]
    fobs = bench.run_many(fjobs, env=asan_env(), timeout=120, nofile=40)
    k = 0
    shown = set()
    models = run_model_scenarios([s.text() for s in scens + deep_scens])
    obs += fobs; jobs += fjobs
    models += run_model_scenarios([s.text() for s in fd_scens])
    for s, lab, m in zip(scens + deep_scens + fd_scens, labels + deep_labels + fd_labels, models):
        for rep in (DEEP_REPS if s in deep_scens else REPORTERS_ALL):
            o = obs[k]; k += 1
            crashed = o.timeout or (o.rc is not None and (o.rc < 0 or o.rc in (98, 99))) or "ERROR: AddressSanitizer" in o.stderr or "runtime error" in o.stderr
            if crashed:
                summary = " ".join(l.strip() for l in o.stderr.split("\n") if "ERROR" in l or "runtime error" in l or "SUMMARY" in l)[:260]
                where = "text_reporter" if "text_reporter" in o.stderr else "xml_reporter" if "xml_reporter.c" in o.stderr else "libxml_reporter" if "libxml_reporter" in o.stderr else "other"
                key = (where, lab.split(" of ")[0].split(" nested")[0].split(" failing checks")[-1])
                if key not in shown:
                    shown.add(key)
                    ctx.violation(f"[C20] {lab}, {rep} reporter: " + ("the run does not end (stopped after the time allowed)" if o.timeout else f"undefined behaviour / crash in cgreen itself (exit {o.rc}): {summary}"),
                                  f"# reporter: {rep}   (sanitizer build: harness/scenario_run <file> {rep} <outdir>)\n" + (s.text() if len(s.text()) < 20000 else s.text()[:2000] + "\n# ... truncated"),
                                  found_input=True, facts={"crash": True, "where": where, "what": key[1], "depth_over_100": "nested" in lab and int(lab.split()[2]) > 100})
            elif rep in ("xml", "libxml") and "failing checks in one test" in lab:
                cases, perr = xml_testcases(o)
                nf = int(lab.split()[0])
                got = [c[2] for c in cases if c[1] == "many"]
                if (perr or got != [nf]) and ("many", rep) not in shown:
                    shown.add(("many", rep))
                    ctx.violation(f"[C20] {lab}, {rep} reporter: the report shows {got} failures for that test" + (f" ({perr[0][:120]})" if perr else ""),
                                  f"# reporter: {rep}\n" + s.text()[:3000], found_input=True, facts={"where": rep, "what": "many failures"})
            elif rep in ("xml", "libxml") and lab.startswith("a failure message of"):
                # the text arrives as it is at every length (the plain XML reporter may cut it, an unaltered beginning remains)
                cases, perr = xml_testcases(o)
                L = int(lab.split()[4])
                txt = ("long_name_" * (L // 10 + 1))[:L]
                msgs = [m_ for c in cases if c[1] == "quotes" for m_ in c[5]]
                okm = len(msgs) == 1 and (txt[:900] in msgs[0])
                if (perr or not okm) and ("msg", rep) not in shown:
                    shown.add(("msg", rep))
                    ctx.violation(f"[C20] {lab}, {rep} reporter: the report's failure element for that check " + (f"cannot be read ({perr[0][:120]})" if perr else f"does not carry the text (nothing derived from it either): {[m_[:60] for m_ in msgs]}"),
                                  f"# reporter: {rep}\n" + s.text()[:9000], found_input=True, facts={"where": rep, "what": "long message"})
            elif rep in ("text", "cute") and not o.timeout:
                # results do not change with names / depth / counts
                e = oracle_C03(s, m, o, rep)
                if e and ("len", rep) not in shown:
                    shown.add(("len", rep))
                    ctx.violation(f"[C20] {lab}, {rep} reporter: results change: {e}", f"# reporter: {rep}\n" + s.text()[:3000], found_input=True, facts={"where": rep})
    ctx.coverage["correspondence"] = {"cases": nvec + len(jobs), "vector_histories": nvec, "reporter_runs": len(jobs), "disagreements": ndis}
    ctx.coverage["samples"] = [" ; ".join(blocks[3][:8]) + " ...", labels[0], labels[-1]]
    ctx.coverage["evaluations"] = nvec + len(jobs)
    ctx.coverage["distinct_nontrivial"] = nvec + len(scens)
    ctx.coverage["growth_step"] = step


# ---- C16: argument-list tokenizer and binding -------------------------------------------------
IDENTS = ["n", "next", "nx", "xn", "d", "dd", "a", "ab", "abc", "bc", "p0", "p01", "value", "box", "box_doubled", "d_x", "x_d", "len", "buf_len", "buf",
          "length", "size", "size_max", "gr\u00f6\u00dfe", "gre", "na\u00efve", "nave", "z\u00e4hler", "temp\u00e9rature"]      # prefixes of one another; extended identifiers (UTF-8)


def spell(rng, args, style=None):
    """One of the spellings the preprocessor can produce for the argument list (after stringification every run of
    white space between tokens is a single blank; none at the ends) - plus raw variants with tabs/newlines for the tokenizer."""
    ws = (lambda: rng.choice(["", " "])) if style != "raw" else (lambda: rng.choice(["", " ", "  ", "\t", "\n", " \n "]))
    parts = []
    for ident, dbl in args:
        if dbl:
            parts.append("box_double" + ws() + "(" + ws() + ident + ws() + ")")
        else:
            parts.append(ident)
    out = ""
    for i, p in enumerate(parts):
        if i:
            out += ws() + "," + ws()
        out += p
    return out


def gen_arglist(rng, n):
    names = rng.sample(IDENTS, n)
    return [(nm, rng.random() < 0.3) for nm in names]


def check_C16(ctx):
    lean_check(ctx)
    mockgate_obligations(ctx)
    rng = random.Random(ctx.seed * 1000 + 16)
    impl = build_impl(ctx, asan=True)
    exe = compile_harness(ctx, impl, "tok_probe", ["tok_probe.c"])
    cases = []
    for n in range(0, 13):
        for _ in range(sizes(ctx, 60, 1500)):
            args = gen_arglist(rng, n)
            cases.append((args, spell(rng, args, rng.choice([None, None, "raw"]))))
    for n in (20, 40, 63):
        args = [(f"q{i}", i % 5 == 0) for i in range(n)]
        cases.append((args, spell(rng, args)))
    lines = [hexs(s.encode()) for _, s in cases]
    got, rc, err = run_probe(exe, lines, env=asan_env())
    model = run_model(["tok"], "\n".join(lines) + "\n").split("\n")[:-1]
    ndis = nor = 0
    if rc != 0 or len(got) != len(lines):
        bad = cases[min(len(got), len(cases) - 1)]
        ctx.violation(f"[C16] the tokenizer crashed (exit {rc}) on the argument list {bad[1]!r}: " + " ".join(l for l in err.split("\n") if "ERROR" in l or "SUMMARY" in l)[:300],
                      repr(bad[1]), found_input=True, facts={"crash": True})
    else:
        for (args, s), g, m in zip(cases, got, model):
            try: m = m.encode("latin-1").decode("utf-8")      # the model driver prints a byte above 0x7f as the character of that number
            except (UnicodeEncodeError, UnicodeDecodeError): pass
            if g != m:
                ndis += 1
                if ndis <= 3:
                    ctx.oblige("correspondence C16 (tokenizer)", False, f"{s!r}: model `{m}` impl `{g}`")
            want = f"names {'|'.join(a for a, _ in args)} markers {''.join('1' if d else '0' for _, d in args)} count {len(args)}"
            if g != want:
                nor += 1
                if nor <= 4:
                    ctx.violation(f"[C16] the argument list {s!r} is tokenised as `{g}`, the arguments are `{want}`", "# hex for harness/tok_probe: " + hexs(s.encode()) + "\n" + s, found_input=True,
                                  facts={"box_double_spaced": bool(re.search(r"box_double\s*\(\s+|\s+\)|box_double\s+\(", s)), "box_double_prefix_name": any(a.startswith("box_double") and not d for a, d in args)})
    ctx.oblige("correspondence C16: tokenizer model and implementation agree on every spelling", ndis == 0, f"{ndis} disagreements")
    # ---- binding through the real preprocessor: a generated translation unit ----
    src, expected = gen_bind_tu(rng, sizes(ctx, 60, 400))
    path = os.path.join(ctx.work, "bind_probe.c")
    open(path, "w").write(src)
    bexe = compile_harness(ctx, impl, "bind_probe", [path])
    r = subprocess.run([bexe], stdout=subprocess.PIPE, stderr=subprocess.PIPE, env=asan_env(), timeout=300)
    outl = r.stdout.decode().split("\n")[:-1]
    shown = 0
    if r.returncode != 0:
        last = outl[-1] if outl else "(nothing)"
        k = len(outl)
        ctx.violation(f"[C16] the generated mock functions crashed (exit {r.returncode}) in case #{k} {expected[k][0] if k < len(expected) else ''}: " +
                      " ".join(l for l in r.stderr.decode('latin-1').split("\n") if "ERROR" in l or "SUMMARY" in l)[:300],
                      expected[k][2] if k < len(expected) else src[:2000], found_input=True,
                      facts={"crash": True, "box_double_spaced": "box_double (" in (expected[k][2] if k < len(expected) else "") or "( " in (expected[k][2] if k < len(expected) else "")})
    for (desc, want, snippet), g in zip(expected, outl):
        if g != want and shown < 5:
            shown += 1
            ctx.violation(f"[C16] {desc}: got `{g}`, expected `{want}` (pass fail captured-ok)", snippet, found_input=True, facts={"binding": True})
    ctx.coverage["correspondence"] = {"cases": len(cases) + len(expected), "tokenizer_strings": len(cases), "binding_cases": len(expected), "disagreements": ndis, "oracle_failures": nor}
    ctx.coverage["samples"] = [cases[5][1], cases[len(cases) // 2][1], expected[0][0]]
    ctx.coverage["evaluations"] = len(cases) + len(expected)
    ctx.coverage["distinct_nontrivial"] = len({s for _, s in cases}) + len(expected)


def gen_bind_tu(rng, nfuncs):
    """C source with mock functions of arity 0-8 whose mock(...) argument lists are spelled in various ways, and for each
    one test per parameter position (a when() clause, a capture, and a clause naming an absent parameter)."""
    out = ['#include <cgreen/cgreen.h>', '#include <cgreen/mocks.h>', '#include <stdio.h>', '#include <string.h>', '#include <stdarg.h>',
           '#ifdef __cplusplus', 'using namespace cgreen;', '#endif',
           'static int npass, nfail;',
           'static void capture(TestReporter *r, const char *f, int l, int result, const char *m, ...) { (void)r;(void)f;(void)l;(void)m; if (result) npass++; else nfail++; }',
           'extern CgreenTest *current_test;', 'static CgreenTest dummy = { 0, &defaultContext, "t", NULL, "f", 1 };']
    expected = []
    calls = []
    for k in range(nfuncs):
        n = k % 9
        args = gen_arglist(rng, n)
        params = ", ".join(("double " if d else "intptr_t ") + a for a, d in args) or "void"
        seps = [rng.choice([",", ", ", " ,", " , ", ",\n        ", "\n  ,  "]) for _ in range(max(0, n - 1))]
        pieces = []
        for a, d in args:
            pieces.append(rng.choice(["box_double(%s)", "box_double( %s )", "box_double (%s)", "box_double(\n %s\n )", "box_double ( %s)"]) % a if d else a)
        spelled = "".join(p + (seps[i] if i < len(seps) else "") for i, p in enumerate(pieces))
        out.append(f"static intptr_t fn_{k}({params}) {{ return mock({spelled}); }}")
        vals = [100 + 7 * i for i in range(n)]
        callargs = ", ".join((f"{v}.5" if d else str(v)) for v, (a, d) in zip(vals, args))
        snippet = f"static intptr_t fn_{k}({params}) {{ return mock({spelled}); }}"
        for j, (a, d) in enumerate(args):
            cons = f"is_equal_to_double({vals[j]}.5)" if d else f"is_equal_to({vals[j]})"
            calls.append(f'  npass = nfail = 0; expect(fn_{k}, when({a}, {cons})); fn_{k}({callargs}); clear_mocks(); printf("%d %d -\\n", npass, nfail);')
            expected.append((f"fn_{k} arity {n}: when({a}, ...) at position {j}", "1 0 -", snippet + f"\n/* expect(fn_{k}, when({a}, {cons})); fn_{k}({callargs}); */"))
            if not d:
                calls.append(f'  {{ intptr_t got = -1; npass = nfail = 0; expect(fn_{k}, will_capture_parameter({a}, got)); fn_{k}({callargs}); clear_mocks(); printf("%d %d %s\\n", npass, nfail, got == {vals[j]} ? "ok" : "wrong"); }}')
                expected.append((f"fn_{k} arity {n}: will_capture_parameter({a}) at position {j}", "0 0 ok", snippet))
        # several clauses naming the same parameter in one expect(): each of them applies to that argument (two when(), the second one
        # the violated one; a when() and then a capture)
        for j, (a, d) in enumerate(args):
            if d: continue
            calls.append(f'  npass = nfail = 0; expect(fn_{k}, when({a}, is_greater_than({vals[j] - 1})), when({a}, is_less_than({vals[j]}))); fn_{k}({callargs}); clear_mocks(); printf("%d %d -\\n", npass, nfail);')
            expected.append((f"fn_{k} arity {n}: two when() clauses on {a} (position {j}), the second one is violated", "1 1 -", snippet + f"\n/* expect(fn_{k}, when({a}, is_greater_than({vals[j] - 1})), when({a}, is_less_than({vals[j]}))); fn_{k}({callargs}); */"))
            calls.append(f'  npass = nfail = 0; expect(fn_{k}, when({a}, is_greater_than({vals[j] - 1})), when({a}, is_less_than({vals[j] + 1}))); fn_{k}({callargs}); clear_mocks(); printf("%d %d -\\n", npass, nfail);')
            expected.append((f"fn_{k} arity {n}: two when() clauses on {a} (position {j}), both hold", "2 0 -", snippet))
            calls.append(f'  {{ intptr_t got = -1; npass = nfail = 0; expect(fn_{k}, when({a}, is_equal_to({vals[j]})), will_capture_parameter({a}, got)); fn_{k}({callargs}); clear_mocks(); printf("%d %d %s\\n", npass, nfail, got == {vals[j]} ? "ok" : "wrong"); }}')
            expected.append((f"fn_{k} arity {n}: when({a}, ...) and then will_capture_parameter({a}) at position {j}", "1 0 ok", snippet + f"\n/* expect(fn_{k}, when({a}, is_equal_to({vals[j]})), will_capture_parameter({a}, got)); fn_{k}({callargs}); */"))
        # an output-parameter clause for each (non-double) position: the bytes arrive, whatever the reporter's counters say about
        # earlier tests; and a when() written after it in the same expect() is applied all the same
        for j, (a, d) in enumerate(args):
            if d: continue
            cargs = ", ".join("(intptr_t)&buf" if i == j else (f"{v}.5" if dd else str(v)) for i, (v, (aa, dd)) in enumerate(zip(vals, args)))
            calls.append(f'  {{ static int v = 4711; int buf = 0; npass = nfail = 0; expect(fn_{k}, will_set_contents_of_parameter({a}, &v, sizeof(v))); fn_{k}({cargs}); clear_mocks(); printf("%d %d %s\\n", npass, nfail, buf == 4711 ? "written" : "untouched"); }}')
            expected.append((f"fn_{k} arity {n}: will_set_contents_of_parameter({a}, ...) at position {j}", "0 0 written", snippet))
            others = [(i, aa) for i, (aa, dd) in enumerate(args) if i != j and not dd]
            if others:
                i2, a2 = others[rng.randrange(len(others))]
                for right in (True, False):
                    want_v = vals[i2] if right else vals[i2] + 1
                    calls.append(f'  {{ static int v = 4711; int buf = 0; npass = nfail = 0; expect(fn_{k}, will_set_contents_of_parameter({a}, &v, sizeof(v)), when({a2}, is_equal_to({want_v}))); fn_{k}({cargs}); clear_mocks(); printf("%d %d -\\n", npass, nfail); }}')
                    expected.append((f"fn_{k} arity {n}: when({a2}, ...) written after will_set_contents_of_parameter({a}, ...), the argument {'matches' if right else 'does not match'}", "1 0 -" if right else "0 1 -", snippet))
        calls.append(f'  npass = nfail = 0; expect(fn_{k}, when(no_such_parameter, is_equal_to(1))); fn_{k}({callargs}); clear_mocks(); printf("%d %d -\\n", npass, nfail);')
        expected.append((f"fn_{k} arity {n}: clause naming an absent parameter", "0 1 -", snippet))
        near = (args[rng.randrange(n)][0] + rng.choice(["x", "_", "0"])) if n and rng.random() < 0.6 else "no_such_parameter"
        if near in [a for a, _ in args]: near = "no_such_parameter"
        calls.append(f'  {{ static int v = 5; npass = nfail = 0; expect(fn_{k}, will_set_contents_of_parameter({near}, &v, sizeof(v))); fn_{k}({callargs}); clear_mocks(); printf("%d %d -\\n", npass, nfail > 0); }}')
        expected.append((f"fn_{k} arity {n}: will_set_contents_of_parameter({near}, ...) naming an absent parameter", "0 1 -", snippet))
        calls.append(f'  {{ intptr_t got = -1; npass = nfail = 0; expect(fn_{k}, will_capture_parameter({near}, got)); fn_{k}({callargs}); clear_mocks(); printf("%d %d %s\\n", npass, nfail > 0, got == -1 ? "untouched" : "written"); }}')
        expected.append((f"fn_{k} arity {n}: will_capture_parameter({near}, ...) naming an absent parameter", "0 1 untouched", snippet))
        # clauses written after a clause of another kind (a call count, a return value) are bound and validated all the same
        for lead in ("times(1)", "will_return(3)", "times(1), will_return(3)"):
            calls.append(f'  npass = nfail = 0; expect(fn_{k}, {lead}, when(no_such_parameter, is_equal_to(1))); fn_{k}({callargs}); clear_mocks(); printf("%d %d -\\n", npass, nfail > 0);')
            expected.append((f"fn_{k} arity {n}: clause naming an absent parameter, written after {lead}", "0 1 -", snippet + f"\n/* expect(fn_{k}, {lead}, when(no_such_parameter, is_equal_to(1))); fn_{k}({callargs}); */"))
            if n:
                j = rng.randrange(n); a, d = args[j]
                for right in (True, False):
                    v = vals[j] if right else vals[j] + 1
                    cons = f"is_equal_to_double({v}.5)" if d else f"is_equal_to({v})"
                    calls.append(f'  npass = nfail = 0; expect(fn_{k}, {lead}, when({a}, {cons})); fn_{k}({callargs}); clear_mocks(); printf("%d %d -\\n", npass, nfail);')
                    expected.append((f"fn_{k} arity {n}: when({a}, ...) written after {lead}, the argument {'matches' if right else 'does not match'}", "1 0 -" if right else "0 1 -", snippet + f"\n/* expect(fn_{k}, {lead}, when({a}, {cons})); fn_{k}({callargs}); */"))
    # an absent name among several clauses, not the last of them: reported all the same (a later clause naming a real parameter does not
    # make up for it), with other clauses in between or not
    xs = "static intptr_t fn_v(intptr_t fd, intptr_t buffer, intptr_t size) { return mock(fd, buffer, size); }"
    out.append(xs)
    for cl, want, desc in (("when(descriptor, is_equal_to(3)), when(size, is_equal_to(5))", "1", "an absent name before a clause naming a real parameter"),
                           ("when(descriptor, is_equal_to(3)), times(1), when(size, is_equal_to(5))", "1", "an absent name, then times(1), then a clause naming a real parameter"),
                           ("when(fd, is_equal_to(3)), when(descriptor, is_equal_to(3)), when(size, is_equal_to(5))", "1", "an absent name between two clauses naming real parameters"),
                           ("will_capture_parameter(descriptor, got), when(size, is_equal_to(5))", "1", "a capture clause with an absent name before a clause naming a real parameter"),
                           ("when(fd, is_equal_to(3)), when(size, is_equal_to(5))", "0", "two clauses naming real parameters")):
        calls.append(f'  {{ intptr_t got = -1; npass = nfail = 0; expect(fn_v, {cl}); fn_v(3, 4, 5); clear_mocks(); printf("%d -\\n", nfail > 0); }}')
        expected.append((f"fn_v: {desc}", f"{want} -", xs + f"\n/* expect(fn_v, {cl}); fn_v(3, 4, 5); */"))
    # a mock that passes expressions (`*length`, `m->size`, `&status`): a clause naming an identifier that only occurs inside such an
    # expression names no parameter of the mock
    es = ("struct c16_m { intptr_t id; intptr_t size; };\n"
          "static intptr_t fn_e(intptr_t buffer, intptr_t *length, struct c16_m *m) { return mock(buffer, *length, m->size); }")
    out.append(es)
    for cl, want, desc in (("when(length, is_equal_to(9))", "1", "when() on an identifier that occurs only inside the argument `*length`"),
                           ("when(size, is_equal_to(7))", "1", "when() on an identifier that occurs only inside the argument `m->size`"),
                           ("when(m, is_equal_to(7))", "1", "when() on an identifier that occurs only inside the argument `m->size`"),
                           ("will_capture_parameter(length, got)", "1", "a capture clause on an identifier that occurs only inside the argument `*length`"),
                           ("when(buffer, is_equal_to(1))", "0", "when() on the plain argument next to them")):
        calls.append(f'  {{ intptr_t got = -1, len = 9; struct c16_m mm = {{ 6, 7 }}; npass = nfail = 0; expect(fn_e, {cl}); fn_e(1, &len, &mm); clear_mocks(); printf("%d %s\\n", nfail > 0, got == -1 ? "-" : "captured"); }}')
        expected.append((f"fn_e: {desc}", f"{want} -", es + f"\n/* expect(fn_e, {cl}); fn_e(1, &len, &mm); */"))
    # parameter names that are also macros where the expectations are written (a constant or a renaming defined after the
    # mock function): a clause names the parameter as it is written, as mock(...) does
    msnip = "static intptr_t fn_m(intptr_t length_m, intptr_t source_m, intptr_t target_m) { return mock(length_m, source_m, target_m); }\n#define length_m 512\n#define source_m target_m"
    out.append(msnip)
    for cl, want, desc in (("when(length_m, is_equal_to(11))", "1 0 -", "when() on a parameter whose name is a macro for a constant"),
                           ("when(source_m, is_equal_to(22))", "1 0 -", "when() on a parameter whose name is a macro for another parameter"),
                           ("when(source_m, is_equal_to(33))", "0 1 -", "when() on a parameter whose name is a macro for another parameter, the argument does not match"),
                           ("when(target_m, is_equal_to(33))", "1 0 -", "when() on the parameter another one's name expands to")):
        calls.append(f'  npass = nfail = 0; expect(fn_m, {cl}); fn_m(11, 22, 33); clear_mocks(); printf("%d %d -\\n", npass, nfail);')
        expected.append((f"fn_m: {desc}", want, msnip + f"\n/* expect(fn_m, {cl}); fn_m(11, 22, 33); */"))
    calls.append('  { intptr_t got = -1; npass = nfail = 0; expect(fn_m, will_capture_parameter(source_m, got)); fn_m(11, 22, 33); clear_mocks(); printf("%d %d %s\\n", npass, nfail, got == 22 ? "ok" : "wrong"); }')
    expected.append(("fn_m: will_capture_parameter() on a parameter whose name is a macro for another parameter", "0 0 ok", msnip))
    for setter in ("will_set_contents_of_parameter", "will_set_contents_of_output_parameter"):
        calls.append(f'  {{ static int v = 4711; int b1 = 0, b2 = 0; npass = nfail = 0; expect(fn_m, {setter}(source_m, &v, sizeof(v))); fn_m(11, (intptr_t)&b1, (intptr_t)&b2); clear_mocks(); printf("%d %d %s\\n", npass, nfail, b1 == 4711 && b2 == 0 ? "written" : "wrong"); }}')
        expected.append((f"fn_m: {setter}() on a parameter whose name is a macro for another parameter", "0 0 written", msnip + f"\n/* expect(fn_m, {setter}(source_m, &v, sizeof(v))); fn_m(11, &b1, &b2); */"))
        calls.append(f'  {{ static int v = 4711; int b1 = 0; npass = nfail = 0; expect(fn_m, {setter}(length_m, &v, sizeof(v))); fn_m((intptr_t)&b1, 22, 33); clear_mocks(); printf("%d %d %s\\n", npass, nfail, b1 == 4711 ? "written" : "wrong"); }}')
        expected.append((f"fn_m: {setter}() on a parameter whose name is a macro for a constant", "0 0 written", msnip + f"\n/* expect(fn_m, {setter}(length_m, &v, sizeof(v))); fn_m(&b1, 22, 33); */"))
    out.append("int main(void) {\n  TestReporter *reporter = create_reporter();\n  reporter->assert_true = &capture;\n  setup_reporting(reporter);\n  current_test = &dummy;\n  setvbuf(stdout, NULL, _IONBF, 0);\n"
               "  /* the reporter's counters as a test finds them when earlier tests of its suite and earlier suites have failed */\n  reporter->failures = 2; reporter->total_failures = 5; reporter->passes = 1;")
    out += calls
    out.append("  return 0;\n}")
    return "\n".join(out) + "\n", expected


# ---- C10: failure messages -----------------------------------------------------------------------
sys.path.insert(0, os.path.join(VERIF, "translate"))


def gen_text(rng, maxlen=12):
    alpha = ["%", "s", "d", "n", "5", "\\", '"', "a", " ", "%s", "%d", "%n", "%5d", "%%", "x", "(", ")", "[", "]", "'"]
    return "".join(rng.choice(alpha) for _ in range(rng.randrange(0, maxlen)))


def check_C10(ctx):
    lean_check(ctx)
    import formats as tr
    rng = random.Random(ctx.seed * 1000 + 10)
    # ---- the translator: regenerate the format tables from the current sources; their obligations are checked by Lean ----
    sites, fields, arrays, legacy = tr.generate()
    gen_path = os.path.join(ctx.work, "GenFormats.lean")
    open(gen_path, "w").write(tr.render(sites, fields, arrays, legacy))
    with LakeLock():
        r = sh(["lake", "env", "lean", gen_path], cwd=LEAN)
    out = r.stdout
    for thm in ("literal_sites_well_typed", "variable_sites_are_built_messages", "value_templates_full_width", "legacy_macros_use_percent_s", "message_size_covers"):
        m = re.search(r"'Cgreen\.Gen\.%s' (does not depend on any axioms|depends on axioms: \[([^\]]*)\])" % thm, out)
        axs = [a.strip() for a in (m.group(2) or "").split(",") if a.strip()] if m else ["?"]
        # a theorem that does not check is not added to the environment, so `#print axioms` has no line for it
        ok = m is not None and all(a in ALLOWED_AXIOMS for a in axs)
        ctx.oblige(f"generated obligation Cgreen.Gen.{thm} (format table regenerated from /repo's sources: {len(sites)} assert_true call sites, {len(fields)} template assignments)",
                   ok, (out[-600:] if not ok else ""))
    ctx.coverage["generated_sha"] = hashlib.sha256(open(gen_path, "rb").read()).hexdigest()[:16]
    ctx.coverage["format_call_sites"] = len(sites)
    # ---- correspondence through the real code (ASan) ----
    impl = build_impl(ctx, asan=True)
    exe = compile_harness(ctx, impl, "cmp_probe_c", ["cmp_probe.c"], out="cmp_probe_c")
    fld = {}
    for f in fields:
        if "lit" in f:
            fld[(f["func"], f["field"])] = f["lit"]
    arr = {a["name"]: a["lit"] for a in arrays}
    d_act = arr.get("default_actual_value_message", "\n\t\tactual value:\t\t\t[%ld]")
    d_exp = arr.get("default_expected_value_message", "\t\texpected value:\t\t\t[%ld]")
    ctors_int = {"equal": "create_equal_to_value_constraint", "notequal": "create_not_equal_to_value_constraint", "less": "create_less_than_value_constraint",
                 "greater": "create_greater_than_value_constraint", "hex": "create_equal_to_hexvalue_constraint", "null": "create_is_null_constraint",
                 "nonnull": "create_not_null_constraint", "true": "create_is_true_constraint", "false": "create_is_false_constraint"}
    ctors_str = {"equal": "create_equal_to_string_constraint", "notequal": "create_not_equal_to_string_constraint", "contains": "create_contains_string_constraint",
                 "notcontains": "create_does_not_contain_string_constraint", "begins": "create_begins_with_string_constraint",
                 "notbegins": "create_does_not_begin_with_string_constraint", "ends": "create_ends_with_string_constraint", "notends": "create_does_not_end_with_string_constraint"}

    def split_conv(t):
        m = re.search(r"%(ld|lx|s|d|x)", t)
        return (t[:m.start()], t[m.end():], m.group(1)) if m else (t, "", None)

    def render_val(v, conv):
        return format(v & (2**64 - 1), "x") if conv in ("lx", "x") else str(v)

    probe_lines, model_lines, meta = [], [], []
    B = [0, 1, -1, 7, 2**31 - 1, 2**31, -2**31 - 1, 2**32, 5000000000, -5000000000, 2**63 - 1, -2**63]
    for _ in range(sizes(ctx, 2500, 40000)):
        at, et = gen_text(rng) or "x", gen_text(rng) or "y"
        if rng.random() < 0.5:
            kind = rng.choice(list(ctors_int))
            a, e = rng.choice(B), rng.choice(B)
            if rng.random() < 0.1: at = str(a)       # the expression text is the value itself
            elif rng.random() < 0.12:                # ... or only begins with it, or spells it another way: then it is an expression like any other
                at = rng.choice([str(a) + rng.choice([" + zero", " % ten", "L", "u", " ", "x", ".0", "e0"]), hex(a) if a >= 0 else "-" + hex(-a), "0" + oct(abs(a))[2:], "+" + str(a), " " + str(a)])
            if rng.random() < 0.05: at = rng.choice(["true", "false"])
            ctor = ctors_int[kind]
            name = fld[(ctor, "name")]
            am = fld.get((ctor, "actual_value_message"), d_act); em = fld.get((ctor, "expected_value_message"), d_exp)
            al, ac, aconv = split_conv(am); el, ec, econv = split_conv(em)
            f1 = em != ""; f2 = not (at == str(a) or at in ("true", "false")); f3 = "not " not in name
            ev = 0 if kind in ("null", "nonnull", "true", "false") else e
            via_mock = rng.random() < 0.25
            if via_mock: at = "[p] parameter in [mocked_i]"; f2 = True
            probe_lines.append(f"{'mckint' if via_mock else 'msgint'} {kind} {hexs(at.encode())} {hexs(et.encode())} {a} {e}")
            model_lines.append(" ".join(["msg", str(int(f1)), str(int(f2)), str(int(f3))] + [hexs(x.encode()) for x in (name, al, ac, el, ec, at, et, render_val(a, aconv), render_val(ev, econv))]))
            hexv = lambda v: "0x" + format(v & (2**64 - 1), "x")
            meta.append(("int", at, et if f1 else None,
                         (str(a) if kind != "hex" else hexv(a)) if (f1 and f2 and (aconv == "ld" or kind == "hex")) else None,
                         (str(ev) if kind != "hex" else hexv(ev)) if (f1 and f2 and f3 and (econv == "ld" or kind == "hex")) else None))
        else:
            kind = rng.choice(list(ctors_str))
            av, evs = gen_text(rng, 20), gen_text(rng, 20)
            if rng.random() < 0.08:      # long strings and texts: the message buffer is sized from them
                av = gen_text(rng, 1) + "A" * rng.choice([300, 600, 1000, 3000]) + gen_text(rng, 6)
                if rng.random() < 0.5: evs = "E" * rng.choice([300, 1000, 3000]) + gen_text(rng, 6)
                if rng.random() < 0.3: et = "t" * rng.choice([300, 1000]) + gen_text(rng, 6)
                if rng.random() < 0.3: at = "a" * rng.choice([300, 1000]) + gen_text(rng, 6)
            via_mock = rng.random() < 0.25
            if via_mock: at = "[p] parameter in [mocked_s]"
            if re.fullmatch(r"-?\d+", at): at = "n" + at
            ctor = ctors_str[kind]
            name = fld[(ctor, "name")]
            em = fld.get((ctor, "expected_value_message"), d_exp)
            el, ec, _ = split_conv(em)
            am = arr.get("actual_value_string_format", "\n\t\tactual value:\t\t\t[\"%s\"]")
            al, ac, _ = split_conv(am)
            f3 = not ("not " in name and "equal " in name)
            probe_lines.append(f"{'mckstr' if via_mock else 'msgstr'} {kind} {hexs(at.encode())} {hexs(et.encode())} {hexs(av.encode())} {hexs(evs.encode())}")
            f2 = at not in ("true", "false")      # (the other case, the text being the decimal of the string's address, is kept out of the generator)
            model_lines.append(" ".join(["msg", "1", str(int(f2)), str(int(f3))] + [hexs(x.encode()) for x in (name, al, ac, el, ec, at, et, av, evs)]))
            meta.append(("str", at, et, av if f2 else None, evs if (f2 and f3) else None))
    # legacy assertions and mock parameter checks: exact texts from the extracted formats
    fmts = {s["func"]: s["fmt"] for s in sites if "fmt" in s}
    leg = []
    for _ in range(sizes(ctx, 600, 8000)):
        ex = gen_text(rng) or "e"
        a, e = rng.choice(B), rng.choice(B)
        # (the exact text is required when the format can be read from the function the legacy macro ends in; the values and the
        # expression always are)
        def exact(fn, *vals):
            try: return fmts[fn].replace("%ld", "%d") % vals
            except (KeyError, TypeError, ValueError): return None
        leg.append((f"msgleg equal {hexs(ex.encode())} {hexs(str(a).encode())} {hexs(str(e).encode())}", exact("assert_equal_", ex, e, a), [ex, str(a), str(e)]))
        s1, s2 = gen_text(rng, 15), gen_text(rng, 15)
        leg.append((f"msgleg strequal {hexs(ex.encode())} {hexs(s1.encode())} {hexs(s2.encode())}", exact("assert_string_equal_", ex, s2, s1), [ex, s1, s2]))
        leg.append((f"msgmock {rng.choice(['equal', 'less', 'greater'])} {a} {e}", None, [str(a), str(e)]))
    # contents constraints: where the blocks differ (at any offset, the last byte too), and why a comparison cannot be made
    off_t = arr.get("at_offset", "\n\t\tat offset:\t\t\t[%d]"); cont_t = arr.get("expected_content", "\n\t\t\tactual value:\t\t[0x%02x]\n\t\t\texpected value:\t\t[0x%02x]")
    for _ in range(sizes(ctx, 300, 4000)):
        ex_a, ex_e = gen_text(rng) or "a", gen_text(rng) or "e"
        size = rng.choice([1, 2, 3, 8, 9, 16, 33])
        a = bytes(rng.randrange(256) for _ in range(size))
        r = rng.random()
        if r < 0.7:
            at = rng.choice([0, size // 2, size - 1])
            e = bytearray(a); e[at] = (e[at] + 1 + rng.randrange(255)) % 256; e = bytes(e)
            first = next(i for i in range(size) if a[i] != e[i])
            want = ("Expected [%s] to [equal contents of] [%s]" % (ex_a, ex_e)) + off_t % first + cont_t % (a[first], e[first])
            leg.append((f"msgmem equal {hexs(ex_a.encode())} {hexs(ex_e.encode())} {size} {a.hex()} {e.hex()}", want, [ex_a, ex_e, str(first), "0x%02x" % a[first], "0x%02x" % e[first]]))
        elif r < 0.8:
            leg.append((f"msgmem equal {hexs(ex_a.encode())} {hexs(ex_e.encode())} {rng.choice([0, -1, -5])} {a.hex()} {a.hex()}", None, [ex_e]))
        elif r < 0.9:
            leg.append((f"msgmem {rng.choice(['equal', 'notequal'])} {hexs(ex_a.encode())} {hexs(ex_e.encode())} {size} - {a.hex()}", None, [ex_e]))
        else:
            leg.append((f"msgmem {rng.choice(['equal', 'notequal'])} {hexs(ex_a.encode())} {hexs(ex_e.encode())} {size} {a.hex()} -", None, [ex_e]))
    got, rc, err = run_probe(exe, probe_lines + [l for l, _, _ in leg], env=asan_env())
    model = run_model(["fmt"], "\n".join(model_lines) + "\n").split("\n")[:-1]
    if rc != 0 or len(got) != len(probe_lines) + len(leg):
        k = len(got)
        bad = (probe_lines + [l for l, _, _ in leg])[min(k, len(probe_lines) + len(leg) - 1)]
        ctx.violation(f"[C10] producing a failure message crashed (exit {rc}) on `{bad[:200]}`: " + " ".join(l for l in err.split("\n") if "ERROR" in l or "SUMMARY" in l)[:300],
                      bad, found_input=True, facts={"crash": True})
        return
    ndis = nor = 0

    def viol(what, line):
        nonlocal nor
        nor += 1
        if nor <= 6:
            ctx.violation("[C10] " + what, "# feed to harness/cmp_probe_c\n" + line, found_input=True, facts={"kind": line.split(" ")[0]})
    for line, g, m, (typ, at, et, av, ev) in zip(probe_lines, got, model, meta):
        res, _, hexmsg = g.partition(" ")
        msg = bytes.fromhex(hexmsg).decode("latin-1")
        mlit, mflag = m.split(" ")
        want = bytes.fromhex(mlit).decode("latin-1") if mlit else ""
        if mflag != "ok":
            ctx.oblige("the model's printed message equals its literal message (theorem C10_assert_message, executed)", False, line)
        if res == "0" and msg != want:
            ndis += 1
            if ndis <= 3:
                ctx.oblige("correspondence C10 (constraint messages)", False, f"`{line[:120]}`: model {want!r} impl {msg!r}")
        if res == "0":
            for label, piece in (("the asserted expression's text", at), ("the expected expression's text", et), ("the actual value", av), ("the expected value", ev)):
                if piece is not None and (("[" + piece + "]") not in msg and ('["' + piece + '"]') not in msg):
                    viol(f"the message does not contain {label} literally ({piece!r}): {msg!r}", line)
    for (line, want, pieces), g in zip(leg, got[len(probe_lines):]):
        res, _, hexmsg = g.partition(" ")
        msg = bytes.fromhex(hexmsg).decode("latin-1")
        if res != "0":
            continue
        if want is not None and msg != want:
            ndis += 1
            if ndis <= 3:
                ctx.oblige("correspondence C10 (legacy messages)", False, f"`{line[:120]}`: expected {want!r} impl {msg!r}")
        for piece in pieces:
            if "[" + piece + "]" not in msg:
                viol(f"the message does not contain {piece!r} literally: {msg!r}", line)
    # ---- what the reporters make of a message: the text reporter prints it, the XML reporters write it into an attribute; whether it
    # came as an argument of a format ("%s", text) or as a percent-doubled format, inside a test or from a suite fixture that the
    # reporting process runs, short or beyond the reporters' first buffers (100, 1000 bytes) ----
    bench = Bench(ctx, asan=True)
    base = ["plain words", "100% done", "load 5%s of %d", "%n%n%n%n", "a<b & \"c\" 'd' > e", "%%literal%% 50%", "x" * 99, "y" * 100, "z%s" * 40, "w" * 99 + "%d", ("long message %s & <more> " * 6)[:150],
            "q" * 995 + "%s%d", ("p%c" * 400)[:1100]]
    base += [gen_message(rng, c).replace("\t", " ").replace("\n", " ").replace("\r", " ") for c in ("pct", "meta", "long", "pct", "long") for _ in range(sizes(ctx, 2, 12))]
    base = [m_ for m_ in base if all(32 <= ord(ch) < 127 for ch in m_)]
    rjobs, rmeta = [], []
    for msg in base:
        for act in "XY":
            code = act + msg.encode("latin-1").hex()
            inside = Scen(S("top", items=[T("t0", body=["P", code]), T("t1", body=["P"])]))
            inner = S("inner", items=[T("a", body=["P"])])
            outside = S("top", su=1, td=1, items=[inner, T("c", body=["P"])]); outside.fixture = ([code], [])
            for where, sc in (("in a test", inside), ("in a suite fixture run by the reporting process", Scen(outside))):
                for rep in ("text", "xml", "libxml"):
                    rjobs.append((sc.text(), rep)); rmeta.append((msg, act, where, rep, sc))
    robs = bench.run_many(rjobs, env=asan_env(), timeout=60)
    rshown = {}
    for (msg, act, where, rep, sc), o in zip(rmeta, robs):
        how = "as an argument of \"%s\"" if act == "X" else "as a percent-doubled format"
        case = f"# reporter: {rep}   harness/scenario_run <file> {rep} <outdir>   ({act}<hex>: a failing check whose message is the hex-coded text, {how})\n" + sc.text()
        bad = None
        if o.timeout or (o.rc is not None and (o.rc < 0 or o.rc in (98, 99))) or "ERROR: AddressSanitizer" in o.stderr or "runtime error" in o.stderr:
            bad = "the run crashed: " + " ".join(l.strip() for l in o.stderr.split("\n") if "ERROR" in l or "SUMMARY" in l)[:200]
        elif rep == "text":
            if msg not in o.stdout: bad = "the text reporter does not print the message literally"
        else:
            docs = xml_docs(o)
            errs = [err for _, _, err, _ in docs if err]
            found = []

            def walk(e):
                if e.tag == "failure": found.append(e.attrs.get("message", ""))
                for c in e.children: walk(c)
            for _, root, err, _ in docs:
                if not err: walk(root)
            if errs: bad = f"the report is not well-formed XML ({errs[0]})"
            elif not any(g == msg or (len(msg) > 900 and len(g) >= 900 and msg.startswith(g)) for g in found):
                bad = f"no failure element carries the message (found {[g[:60] for g in found][:3]})"
        if bad and rshown.get((rep, where), 0) < 2:
            rshown[(rep, where)] = rshown.get((rep, where), 0) + 1
            viol(f"{rep} reporter, a failed check {where} whose message ({len(msg)} characters: {msg[:50]!r}) is given {how}: {bad}", case)
    ctx.coverage["reporter_message_runs"] = len(rjobs)
    ctx.oblige("correspondence C10: model and implementation produce the same message text for every generated case", ndis == 0, f"{ndis} disagreements")
    ctx.coverage["correspondence"] = {"cases": len(probe_lines) + len(leg), "disagreements": ndis, "oracle_failures": nor}
    ctx.coverage["samples"] = probe_lines[:2] + [leg[0][0]]
    ctx.coverage["evaluations"] = len(probe_lines) + len(leg)
    ctx.coverage["distinct_nontrivial"] = len(set(probe_lines)) + len({l for l, _, _ in leg})


# ---- C12: values through mocks ------------------------------------------------------------------
def check_C12(ctx):
    lean_check(ctx)
    mockgate_obligations(ctx)
    rng = random.Random(ctx.seed * 1000 + 12)
    impl = build_impl(ctx, asan=True)
    exe = compile_harness(ctx, impl, "val_probe", ["val_probe.c"])
    B = [0, 1, -1, 2**31 - 1, 2**31, -2**31, -2**31 - 1, 2**32 - 1, 2**32, 2**63 - 1, -2**63, 0x1122334455667788, -0x1122334455667788]
    cases = []      # (line, expected output before the failure count, model line or None)
    for v in B + [rng.randrange(-2**63, 2**63) for _ in range(sizes(ctx, 300, 20000))]:
        cases.append((f"ret {v}", f"{v} {v} {v}", None))
    dbits = [0, 1 << 63, 0x7ff0000000000000, 0xfff0000000000000, 0x7ff8000000000000, 0x7ff0000000000001, 0xfff8dead0000beef, 1, 0x000fffffffffffff, 0x0010000000000000,
             0x7fefffffffffffff, 0x3ff0000000000000] + [rng.randrange(0, 2**64) for _ in range(sizes(ctx, 400, 30000))]
    for b in dbits:
        cases.append((f"retd {b:016x}", f"{b:016x}", None))
        cases.append((f"box {b:016x}", f"{b:016x}", None))
    for _ in range(sizes(ctx, 60, 3000)):      # two boxes alive at once; two boxed arguments of one call
        b1, b2 = rng.choice(dbits), rng.choice(dbits)
        cases.append((f"box2 {b1:016x} {b2:016x}", f"{b1:016x} {b2:016x} {b1:016x} {b2:016x}", None))
    for v in B[:8] + [rng.randrange(-2**63, 2**63) for _ in range(sizes(ctx, 20, 300))]:      # the return value of a call one of whose clauses names an absent parameter
        cases.append((f"retu {v}", f"{v}", None))
    for size in list(range(1, sizes(ctx, 40, 65))) + [100, 257, 1000]:
        data = bytes(rng.randrange(256) for _ in range(size))
        cases.append((f"byval {size} {data.hex()}", " ".join([data.hex()] * 3), None))
    for _ in range(sizes(ctx, 400, 20000)):
        bufsize = rng.choice([8, 16, 33, 64, 200])
        size = rng.randrange(1, bufsize + 1)
        off = rng.randrange(0, bufsize - size + 1)
        data = bytes(rng.randrange(256) for _ in range(size))
        buf = bytearray(b"\xaa" * bufsize); buf[off:off + size] = data
        form = rng.choice(["setc", "setc", "setw", "setp"])      # the setter alone, behind a when() for the same parameter, behind a capture of it
        cases.append((f"{form} {bufsize} {off} {size} {data.hex()}", bytes(buf).hex(), f"setc {bufsize} {off} {size} {data.hex()}"))
    for size in (1, 2, 4, 8):
        for v in B + [rng.randrange(-2**63, 2**63) for _ in range(sizes(ctx, 60, 3000))]:
            want = "aa" * 8 + (v % 2**(8 * size)).to_bytes(size, "little").hex() + "aa" * 8
            cases.append((f"cap {size} {v}", want, f"cap {size} {v}"))
    for _ in range(sizes(ctx, 80, 2000)):
        vs = [max(-2**63, min(2**63 - 1, rng.choice(B) + k)) for k in range(4)]
        pos = rng.randrange(4)
        cases.append((f"capn {pos} " + " ".join(str(x) for x in vs), str(vs[pos]), None))
    # the same transports in the states a test can find the reporter's counters in (earlier tests or suites failed / passed)
    staged = []
    for c in cases:
        if rng.random() < 0.15:
            f, tf, p = rng.choice([(0, 0, 0), (2, 5, 1), (3, 0, 7), (0, 4, 0), (1, 1, 1), (7, 2, 0)])
            staged.append((f"state {f} {tf} {p}", "state", None))
        staged.append(c)
    cases = staged
    lines = [c[0] for c in cases]
    got, rc, err = run_probe(exe, lines, env=asan_env())
    mlines = [c[2] for c in cases if c[2]]
    model = iter(run_model(["val"], "\n".join(mlines) + "\n").split("\n")[:-1])
    if rc != 0 or len(got) != len(lines):
        bad = lines[min(len(got), len(lines) - 1)]
        ctx.violation(f"[C12] a value's passage through a mock crashed or tripped the sanitizer (exit {rc}) on `{bad[:120]}`: " +
                      " ".join(l for l in err.split("\n") if "ERROR" in l or "SUMMARY" in l)[:300], bad, found_input=True, facts={"crash": True})
        return
    ndis = nor = 0
    cur_state = "state 0 0 0"
    for (line, want, ml), g in zip(cases, got):
        val, _, fails = g.rpartition(" f")
        if line.startswith("state "): cur_state = line
        if ml:
            m = next(model)
            if m != val:
                ndis += 1
                if ndis <= 3: ctx.oblige("correspondence C12 (capture / set contents)", False, f"`{line[:100]}`: model {m[:80]} impl {val[:80]}")
        if val != want or fails != ("1" if line.startswith("retu ") else "0"):      # (`retu`: the clause naming an absent parameter is the one failure)
            nor += 1
            if nor <= 6:
                ctx.violation(f"[C12] `{line[:100]}`: got {val[:120]} ({fails} failures), the value that went in is {want[:120]}", "# feed to harness/val_probe (ASan); `state <failures> <total_failures> <passes>` sets the reporter's counters as earlier tests leave them\n" + cur_state + "\n" + line, found_input=True,
                              facts={"form": line.split(" ")[0]})
    ctx.oblige("correspondence C12: model and implementation agree on every captured value and every written buffer", ndis == 0, f"{ndis} disagreements")
    ctx.coverage["correspondence"] = {"cases": len(lines), "disagreements": ndis, "oracle_failures": nor}
    ctx.coverage["samples"] = [lines[0], lines[len(lines) // 2], lines[-1]]
    ctx.coverage["evaluations"] = len(lines)
    ctx.coverage["distinct_nontrivial"] = len(set(lines))


# ---- C09: cgreen-runner ---------------------------------------------------------------------------
import fnmatch as _fn

CTX_NAMES = ["Alpha", "Alp", "Al", "Beta", "Bet", "Tcp", "Tls", "T", "Net_io", "X"]
TEST_NAMES = ["connects", "connect", "con", "bet", "beta", "better", "alpha", "a", "ab", "abc", "zeta", "can_send", "can_send_more", "x", "closes_fails", "c_fails"]


def gen_library(rng, ntests):
    items = set()
    ctxs = rng.sample(CTX_NAMES, rng.choice([1, 2, 3])) + (["default"] if rng.random() < 0.5 else [])
    tries = 0
    while len(items) < ntests and tries < ntests * 50:
        tries += 1
        c = rng.choice(ctxs)
        n = rng.choice(TEST_NAMES) if ntests < 40 else f"{rng.choice(TEST_NAMES)}_{len(items)}"
        items.add((c, n))
    return sorted(items)


def library_sources(libname, items):
    """One translation unit per context (Describe() defines file-static fixtures)."""
    files = {}
    for c in sorted({c for c, _ in items}):
        out = ['#include <cgreen/cgreen.h>', '#include <stdio.h>', '#include <stdlib.h>',
               'static void log_run(const char *n) { FILE *f = fopen(getenv("C09_LOG"), "a"); if (f) { fprintf(f, "%s\\n", n); fclose(f); } }']
        if c != "default":
            out += [f"Describe({c});", f"BeforeEach({c}) {{}}", f"AfterEach({c}) {{}}"]
        for cc, n in items:
            if cc != c: continue
            ok = "0" if n.endswith("_fails") else "1"
            head = f"Ensure({n})" if c == "default" else f"Ensure({c}, {n})"
            out.append(f'{head} {{ log_run("{libname}/{c}:{n}"); assert_that({ok}, is_equal_to(1)); }}')
        files[c] = "\n".join(out) + "\n"
    return files


def gen_pattern(rng, items):
    if rng.random() < 0.15:
        return None
    c, n = rng.choice(items)
    def star(s):
        r = rng.random()
        if r < 0.3: return s
        if r < 0.5: return s[: rng.randrange(len(s) + 1)] + "*"
        if r < 0.6: return "*" + s[rng.randrange(len(s) + 1):]
        if r < 0.7: return "*"
        if r < 0.75: return s[:1] + "*" + s[-1:]
        if r < 0.8 and len(s) > 3:       # stars in the middle: two pieces of the name with whatever lies between them left out
            i, j = sorted(rng.sample(range(1, len(s)), 2))
            return rng.choice(["", "*"]) + s[rng.randrange(i):i] + "*" + s[j:]
        if r < 0.9: return s + "x"           # matches nothing
        return s[:-1] if len(s) > 1 else s
    if c == "default" and rng.random() < 0.5:
        return star(n)
    return star(c) + ":" + star(n)


def py_selected(items, pat):
    if pat is None:
        return list(items)
    if ":" in pat:
        cp, np_ = pat.split(":", 1)
    else:
        cp, np_ = "default", pat
    return [(c, n) for c, n in items if _fn.fnmatchcase(c, cp) and _fn.fnmatchcase(n, np_)]


def check_C09(ctx):
    lean_check(ctx)
    rng = random.Random(ctx.seed * 1000 + 9)
    impl = build_impl(ctx, asan=False, runner=True)
    step = growth_step() or 100
    sizes_list = [1, 2, 3, 5, 8, 12] * sizes(ctx, 2, 12) + [step - 1, step, step + 1] + ([2 * step, 2 * step + 1, 3 * step + 1] if ctx.tier == "thorough" else [2 * step + 1])
    libdir = os.path.join(ctx.work, "libs"); os.makedirs(libdir)
    libs = []
    procs = []
    for k, nt in enumerate(sizes_list):
        name = f"lib{k}_tests.so"
        items = gen_library(rng, nt)
        srcs = []
        for c, text in library_sources(name, items).items():
            src = os.path.join(libdir, f"lib{k}_{c}.c")
            open(src, "w").write(text); srcs.append(src)
        procs.append(subprocess.Popen(["gcc", "-shared", "-fPIC", "-w", f"-I{REPO}/include"] + srcs + ["-o", os.path.join(libdir, name)] + [f"-L{impl['dir']}", "-lcgreen"],
                                      stdout=subprocess.PIPE, stderr=subprocess.STDOUT))
        libs.append((name, items))
    for p in procs:
        out, _ = p.communicate()
        if p.returncode != 0:
            raise BuildError("test library: " + out.decode()[-1500:])
    runs = []     # (args(list of (lib, pat)), options)
    for name, items in libs:
        for _ in range(sizes(ctx, 10, 30) if len(items) < 40 else 4):
            runs.append(([(name, gen_pattern(rng, items))], rng.choice([[], [], ["-q"], ["--xml", "X"], ["-X", "L"], ["-s", "Suite"], ["-v"], ["--verbose", "-q"], ["--xml=X"], ["-xX"],
                                                                         ["--suite=Suite"], ["--libxml2=L"], ["--quiet"]])))
    for _ in range(sizes(ctx, 25, 300)):     # several libraries, each with or without its own pattern; sometimes a missing one
        chosen = rng.sample(libs[: min(len(libs), 14)], rng.choice([2, 2, 3]))
        pairs = [(n, gen_pattern(rng, it) if rng.random() < 0.6 else None) for n, it in chosen]
        if rng.random() < 0.15:
            pairs.insert(rng.randrange(len(pairs) + 1), ("no_such_library.so", None))
        runs.append((pairs, rng.choice([[], ["-q"], ["--xml", "X"], ["-s", "Common"], ["--suite=Common"], ["--xml=X"], ["-v"], ["--libxml2=L"], ["-q", "--suite=Common"]])))
    # the same test names in several contexts (also the default one), selected by wildcard context + literal name
    for k2, ctxs in enumerate([["Tcp", "Tls", "default"], ["Alpha", "Alp", "Al", "Beta"]]):
        name = f"libsame{k2}_tests.so"
        items = sorted((c, n) for c in ctxs for n in ["connects", "closes_fails", "x"])
        srcs = []
        for c, text in library_sources(name, items).items():
            src = os.path.join(libdir, f"libsame{k2}_{c}.c"); open(src, "w").write(text); srcs.append(src)
        r = sh(["gcc", "-shared", "-fPIC", "-w", f"-I{REPO}/include"] + srcs + ["-o", os.path.join(libdir, name), f"-L{impl['dir']}", "-lcgreen"])
        if r.returncode != 0:
            raise BuildError("test library: " + r.stdout[-1500:])
        libs.append((name, items))
        for pat in ["*:connects", "T*:connects", "*:x", "A*:x", "Al*:connects", "*:closes_fails", "*l*:x", "connects", "*"]:
            runs.append(([(name, pat)], rng.choice([[], ["-q"], ["--xml", "X"]])))
    # a library whose tests nm can list but which the loader refuses (an undefined symbol): none of its tests can run, so the run fails
    bname, bitems = "libbroken_tests.so", sorted(gen_library(rng, 4))
    srcs = []
    for c, text in library_sources(bname, bitems).items():
        src = os.path.join(libdir, f"libbroken_{c}.c"); open(src, "w").write(text); srcs.append(src)
    src = os.path.join(libdir, "libbroken_undefined.c")
    open(src, "w").write("extern void cgreen_verif_no_such_function(void);\nvoid cgreen_verif_uses_it(void) { cgreen_verif_no_such_function(); }\n"); srcs.append(src)
    r = sh(["gcc", "-shared", "-fPIC", "-w", f"-I{REPO}/include"] + srcs + ["-o", os.path.join(libdir, bname), f"-L{impl['dir']}", "-lcgreen"])
    if r.returncode != 0:
        raise BuildError("test library: " + r.stdout[-1500:])
    # a pattern that selects exactly one test (context qualified, wildcard in the name part) while a test of another context also
    # fits the name part: the one selected test is the one that runs
    cname = "libctx_tests.so"
    citems = sorted([("Lexer", "reads_tokens"), ("Lexer", "skips_blanks"), ("Parser", "reads_empty_input"), ("Parser", "reads_words"), ("Parser", "skips_fails"), ("default", "reads_nothing")])
    srcs = []
    for c, text in library_sources(cname, citems).items():
        src = os.path.join(libdir, f"libctx_{c}.c"); open(src, "w").write(text); srcs.append(src)
    r = sh(["gcc", "-shared", "-fPIC", "-w", f"-I{REPO}/include"] + srcs + ["-o", os.path.join(libdir, cname), f"-L{impl['dir']}", "-lcgreen"])
    if r.returncode != 0:
        raise BuildError("test library: " + r.stdout[-1500:])
    libs.append((cname, citems))
    for pat in ["Lexer:reads*", "Lex*:reads*", "Lexer:skips*", "Parser:skips*", "Parser:reads_w*", "Parser:*input", "P*:*_fails", "L*:*blanks", "reads*", "Lexer:*s", "*:reads_t*"]:
        runs.append(([(cname, pat)], rng.choice([[], ["-q"], ["--xml", "X"]])))
    # names in which the literal text that follows a `*` occurs more than once, overlapping itself or cut short just before the real
    # occurrence: a matcher has to try every position for the star (`*tests` against `unittests`, `*_a_b` against `adds_a_a_b`)
    oname = "liboverlap_tests.so"
    oitems = sorted([("Parser", "runs_tests"), ("Parser", "runs_unittests"), ("Parser", "adds_a_a_b"), ("Parser", "aab"), ("Parser", "aaab"), ("Parser", "abab_abc"),
                     ("Tokens", "mississippi"), ("Tokens", "ababab"), ("Tokens", "runs_tests"), ("default", "xxyxxz"), ("default", "tetests")])
    srcs = []
    for c, text in library_sources(oname, oitems).items():
        src = os.path.join(libdir, f"liboverlap_{c}.c"); open(src, "w").write(text); srcs.append(src)
    r = sh(["gcc", "-shared", "-fPIC", "-w", f"-I{REPO}/include"] + srcs + ["-o", os.path.join(libdir, oname), f"-L{impl['dir']}", "-lcgreen"])
    if r.returncode != 0:
        raise BuildError("test library: " + r.stdout[-1500:])
    libs.append((oname, oitems))
    for pat in ["Parser:*tests", "Parser:*i*tests", "Parser:*_a_b", "Parser:*aab", "Parser:*ab*abc", "Tokens:*issip*", "Tokens:*ss*ppi", "Tokens:*sip*", "Parser:a*ab", "Parser:*a*a*b",
                "*:*tests", "T*s:*ab", "*ok*s:*abab", "*xxz", "*tests", "*x*xz", "*ar*er:*unit*", "To*ns:*is*is*", "*:*b_abc", "Parser:*a_b", "*:*ababab", "*:*abababab", "Parser:aa*ab", "*rs*r:aa*b"]:
        runs.append(([(oname, pat)], rng.choice([[], ["-q"], ["--xml", "X"]])))
    # tests with very long names (the symbol of a test is its context and name; nm prints one line per symbol)
    lname, litems = "liblong_tests.so", sorted([("default", "short_one"), ("Ctx", "n" * 975), ("Ctx", "m" * 1200 + "_fails"), ("default", "p" * 2500), ("Ctx", "zz")])
    srcs = []
    for c, text in library_sources(lname, litems).items():
        src = os.path.join(libdir, f"liblong_{c}.c"); open(src, "w").write(text); srcs.append(src)
    r = sh(["gcc", "-shared", "-fPIC", "-w", f"-I{REPO}/include"] + srcs + ["-o", os.path.join(libdir, lname), f"-L{impl['dir']}", "-lcgreen"])
    if r.returncode != 0:
        raise BuildError("test library: " + r.stdout[-1500:])
    libs.append((lname, litems))
    for pat in [None, "Ctx:*", "n*", "Ctx:" + "n" * 975, "*:p*", "zz", "Ctx:m*"]:
        runs.append(([(lname, pat)], rng.choice([[], ["-q"], ["--xml", "X"]])))
    # one suite over several libraries: the final line gives the totals over all of them, wherever the failing tests are
    green = next((n for n, it in libs if not any(t.endswith("_fails") for _, t in it) and len(it) < 40), None)
    red = next((n for n, it in libs if any(t.endswith("_fails") for _, t in it) and any(not t.endswith("_fails") for _, t in it) and len(it) < 40), None)
    if green and red:
        for pairs in ([(red, None), (green, None)], [(green, None), (red, None)], [(red, None), (green, None), (red, None)]):
            for o_ in (["-s", "Common"], ["--suite=Common"]):
                runs.append((pairs, o_))
    unloadable = {bname}
    for _ in range(sizes(ctx, 6, 40)):
        chosen = rng.sample(libs[: min(len(libs), 14)], rng.choice([0, 1, 2]))
        pairs = [(n, gen_pattern(rng, it) if rng.random() < 0.5 else None) for n, it in chosen]
        pairs.insert(rng.randrange(len(pairs) + 1), (bname, gen_pattern(rng, bitems) if rng.random() < 0.3 else None))
        runs.append((pairs, rng.choice([[], ["-q"], ["--xml", "X"]])))
    libs.append((bname, bitems))
    libmap = dict(libs)

    stdouts = {}

    def one(i_run):
        i, (pairs, opts) = i_run
        wd = os.path.join(ctx.work, f"c09-{i}"); os.makedirs(wd)
        log = os.path.join(wd, "log")
        args = []
        for l, p in pairs:
            args.append(l)
            if p is not None: args.append(p)
        env = dict(os.environ); env["C09_LOG"] = log; env.pop("CGREEN_NO_FORK", None)
        for l in libmap: os.symlink(os.path.join(libdir, l), os.path.join(wd, l))
        try:
            r = subprocess.run([impl["runner"]] + opts + args, cwd=wd, stdout=subprocess.PIPE, stderr=subprocess.PIPE, env=env, timeout=120)
            rc = r.returncode
            stdouts[i] = r.stdout.decode("latin-1")
        except subprocess.TimeoutExpired:
            rc = "timeout"
        ex = sorted(open(log).read().split("\n")[:-1]) if os.path.exists(log) else []
        shutil.rmtree(wd, ignore_errors=True)
        return ex, rc
    with ThreadPoolExecutor(max_workers=NCPU) as pool:
        results = list(pool.map(one, enumerate(runs)))
    blocks = []
    for pairs, opts in runs:
        b = [f"lib {n} " + " ".join((f"{c}:{t}" if c != "default" else t) for c, t in (it if n not in unloadable else [])) for n, it in libs if any(n == l for l, _ in pairs)]
        args = []
        for l, p in pairs:
            args.append(l)
            if p is not None: args.append(p)
        b.append("run " + " ".join(args))
        blocks.append("\n".join(b))
    mout = run_model(["select"], "".join(b + "\n---\n" for b in blocks)).split("---\n")
    ndis = nor = 0
    for ri, ((pairs, opts), (ex, rc), mo) in enumerate(zip(runs, results, mout)):
        ml = mo.strip().split("\n")
        mex = [x for x in ml[0].split(" ")[1:] if x]
        mst = int(ml[1].split(" ")[1])
        cmdline = " ".join(opts + [x for l, p in pairs for x in ([l] + ([p] if p is not None else []))])
        if sorted(mex) != ex or (mst != 0) != (rc != 0):
            ndis += 1
            if ndis <= 3:
                ctx.oblige("correspondence C09", False, f"cgreen-runner {cmdline}: model executed {len(mex)} status {mst}; impl executed {len(ex)} exit {rc}")
        # independent oracle (the command line is read as the runner documents it: an argument after a library that is
        # not an existing file is that library's pattern)
        flat = [x for l, p in pairs for x in ([l] + ([p] if p is not None else []))]
        opairs, i = [], 0
        while i < len(flat):
            l = flat[i]; i += 1
            if i < len(flat) and flat[i] not in libmap:
                opairs.append((l, flat[i])); i += 1
            else:
                opairs.append((l, None))
        want, fail = [], False
        for l, p in opairs:
            if l not in libmap:
                fail = True; break
            if l in unloadable:
                fail = True; continue      # discovered, but it cannot be loaded: nothing of it runs and the run fails
            sel = py_selected(libmap[l], p)
            if not sel: fail = True
            want += [f"{l}/{c}:{n}" for c, n in sel]
            if any(n.endswith("_fails") for _, n in sel): fail = True
        # with --suite/-s the libraries run as one suite: its final line gives the totals over all of them
        if (opts[:1] == ["-s"] or any(o_.startswith("--suite=") for o_ in opts)) and "-q" not in opts and sorted(want) == ex and all(l in libmap and l not in unloadable and py_selected(libmap[l], p) for l, p in opairs):
            comp = [l for l in stdouts.get(ri, "").split("\n") if l.startswith("Completed ")]
            nf = sum(1 for x in want if x.endswith("_fails"))
            tot = parse_counts(re.sub(r"\x1b\[[0-9;]*m", "", comp[-1])) if comp else None
            if tot is None or (tot[0], tot[1]) != (len(want) - nf, nf):
                nor += 1
                if nor <= 6:
                    ctx.violation(f"[C09] cgreen-runner {cmdline}: the suite's final line says (passes, failures, skipped, exceptions)={tot}; {len(want) - nf} of the executed tests pass and {nf} fail",
                                  "# libraries (context:test):\n" + "\n".join(f"# {n}: " + " ".join(f"{c}:{t}" for c, t in libmap[n]) for n, _ in pairs if n in libmap) + f"\ncgreen-runner {cmdline}\n",
                                  found_input=True, facts={"common_suite_totals": True})
        if sorted(want) != ex or fail != (rc != 0):
            nor += 1
            if nor <= 6:
                missing = sorted(set(want) - set(ex))[:4]; extra = sorted(set(ex) - set(want))[:4]
                dup = [x for x in set(ex) if ex.count(x) > 1][:3]
                ctx.violation(f"[C09] cgreen-runner {cmdline}: executed {len(ex)} tests, exit {rc}; selected are {len(want)} tests, expected {'failure' if fail else 'success'}"
                              + (f"; never executed: {missing}" if missing else "") + (f"; executed but not selected: {extra}" if extra else "") + (f"; executed twice: {dup}" if dup else ""),
                              "# libraries (context:test):\n" + "\n".join(f"# {n}: " + " ".join(f"{c}:{t}" for c, t in libmap[n]) for n, _ in pairs if n in libmap) + f"\ncgreen-runner {cmdline}\n",
                              found_input=True, facts={"single_wildcard_match": any(p and "*" in p and len(py_selected(libmap.get(l, []), p)) == 1 for l, p in pairs)})
    # ---- long library paths (sanitizer build of the runner) ----
    aimpl = build_impl(ctx, asan=True, runner=True, tag="asan-runner")
    name, items = libs[0]
    for plen in (200, 900, 985, 1000, 1100, 3000):
        d = os.path.join(ctx.work, "p")
        rel = ""
        while len(rel) < plen:
            rel = os.path.join(rel, "d" * min(200, plen - len(rel)))
        full = os.path.join(d, rel)
        os.makedirs(full, exist_ok=True)
        shutil.copy(os.path.join(libdir, name), os.path.join(full, name))
        log = os.path.join(ctx.work, "longlog")
        if os.path.exists(log): os.unlink(log)
        env = asan_env({"C09_LOG": log, "LD_LIBRARY_PATH": impl["dir"]})
        r = subprocess.run([aimpl["runner"], os.path.join(rel, name)], cwd=d, stdout=subprocess.PIPE, stderr=subprocess.PIPE, env=env, timeout=120)
        err = r.stderr.decode("latin-1")
        ex = sorted(open(log).read().split("\n")[:-1]) if os.path.exists(log) else []
        if "ERROR: AddressSanitizer" in err or "runtime error" in err or r.returncode in (98, 99) or r.returncode < 0:
            ctx.violation(f"[C09] a library path of {len(os.path.join(rel, name))} characters: undefined behaviour in cgreen-runner (exit {r.returncode}): " +
                          " ".join(l.strip() for l in err.split("\n") if "ERROR" in l or "SUMMARY" in l)[:300],
                          f"cgreen-runner <a relative path of {len(os.path.join(rel, name))} characters>/{name}", found_input=True, facts={"crash": True, "long_path": True})
            break
        elif len(ex) != len(items):
            ctx.violation(f"[C09] a library path of {len(os.path.join(rel, name))} characters: {len(ex)} of {len(items)} tests executed (exit {r.returncode})",
                          f"cgreen-runner <a relative path of {len(os.path.join(rel, name))} characters>/{name}", found_input=True, facts={"long_path": True})
            break
        shutil.rmtree(d, ignore_errors=True)
    # ---- names the symbol grammar cuts (a test name containing `__`, or ending in `_`): whatever name the runner knows such a test by, a
    # run that selects it executes it - also when it is the one test selected (the single-match path looks it up by name) ----
    uname = "libunderscore_tests.so"
    uitems = sorted([("Codec", "decodes__empty_input"), ("Codec", "rejects_"), ("Codec", "plain"), ("default", "ends__"), ("default", "other")])
    srcs = []
    for c, text in library_sources(uname, uitems).items():
        src = os.path.join(libdir, f"libunderscore_{c}.c"); open(src, "w").write(text); srcs.append(src)
    r = sh(["gcc", "-shared", "-fPIC", "-w", f"-I{REPO}/include"] + srcs + ["-o", os.path.join(libdir, uname), f"-L{impl['dir']}", "-lcgreen"])
    if r.returncode != 0:
        raise BuildError("test library: " + r.stdout[-1500:])
    # ... and files in which no test can be discovered although they exist: a library stripped of its symbol table (its tests are still
    # there and loadable), a file that is not a library at all - nothing is executed, so the run must not end with success
    sname = "libstripped_tests.so"
    shutil.copy(os.path.join(libdir, uname), os.path.join(libdir, sname))
    sh(["strip", "--strip-all", os.path.join(libdir, sname)])
    open(os.path.join(libdir, "libtext_tests.so"), "w").write("this is not a shared library\n")
    def run_plain(args):
        wd = tempfile.mkdtemp(dir=ctx.work); log = os.path.join(wd, "log")
        for l in (uname, sname, "libtext_tests.so", "lib0_tests.so"): os.symlink(os.path.join(libdir, l), os.path.join(wd, l))
        env = dict(os.environ); env["C09_LOG"] = log; env["LD_LIBRARY_PATH"] = impl["dir"]; env.pop("CGREEN_NO_FORK", None)
        try:
            r = subprocess.run([impl["runner"]] + args, cwd=wd, stdout=subprocess.PIPE, stderr=subprocess.PIPE, env=env, timeout=120); rc = r.returncode
        except subprocess.TimeoutExpired:
            rc = "timeout"
        ex = sorted(open(log).read().split("\n")[:-1]) if os.path.exists(log) else []
        shutil.rmtree(wd, ignore_errors=True)
        return ex, rc
    ushown = 0
    for pat, want in ((None, [f"{uname}/{c}:{n}" for c, n in uitems]), ("Codec:decodes*", [f"{uname}/Codec:decodes__empty_input"]), ("Codec:rej*", [f"{uname}/Codec:rejects_"]),
                      ("Codec:plain", [f"{uname}/Codec:plain"]), ("end*", [f"{uname}/default:ends__"]), ("Codec:*", [f"{uname}/Codec:{n}" for c, n in uitems if c == "Codec"])):
        ex, rc = run_plain([uname] + ([pat] if pat else []))
        if (ex != sorted(want) or rc != 0) and ushown < 4:
            ushown += 1
            ctx.violation(f"[C09] cgreen-runner {uname} {pat or ''}: executed {ex}, exit {rc}; selected are {sorted(want)}, expected success",
                          f"# library with tests {uitems}\ncgreen-runner {uname} {pat or ''}", found_input=True, facts={"underscore_names": True})
    for args, lab in (([sname], "a library stripped of its symbol table"), (["libtext_tests.so"], "a file that is not a library"), (["lib0_tests.so", sname], "a good library, then one stripped of its symbol table"),
                      ([sname, "Codec:plain"], "a library stripped of its symbol table, with a pattern")):
        ex, rc = run_plain(args)
        nstripped = [e for e in ex if e.startswith(uname)]
        if rc == 0 and not nstripped and ushown < 6:
            ushown += 1
            ctx.violation(f"[C09] cgreen-runner {' '.join(args)} ({lab}): no test of that file was executed, yet the run ends with exit status 0",
                          f"# {lab}\ncgreen-runner {' '.join(args)}", found_input=True, facts={"undiscoverable": True})
    ctx.coverage["underscore_and_undiscoverable_runs"] = 10
    ctx.oblige("correspondence C09: model and cgreen-runner execute the same tests and agree on the exit status", ndis == 0, f"{ndis} runs disagree")
    ctx.coverage["correspondence"] = {"cases": len(runs), "libraries": len(libs), "library_sizes": sorted({len(i) for _, i in libs}), "disagreements": ndis, "oracle_failures": nor}
    ctx.coverage["samples"] = [" ".join(o + [x for l, p in pr for x in ([l] + ([p] if p else []))]) for pr, o in runs[:3]]
    ctx.coverage["evaluations"] = len(runs)
    ctx.coverage["distinct_nontrivial"] = len({str(r) for r in runs})
    # ---- from the symbol listing to the list of tests: every line length around every size of the line buffer ----
    discoverer_family(ctx, rng, "asan-disc")


# ---- C14: per-test time limit ---------------------------------------------------------------------
def check_C14(ctx):
    lean_check(ctx)
    phase_obligations(ctx, ["timer_covers_the_test"])
    traversal_obligations(ctx, ["every_test_skeleton"])      # (a suite's completion notice is sent before its last read, so none is left for a stopped test)
    rng = random.Random(ctx.seed * 1000 + 14)
    bench = Bench(ctx)
    scens, envs, labels = [], [], []
    again_model = {}
    oracle_only = set()
    for mode in ("fork", "inproc", "single:slow"):
        for pos in (0, 1, 2):
            for pre in ([], ["P"], ["F"], ["P", "F", "P"]):
                for how in ("env", "die_in"):
                    if ctx.tier == "quick" and (pos + len(pre) + (how == "env")) % 2 and mode != "fork":
                        continue
                    others = [T("a", body=["P", "F"]), T("b", body=["P"])]
                    slow = T("slow", body=pre + (["Z"] if how == "env" else ["ZD"]))
                    tests = others[:pos] + [slow] + others[pos:]
                    root = S("top", items=[S("inner", items=tests[:2]), tests[2]]) if pos == 1 else S("top", items=tests)
                    scens.append(Scen(root, mode=mode)); envs.append({"CGREEN_PER_TEST_TIMEOUT": "1"} if how == "env" else {}); labels.append(f"{mode}, position {pos}, {len(pre)} results delivered, limit by {how}")
                    if (pos + len(pre)) % 2 == 0:
                        scens.append(Scen(root, mode=mode)); envs.append(dict(envs[-1], CGREEN_CHILD_EXIT_WITH__EXIT="1")); labels.append(labels[-1] + ", CGREEN_CHILD_EXIT_WITH__EXIT set")
    # the overrunning test is the first one to end without a completion notice after one or two nested suites have finished, everything
    # else green (nothing a finished suite leaves in the channel may stand in for the notice the stopped test never sent)
    for how, env in (("env", {"CGREEN_PER_TEST_TIMEOUT": "1"}), ("die_in", {})):
        act = "Z" if how == "env" else "ZD"
        for shape in (0, 1, 2):
            if shape == 0: root = S("top", items=[S("first", items=[T("a", body=["P"])]), T("slow", body=[act])])
            elif shape == 1: root = S("top", items=[S("first", items=[T("a", body=["P"])]), S("second", items=[T("slow", body=["P", act]), T("b", body=["P"])])])
            else: root = S("top", items=[S("outer", items=[S("deep", items=[T("a", body=["P"])]), T("c", body=["P"])]), T("slow", body=[act]), T("b", body=["P"])])
            scens.append(Scen(root, mode="fork")); envs.append(env); labels.append(f"fork, the overrunning test comes after finished sub-suites (shape {shape}), nothing else fails, limit by {how}")
    # an earlier test (or the code it tests) leaves SIGALRM ignored: every test still gets a working limit of its own
    for mode in ("fork", "inproc", "single:slow"):
        for how, env in (("env", {"CGREEN_PER_TEST_TIMEOUT": "1"}), ("die_in", {})):
            root = S("top", items=[T("poller", body=["IA", "P"]), T("b", body=["P"]), T("slow", body=["P", "Z" if how == "env" else "ZD"])])
            scens.append(Scen(root, mode=mode)); envs.append(env); labels.append(f"{mode}, an earlier test leaves SIGALRM ignored, limit by {how}")
    # two runs in one process with the variable changed in between: the limit in force is the one of the run that is going on
    # (not modelled as such: the second run is the model's run; the first one ends in time)
    for first, second in (("single:a", "single:slow"), ("single:a", "fork"), ("single:a", "inproc")):
        root = S("top", items=[T("a", body=["P"]), T("slow", body=["P", "Z"])])
        sc = Scen(root, mode=first); sc.again = ("1", second)
        msc = Scen(root, mode=second)
        scens.append(sc); envs.append({"CGREEN_PER_TEST_TIMEOUT": "300"}); labels.append(f"second run in the same process ({second}) with the limit lowered from 300 s to 1 s")
        again_model[len(scens) - 1] = msc
    # slow context setup (the limit covers the fixtures too)
    for mode in ("fork", "single:slow"):
        scens.append(Scen(S("top", items=[T("slow", ctx=1, setup=["Z"], body=["P"]), T("b", body=["P"])]), mode=mode)); envs.append({"CGREEN_PER_TEST_TIMEOUT": "1"}); labels.append(f"{mode}, overrun in the context's setup")
    # ... and the teardown, after a body that returned in time (the limit is for the whole test, tally included)
    for mode in ("fork", "inproc", "single:slow"):
        scens.append(Scen(S("top", items=[T("a", body=["P"]), T("slow", ctx=1, teardown=["Z"], body=["P"]), T("b", body=["P"])]), mode=mode)); envs.append({"CGREEN_PER_TEST_TIMEOUT": "1"}); labels.append(f"{mode}, overrun in the context's teardown")
    for mode in ("fork", "single:slow"):
        root = S("top", su=1, td=1, items=[T("slow", body=["P"]), T("b", body=["P"])]); root.fixture = ([], ["Z"])
        scens.append(Scen(root, mode=mode)); envs.append({"CGREEN_PER_TEST_TIMEOUT": "1"}); labels.append(f"{mode}, overrun in the suite's teardown fixture")
        oracle_only.add(len(scens) - 1)      # scripted suite fixtures are a feature of the harness, not of the model
    models = run_model_scenarios([(again_model.get(i, s)).text() for i, s in enumerate(scens)])

    def one(i):
        wd = os.path.join(ctx.work, f"c14-{i}")
        try:
            return run_impl(bench.exe, scens[i].text(), "text", wd, env=envs[i], timeout=40)
        finally:
            shutil.rmtree(wd, ignore_errors=True)
    with ThreadPoolExecutor(max_workers=64) as pool:
        obs = list(pool.map(one, range(len(scens))))
    ndis = shown = 0
    for si, (s, m, o, lab, en) in enumerate(zip(scens, models, obs, labels, envs)):
        ds = compare(m, o, "text", check_events=False)
        if si in again_model:      # (the output of the first run precedes the second's: only the way the process ends is compared)
            ds = [] if model_status(m) == status_of(o) else [f"status: model={model_status(m)} impl={status_of(o)}"]
        if si in oracle_only: ds = []
        if ds:
            ndis += 1
            if ndis <= 3: ctx.oblige("correspondence C14", False, f"{lab}: {ds[0]}")
        st = status_of(o)
        errs = []
        if st == "timeout": errs.append("the test was not stopped (the run was still going after 40 s)")
        elif st in ("0", "exit0"): errs.append(f"the run's verdict is success (status {st}) although a test overran its limit")
        if s.mode == "fork" and st in ("0", "1") and si not in again_model and si not in oracle_only:
            e = oracle_C03(s, m, o, "text")
            if e: errs.append(e)
        if errs and shown < 6:
            shown += 1
            ctx.violation(f"[C14] {lab}: " + "; ".join(errs), f"# env {en}  reporter: text\n" + s.text(),
                          found_input=True, facts={"mode": s.mode.split(":")[0]})
    # ---- the value of the variable ----
    vals = {"positive": ["1", "5", "60", "2147483647"], "zero": ["0", "00"], "negative": ["-1", "-5", "-2147483648"], "non-numeric": ["abc", "x5", "five"], "empty": [""],
            "trailing garbage": ["5abc", "5 ", "1.5", "7seconds"], "leading blank": [" 7"], "overflowing": ["2147483648", "4294967297", "99999999999999999999"], "signed": ["+5"]}
    quick = Scen(S("top", items=[T("t", body=["P"])]))
    jobs, meta = [], []
    for cls, vs in vals.items():
        for v in vs:
            for mode in ("fork", "inproc", "single:t"):
                sc = quick.copy(); sc.mode = mode
                jobs.append((sc, v)); meta.append((cls, v, mode))

    def one2(i):
        wd = os.path.join(ctx.work, f"c14v-{i}")
        try:
            return run_impl(bench.exe, jobs[i][0].text(), "text", wd, env={"CGREEN_PER_TEST_TIMEOUT": jobs[i][1]}, timeout=40)
        finally:
            shutil.rmtree(wd, ignore_errors=True)
    with ThreadPoolExecutor(max_workers=NCPU) as pool:
        vobs = list(pool.map(one2, range(len(jobs))))
    mvals = run_model(["timeout"], "\n".join(v.encode().hex() or "-" for _, v, _ in meta) + "\n").split("\n")[:-1]
    for (cls, v, mode), o, mv in zip(meta, vobs, mvals):
        ran = any("body" in l for l in o.events)
        valid = cls == "positive"
        st = status_of(o)
        if (mv == "valid") != (ran and st == "0"):
            ndis += 1
            if ndis <= 3: ctx.oblige("correspondence C14 (value of the variable)", False, f"CGREEN_PER_TEST_TIMEOUT={v!r} ({mode}): model says {mv}; impl ran the test: {ran}, status {st}")
        if valid and not (ran and st == "0"):
            if shown < 8:
                shown += 1; ctx.violation(f"[C14] CGREEN_PER_TEST_TIMEOUT={v!r} ({cls}), {mode}: a valid limit was refused or the passing test did not pass (ran {ran}, status {st})", f"CGREEN_PER_TEST_TIMEOUT={v!r}\n" + jobs[0][0].text(), found_input=True, facts={"value_class": cls})
        if not valid and (ran or st in ("0", "exit0")):
            if shown < 8:
                shown += 1; ctx.violation(f"[C14] CGREEN_PER_TEST_TIMEOUT={v!r} ({cls}), {mode}: not a positive integer, but the run was not aborted with failure before any test (a test ran: {ran}, status {st})",
                                          f"CGREEN_PER_TEST_TIMEOUT={v!r}\n" + jobs[0][0].text(), found_input=True, facts={"value_class": cls})
    ctx.oblige("correspondence C14: model and implementation agree on every timed scenario and every value of the variable", ndis == 0, f"{ndis} disagreements")
    ctx.coverage["correspondence"] = {"cases": len(scens) + len(jobs), "timed_scenarios": len(scens), "values": len(jobs), "disagreements": ndis}
    ctx.coverage["samples"] = labels[:3] + [f"CGREEN_PER_TEST_TIMEOUT={v!r}" for _, v, _ in meta[:3]]
    ctx.coverage["evaluations"] = len(scens) + len(jobs)
    ctx.coverage["distinct_nontrivial"] = len(scens) + len({v for _, v, _ in meta})


# ---- C11: XML reports ------------------------------------------------------------------------------
XML_REPS = ["xml", "libxml"]
META = ["<", ">", "&", '"', "'", "&amp;", "&lt;", "]]>", "<!--", "-->", "<a b='c'>", "&#10;", "&#x1;", "<?x ?>"]
PCT = ["%s", "%d", "%n", "100%", "%%", "%5$s", "%*d", "%", "%x%x%x%x", "%ls", "%.999999d"]
CTRL = ["\x01", "\x02", "\x08", "\x0b", "\x0c", "\x1b", "\x1f", "\x7f", "\t", "\n", "\r", "\r\n", "\x0e\x0f"]
NONASCII = ["\xe9", "\xff", "\x80", "\x9f", "\xa0", "\xc3\xa9", "\xe2\x82\xac", "\xf0\x9f\x98\x80", "\xc0\x80", "\xed\xa0\x80", "\xe2\x82", "\xf4\x90\x80\x80", "\xf8\x88\x80\x80\x80", "\xc2\x85", "\xef\xbf\xbe", "\xef\xb7\x90", "\xc2\x80"]
WORDS = ["Expected", "[x]", "to", "equal", "value", "a", " ", "  ", ":", "=", "0", "foo.c", "/"]


def gen_message(rng, cls=None):
    """A message text (a str carrying bytes 1..255) of a given content class."""
    cls = cls or rng.choice(["plain", "meta", "pct", "ctrl", "nonascii", "long", "mixed", "mixed"])
    pool = {"plain": WORDS, "meta": WORDS + META * 2, "pct": WORDS + PCT * 2, "ctrl": WORDS + CTRL * 2, "nonascii": WORDS + NONASCII * 2,
            "mixed": WORDS + META + PCT + CTRL + NONASCII, "long": WORDS + META + PCT}[cls]
    n = rng.choice([1, 2, 3, 5, 8, 13])
    s = "".join(rng.choice(pool) for _ in range(n))
    if cls == "long":
        target = rng.choice([95, 99, 100, 101, 990, 996, 997, 998, 999, 1000, 1001, 1005, 1500, 5000])
        filler = rng.choice(["m", "&", "<", "%", '"', "\xe9"])
        s = (s + filler * target)[:target - 3] + rng.choice(["&<>", "abc", '"%"', "%s&"])
    return s or "x"


def py_translit_xml(b):
    out = bytearray()
    for c in b:
        if c < 32 and c not in (9, 10, 13): out += b"\\x%02x" % c
        else: out.append(c)
    return bytes(out)


def ws_norm(s):
    """XML attribute-value normalisation of literal white space (after line-end normalisation)."""
    return s.replace("\r\n", " ").replace("\r", " ").replace("\n", " ").replace("\t", " ")


def model_xml(lines):
    return run_model(["xml"], "\n".join(lines) + "\n").split("\n")[:-1]


def expected_attr(rep, texts, kind):
    """{text: (exact decoded str, raw escaped bytes or None)} from the model, for reporter `rep`; kind: 'x' message, 'n' name."""
    texts = sorted(set(texts))
    if rep == "xml":
        outs = model_xml([f"{kind} {t.encode('latin-1').hex() or '-'}" for t in texts])
        res = {}
        for t, o in zip(texts, outs):
            esc, dec, ok = o.split(" ")
            res[t] = (bytes.fromhex(dec if dec != "-" else "").decode("latin-1"), bytes.fromhex(esc if esc != "-" else ""), ok == "true")
        return res
    outs = model_xml([f"l {t.encode('latin-1').hex() or '-'}" for t in texts])
    return {t: ("".join(chr(int(c)) for c in o.split(" ") if c), None, True) for t, o in zip(texts, outs)}


def xml_docs(o):
    """[(file, root or None, error)] for the per-suite files of a run."""
    docs = []
    for fname, data in sorted(o.files.items()):
        if "Testing/" in fname:
            continue
        root, err = parse_xml(data)
        docs.append((fname, root, err, data))
    return docs


def walk_cases(root):
    out = []

    def walk(e):
        if e.tag == "testcase": out.append(e)
        for c in e.children: walk(c)
    walk(root)
    return out


def check_C11(ctx):
    lean_check(ctx)
    rng = random.Random(ctx.seed * 1000 + 11)
    # the size xml_escaped() asks malloc for, against the longest thing a byte can turn into (hypotheses of C11_escape_fits)
    import xmlsizes as xs
    generated_obligations(ctx, xs.render, "Cgreen.Gen.XmlSizes", None, "the buffer xml_escaped() allocates")
    bench = Bench(ctx, asan=True)
    shown = {}
    ndis = 0

    def viol(key, what, case, facts):
        if shown.get(key, 0) < 2:
            shown[key] = shown.get(key, 0) + 1
            ctx.violation("[C11] " + what, case, found_input=True, facts=facts)

    def crashed(o):
        return o.timeout or (o.rc is not None and (o.rc < 0 or o.rc in (98, 99))) or "ERROR: AddressSanitizer" in o.stderr or "runtime error" in o.stderr

    def crash_text(o):
        if o.timeout: return "the run did not terminate (still running after the time allowed)"
        return f"the run crashed (exit {o.rc}): " + " ".join(l.strip() for l in o.stderr.split("\n") if "ERROR" in l or "runtime error" in l or "SUMMARY" in l)[:240]

    # ---- (A) outcomes: scenarios as in C01-C03 under both XML reporters: one testcase per executed test, children as the model says ----
    scens = [s for s in small_scope(rng, sizes(ctx, 30, 400))] + [Scen(gen_tree(rng, max_tests=8)) for _ in range(sizes(ctx, 40, 1000))]
    # a test that has already failed checks when it is skipped at run time, in every mode (what it has written so far is there once)
    for mode in ("fork", "inproc", "single:t0", "single:t1"):
        scens.append(Scen(S("top", items=[T("t0", body=["F", "S"]), T("t1", body=["F", "F", "S", "P"]), T("t2", body=["P"])]), mode=mode))
        scens.append(Scen(S("top", items=[S("inner", items=[T("t0", body=["P", "F", "S"])]), T("t1", body=["S", "F"])]), mode=mode))
    models = run_model_scenarios([s.text() for s in scens])
    xb_lines, xb_meta = [], []
    # the scenarios' own signals (K11 ...) are test behaviour, not the sanitizer's business
    sig_env = asan_env()
    sig_env["ASAN_OPTIONS"] += ":handle_segv=0:handle_sigbus=0:handle_abort=0:handle_sigill=0:handle_sigfpe=0"
    obs = bench.run_many([(s.text(), r) for s in scens for r in XML_REPS], env=sig_env)
    k = 0
    for s, m in zip(scens, models):
        want = []
        f = e = 0
        for w in m.out:
            if w[0] == "failLines": f += int(w[2])
            elif w[0] == "excLine": e += 1
            elif w[0] == "testEnd":
                want.append((w[1].split("/")[-1], f, e, 1 if w[6] == "skipped" else 0)); f = e = 0
        for rep in XML_REPS:
            o = obs[k]; k += 1
            case = f"# reporter: {rep}   harness/scenario_run <file> {rep} <outdir>\n" + s.text()
            if crashed(o):
                viol(("crash", rep), f"{rep} reporter: {crash_text(o)}", case, {"crash": True, "rep": rep}); continue
            if m.halted is not None:
                continue
            docs = xml_docs(o)
            bad = [(f_, err) for f_, _, err, _ in docs if err]
            if bad:
                viol(("wf", rep), f"{rep} reporter: {bad[0][0]} is not well-formed XML ({bad[0][1]})", case, {"malformed": True, "rep": rep}); continue
            got = sorted((c.attrs.get("name", ""), sum(1 for x in c.children if x.tag == "failure"), sum(1 for x in c.children if x.tag == "error"),
                          sum(1 for x in c.children if x.tag == "skipped")) for _, root, _, _ in docs for c in walk_cases(root))
            if got != sorted(want):
                ndis += 1
                miss = [x for x in sorted(want) if x not in got][:2]; extra = [x for x in got if x not in sorted(want)][:2]
                fs = facts_of(s, m)
                viol(("cases", rep), f"{rep} reporter: testcase elements (name, failures, errors, skipped) differ from what ran: expected {miss} got {extra}", case, dict(fs, rep=rep))
            elif rep == "xml":
                # the order of a testcase's children is what the model of the reporter's buffers transfers (Model/XmlBuf.lean, theorem
                # C11_buffer_each_once): the test's failure elements, then what the reporting process adds
                for c in (c for _, root, _, _ in docs for c in walk_cases(root)):
                    seq = "".join({"failure": "f", "error": "e", "skipped": "s"}.get(x.tag, "?") for x in c.children)
                    wn = [w_ for w_ in want if w_[0] == c.attrs.get("name", "")]
                    if len(wn) != 1:
                        continue      # (the same test name in several suites: the counts comparison above covers those)
                    xb_lines.append(f"{'fork' if s.mode == 'fork' else 'inproc'} {wn[0][1]} {'S' if wn[0][3] else 'E' if wn[0][2] else '-'}")
                    xb_meta.append((seq, c.attrs.get("name", ""), case))
    if xb_lines:
        mo = run_model(["xmlbuf"], "\n".join(xb_lines) + "\n").split("\n")
        nxd = 0
        for (seq, name, case), line in zip(xb_meta, mo):
            want_seq = re.sub(r"<f\d+>", "f", line).replace("<s>", "s").replace("<e>", "e")
            if seq != want_seq:
                nxd += 1
                viol(("order", "xml"), f"xml reporter: the children of testcase {name} are {seq!r} (f failure, s skipped, e error), the model of the reporter's buffers transfers {want_seq!r}", case, {"rep": "xml", "order": True})
        ctx.oblige("correspondence C11: the children of every testcase are what the model of the XML reporter's buffers transfers, in that order", nxd == 0, f"{nxd} of {len(xb_lines)} differ")
        ctx.coverage["xml_buffer_model_cases"] = len(xb_lines)
    nA = len(obs)

    # ---- (B) message content, (C) names and file texts ----
    cases_b = []
    for i in range(sizes(ctx, 70, 1500)):
        ntests = rng.choice([1, 1, 2, 3])
        tests = []
        for j in range(ntests):
            msgs = [gen_message(rng) for _ in range(rng.choice([1, 1, 2, 4]))]
            body = []
            for msg in msgs:
                body.append(rng.choice("XY") + msg.encode("latin-1").hex())
                if rng.random() < 0.3: body.append("P")
            t = T(f"t{j}", body=body); t.msgs = msgs
            tests.append(t)
        sc = Scen(S("top", items=tests), mode=rng.choice(["fork", "fork", "inproc"]))
        cases_b.append((sc, "messages"))
    # every byte value, so that the model's replacement for each byte is compared with what the reporters write for it
    for lo in range(1, 256, 8):
        msgs = ["b" + chr(b) * 2 + "e" for b in range(lo, min(lo + 8, 256))]
        t = T("t0", body=["X" + m_.encode("latin-1").hex() for m_ in msgs]); t.msgs = msgs
        cases_b.append((Scen(S("top", items=[t]), mode="fork"), "messages"))
    NAMEPOOL = ["a<b", "x&y", 'q"uote', "ap'os", "a>b", "&amp;", "caf\xe9", "caf\xc3\xa9", "eur\xe2\x82\xac", "bad\xff", "bell\x07", "esc\x1b[0m", "p%sct", "%n%n", "n" * 90, "<" * 40, "]]>", "--", "\xc0\x80", "\x01"]
    for i in range(sizes(ctx, 40, 600)):
        cnt = iter(range(100))
        nm = lambda: rng.choice(NAMEPOOL) + str(next(cnt))
        t1 = T(nm(), body=["Y" + gen_message(rng, "plain").encode("latin-1").hex()]); t1.msgs = None
        t1.file = rng.choice(["dir/a&b.c", "we<ird>.c", 'q"uote.c', "caf\xe9.c", "f" * 1200 + ".c", "ctrl\x01.c", "100%.c", "plain.c"])
        t2 = T(nm(), body=["P"]); t2.msgs = None
        inner = S(nm(), items=[t1])
        sc = Scen(S(nm(), items=[inner, t2]), mode="fork")
        cases_b.append((sc, "names"))
    obs = bench.run_many([(sc.text(), r) for sc, _ in cases_b for r in XML_REPS], env=asan_env(), timeout=40)
    all_msgs = {m_ for sc, kind in cases_b if kind == "messages" for _, t in sc.root.tests() for m_ in t.msgs}
    all_names = set()
    for sc, kind in cases_b:
        if kind == "names":
            for su in sc.root.suites(): all_names.add(su.name)
            for p_, t in sc.root.tests():
                all_names.add(t.name); all_names.add("-".join(p_[:-1])); all_names.add("/".join(p_[:-1]))
                if getattr(t, "file", None): all_names.add(t.file)
    exp = {"xml": (expected_attr("xml", all_msgs, "x"), expected_attr("xml", all_names, "n")),
           "libxml": (expected_attr("libxml", all_msgs, "x"), expected_attr("libxml", all_names, "n"))}
    for t_, (dec, esc, ok) in list(exp["xml"][0].items()) + list(exp["xml"][1].items()):
        if not ok:
            ctx.oblige("the model's escaped attribute value is well formed (theorem C11_message, executed)", False, repr(t_[:60]))
    k = 0
    stats = {"messages": 0, "names": 0, "cut": 0, "ws": 0}
    for sc, kind in cases_b:
        for rep in XML_REPS:
            o = obs[k]; k += 1
            case = f"# reporter: {rep}   harness/scenario_run <file> {rep} <outdir>   (X<hex>/Y<hex>: a failing check whose message is the hex-coded text)\n" + sc.text()
            if crashed(o):
                viol(("crash", rep, kind), f"{rep} reporter, {kind}: {crash_text(o)}", case, {"crash": True, "rep": rep, "kind": kind}); continue
            docs = xml_docs(o)
            bad = [(f_, err) for f_, _, err, _ in docs if err]
            if bad or not docs:
                viol(("wf", rep, kind), f"{rep} reporter, {kind}: " + (f"{bad[0][0]!r} is not well-formed XML ({bad[0][1]})" if bad else "no report file was written") , case, {"malformed": True, "rep": rep, "kind": kind}); continue
            tcs = {c.attrs.get("name", ""): c for _, root, _, _ in docs for c in walk_cases(root)}
            ntc = sum(len(walk_cases(root)) for _, root, _, _ in docs)
            if ntc != len(list(sc.root.tests())):
                viol(("count", rep, kind), f"{rep} reporter, {kind}: {ntc} testcase elements for {len(list(sc.root.tests()))} executed tests", case, {"rep": rep, "kind": kind}); continue
            if kind == "messages":
                for _, t in sc.root.tests():
                    c = tcs.get(t.name)
                    got = [x.attrs.get("message", "") for x in c.children if x.tag == "failure"] if c else None
                    if got is None or len(got) != len(t.msgs):
                        viol(("nfail", rep), f"{rep} reporter: test {t.name} has {None if got is None else len(got)} failure elements for {len(t.msgs)} failed checks", case, {"rep": rep}); continue
                    for msg, g in zip(t.msgs, got):
                        stats["messages"] += 1
                        mdec = exp[rep][0][msg][0]
                        raw = msg.encode("latin-1")
                        # the property's oracle, independent of the model
                        if rep == "xml":
                            full = py_translit_xml(raw).decode("latin-1")
                        else:
                            try: full = raw.decode("utf-8")
                            except UnicodeDecodeError: full = None
                            if full is not None and any(not (ch in "\t\n\r" or 0x20 <= ord(ch) <= 0x7e or ord(ch) == 0x85 or 0xa0 <= ord(ch) <= 0xd7ff or 0xe000 <= ord(ch) <= 0xfdcf or 0xfdf0 <= ord(ch) <= 0xfffd or (ord(ch) >= 0x10000 and (ord(ch) & 0xffff) <= 0xfffd)) for ch in full):
                                full = None
                        good = full is None or g == full or (len(full) > 900 and len(g) >= 900 and full.startswith(g))
                        if full is not None and g != full and full.startswith(g) and len(g) >= 900: stats["cut"] += 1
                        if not good and full is not None and rep == "xml" and (g == ws_norm(full) or (len(g) >= 900 and ws_norm(full).startswith(g))):
                            stats["ws"] += 1
                            ctx.violation(f"[C11] xml reporter: white space in a message is written literally into the attribute and decodes as blanks: {msg[:40]!r} decodes to {g[:40]!r}",
                                          case, found_input=True, facts={"ws_normalised": True, "rep": "xml"})
                            good = True
                        if not good:
                            cl = "control" if any(ord(ch) < 32 for ch in msg) else "percent" if "%" in msg else "long" if len(msg) > 900 else "other"
                            viol(("msg", rep, cl), f"{rep} reporter: a failure message does not decode to the text: text {msg[:80]!r} ({len(msg)} bytes), decoded {g[:80]!r} ({len(g)} characters)", case, {"rep": rep, "msgclass": cl})
                        # correspondence with the model (exact, including where the plain reporter cuts)
                        mexp = ws_norm(mdec) if rep == "xml" else mdec
                        if g != mexp:
                            ndis += 1
                            if ndis <= 3: ctx.oblige(f"correspondence C11 ({rep} message)", False, f"text {msg[:60]!r}: model {mexp[:80]!r} impl {g[:80]!r}")
                        if rep == "xml":
                            esc = exp["xml"][0][msg][1]
                            if not any(b'message="' + esc + b'"' in data for _, _, _, data in docs):
                                ndis += 1
                                if ndis <= 3: ctx.oblige("correspondence C11 (xml raw attribute bytes)", False, f"text {msg[:60]!r}: the model's escaped bytes {esc[:80]!r} are not in the file")
            else:
                stats["names"] += 1
                for p_, t in sc.root.tests():
                    wantn = exp[rep][1][t.name][0]
                    wantc = exp[rep][1]["/".join(p_[:-1])][0]
                    if rep == "xml": wantn, wantc = ws_norm(wantn), ws_norm(wantc)
                    c = tcs.get(wantn)
                    if c is None:
                        viol(("name", rep), f"{rep} reporter: no testcase element named {wantn[:60]!r} (test name {t.name[:60]!r}); names present: {[n[:30] for n in tcs][:3]}", case, {"rep": rep, "kind": "names"}); continue
                    if c.attrs.get("classname") != wantc:
                        viol(("classname", rep), f"{rep} reporter: classname of {t.name[:40]!r} is {c.attrs.get('classname', '')[:60]!r}, the suite path is {wantc[:60]!r}", case, {"rep": rep, "kind": "names"})
                    if getattr(t, "file", None):
                        wantf = exp[rep][1][t.file][0]
                        if rep == "xml": wantf = ws_norm(wantf)
                        locs = [l.attrs.get("file") for x in c.children if x.tag == "failure" for l in x.children if l.tag == "location"]
                        if locs != [wantf]:
                            viol(("file", rep), f"{rep} reporter: the failure's location is {[(l or '')[:60] for l in locs]}, the file text is {wantf[:60]!r} ({len(wantf)} characters)", case, {"rep": rep, "kind": "names"})
                suites_want = sorted(ws_norm(exp[rep][1]["-".join(p_)][0]) if rep == "xml" else exp[rep][1]["-".join(p_)][0] for p_ in {p_[:-1] for p_, _ in sc.root.tests()})
                suites_got = sorted(root.attrs.get("name", "") for _, root, _, _ in docs)
                if suites_want != suites_got:
                    viol(("suite", rep), f"{rep} reporter: testsuite names {[x[:40] for x in suites_got]} for suites {[x[:40] for x in suites_want]}", case, {"rep": rep, "kind": "names"})
    nB = len(obs)

    # ---- (E) failed checks outside a test's bracket (suite fixtures run by the reporting process, exit handlers): the reports
    # are still written completely: well formed, one testcase per test ----
    late = outside_bracket_scens()
    for msg in ("load 5%s", "100% done %n", "a<b & \"c\" %d %%", "caf\xe9 \x01 %5$s"):      # ... with message texts of every kind
        for pos in (0, 1):
            inner = S("inner", items=[T("a", body=["P"]), T("b", body=["F"])])
            root = S("top", su=1, td=1, items=[inner, T("c", body=["P"])])
            act = "Y" + msg.encode("latin-1").hex()
            root.fixture = ([act], []) if pos == 0 else ([], [act])
            late.append((Scen(root, mode="fork"), f"a failed check with the message {msg!r} in a suite fixture that the reporting process runs around a sub-suite"))
    eobs = bench.run_many([(sc.text(), r) for sc, _ in late for r in XML_REPS], env=sig_env)
    k = 0
    for sc, lab in late:
        for rep in XML_REPS:
            o = eobs[k]; k += 1
            case = f"# reporter: {rep}   harness/scenario_run <file> {rep} <outdir>\n" + sc.text()
            if crashed(o) or status_of(o) not in ("0", "1"):
                viol(("late-crash", rep), f"{rep} reporter, {lab}: " + (crash_text(o) if crashed(o) else f"the run ended with {status_of(o)}: {o.stderr[-200:]!r}"), case, {"crash": True, "rep": rep, "outside_bracket": True}); continue
            docs = xml_docs(o)
            bad = [(f_, err) for f_, _, err, _ in docs if err]
            ntc = sum(len(walk_cases(root)) for _, root, err, _ in docs if not err)
            if bad or ntc != len(list(sc.root.tests())):
                viol(("late-wf", rep), f"{rep} reporter, {lab}: " + (f"{bad[0][0]} is not well-formed XML ({bad[0][1]})" if bad else f"{ntc} testcase elements for {len(list(sc.root.tests()))} tests"), case, {"malformed": True, "rep": rep, "outside_bracket": True})
    # ---- (D) volume: more tests than file descriptors, more suites than file descriptors, many failures in one test ----
    vol = []
    nt = sizes(ctx, 60, 200)
    vol.append((Scen(S("top", items=[T(f"t{i}", body=["P"] if i % 9 else ["F"]) for i in range(nt)])), 40, f"{nt} tests with 40 file descriptors"))
    vol.append((Scen(S("top", items=[T(f"t{i}", body=["P"] if i % 9 else ["F"]) for i in range(nt)]), mode="inproc"), 40, f"{nt} tests in one process with 40 file descriptors"))
    vol.append((Scen(S("top", items=[S(f"s{i}", items=[T(f"t{i}", body=["P"] if i % 9 else ["F"])]) for i in range(nt)])), 40, f"{nt} suites with 40 file descriptors"))
    for nf in ([19, 20, 21, 25, 100, 600] if ctx.tier == "quick" else [1, 5, 19, 20, 21, 22, 25, 50, 100, 101, 600, 3000]):
        vol.append((Scen(S("top", items=[T("many", body=["F"] * nf), T("after", body=["P"])])), None, f"{nf} failures in one test"))
        vol.append((Scen(S("top", items=[T("many", body=["Y" + ("long message " * 12).encode().hex()] * nf), T("after", body=["F"])])), None, f"{nf} failures with 150-byte messages in one test"))
    vobs = []
    for nofile in (40, None):
        idx = [i for i, v in enumerate(vol) if v[1] == nofile]
        res = bench.run_many([(vol[i][0].text(), r) for i in idx for r in XML_REPS], env=asan_env(), timeout=120, nofile=nofile)
        vobs += list(zip([(i, r) for i in idx for r in XML_REPS], res))
    for (i, rep), o in vobs:
        sc, nofile, lab = vol[i]
        case = f"# reporter: {rep}" + (f"   run with `ulimit -n {nofile}`" if nofile else "") + f"\n" + (sc.text() if len(sc.text()) < 6000 else sc.text()[:3000] + "\n# ... (" + lab + ")")
        if crashed(o):
            viol(("volcrash", rep, lab.split(" ", 1)[1]), f"{rep} reporter, {lab}: {crash_text(o)}", case, {"crash": True, "rep": rep, "volume": lab.split(" ", 1)[1]}); continue
        docs = xml_docs(o)
        bad = [(f_, err) for f_, _, err, _ in docs if err]
        tests = list(sc.root.tests())
        if bad or not docs:
            viol(("volwf", rep, lab.split(" ", 1)[1]), f"{rep} reporter, {lab}: " + (f"{bad[0][0]} is not well-formed XML ({bad[0][1]})" if bad else f"no report file (exit {o.rc}: {o.stderr[-160:]!r})"), case, {"malformed": True, "rep": rep, "volume": lab.split(" ", 1)[1]}); continue
        got = sorted((c.attrs.get("name", ""), sum(1 for x in c.children if x.tag == "failure")) for _, root, _, _ in docs for c in walk_cases(root))
        want = sorted((t.name, sum(1 for a in t.body if a[0] in "FXY")) for _, t in tests)
        if got != want:
            miss = [x for x in want if x not in got][:2]; extra = [x for x in got if x not in want][:2]
            viol(("volcases", rep, lab.split(" ", 1)[1]), f"{rep} reporter, {lab}: testcase elements (name, failures) differ from what ran: expected {miss} got {extra} ({len(got)} testcases for {len(want)} tests; exit {o.rc}; {o.stderr[-120:]!r})", case, {"rep": rep, "volume": lab.split(" ", 1)[1]})
        elif status_of(o) != "1":
            viol(("volstatus", rep), f"{rep} reporter, {lab}: run status {status_of(o)} although tests failed", case, {"rep": rep})
    ctx.oblige("correspondence C11: the decoded attribute values and the testcase elements of every run are what the model says", ndis == 0, f"{ndis} disagreements")
    ctx.coverage["correspondence"] = {"cases": nA + nB + len(vobs), "outcome_runs": nA, "content_runs": nB, "volume_runs": len(vobs), "messages_compared": stats["messages"],
                                      "messages_cut_to_prefix": stats["cut"], "name_scenarios": stats["names"], "disagreements": ndis}
    ctx.coverage["samples"] = [repr(sorted(all_msgs)[i][:50]) for i in (0, len(all_msgs) // 2, -1)]
    ctx.coverage["evaluations"] = nA + nB + len(vobs)
    ctx.coverage["distinct_nontrivial"] = len(scens) + len(all_msgs) + len(all_names) + len(vol)


# ---- C19: resource failures -------------------------------------------------------------------------
FAULT_CALLS = ["fork", "pipe", "fcntl", "tmpfile", "write", "read", "msend", "mrecv", "mlib"]


def legs_of(scen):
    """The run as the result channel sees it (lean/CgreenModel/Model/Faults.lean): one leg per reader (finish_test /
    finish_suite), in execution order. Records that reach the channel outside a test's own bracket - from a suite
    fixture that the reporting process runs around a sub-suite, or from an exit handler of a test's process after its
    completion notice - are part of the group the next reader finds."""
    events = []      # ("send", recs) | ("read", kind, complete, signalled, recs)
    single = scen.mode.split(":", 1)[1] if scen.mode.startswith("single:") else None
    forked = scen.mode == "fork"

    def has(su):
        return any(t.name == single for _, t in su.tests())

    def recs_of(acts):
        r = ""
        for a in acts:
            if a == "P": r += "P"
            elif a[0] in "FXY" and a != "X": r += "F"
            elif a == "S": r += "S"
        return r

    def test_events(t, fx):
        if t.x:
            events.append(("read", "t", 0, 0, "S")); return
        recs, complete, sig, late = recs_of(fx[0]), 1, 0, ""
        for a in t.body:
            if a == "P": recs += "P"
            elif a == "AX": late += "F"
            elif a in ("IA", "IP", "HP", "QI"): recs += ("P" if a == "QI" else "")
            elif a[0] in "FXY": recs += "F"
            elif a == "S": recs += "S"
            elif a[0] == "K": complete, sig = 0, 1; break
            elif a in ("E", "U"): complete = 0; break
        if complete: recs += recs_of(fx[1])
        events.append(("read", "t", complete, sig, recs))
        if late and forked and complete: events.append(("send", late))

    def walk(su):
        fx = getattr(su, "fixture", None) or ([], [])
        for it in su.items:
            if isinstance(it, S) and (single is None or has(it)):
                if su.su and fx[0]: events.append(("send", recs_of(fx[0])))
                walk(it)
                if su.td and fx[1]: events.append(("send", recs_of(fx[1])))
        for it in su.items:
            if not isinstance(it, S) and (single is None or it.name == single):
                test_events(it, (fx[0] if su.su else [], fx[1] if su.td else []))
        events.append(("read", "s", 1, 0, ""))
    walk(scen.root)
    legs, pending = [], ""
    for ev in events:
        if ev[0] == "send":
            pending += ev[1]
        else:
            legs.append(f"leg {ev[1]} {ev[2]} {ev[3]} {(pending + ev[4]) or '-'}"); pending = ""
    return legs


def check_C19(ctx):
    lean_check(ctx)
    bench = Bench(ctx)
    shim = os.path.join(ctx.work, "faultshim.so")
    r = sh(["gcc", "-shared", "-fPIC", "-O1", "-o", shim, os.path.join(HARNESS, "faultshim.c"), "-ldl"])
    if r.returncode != 0:
        raise BuildError("faultshim: " + r.stdout[-2000:])
    trees = [
        ("mixed", S("top", items=[S("inner", items=[T("a", body=["P", "F"]), T("b", body=["P"])]), T("c", body=["P", "P"]), T("d", body=["S", "P"]), T("x", x=1, body=["P"])]), "a"),
        ("one failing test", S("top", items=[T("a", body=["F"])]), "a"),
        ("nested", S("top", items=[S("in1", items=[S("in2", items=[T("a", body=["P"])])]), T("b", body=["F", "P", "F"]), T("c", body=["P"])]), "b"),
        ("failing test last", S("top", items=[S("in1", items=[T("p", body=["P"])]), T("q", body=["P"]), T("z", body=["P", "F"])]), "z"),
        ("with a crashing test", S("top", items=[T("a", body=["P"]), T("b", body=["F", "K11"]), T("c", body=["F"])]), "c"),
        ("the failing test ignores SIGPIPE (as network code does)", S("top", items=[T("a", body=["P"]), T("b", body=["IP", "P", "F", "P"]), T("c", body=["P"])]), "b"),
        ("more results than the channel holds", S("top", items=[T("big", body=["P"] * 4200 + ["F"]), T("after", body=["F"])]), "after"),
        ("a test that ends its process itself after a failed check (exit(0) in code under test)", S("top", items=[T("a", body=["P"]), T("b", body=["F", "E"]), T("c", body=["P"])]), "b"),
    ]
    configs = []
    for lab, root, single in trees:
        for mode in ("fork", "inproc", f"single:{single}"):
            if lab == "with a crashing test" and mode == "inproc":
                continue
            for rep in ("text", "xml"):
                configs.append((lab, Scen(root, mode=mode), rep))

    # the legs this check feeds to the channel model are the legs of the runner model's tree (Tree.legs, about which
    # C19_channel_model_abstracts_the_runner is proved)
    lscens = [sc for lab, sc, rep in configs if rep == "text" and lab != "more results than the channel holds"]
    louts = run_model(["legs"], "".join(sc.text() + "---\n" for sc in lscens)).split("---\n")
    nleg = sum(1 for sc, lo in zip(lscens, louts) if lo.strip().split("\n") != legs_of(sc))
    bad = next(((sc, lo) for sc, lo in zip(lscens, louts) if lo.strip().split("\n") != legs_of(sc)), None)
    ctx.oblige("the legs fed to the channel model are the legs of the runner model's tree (modeldrv legs = legs_of)", nleg == 0,
               "" if bad is None else f"{bad[0].mode}: model {bad[1].strip().split(chr(10))} check {legs_of(bad[0])}\n{bad[0].text()}")

    def run_one(job):
        i, sc, rep, fault = job
        wd = os.path.join(ctx.work, f"c19-{i}")
        log = os.path.join(ctx.work, f"c19-{i}.log")
        env = {"LD_PRELOAD": shim, "FAULT_LOG": log}
        if fault: env["FAULT"] = fault
        try:
            o = run_impl(bench.exe, sc.text(), rep, wd, env=env, timeout=30)
            try: o.faultlog = open(log).read().split("\n")
            except OSError: o.faultlog = []
            return o
        finally:
            shutil.rmtree(wd, ignore_errors=True)
            try: os.unlink(log)
            except OSError: pass
    with ThreadPoolExecutor(max_workers=NCPU) as pool:
        refs = list(pool.map(run_one, [(f"ref{i}", sc, rep, None) for i, (_, sc, rep) in enumerate(configs)]))
    jobs, meta = [], []
    reached = {c: 0 for c in FAULT_CALLS}
    for ci, ((lab, sc, rep), o) in enumerate(zip(configs, refs)):
        counts = {l.split(" ")[0]: int(l.split(" ")[1]) for l in o.faultlog if l and l.split(" ")[0] in FAULT_CALLS}
        if o.timeout or status_of(o) in ("0", "exit0"):
            ctx.oblige("C19 reference runs (shim loaded, no fault) end with a failing verdict", False, f"{lab} {sc.mode} {rep}: status {status_of(o)}, counters {counts}")
            continue
        if not counts:
            continue      # the reference run itself is ended by a signal (too many results in one process): nothing to inject into
        for call in FAULT_CALLS:
            n = counts.get(call, 0)
            reached[call] = max(reached[call], n)
            ks = list(range(1, n + 1))
            if n > 40:
                ks = sorted(set(list(range(1, 9)) + [n // 2, n // 2 + 1] + list(range(n - 6, n + 1)) + ([4090, 4095, 4096, 4097, 4098] if n > 4100 else [])))
                ks = [k for k in ks if 1 <= k <= n]
                if ctx.tier == "thorough":
                    ks = sorted(set(ks + list(range(1, n + 1, max(1, n // 150)))))
            for k in ks:
                jobs.append((f"{ci}-{call}-{k}", sc, rep, f"{call}:{k}")); meta.append((lab, sc, rep, call, k))
    with ThreadPoolExecutor(max_workers=NCPU) as pool:
        obs = list(pool.map(run_one, jobs))
    shown = {}
    nfired = 0
    model_in, model_meta = [], []
    for (lab, sc, rep, call, k), o in zip(meta, obs):
        fired = [l for l in o.faultlog if l.startswith("fired ")]
        if not fired:
            continue
        nfired += 1
        st = status_of(o)
        where = "test process" if fired[0].endswith(" 1") else "reporting process"
        case = f"# reporter: {rep}   LD_PRELOAD=harness/faultshim.so FAULT={call}:{k} harness/scenario_run <file> {rep} <outdir>\n" + (sc.text() if len(sc.text()) < 3000 else sc.text()[:600] + "\n# ... (" + lab + ")")
        what = None
        if o.timeout:
            what = "the run does not terminate (still running after 30 s)"
        elif st in ("0", "exit0"):
            what = f"the run reports success (status {st}) although a test fails"
        if what:
            key = (call, what[:20], sc.mode.split(":")[0])
            if shown.get(key, 0) < 1:
                shown[key] = 1
                ctx.violation(f"[C19] {lab}, {sc.mode}, {rep} reporter, call #{k} of {call} fails (in the {where}): {what}", case, found_input=True,
                              facts={"call": call, "mode": sc.mode.split(":")[0], "hang": bool(o.timeout)})
        # correspondence: counters after a failing read, against the model
        if rep == "text" and call in ("read", "fcntl") and st in ("0", "1") and not (call == "fcntl" and k == 1) and lab != "more results than the channel holds":
            kk = k - 1 if call == "read" else k - 2
            model_in.append("\n".join([f"k {kk}"] + legs_of(sc)) + "\n---\n"); model_meta.append((lab, sc, call, k, o))
    ndis = 0
    if model_in:
        outs = run_model(["faults"], "".join(model_in)).split("\n")[:-1]
        for (lab, sc, call, k, o), mo in zip(model_meta, outs):
            w = mo.split(" ")
            want = w[1:5]
            got = observed_totals(o, "text")
            if got is None or [str(int(x)) for x in got] != want:
                ndis += 1
                if ndis <= 3:
                    ctx.oblige("correspondence C19 (counters after a failing read)", False, f"{lab} {sc.mode} {call}:{k}: model (passes failures skips exceptions) {want}, text reporter {got}")
    ctx.oblige("correspondence C19: the totals of every run with a failing read are what the model says", ndis == 0, f"{ndis} of {len(model_in)} disagree")
    ctx.oblige("C19: faults were injected and fired", nfired > 50, f"{nfired} fired")
    ctx.coverage["correspondence"] = {"cases": len(model_in), "disagreements": ndis}
    ctx.coverage["fault_runs"] = len(jobs)
    ctx.coverage["faults_fired"] = nfired
    ctx.coverage["calls_reached_in_reference_runs"] = reached
    ctx.coverage["configurations"] = len(configs)
    ctx.coverage["samples"] = [f"{m[0]} / {m[1].mode} / {m[2]} / {m[3]}:{m[4]}" for m in meta[:3]]
    ctx.coverage["evaluations"] = len(jobs) + len(refs)
    ctx.coverage["distinct_nontrivial"] = nfired
