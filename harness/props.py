"""One function per property: check_Cxx(ctx)."""
import random
from common import *
from scenario import *
from runner_checks import *


def sizes(ctx, quick, thorough):
    return quick if ctx.tier == "quick" else thorough


def runner_lean(ctx):
    ok, out, failed = lean_check(ctx)
    return ok


def check_C01(ctx):
    runner_lean(ctx)
    rng = random.Random(ctx.seed * 1000 + 1)
    bench = Bench(ctx)
    n = sizes(ctx, 60, 1500)
    scens = []
    for mode in ("fork", "inproc"):
        for s in small_scope(rng, sizes(ctx, 25, 300)):
            s.mode = mode; scens.append(s)
        for _ in range(n // 2):
            scens.append(Scen(gen_tree(rng), mode=mode))
    reporters = ["text", "quiet", "cute"]
    dis, orf = explore(ctx, bench, scens, reporters, oracle_C01, "C01")
    report(ctx, bench, dis, orf, oracle_C01, "C01")
    ctx.coverage["samples"] = sample_of(scens)
    ctx.coverage["rule"] = "scenario = suite tree x behaviour per test x mode, each run under every listed reporter; small-scope shapes + random structured trees"
    ctx.coverage["evaluations"] = ctx.coverage["correspondence"]["cases"]
    ctx.coverage["distinct_nontrivial"] = len({s.text() for s in scens if any(a != "P" for _, t in s.root.tests() for a in t.acts())})


def check_C03(ctx):
    runner_lean(ctx)
    rng = random.Random(ctx.seed * 1000 + 3)
    bench = Bench(ctx)
    scens = small_scope(rng, sizes(ctx, 40, 400)) + [Scen(gen_tree(rng, max_tests=14)) for _ in range(sizes(ctx, 60, 1500))]
    reporters = ["text", "quiet", "cute"]
    dis, orf = explore(ctx, bench, scens, reporters, oracle_C03, "C03")
    report(ctx, bench, dis, orf, oracle_C03, "C03")
    ctx.coverage["samples"] = sample_of(scens)
    ctx.coverage["evaluations"] = ctx.coverage["correspondence"]["cases"]
    ctx.coverage["distinct_nontrivial"] = len({s.text() for s in scens})


KILL_POINTS = ["before_setup", "after_setup", "after_body", "after_teardown", "after_tally", "before_write", "after_write",
               "after_completion", "at_exit"]
KILL_HOWS = ["11", "9", "6", "15", "13", "exit", "_exit"]


def oracle_C02(scen, m, o, reporter):
    """The dying test is one exception, what it delivered is counted, the verdict is failure, the others
    are reported as their own truth says (= as when the dying test is absent)."""
    e = oracle_C03(scen, m, o, reporter)
    if e:
        return e
    if m.truth[3] > 0 and status_of(o) != "1":
        return f"a test ended abnormally (truth {m.truth}) but the verdict is {status_of(o)}"
    return None


def c02_facts(scen, m):
    f = facts_of(scen, m)
    if scen.kill:
        f["kill_point"] = scen.kill[0]
        f["kill_how"] = scen.kill[2]
        f["late_abort"] = scen.kill[0] in ("after_completion", "at_exit") and scen.kill[2] == "6"
    return f


def check_C02(ctx):
    runner_lean(ctx)
    rng = random.Random(ctx.seed * 1000 + 2)
    bench = Bench(ctx)
    scens = []
    # systematic: every kill point x every way of dying x position of the dying test x history class
    histories = {
        "plain": lambda: [T("h1", body=["P", "F"]), T("h2", body=["P"])],
        "skipping": lambda: [T("h1", body=["S", "P"]), T("h2", x=1, body=["P"])],
        "dying": lambda: [T("h1", body=["P", "K11"]), T("h2", body=["F", "E"])],
    }
    victims = [lambda: T("v", ctx=1, body=["P", "F", "MF", "P"], setup=["P"], teardown=["F"]),
               lambda: T("v", body=["F"]), lambda: T("v", body=[]), lambda: T("v", body=["P", "S", "F"])]
    n = 0
    for point in KILL_POINTS:
        for how in KILL_HOWS:
            for hname, h in histories.items():
                n += 1
                if ctx.tier == "quick" and (n + ctx.seed) % 3 != 0:
                    continue
                v = victims[n % len(victims)]()
                occs = [1] if point not in ("before_write", "after_write") else [1, 2, 5, 6, 7]
                for occ in occs:
                    pos = n % 3
                    items = h()
                    post = [T("p1", body=["P", "F"]), T("p2", body=["MP"])]
                    tests = items[:pos] + [v] + items[pos:] + post
                    root = S("top", items=[S("inner", su=n % 2, td=(n // 2) % 2, items=tests[:3]), *tests[3:]])
                    scens.append(Scen(root, kill=(point, occ, how, "v")))
    # random: die acts anywhere in random trees
    for _ in range(sizes(ctx, 150, 3000)):
        scens.append(Scen(gen_tree(rng, max_tests=8)))
    reporters = ["text", "cute"]
    dis, orf = explore(ctx, bench, scens, reporters, oracle_C02, "C02")
    global facts_of_saved
    report(ctx, bench, dis, orf, oracle_C02, "C02", facts_fn=c02_facts)
    # differential: the same run without the dying test gives the other tests the same results
    sub = [s for s in scens if s.kill][: sizes(ctx, 40, 400)]
    without = []
    for s in sub:
        c = s.copy(); c.kill = None
        for su in c.root.suites():
            su.items = [i for i in su.items if not (isinstance(i, T) and i.name == "v")]
        without.append(c)
    a = bench.run_many([(s.text(), "text") for s in sub])
    b = bench.run_many([(s.text(), "text") for s in without])
    bad = 0
    for s, oa, ob in zip(sub, a, b):
        pa = observed_per_test(oa, "text", s); pb = observed_per_test(ob, "text", s)
        for path in pb:
            if path.endswith("/v"):
                continue
            if pa.get(path) != pb.get(path):
                bad += 1
                ctx.violation(f"[C02] test {path} is reported differently when test v dies ({s.kill}) than when v is absent: {pa.get(path)} vs {pb.get(path)}",
                              s.text(), found_input=True, facts={"kill_point": s.kill[0]})
                break
    ctx.coverage["differential_pairs"] = len(sub)
    ctx.coverage["samples"] = sample_of(scens)
    ctx.coverage["evaluations"] = ctx.coverage["correspondence"]["cases"] + 2 * len(sub)
    ctx.coverage["distinct_nontrivial"] = len({s.text() for s in scens})
    ctx.coverage["kill_points"] = KILL_POINTS
    ctx.coverage["ways_of_dying"] = KILL_HOWS


def measure_cap(bench):
    s = Scen(S("top", items=[T("big", body=["P"] * 20000)]))
    o = bench.run_many([(s.text(), "text")])[0]
    tot = observed_totals(o, "text")
    return int(tot[0])


def oracle_C18(scen, m, o, reporter):
    if status_of(o) == "timeout":
        return "run did not terminate"
    if scen.mode == "fork":
        e = oracle_C03(scen, m, o, reporter)
        if e:
            return e
        return oracle_C01(scen, m, o, reporter)
    # in-process: the writer owns the verdict; an overflow ends the run with a failing (signal) status
    st = status_of(o)
    overflow = any(len([a for a in t.acts() if a in ("P", "F", "S")]) + 1 > scen.cap for _, t in scen.root.tests())
    if overflow:
        if st in ("0", "exit0"):
            return f"a test overflowed the result channel in-process but the run ended with status {st}"
        return None
    return oracle_C03(scen, m, o, reporter) or oracle_C01(scen, m, o, reporter)


def check_C18(ctx):
    runner_lean(ctx)
    rng = random.Random(ctx.seed * 1000 + 18)
    bench = Bench(ctx)
    cap = measure_cap(bench)
    ctx.coverage["measured_capacity_records"] = cap
    ctx.oblige("the result channel has a finite measured capacity (model parameter `cap`)", cap > 0, str(cap))
    ks = [0, 1, cap - 2, cap - 1, cap, cap + 1, cap + 2, 2 * cap, 2 * cap + 1, 3 * cap - 1]
    if ctx.tier == "thorough":
        ks += [cap - 3, cap + 3, cap // 2, 2 * cap - 1, 3 * cap, 3 * cap + 7] + [rng.randrange(cap - 50, cap + 50) for _ in range(10)]
    scens = []
    for k in ks:
        for what in ("P", "F", "mix"):
            body = [what] * k if what != "mix" else [rng.choice("PF") for _ in range(k)]
            for pos in (0, 1, 2):
                for mode in ("fork", "inproc"):
                    if ctx.tier == "quick" and (len(scens) + ctx.seed) % 2 == 1 and k not in (cap - 1, cap, cap + 1):
                        scens.append(None); continue
                    # with all-pass neighbours the overflow is the only thing wrong in the run
                    others = [T("a", body=["P", "F"] if what != "P" else ["P", "P"]), T("b", body=["P"])]
                    tests = others[:pos] + [T("big", body=body)] + others[pos:]
                    root = S("top", items=[S("inner", items=tests[:2]), tests[2]]) if pos != 1 else S("top", items=tests)
                    scens.append(Scen(root, mode=mode, cap=cap))
    scens = [s for s in scens if s is not None]
    dis, orf = explore(ctx, bench, scens, ["text", "cute"], oracle_C18, "C18", check_events=True)
    report(ctx, bench, dis, orf, oracle_C18, "C18")
    ctx.coverage["samples"] = [f"k={len(t.body)} checks in test 'big', mode {s.mode}" for s in scens[:6] for _, t in s.root.tests() if t.name == "big"]
    ctx.coverage["evaluations"] = ctx.coverage["correspondence"]["cases"]
    ctx.coverage["distinct_nontrivial"] = len({s.text() for s in scens})
    ctx.coverage["check_counts"] = sorted(set(ks))


def expected_phases(su, td, t):
    ph = []
    if su: ph.append("suiteSetup")
    elif t.ctx: ph.append("ctxSetup")
    ph.append("body")
    if td: ph.append("suiteTeardown")
    elif t.ctx: ph.append("ctxTeardown")
    return ph


def oracle_C08(scen, m, o, reporter):
    """Judged on the implementation's own event log: per executed test the phases are a prefix of
    setup/body/teardown (all of them when the test completes), in one process; xEnsure tests log nothing;
    a suite's fixtures bracket each sub-suite once, in the runner's process."""
    evs = [l.split(" ") for l in o.events if l.startswith("ev ")]
    by_path = {}
    for _, pid, path, ph in evs:
        by_path.setdefault(path, []).append((pid, ph))
    single = scen.mode[7:] if scen.mode.startswith("single:") else None
    errs = []

    def walk(s, path, reached):
        p = path + [s.name]
        subs = [i for i in s.items if isinstance(i, S)]
        if single is not None:
            subs = [c for c in subs if any(t.name == single for _, t in c.tests())]
        # brackets: events logged at the suite's own path
        got = by_path.get("/".join(p), [])
        if reached:
            want = []
            for c in subs:
                if s.su: want.append("suiteSetup")
                if s.td: want.append("suiteTeardown")
            if status_of(o) in ("0", "1"):
                if [ph for _, ph in got] != want:
                    errs.append(f"suite {'/'.join(p)}: fixture events around sub-suites {[ph for _, ph in got]}, expected {want}")
                if any(pid != "0" for pid, _ in got):
                    errs.append(f"suite {'/'.join(p)}: sub-suite fixtures ran outside the runner's process")
        for c in subs:
            walk(c, p, reached)
        for t in s.items:
            if not isinstance(t, T):
                continue
            tp = "/".join(p + [t.name])
            got = by_path.get(tp, [])
            if t.x or (single is not None and t.name != single):
                if got:
                    errs.append(f"test {tp} must not run anything but logged {got}")
                continue
            want = expected_phases(s.su, s.td, t)
            seq = [ph for _, ph in got]
            if seq != want[:len(seq)]:
                errs.append(f"test {tp}: phases {seq} are not a prefix of {want}")
            if len({pid for pid, _ in got}) > 1:
                errs.append(f"test {tp}: phases ran in several processes {got}")
            tt = per_test_truth(m).get(tp)
            completes = tt is not None and tt[3] == 0
            if completes and status_of(o) in ("0", "1") and seq != want:
                errs.append(f"test {tp} completed but its phases were {seq}, expected {want}")
            if got and scen.mode == "fork" and got[0][0] == "0":
                errs.append(f"test {tp}: test code ran in the runner's process in forking mode")
    walk(scen.root, [], True)
    return "; ".join(errs[:3]) if errs else None


def check_C08(ctx):
    runner_lean(ctx)
    rng = random.Random(ctx.seed * 1000 + 8)
    bench = Bench(ctx)
    scens = []
    # systematic fixture combinations x outcomes
    outcomes = {"pass": ["P"], "fail": ["F", "P"], "skip": ["S", "P"], "die": ["P", "K11", "P"], "exit": ["E"], "mock": ["MF", "MP"]}
    for su in (0, 1):
        for td in (0, 1):
            for ctxv in (0, 1):
                for oname, body in outcomes.items():
                    t = T("t", ctx=ctxv, body=body, setup=["P"] if ctxv else [], teardown=["F"] if ctxv and oname == "fail" else [])
                    root = S("top", su=su, td=td, items=[S("sub", su=td, td=su, items=[T("u", ctx=ctxv, body=["P"]), T("x", x=1, body=["P"])]), t])
                    for mode in ("fork", "inproc", "single:t", "single:u", "single:x"):
                        if mode != "fork" and oname in ("die", "exit") and ctx.tier == "quick" and (su + td + ctxv) % 2:
                            continue
                        scens.append(Scen(root.copy(), mode=mode))
    for _ in range(sizes(ctx, 80, 2000)):
        tree = gen_tree(rng, max_tests=8)
        mode = rng.choice(["fork", "fork", "inproc"])
        if rng.random() < 0.25:
            names = [t.name for _, t in tree.tests()]
            if names:
                mode = "single:" + rng.choice(names)
        scens.append(Scen(tree, mode=mode))
    dis, orf = explore(ctx, bench, scens, ["text"], oracle_C08, "C08", check_events=True)
    report(ctx, bench, dis, orf, oracle_C08, "C08")
    ctx.coverage["samples"] = sample_of(scens)
    ctx.coverage["evaluations"] = ctx.coverage["correspondence"]["cases"]
    ctx.coverage["distinct_nontrivial"] = len({s.text() for s in scens})
