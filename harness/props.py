"""One function per property: check_Cxx(ctx)."""
import random
from common import *
from scenario import *
from runner_checks import *


def sizes(ctx, quick, thorough):
    return quick if ctx.tier == "quick" else thorough


def runner_lean(ctx):
    ok, out, failed = lean_check(ctx)
    return ok


def check_C01(ctx):
    runner_lean(ctx)
    rng = random.Random(ctx.seed * 1000 + 1)
    bench = Bench(ctx)
    n = sizes(ctx, 60, 1500)
    scens = []
    for mode in ("fork", "inproc"):
        for s in small_scope(rng, sizes(ctx, 25, 300)):
            s.mode = mode; scens.append(s)
        for _ in range(n // 2):
            scens.append(Scen(gen_tree(rng), mode=mode))
    reporters = ["text", "quiet", "cute"]
    dis, orf = explore(ctx, bench, scens, reporters, oracle_C01, "C01")
    report(ctx, bench, dis, orf, oracle_C01, "C01")
    ctx.coverage["samples"] = sample_of(scens)
    ctx.coverage["rule"] = "scenario = suite tree x behaviour per test x mode, each run under every listed reporter; small-scope shapes + random structured trees"
    ctx.coverage["evaluations"] = ctx.coverage["correspondence"]["cases"]
    ctx.coverage["distinct_nontrivial"] = len({s.text() for s in scens if any(a != "P" for _, t in s.root.tests() for a in t.acts())})


def check_C03(ctx):
    runner_lean(ctx)
    rng = random.Random(ctx.seed * 1000 + 3)
    bench = Bench(ctx)
    scens = small_scope(rng, sizes(ctx, 40, 400)) + [Scen(gen_tree(rng, max_tests=14)) for _ in range(sizes(ctx, 60, 1500))]
    reporters = ["text", "quiet", "cute"]
    dis, orf = explore(ctx, bench, scens, reporters, oracle_C03, "C03")
    report(ctx, bench, dis, orf, oracle_C03, "C03")
    ctx.coverage["samples"] = sample_of(scens)
    ctx.coverage["evaluations"] = ctx.coverage["correspondence"]["cases"]
    ctx.coverage["distinct_nontrivial"] = len({s.text() for s in scens})


KILL_POINTS = ["before_setup", "after_setup", "after_body", "after_teardown", "after_tally", "before_write", "after_write",
               "after_completion", "at_exit"]
KILL_HOWS = ["11", "9", "6", "15", "13", "exit", "_exit"]


def oracle_C02(scen, m, o, reporter):
    """The dying test is one exception, what it delivered is counted, the verdict is failure, the others
    are reported as their own truth says (= as when the dying test is absent)."""
    e = oracle_C03(scen, m, o, reporter)
    if e:
        return e
    if m.truth[3] > 0 and status_of(o) != "1":
        return f"a test ended abnormally (truth {m.truth}) but the verdict is {status_of(o)}"
    return None


def c02_facts(scen, m):
    f = facts_of(scen, m)
    if scen.kill:
        f["kill_point"] = scen.kill[0]
        f["kill_how"] = scen.kill[2]
        f["late_abort"] = scen.kill[0] in ("after_completion", "at_exit") and scen.kill[2] == "6"
    return f


def check_C02(ctx):
    runner_lean(ctx)
    rng = random.Random(ctx.seed * 1000 + 2)
    bench = Bench(ctx)
    scens = []
    # systematic: every kill point x every way of dying x position of the dying test x history class
    histories = {
        "plain": lambda: [T("h1", body=["P", "F"]), T("h2", body=["P"])],
        "skipping": lambda: [T("h1", body=["S", "P"]), T("h2", x=1, body=["P"])],
        "dying": lambda: [T("h1", body=["P", "K11"]), T("h2", body=["F", "E"])],
    }
    victims = [lambda: T("v", ctx=1, body=["P", "F", "MF", "P"], setup=["P"], teardown=["F"]),
               lambda: T("v", body=["F"]), lambda: T("v", body=[])]
    n = 0
    for point in KILL_POINTS:
        for how in KILL_HOWS:
            for hname, h in histories.items():
                n += 1
                if ctx.tier == "quick" and (n + ctx.seed) % 3 != 0:
                    continue
                v = victims[n % len(victims)]()
                occs = [1] if point not in ("before_write", "after_write") else [1, 2, 5, 6, 7]
                for occ in occs:
                    pos = n % 3
                    items = h()
                    post = [T("p1", body=["P", "F"]), T("p2", body=["MP"])]
                    tests = items[:pos] + [v] + items[pos:] + post
                    root = S("top", items=[S("inner", su=n % 2, td=(n // 2) % 2, items=tests[:3]), *tests[3:]])
                    scens.append(Scen(root, kill=(point, occ, how, "v")))
    # random: die acts anywhere in random trees
    for _ in range(sizes(ctx, 150, 3000)):
        scens.append(Scen(gen_tree(rng, max_tests=8)))
    reporters = ["text", "cute"]
    dis, orf = explore(ctx, bench, scens, reporters, oracle_C02, "C02")
    global facts_of_saved
    report(ctx, bench, dis, orf, oracle_C02, "C02", facts_fn=c02_facts)
    # differential: the same run without the dying test gives the other tests the same results
    sub = [s for s in scens if s.kill][: sizes(ctx, 40, 400)]
    without = []
    for s in sub:
        c = s.copy(); c.kill = None
        for su in c.root.suites():
            su.items = [i for i in su.items if not (isinstance(i, T) and i.name == "v")]
        without.append(c)
    a = bench.run_many([(s.text(), "text") for s in sub])
    b = bench.run_many([(s.text(), "text") for s in without])
    bad = 0
    for s, oa, ob in zip(sub, a, b):
        pa = observed_per_test(oa, "text", s); pb = observed_per_test(ob, "text", s)
        for path in pb:
            if path.endswith("/v"):
                continue
            if pa.get(path) != pb.get(path):
                bad += 1
                ctx.violation(f"[C02] test {path} is reported differently when test v dies ({s.kill}) than when v is absent: {pa.get(path)} vs {pb.get(path)}",
                              s.text(), found_input=True, facts=c02_facts(s, None) if False else {"kill_point": s.kill[0]})
                break
    ctx.coverage["differential_pairs"] = len(sub)
    ctx.coverage["samples"] = sample_of(scens)
    ctx.coverage["evaluations"] = ctx.coverage["correspondence"]["cases"] + 2 * len(sub)
    ctx.coverage["distinct_nontrivial"] = len({s.text() for s in scens})
    ctx.coverage["kill_points"] = KILL_POINTS
    ctx.coverage["ways_of_dying"] = KILL_HOWS
