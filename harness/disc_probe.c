/* Correspondence harness for the discoverer (tools/discoverer.c): the real discover_tests_in(), compiled from /repo's
   working tree with `nm` replaced by `cat`, so that the "library" is a text file holding the symbol listing itself.
   usage: disc_probe <listing-file>...   -> one line per file: n=<count> <ctx-hex>:<name-hex>:<spec-hex> ... */
#ifndef NM_EXECUTABLE
#define NM_EXECUTABLE "cat"
#endif
#include "discoverer.c"

static void hex(const char *s) {
    if (!*s) { putchar('-'); return; }
    for (; *s; s++) printf("%02x", (unsigned char)*s);
}

int main(int argc, char **argv) {
    int i, k;
    for (i = 1; i < argc; i++) {
        CgreenVector *tests = discover_tests_in(argv[i], false);
        if (tests == NULL) { printf("none\n"); continue; }
        printf("n=%d", cgreen_vector_size(tests));
        for (k = 0; k < cgreen_vector_size(tests); k++) {
            TestItem *t = (TestItem *)cgreen_vector_get(tests, k);
            putchar(' '); hex(t->context_name); putchar(':'); hex(t->test_name); putchar(':'); hex(t->specification_name);
        }
        putchar('\n');
        fflush(stdout);
        destroy_cgreen_vector(tests);
    }
    return 0;
}
