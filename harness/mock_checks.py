"""C06 / C07: correspondence of Model.Mocks with the real mocks.c on generated operation histories
(state compared after every step through the queue-dump hook) + the per-function FIFO specification as
the property oracle + an independent arithmetic oracle for the strict-mock counting statements."""
import random, subprocess, os
from common import *

ARITY = [0, 1, 2, 3]


def gen_decl(rng, kinds=("expect", "expect", "expect", "always", "never"), times_range=(0, 5), fns=4, side=0.0):
    k = rng.choice(kinds)
    f = rng.randrange(fns)
    toks = [k, str(f)]
    if k == "expect" and rng.random() < 0.4:
        toks.append("t%d" % rng.randint(*times_range))
    if k != "never":
        if rng.random() < 0.5:
            toks.append("r%d" % rng.choice([1, 7, -3, 42, 5000000000]))
        for p in range(ARITY[f]):
            if rng.random() < 0.35:
                toks.append("w%d:%s:%d" % (p, rng.choice(["eq", "eq", "ne", "lt", "gt"]), rng.choice([0, 1, 2, 3])))
                if rng.random() < 0.3:      # a second clause for the same parameter (a range, say): every one of them is checked
                    toks.append("w%d:%s:%d" % (p, rng.choice(["ne", "lt", "gt"]), rng.choice([0, 1, 2, 3])))
        if ARITY[f] < 3 and rng.random() < 0.07:      # a clause naming a parameter the mock does not pass
            toks.append("w%d:%s:%d" % (rng.randrange(ARITY[f], 3), rng.choice(["eq", "ne"]), rng.choice([0, 1])))
    if k != "never" and f < fns - 1 and rng.random() < side:
        g = rng.choice([x for x in range(fns) if x > f])      # callbacks only call "later" functions: no mutual recursion in the test program
        toks.append("s%d:%s" % (g, ",".join(str(rng.choice([0, 1, 2, 3])) for _ in range(ARITY[g]))))
    return " ".join(toks)


def gen_call(rng, fns=4):
    f = rng.randrange(fns)
    return " ".join(["call", str(f)] + [str(rng.choice([0, 1, 2, 3])) for _ in range(ARITY[f])])


def gen_history(rng, n, **kw):
    ops = []
    if rng.random() < 0.15:
        ops.append("mode " + rng.choice(["loose", "learning"]))
    for _ in range(n):
        r = rng.random()
        if r < 0.45: ops.append(gen_decl(rng, **kw))
        elif r < 0.955: ops.append(gen_call(rng))
        elif r < 0.975: ops.append("mode " + rng.choice(["loose", "learning", "strict"]))      # the mode selected after declarations have been made: they stay
        else: ops.append("tally")
    ops.append("tally")
    return ops


def gen_long_history(rng, n):
    """Many declarations first (crossing the vector growth steps), then calls consuming head/middle/tail."""
    ops = []
    for i in range(n):
        f = rng.randrange(4)
        toks = ["expect", str(f)]
        if rng.random() < 0.2: toks.append("t%d" % rng.randint(1, 3))
        toks.append("r%d" % i)
        ops.append(" ".join(toks))
    for _ in range(n + 20):
        ops.append(gen_call(rng))
    ops.append("tally")
    return ops


def run_impl_ops(exe, blocks, env=None, timeout=300):
    inp = "".join("\n".join(b) + "\n---\n" for b in blocks)
    r = subprocess.run([exe], input=inp.encode(), stdout=subprocess.PIPE, stderr=subprocess.PIPE, env=env, timeout=timeout)
    # the probe's functions are called f0, f1, f1_b, f1_bc (prefixes of one another); the protocol numbers them f0..f3
    out = r.stdout.decode("latin-1").replace("(f1_bc,", "(f3,").replace("(f1_b,", "(f2,")
    res, cur = [], []
    for l in out.split("\n"):
        if l == "---":
            res.append(cur); cur = []
        elif l.startswith("out "):
            cur.append(l)
    return res, r.returncode, r.stderr.decode("latin-1")[-8000:]


def run_model_ops(cmd, blocks):
    out = run_model([cmd], "".join("\n".join(b) + "\n---\n" for b in blocks))
    res, cur = [], []
    for l in out.split("\n"):
        if l == "---":
            res.append(cur); cur = []
        elif l:
            cur.append(l)
    return res


def outs_of(line):
    """'out a b | q ...' -> ['a','b'] (checks and return value); 'out a b' likewise."""
    body = line[4:]
    if " | q " in body or body.endswith("| q "):
        body = body.split("| q ")[0]
    return [x for x in body.strip().split(" ") if x]


def queue_of(line):
    return line.split("| q ", 1)[1].strip() if "| q " in line else None


def first_diff(ops, a, b, what):
    for i, (x, y) in enumerate(zip(a, b)):
        if what(x) != what(y):
            return i
    if len(a) != len(b):
        return min(len(a), len(b))
    return None


def shrink_ops(ops, fails, budget=80):
    cur = list(ops)
    n = 0
    changed = True
    while changed and n < budget:
        changed = False
        for i in range(len(cur)):
            cand = cur[:i] + cur[i + 1:]
            n += 1
            if n > budget: break
            if cand and fails(cand):
                cur = cand; changed = True; break
    return cur
