"""Runner scenarios: generation, execution on the real library and on the Lean model, canonical
projections per reporter, comparison, shrinking.

Scenario grammar (one text, read by harness/scenario_run.c and by lean/Driver/Scenario.lean):
    cfg <cap> <fork|inproc|single:<name>>
    begin <suite-name> <has-setup 0|1> <has-teardown 0|1>
    test <name> <xEnsure 0|1> <context 0|1> <body acts>;<context setup acts>;<context teardown acts>
    end
  acts: P passing check, F failing check, S skip_test(), MP mock declaration that passes at tally
        (never_expect, honoured), MF mock declaration that fails at tally (expect, never called),
        K<n> die by signal n, E exit(0), U _exit(0), Z overrun the time limit
  `begin`/`test` lines may interleave inside a suite, in registration order.
"""
import os, re, subprocess, shutil, json, random, xml.parsers.expat
from concurrent.futures import ThreadPoolExecutor
from common import *

SIGS = [11, 9, 6, 15, 13]     # SIGSEGV SIGKILL SIGABRT SIGTERM SIGPIPE


# ------------------------------------------------------------------------------------------------
# data
# ------------------------------------------------------------------------------------------------
class T:   # test
    def __init__(self, name, x=0, ctx=0, body=(), setup=(), teardown=()):
        self.name, self.x, self.ctx = name, x, ctx
        self.body, self.setup, self.teardown = list(body), list(setup), list(teardown)

    def line(self):
        return f"test {self.name} {self.x} {self.ctx} {' '.join(self.body)};{' '.join(self.setup)};{' '.join(self.teardown)}"

    def copy(self):
        return T(self.name, self.x, self.ctx, self.body, self.setup, self.teardown)

    def acts(self):
        return self.body + (self.setup + self.teardown if self.ctx else [])


class S:   # suite
    def __init__(self, name, su=0, td=0, items=None):
        self.name, self.su, self.td = name, su, td
        self.items = items or []

    def lines(self):
        out = [f"begin {self.name} {self.su} {self.td}"]
        if getattr(self, "fixture", None):      # (setup acts, teardown acts) executed by the suite's fixtures
            out.append("fixture " + " ".join(self.fixture[0]) + ";" + " ".join(self.fixture[1]))
        for it in self.items:
            if getattr(it, "file", None) is not None:
                out.append("file " + it.file.encode("latin-1").hex())
            out += it.lines() if isinstance(it, S) else [it.line()]
        return out + ["end"]

    def copy(self):
        c = S(self.name, self.su, self.td, [i.copy() for i in self.items])
        if getattr(self, "fixture", None): c.fixture = self.fixture
        return c

    def tests(self, path=()):
        p = path + (self.name,)
        for it in self.items:
            if isinstance(it, S):
                yield from it.tests(p)
            else:
                yield p + (it.name,), it

    def suites(self):
        yield self
        for it in self.items:
            if isinstance(it, S):
                yield from it.suites()


class Scen:
    def __init__(self, root, mode="fork", cap=4096, kill=None):
        self.root, self.mode, self.cap, self.kill = root, mode, cap, kill

    def text(self):
        ls = [f"cfg {self.cap} {self.mode}"]
        if self.kill:
            ls.append("kill " + " ".join(str(x) for x in self.kill))
        if getattr(self, "pre", None):
            ls.append("pre " + " ".join(self.pre))
        if getattr(self, "again", None):
            ls.append("again " + " ".join(self.again))
        if getattr(self, "rerun", None):
            ls.append("rerun")
        return "\n".join(ls + self.root.lines()) + "\n"

    def copy(self):
        c = Scen(self.root.copy(), self.mode, self.cap, self.kill)
        if getattr(self, "pre", None): c.pre = self.pre
        if getattr(self, "rerun", None): c.rerun = self.rerun
        return c


# ------------------------------------------------------------------------------------------------
# generation
# ------------------------------------------------------------------------------------------------
def gen_acts(rng, n, p_fail=0.25, p_skip=0.05, p_mock=0.1, die=None, die_at=None):
    acts = []
    for i in range(n):
        r = rng.random()
        if r < p_fail: acts.append("F")
        elif r < p_fail + p_skip: acts.append("S")
        elif r < p_fail + p_skip + p_mock: acts.append(rng.choice(["MP", "MF"]))
        else: acts.append("P")
    if die is not None:
        k = rng.randrange(len(acts) + 1) if die_at is None else die_at
        acts.insert(k, die)
    return acts


BEHAVIOURS = ["pass", "fail", "empty", "xskip", "skip", "signal", "exit", "mixed", "mock", "skipfail", "ctxfail", "ctxdie", "ctxmock"]


def gen_test(rng, name, allow_die=True, allow_skip=True, behaviours=None):
    b = rng.choice(behaviours or BEHAVIOURS)
    if not allow_die and b in ("signal", "exit", "ctxdie"):
        b = "fail"
    if not allow_skip and b in ("skip", "skipfail"):
        b = "pass"
    t = T(name, ctx=rng.random() < 0.3)
    t.ctx = int(t.ctx)
    n = rng.choice([0, 1, 1, 2, 3, 5])
    if b == "pass": t.body = ["P"] * max(1, n)
    elif b == "fail": t.body = gen_acts(rng, max(1, n), p_fail=0.5, p_skip=0, p_mock=0)
    elif b == "empty": t.body = []
    elif b == "xskip": t.x = 1; t.body = ["P", "F"]
    elif b == "skip": t.body = gen_acts(rng, n, p_fail=0.2, p_skip=0, p_mock=0); t.body.insert(rng.randrange(len(t.body) + 1), "S")
    elif b == "skipfail": t.body = ["S", "F"] if rng.random() < 0.5 else ["F", "S", "P"]
    elif b == "signal": t.body = gen_acts(rng, n, p_skip=0, die="K%d" % rng.choice(SIGS))
    elif b == "exit": t.body = gen_acts(rng, n, p_skip=0, die=rng.choice(["E", "U"]))
    elif b == "mixed": t.body = gen_acts(rng, max(1, n) + 2, p_skip=0.0 if not allow_skip else 0.05)
    elif b == "mock": t.body = gen_acts(rng, max(1, n), p_mock=0.6, p_skip=0)
    elif b == "ctxfail": t.ctx = 1; t.setup = gen_acts(rng, 1, p_fail=0.5, p_skip=0, p_mock=0); t.body = ["P"]; t.teardown = gen_acts(rng, 1, p_fail=0.5, p_skip=0, p_mock=0)
    elif b == "ctxmock":      # expectations declared by the fixtures: the tally comes after the teardown
        t.ctx = 1; t.body = rng.choice([["P"], ["MF"], ["F"]])
        t.setup = rng.choice([[], ["MF"], ["MP"]]); t.teardown = rng.choice([["MF"], ["MP"], ["MF", "MP"]])
    elif b == "ctxdie":
        t.ctx = 1; t.body = ["P"]
        if rng.random() < 0.5: t.setup = ["P", "K11"]
        else: t.teardown = ["F", "K%d" % rng.choice(SIGS)]
    if t.ctx and not t.setup and not t.teardown and rng.random() < 0.5:
        t.setup = ["P"]
    return t


def gen_tree(rng, max_depth=4, max_tests=10, **kw):
    counter = [0]

    def suite(depth, name):
        s = S(name, su=int(rng.random() < 0.25), td=int(rng.random() < 0.25))
        nitems = rng.choice([0, 1, 2, 2, 3, 4]) if depth else rng.choice([1, 2, 3, 4, 5])
        for i in range(nitems):
            if counter[0] >= max_tests:
                break
            if depth < max_depth and rng.random() < 0.3:
                s.items.append(suite(depth + 1, f"s{depth + 1}_{i}"))
            else:
                counter[0] += 1
                s.items.append(gen_test(rng, f"t{counter[0]}", **kw))
        return s
    return suite(0, "top")


# ------------------------------------------------------------------------------------------------
# execution
# ------------------------------------------------------------------------------------------------
class Obs:
    """What one implementation run showed."""
    pass


def run_impl(exe, scen_text, reporter, workdir, env=None, timeout=60, nofile=None, sigint_ignored=False):
    os.makedirs(workdir, exist_ok=True)
    for f in os.listdir(workdir):
        p = os.path.join(workdir, f)
        shutil.rmtree(p) if os.path.isdir(p) else os.unlink(p)
    sf = os.path.join(workdir, "scenario.txt")
    with open(sf, "wb") as f:
        f.write(scen_text.encode("latin-1"))      # a str is a carrier of bytes here (names may hold any byte)
    e = dict(os.environ)
    e.pop("CGREEN_NO_FORK", None)
    e.pop("CGREEN_PER_TEST_TIMEOUT", None)
    for l in scen_text.split("\n"):
        if l.startswith("kill "):
            w = l.split(" ")
            e["CGREEN_VERIF_KILL"] = f"{w[1]}:{w[2]}:{w[3]}:{w[4]}"
    if env:
        e.update(env)
    o = Obs()
    def limits():
        if nofile:
            import resource
            resource.setrlimit(resource.RLIMIT_NOFILE, (nofile, nofile))
        if sigint_ignored:      # the test program is started the way `nohup` or a shell without job control starts it
            import signal
            signal.signal(signal.SIGINT, signal.SIG_IGN)
    proc = subprocess.Popen([exe, sf, reporter, workdir], stdout=subprocess.PIPE, stderr=subprocess.PIPE, env=e, start_new_session=True, preexec_fn=limits if (nofile or sigint_ignored) else None)
    try:
        out, err = proc.communicate(timeout=timeout)
        o.rc, o.stdout, o.stderr = proc.returncode, out.decode("latin-1"), err.decode("latin-1")
        o.timeout = False
    except subprocess.TimeoutExpired:
        o.rc, o.stdout, o.stderr, o.timeout = None, "", "", True
    finally:
        # test processes that outlive the run (a sleeping child whose parent was killed) go with the group
        try:
            os.killpg(proc.pid, 9)
        except OSError:
            pass
        if o.timeout:
            try:
                out, err = proc.communicate(timeout=5)
                o.stdout, o.stderr = out.decode("latin-1"), err.decode("latin-1")
            except Exception:
                pass
    try:
        o.events = open(os.path.join(workdir, "events"), encoding="latin-1").read().split("\n")
    except OSError:
        o.events = []
    try:
        o.fingerprints = open(os.path.join(workdir, "fingerprints"), encoding="latin-1").read().split("\n")[:-1]
    except OSError:
        o.fingerprints = []
    try:
        o.returned = int(open(os.path.join(workdir, "status")).read().split()[1])
    except (OSError, IndexError, ValueError):
        o.returned = None
    o.files = {}
    for root, _, fs in os.walk(workdir):
        for f in fs:
            if f.endswith(".xml"):
                o.files[os.path.relpath(os.path.join(root, f), workdir)] = open(os.path.join(root, f), "rb").read()
    o.reporter = reporter
    return o


class ModelOut:
    def __init__(self, lines):
        self.lines = lines
        self.halted = self.status = None
        self.truth = None
        self.out = []
        for l in lines:
            w = l.split(" ")
            if w[0] == "halted": self.halted = None if w[1] == "-" else w[1]
            elif w[0] == "status": self.status = None if w[1] == "-" else int(w[1])
            elif w[0] == "procend": self.procend = w[1]
            elif w[0] == "truth": self.truth = tuple(int(x) for x in w[1:5])
            elif w[0] == "pipeleft": self.pipeleft = int(w[1])
            elif w[0] == "error": raise RuntimeError("model: " + l)
            else: self.out.append(w)


def run_model_scenarios(texts):
    inp = "".join(t + "---\n" for t in texts)
    out = run_model(["scenario"], inp)
    blocks, cur = [], []
    for l in out.split("\n"):
        if l == "---":
            blocks.append(ModelOut(cur)); cur = []
        elif l:
            cur.append(l)
    assert len(blocks) == len(texts), (len(blocks), len(texts))
    return blocks


# ------------------------------------------------------------------------------------------------
# projections: canonical observables per reporter, from the model's abstract output and from the
# implementation's native output
# ------------------------------------------------------------------------------------------------
def model_proj(m, reporter):
    """Canonical lines the given reporter is expected to show, derived from the model run."""
    out = []
    finished = m.halted is None
    top = None
    for w in m.out:
        k = w[0]
        if k == "suiteStart" and top is None:
            top = w[1]
        path = w[1].split("/") if len(w) > 1 and k != "totals" else None
        if reporter in ("text", "quiet"):
            if k == "failLines":
                out += [f"fail {'/'.join(path)}"] * int(w[2])
            elif k == "excLine":
                out.append(f"exc {'/'.join(path)}")
            elif k == "suiteEnd":
                c = tuple(int(x) for x in w[2:6])
                if reporter == "text":
                    if len(path) > 1 or any(c):
                        out.append(f"suite {path[-1]} {c[0]} {c[1]} {c[2]} {c[3]}")
                else:
                    out.append("mark " + ("X" if c[3] else "F" if c[1] else "."))
            elif k == "totals" and reporter == "text":
                out.append("totals " + " ".join(w[1:5]))
        elif reporter == "cute":
            if k == "suiteStart": out.append(f"beginning {path[-1]}")
            elif k == "testStart": out.append(f"starting {path[-1]}")
            elif k == "failLines" and int(w[2]) > 0: out.append(f"failure {path[-1]}")
            elif k == "excLine": out.append(f"error {path[-1]}")
            elif k == "testEnd":
                d = [int(x) for x in w[2:6]]
                if d[1] + d[3] == 0: out.append(f"success {path[-1]}")
            elif k == "suiteEnd": out.append(f"ending {path[-1]}")
            elif k == "totals": out.append(f"totals {w[1]} {w[2]} - {w[4]}")
        elif reporter in ("xml", "libxml"):
            # per test case: number of failure elements, error?, skipped?
            if k == "testStart": cur = {"path": path, "fail": 0, "err": 0, "skip": 0}
            elif k == "failLines": cur["fail"] = int(w[2])
            elif k == "excLine": cur["err"] += 1
            elif k == "testEnd":
                if w[6] == "skipped": cur["skip"] = 1
                cur["st"] = w[6]
                out.append(cur)
        elif reporter == "cdash":
            pass
    if reporter in ("xml", "libxml"):
        lines = sorted(f"case {'/'.join(c['path'][:-1])} {c['path'][-1]} fail={c['fail']} err={c['err']} skip={c['skip']}" for c in out)
        if reporter == "libxml":      # the libxml2 reporter also writes each suite's own counts as attributes of <testsuite>
            lines += sorted(f"suite {'-'.join(w[1].split('/'))} fail={w[3]} err={w[5]} skip={w[4]}" for w in m.out if w[0] == "suiteEnd")
        return lines
    return out


def parse_counts(txt):
    c = [0, 0, 0, 0]
    if "No assertions" in txt:
        return tuple(c)
    for n, what in re.findall(r"(\d+) (pass|skipped|failure|exception)", txt):
        c[["pass", "failure", "skipped", "exception"].index(what)] = int(n)
    return tuple(c)


def impl_proj(o, reporter, top="top"):
    out = []
    if reporter in ("text", "quiet"):
        lines = o.stdout.split("\n")
        marks = []
        for l in lines:
            m = re.match(r"^(.*?):(\d+): (Failure|Exception): (.*)$", l)
            if m:
                # quiet mode: marks printed before the line break belong to the same text line
                pre = ""
                head = m.group(1)
                if reporter == "quiet":
                    mm = re.match(r"^([.FX]*)(.*)$", head)
                    pre, head = mm.group(1), mm.group(2)
                    out += ["mark " + ch for ch in pre]
                crumbs = [x for x in m.group(4).strip().split(" -> ") if x]
                path = "/".join([top] + crumbs)
                out.append(("fail " if m.group(3) == "Failure" else "exc ") + path)
                continue
            m = re.match(r'^  "(.*)": (.*)\.$', l)
            if m and reporter == "text":
                c = parse_counts(m.group(2))
                out.append(f"suite {m.group(1)} {c[0]} {c[1]} {c[2]} {c[3]}")
                continue
            m = re.match(r'^Completed "(.*)": (.*)\.$', l)
            if m and reporter == "text":
                c = parse_counts(m.group(2))
                out.append(f"totals {c[0]} {c[1]} {c[2]} {c[3]}")
                continue
            if reporter == "quiet" and re.match(r"^[.FX]+$", l):
                out += ["mark " + ch for ch in l]
    elif reporter == "cute":
        for l in o.stdout.split("\n"):
            m = re.match(r"^#(beginning|starting|failure|success|error|ending) (\S+?)(:? .*|:.*)?$", l)
            if not m:
                continue
            k, name, rest = m.group(1), m.group(2), m.group(3) or ""
            if k == "ending" and name.endswith(":"):
                name = name[:-1]
                rest = ":" + rest
            out.append(f"{k} {name}")
            if k == "ending" and "pass" in rest:
                mm = re.search(r"(\d+) pass\w*, (\d+) failure\w*, (\d+) exception", rest)
                out.append(f"totals {mm.group(1)} {mm.group(2)} - {mm.group(3)}")
    elif reporter in ("xml", "libxml"):
        cases, errors = xml_testcases(o)
        out = sorted(f"case {c[0]} {c[1]} fail={c[2]} err={c[3]} skip={c[4]}" for c in cases)
        if reporter == "libxml":
            out += sorted(f"suite {a.get('name', '')} fail={a.get('failures', '?')} err={a.get('errors', '?')} skip={a.get('skipped', '?')}" for a in xml_suite_attrs(o))
        out += ["xmlerror " + e for e in errors]
    return out


class XmlTree:
    """Minimal element tree built with expat (independent of libxml2)."""
    def __init__(self, tag, attrs):
        self.tag, self.attrs, self.children, self.text = tag, attrs, [], ""


def parse_xml(data):
    """Returns (root, None) or (None, error string). `data` is bytes."""
    p = xml.parsers.expat.ParserCreate()
    stack, root = [], [None]

    def start(tag, attrs):
        e = XmlTree(tag, attrs)
        if stack: stack[-1].children.append(e)
        else: root[0] = e
        stack.append(e)

    def end(tag):
        stack.pop()

    def chars(d):
        if stack: stack[-1].text += d
    p.StartElementHandler, p.EndElementHandler, p.CharacterDataHandler = start, end, chars
    try:
        p.Parse(data, True)
    except xml.parsers.expat.ExpatError as ex:
        return None, str(ex)
    return root[0], None


def xml_testcases(o):
    """[(classname, name, n_failure, n_error, n_skipped, [failure messages])] over all suite files, plus parse errors."""
    cases, errors = [], []
    for fname, data in sorted(o.files.items()):
        if "Testing/" in fname:
            continue
        root, err = parse_xml(data)
        if err:
            errors.append(f"{fname}: {err}")
            continue

        def walk(e):
            if e.tag == "testcase":
                cases.append((e.attrs.get("classname", ""), e.attrs.get("name", ""),
                              sum(1 for c in e.children if c.tag == "failure"),
                              sum(1 for c in e.children if c.tag == "error"),
                              sum(1 for c in e.children if c.tag == "skipped"),
                              [c.attrs.get("message", "") for c in e.children if c.tag == "failure"],
                              [c.tag for c in e.children]))
            for c in e.children:
                walk(c)
        walk(root)
    return cases, errors


def xml_suite_attrs(o):
    """attributes of the <testsuite> root of every per-suite file that parses"""
    res = []
    for fname, data in sorted(o.files.items()):
        if "Testing/" in fname:
            continue
        root, err = parse_xml(data)
        if root is not None and root.tag == "testsuite":
            res.append(root.attrs)
    return res


def cdash_counts(o):
    """(passed, failed, incomplete) <Test Status=...> entries per test name, and parse error if any."""
    for fname, data in o.files.items():
        if fname.endswith("Test.xml"):
            root, err = parse_xml(data)
            if err:
                return None, err
            per = {}

            def walk(e):
                if e.tag == "Test" and "Status" in e.attrs:
                    name = next((c.text for c in e.children if c.tag == "Name"), "")
                    per.setdefault(name, [0, 0, 0])[["passed", "failed", "incomplete"].index(e.attrs["Status"])] += 1
                for c in e.children:
                    walk(c)
            walk(root)
            return per, None
    return None, "no Test.xml"


def canon_events(lines_or_model, from_model):
    """Event log as {path: [(procclass, phase), ...]} with process ids renamed by first appearance."""
    evs = []
    if from_model:
        for w in lines_or_model.out:
            if w[0] == "ev" and w[3] != "tally":     # the tally is not observable as an event
                evs.append((w[1], w[2], w[3]))
    else:
        for l in lines_or_model:
            w = l.split(" ")
            if len(w) == 4 and w[0] == "ev":
                evs.append((w[1], w[2], w[3]))
    ren, out = {"0": 0}, []
    for pid, path, ph in evs:
        if pid not in ren:
            ren[pid] = len(ren)
        out.append(f"{ren[pid]} {path} {ph}")
    return out


def diff_lists(a, b, what):
    if a == b:
        return None
    for i, (x, y) in enumerate(zip(a, b)):
        if x != y:
            return f"{what}: first difference at #{i}: model={x!r} impl={y!r}"
    return f"{what}: lengths differ: model={len(a)} impl={len(b)}; extra model={a[len(b):][:3]} extra impl={b[len(a):][:3]}"


def status_of(o):
    """Canonical run status of an implementation run: 0/1 when the run returned, else how the process ended."""
    if o.timeout:
        return "timeout"
    if o.returned is not None:
        return str(0 if o.returned == 0 else 1)
    if o.rc is not None and o.rc < 0:
        return f"sig{-o.rc}"
    return f"exit{o.rc}"


def model_status(m):
    return m.procend


def compare(m, o, reporter, check_events=True):
    """Returns a list of disagreement descriptions between the model's prediction and the run."""
    ds = []
    if model_status(m) != status_of(o):
        ds.append(f"status: model={model_status(m)} impl={status_of(o)}")
    # when the run itself is ended from inside test code, what reached stdout depends on stdio buffering
    # of the dying process: only the status and the (unbuffered) event log are compared then
    if reporter in ("text", "quiet", "cute", "xml", "libxml") and m.halted is None:
        d = diff_lists(model_proj(m, reporter), impl_proj(o, reporter), f"{reporter} output")
        if d:
            ds.append(d)
    if check_events:
        d = diff_lists(canon_events(m, True), canon_events(o.events, False), "event log")
        if d:
            ds.append(d)
    return ds
