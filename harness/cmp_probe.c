/* Correspondence harness for constraints and legacy assertions: runs the real public macros on given
 * operands with a capturing reporter and prints pass (1) / fail (0) per input line.
 * Built twice: as C, and as C++ (then the string cases go through the std::string overloads).
 *   int <name> <actual> <expected>          decimal int64
 *   str <name> <hex actual|-> <hex expected|->
 *   mem <pos|neg> <size> <hex expected> <hex actual|NULL>
 *   dbl <name> <figures> <hex bits actual> <hex bits expected>      (C15)
 * Messages are captured too:  msg lines print the expanded failure message in hex (C10).
 */
#include <cgreen/cgreen.h>
#include <cgreen/mocks.h>
#include <cgreen/internal/c_assertions.h>
#include <stdio.h>
#include <stdlib.h>
#include <string.h>
#include <stdint.h>
#include <stdarg.h>
#ifdef __cplusplus
#include <string>
using namespace cgreen;
#endif

static int last_result = -1;
static int nresults = 0;
static char last_message[1 << 16];

static void capture(TestReporter *reporter, const char *file, int line, int result, const char *message, ...) {
    (void)reporter; (void)file; (void)line;
    va_list ap;
    va_start(ap, message);
    last_result = result ? 1 : 0;
    nresults++;
    if (message) vsnprintf(last_message, sizeof last_message, message, ap);
    else last_message[0] = 0;
    va_end(ap);
}

static size_t unhex(const char *h, unsigned char *out) {
    size_t n = 0;
    if (!strcmp(h, "-")) { out[0] = 0; return 0; }
    while (h[0] && h[1]) { unsigned v; sscanf(h, "%2x", &v); out[n++] = (unsigned char)v; h += 2; }
    out[n] = 0;
    return n;
}

static intptr_t mocked_d(double d) { return mock(box_double(d)); }
static intptr_t mocked_i(intptr_t p) { return mock(p); }
static intptr_t mocked_s(const char *p) { return mock(p); }

int main(void) {
    static char line[1 << 17], name[64], h1[1 << 16], h2[1 << 16];
    static unsigned char b1[1 << 15], b2[1 << 15];
    TestReporter *reporter = create_reporter();
    reporter->assert_true = &capture;
    setup_reporting(reporter);
    while (fgets(line, sizeof line, stdin)) {
        last_result = -1; nresults = 0;
        if (!strncmp(line, "int ", 4)) {
            long long a, e;
            sscanf(line, "int %63s %lld %lld", name, &a, &e);
            intptr_t A = (intptr_t)a, E = (intptr_t)e;
            if (!strcmp(name, "isEqualTo")) assert_that(A, is_equal_to(E));
            else if (!strcmp(name, "isNotEqualTo")) assert_that(A, is_not_equal_to(E));
            else if (!strcmp(name, "isGreaterThan")) assert_that(A, is_greater_than(E));
            else if (!strcmp(name, "isLessThan")) assert_that(A, is_less_than(E));
            else if (!strcmp(name, "isNull")) assert_that(A, is_null);
            else if (!strcmp(name, "isNonNull")) assert_that(A, is_non_null);
            else if (!strcmp(name, "isTrue")) assert_that(A, is_true);
            else if (!strcmp(name, "isFalse")) assert_that(A, is_false);
            else if (!strcmp(name, "assertEqual")) assert_equal(A, E);
            else if (!strcmp(name, "assertNotEqual")) assert_not_equal(A, E);
            else if (!strcmp(name, "assertTrue")) assert_true(A);
            else if (!strcmp(name, "assertFalse")) assert_false(A);
            else if (!strcmp(name, "assertTrueMsg")) assert_true_with_message(A, "m");
            else if (!strcmp(name, "assertFalseMsg")) assert_false_with_message(A, "m");
            else if (!strcmp(name, "assertEqualMsg")) assert_equal_with_message(A, E, "m");
            else if (!strcmp(name, "assertNotEqualMsg")) assert_not_equal_with_message(A, E, "m");
            else if (!strcmp(name, "isEqualToHex")) assert_that(A, is_equal_to_hex(E));
        } else if (!strncmp(line, "str ", 4)) {
            sscanf(line, "str %63s %65535s %65535s", name, h1, h2);
            unhex(h1, b1); unhex(h2, b2);
            const char *A = (const char *)b1;
#ifdef __cplusplus
            std::string E((const char *)b2);
            std::string AS((const char *)b1);
#define ACT AS
#define ECSTR E.c_str()      /* no std::string overload exists for these three */
#else
            const char *E = (const char *)b2;
#define ACT A
#define ECSTR E
#endif
            if (!strcmp(name, "isEqualToString")) assert_that(ACT, is_equal_to_string(E));
            else if (!strcmp(name, "isNotEqualToString")) assert_that(ACT, is_not_equal_to_string(E));
            else if (!strcmp(name, "containsString")) assert_that(ACT, contains_string(E));
            else if (!strcmp(name, "doesNotContainString")) assert_that(ACT, does_not_contain_string(E));
            else if (!strcmp(name, "beginsWithString")) assert_that(ACT, begins_with_string(E));
            else if (!strcmp(name, "doesNotBeginWithString")) assert_that(ACT, does_not_begin_with_string(ECSTR));
            else if (!strcmp(name, "endsWithString")) assert_that(ACT, ends_with_string(ECSTR));
            else if (!strcmp(name, "doesNotEndWithString")) assert_that(ACT, does_not_end_with_string(ECSTR));
            else if (!strcmp(name, "assertStringEqual")) assert_string_equal(A, (const char *)b2);
            else if (!strcmp(name, "assertStringNotEqual")) assert_string_not_equal(A, (const char *)b2);
            else if (!strcmp(name, "assertStringEqualMsg")) assert_string_equal_with_message(A, (const char *)b2, "m");
            else if (!strcmp(name, "assertStringNotEqualMsg")) assert_string_not_equal_with_message(A, (const char *)b2, "m");
#ifdef __cplusplus
        } else if (!strncmp(line, "strp ", 5) || !strncmp(line, "strq ", 5)) {
            /* C++ only. strp: the expected value as a `std::string *` (the pointer overloads of the constraint constructors), the actual one
               as a `const char *`; strq: the actual value as a `std::string *` */
            sscanf(line + 5, "%63s %65535s %65535s", name, h1, h2);
            unhex(h1, b1); unhex(h2, b2);
            std::string E((const char *)b2);
            std::string AS((const char *)b1);
            const std::string *EP = &E;
            std::string *AP = &AS;
            const char *A = (const char *)b1;
            if (line[3] == 'p') {
                if (!strcmp(name, "isEqualToString")) assert_that(A, is_equal_to_string(EP));
                else if (!strcmp(name, "isNotEqualToString")) assert_that(A, is_not_equal_to_string(EP));
                else if (!strcmp(name, "containsString")) assert_that(A, contains_string(EP));
                else if (!strcmp(name, "doesNotContainString")) assert_that(A, does_not_contain_string(EP));
                else if (!strcmp(name, "beginsWithString")) assert_that(A, begins_with_string(EP));
            } else {
                if (!strcmp(name, "isEqualToString")) assert_that(AP, is_equal_to_string(E));
                else if (!strcmp(name, "isNotEqualToString")) assert_that(AP, is_not_equal_to_string(E));
                else if (!strcmp(name, "containsString")) assert_that(AP, contains_string(E));
                else if (!strcmp(name, "doesNotContainString")) assert_that(AP, does_not_contain_string(E));
                else if (!strcmp(name, "beginsWithString")) assert_that(AP, begins_with_string(E));
            }
#endif
        } else if (!strncmp(line, "mem ", 4)) {
            int size;
            sscanf(line, "mem %63s %d %65535s %65535s", name, &size, h1, h2);
            unhex(h1, b1);
            void *actual = NULL;
            if (strcmp(h2, "NULL")) {
                size_t n = unhex(h2, b2);
                actual = malloc(n ? n : 1);          /* exact-size heap block: ASan sees any over-read */
                memcpy(actual, b2, n);
            }
            size_t ne = strlen(h1) / 2;
            void *expected = malloc(ne ? ne : 1);
            memcpy(expected, b1, ne);
            if (!strcmp(name, "pos")) assert_that(actual, is_equal_to_contents_of(expected, size));
            else assert_that(actual, is_not_equal_to_contents_of(expected, size));
            free(actual); free(expected);
        } else if (!strncmp(line, "dbl ", 4)) {
            int figs; unsigned long long ba, be;
            sscanf(line, "dbl %63s %d %llx %llx", name, &figs, &ba, &be);
            double A, E;
            memcpy(&A, &ba, 8); memcpy(&E, &be, 8);
            significant_figures_for_assert_double_are(figs);
            if (!strcmp(name, "eq")) assert_that_double(A, is_equal_to_double(E));
            else if (!strcmp(name, "ne")) assert_that_double(A, is_not_equal_to_double(E));
            else if (!strcmp(name, "lt")) assert_that_double(A, is_less_than_double(E));
            else if (!strcmp(name, "gt")) assert_that_double(A, is_greater_than_double(E));
            else if (!strcmp(name, "legacyEq")) assert_double_equal(A, E);
            else if (!strcmp(name, "legacyNe")) assert_double_not_equal(A, E);
            else if (!strcmp(name, "legacyEqMsg")) assert_double_equal_with_message(A, E, "m");
            else if (!strcmp(name, "legacyNeMsg")) assert_double_not_equal_with_message(A, E, "m");
            else if (!strncmp(name, "mock", 4)) {
                if (!strcmp(name, "mockEq")) expect(mocked_d, when(d, is_equal_to_double(E)));
                else if (!strcmp(name, "mockNe")) expect(mocked_d, when(d, is_not_equal_to_double(E)));
                else if (!strcmp(name, "mockLt")) expect(mocked_d, when(d, is_less_than_double(E)));
                else expect(mocked_d, when(d, is_greater_than_double(E)));
                mocked_d(A);
                clear_mocks();
            }
        } else if (!strncmp(line, "msgint ", 7) || !strncmp(line, "msgstr ", 7) || !strncmp(line, "msgleg ", 7) || !strncmp(line, "msgmock ", 8) || !strncmp(line, "msgmem ", 7)
                   || !strncmp(line, "mckint ", 7) || !strncmp(line, "mckstr ", 7)) {
            /* C10: the failure message exactly as the text reporter's vprintf would expand it */
            static char kind[64], hx1[1 << 15], hx2[1 << 15], hx3[1 << 15], hx4[1 << 15];
            static unsigned char t1[1 << 14], t2[1 << 14], t3[1 << 14], t4[1 << 14];
            long long a = 0, e = 0;
            last_message[0] = 0;
            int via_mock = !strncmp(line, "mck", 3);
            if (via_mock) memcpy(line, "msg", 3);     /* same constraint, checked as a mock parameter */
            if (!strncmp(line, "msgint ", 7)) {
                sscanf(line, "msgint %63s %32767s %32767s %lld %lld", kind, hx1, hx2, &a, &e);
                unhex(hx1, t1); unhex(hx2, t2);
                Constraint *c = !strcmp(kind, "equal") ? create_equal_to_value_constraint((intptr_t)e, (const char *)t2)
                              : !strcmp(kind, "notequal") ? create_not_equal_to_value_constraint((intptr_t)e, (const char *)t2)
                              : !strcmp(kind, "less") ? create_less_than_value_constraint((intptr_t)e, (const char *)t2)
                              : !strcmp(kind, "greater") ? create_greater_than_value_constraint((intptr_t)e, (const char *)t2)
                              : !strcmp(kind, "hex") ? create_equal_to_hexvalue_constraint((intptr_t)e, (const char *)t2)
                              : !strcmp(kind, "null") ? create_is_null_constraint()
                              : !strcmp(kind, "nonnull") ? create_not_null_constraint()
                              : !strcmp(kind, "true") ? create_is_true_constraint() : create_is_false_constraint();
                if (via_mock) { expect_(get_test_reporter(), "mocked_i", "f", 1, when_("p", c), (Constraint *)0); mocked_i((intptr_t)a); clear_mocks(); }
                else assert_core_("f", 1, (const char *)t1, (intptr_t)a, c);
            } else if (!strncmp(line, "msgstr ", 7)) {
                sscanf(line, "msgstr %63s %32767s %32767s %32767s %32767s", kind, hx1, hx2, hx3, hx4);
                unhex(hx1, t1); unhex(hx2, t2); unhex(hx3, t3); unhex(hx4, t4);
                const char *ev = (const char *)t4, *en = (const char *)t2;
                Constraint *c = !strcmp(kind, "equal") ? create_equal_to_string_constraint(ev, en)
                              : !strcmp(kind, "notequal") ? create_not_equal_to_string_constraint(ev, en)
                              : !strcmp(kind, "contains") ? create_contains_string_constraint(ev, en)
                              : !strcmp(kind, "notcontains") ? create_does_not_contain_string_constraint(ev, en)
                              : !strcmp(kind, "begins") ? create_begins_with_string_constraint(ev, en)
                              : !strcmp(kind, "notbegins") ? create_does_not_begin_with_string_constraint(ev, en)
                              : !strcmp(kind, "ends") ? create_ends_with_string_constraint(ev, en) : create_does_not_end_with_string_constraint(ev, en);
                if (via_mock) { expect_(get_test_reporter(), "mocked_s", "f", 1, when_("p", c), (Constraint *)0); mocked_s((const char *)t3); clear_mocks(); }
                else assert_core_("f", 1, (const char *)t1, (intptr_t)(const char *)t3, c);
            } else if (!strncmp(line, "msgmem ", 7)) {
                /* contents constraints: "msgmem <equal|notequal> <hex actual text> <hex expected text> <size> <hex actual|-> <hex expected|->"
                   ("-" is a NULL pointer; the size may be 0 or negative: then the message says why the comparison cannot be made) */
                long size = 0;
                sscanf(line, "msgmem %63s %32767s %32767s %ld %32767s %32767s", kind, hx1, hx2, &size, hx3, hx4);
                unhex(hx1, t1); unhex(hx2, t2);
                size_t na = !strcmp(hx3, "-") ? 0 : unhex(hx3, t3), ne = !strcmp(hx4, "-") ? 0 : unhex(hx4, t4);
                unsigned char *ab = strcmp(hx3, "-") ? (unsigned char *)malloc(na ? na : 1) : NULL, *eb = strcmp(hx4, "-") ? (unsigned char *)malloc(ne ? ne : 1) : NULL;
                if (ab) memcpy(ab, t3, na);
                if (eb) memcpy(eb, t4, ne);
                Constraint *c = !strcmp(kind, "equal") ? create_equal_to_contents_constraint(eb, (size_t)size, (const char *)t2)
                                                       : create_not_equal_to_contents_constraint(eb, (size_t)size, (const char *)t2);
                assert_core_("f", 1, (const char *)t1, (intptr_t)ab, c);
                free(ab); free(eb);
            } else if (!strncmp(line, "msgleg ", 7)) {
                sscanf(line, "msgleg %63s %32767s %32767s %32767s", kind, hx1, hx3, hx4);
                unhex(hx1, t1); unhex(hx3, t3); unhex(hx4, t4);
                if (!strcmp(kind, "equal")) assert_equal_("f", 1, (const char *)t1, (intptr_t)atoll((char *)t3), (intptr_t)atoll((char *)t4));
                else if (!strcmp(kind, "notequal")) assert_not_equal_("f", 1, (const char *)t1, (intptr_t)atoll((char *)t3), (intptr_t)atoll((char *)t4));
                else if (!strcmp(kind, "strequal")) assert_string_equal_("f", 1, (const char *)t1, (const char *)t3, (const char *)t4);
                else assert_string_not_equal_("f", 1, (const char *)t1, (const char *)t3, (const char *)t4);
            } else {
                /* a failing when() clause in a mock expectation: value in the message */
                sscanf(line, "msgmock %63s %lld %lld", kind, &a, &e);
                if (!strcmp(kind, "equal")) expect(mocked_i, when(p, is_equal_to(e)));
                else if (!strcmp(kind, "less")) expect(mocked_i, when(p, is_less_than(e)));
                else expect(mocked_i, when(p, is_greater_than(e)));
                mocked_i((intptr_t)a);
                clear_mocks();
            }
            printf("%d ", last_result);
            for (char *m = last_message; *m; m++) printf("%02x", (unsigned char)*m);
            printf("\n");
            continue;
        } else continue;
        if (nresults == 1) printf("%d\n", last_result);
        else printf("n%d\n", nresults);
    }
    fflush(stdout);
    return 0;
}
