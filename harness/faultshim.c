/* LD_PRELOAD fault-injection shim for the C19 check.
 *
 *   FAULT=<call>:<k>     make the k-th (1-based, counted over all processes of the run) call of <call> fail
 *   FAULT_LOG=<file>     the final counters ("<call> <count>" per line) and "fired <call> <k> <pid>" are appended here
 *
 * Calls counted: fork, pipe, fcntl (F_SETFL on a result-channel descriptor), tmpfile, write and read on a
 * result-channel descriptor (the descriptors returned by pipe()), and malloc called from inside
 * send_cgreen_message()/receive_cgreen_message() ("msend", "mrecv"; found through the return address), and
 * every other malloc/calloc/realloc/strdup made by code of libcgreen.so once the run has opened its result channel ("mlib").
 * Counters live in shared memory so that "the k-th call" is the k-th of the whole run, parent and children.
 */
#define _GNU_SOURCE
#include <dlfcn.h>
#include <errno.h>
#include <fcntl.h>
#include <stdarg.h>
#include <stdio.h>
#include <stdlib.h>
#include <string.h>
#include <sys/mman.h>
#include <unistd.h>

enum { C_FORK, C_PIPE, C_FCNTL, C_TMPFILE, C_WRITE, C_READ, C_MSEND, C_MRECV, C_MLIB, NCALLS };
static const char *names[NCALLS] = { "fork", "pipe", "fcntl", "tmpfile", "write", "read", "msend", "mrecv", "mlib" };

static struct Shared { int counts[NCALLS]; int fired; int chan[64]; int nchan; } *sh;
static int target = -1, target_k = 0;
static pid_t main_pid;
static int ready;

extern void *__libc_malloc(size_t);

static void write_log(const char *text) {
    const char *path = getenv("FAULT_LOG");
    if (!path) return;
    int fd = open(path, O_WRONLY | O_CREAT | O_APPEND, 0644);
    if (fd < 0) return;
    ssize_t (*real_write)(int, const void *, size_t) = (ssize_t (*)(int, const void *, size_t))dlsym(RTLD_NEXT, "write");
    real_write(fd, text, strlen(text));
    close(fd);
}

static void dump_counts(void) {
    if (getpid() != main_pid || !sh) return;
    char buf[512]; int n = 0;
    for (int i = 0; i < NCALLS; i++) n += snprintf(buf + n, sizeof buf - n, "%s %d\n", names[i], sh->counts[i]);
    write_log(buf);
}

__attribute__((constructor)) static void init(void) {
    sh = (struct Shared *)mmap(NULL, sizeof *sh, PROT_READ | PROT_WRITE, MAP_SHARED | MAP_ANONYMOUS, -1, 0);
    memset(sh, 0, sizeof *sh);
    main_pid = getpid();
    const char *f = getenv("FAULT");
    if (f) {
        for (int i = 0; i < NCALLS; i++) {
            size_t l = strlen(names[i]);
            if (!strncmp(f, names[i], l) && f[l] == ':') { target = i; target_k = atoi(f + l + 1); }
        }
    }
    atexit(dump_counts);
    ready = 1;
}

static int hit(int call) {
    if (!ready) return 0;
    int n = __sync_add_and_fetch(&sh->counts[call], 1);
    if (call == target && n == target_k) {
        char buf[128];
        sh->fired = 1;
        snprintf(buf, sizeof buf, "fired %s %d %d\n", names[call], n, getpid() == main_pid ? 0 : 1);
        write_log(buf);
        return 1;
    }
    return 0;
}

static int is_chan(int fd) {
    if (!ready) return 0;
    for (int i = 0; i < sh->nchan; i++) if (sh->chan[i] == fd) return 1;
    return 0;
}

pid_t fork(void) {
    pid_t (*real)(void) = (pid_t (*)(void))dlsym(RTLD_NEXT, "fork");
    if (hit(C_FORK)) { errno = EAGAIN; return -1; }
    return real();
}

int pipe(int fds[2]) {
    int (*real)(int *) = (int (*)(int *))dlsym(RTLD_NEXT, "pipe");
    if (hit(C_PIPE)) { errno = EMFILE; return -1; }
    int r = real(fds);
    if (r == 0 && ready && sh->nchan < 62) { sh->chan[sh->nchan++] = fds[0]; sh->chan[sh->nchan++] = fds[1]; }
    return r;
}

int fcntl(int fd, int cmd, ...) {
    int (*real)(int, int, ...) = (int (*)(int, int, ...))dlsym(RTLD_NEXT, "fcntl");
    va_list ap; va_start(ap, cmd); long arg = va_arg(ap, long); va_end(ap);
    if (cmd == F_SETFL && is_chan(fd) && hit(C_FCNTL)) { errno = EINVAL; return -1; }
    return real(fd, cmd, arg);
}

FILE *tmpfile(void) {
    FILE *(*real)(void) = (FILE *(*)(void))dlsym(RTLD_NEXT, "tmpfile");
    if (hit(C_TMPFILE)) { errno = EMFILE; return NULL; }
    return real();
}

ssize_t write(int fd, const void *buf, size_t n) {
    ssize_t (*real)(int, const void *, size_t) = (ssize_t (*)(int, const void *, size_t))dlsym(RTLD_NEXT, "write");
    if (is_chan(fd) && hit(C_WRITE)) { errno = EIO; return -1; }
    return real(fd, buf, n);
}

ssize_t read(int fd, void *buf, size_t n) {
    ssize_t (*real)(int, void *, size_t) = (ssize_t (*)(int, void *, size_t))dlsym(RTLD_NEXT, "read");
    if (is_chan(fd) && hit(C_READ)) { errno = EIO; return -1; }
    return real(fd, buf, n);
}

/* 0: not libcgreen's; otherwise the counter the allocation belongs to */
static int lib_site(void *ra, size_t size) {
    Dl_info info;
    if (!dladdr(ra, &info)) return -1;
    if (size <= 64 && info.dli_sname) {
        if (!strcmp(info.dli_sname, "send_cgreen_message")) return C_MSEND;
        if (!strcmp(info.dli_sname, "receive_cgreen_message")) return C_MRECV;
    }
    if (sh->nchan > 0 && info.dli_fname && strstr(info.dli_fname, "libcgreen")) return C_MLIB;
    return -1;
}

extern void *__libc_calloc(size_t, size_t);
extern void *__libc_realloc(void *, size_t);
static __thread int busy;

void *malloc(size_t size) {
    if (ready && !busy) {
        busy = 1;
        int c = lib_site(__builtin_return_address(0), size);
        int fail = c >= 0 && hit(c);
        busy = 0;
        if (fail) { errno = ENOMEM; return NULL; }
    }
    return __libc_malloc(size);
}

void *calloc(size_t n, size_t size) {
    if (ready && !busy) {
        busy = 1;
        int c = lib_site(__builtin_return_address(0), (size_t)-1);
        int fail = c >= 0 && hit(c);
        busy = 0;
        if (fail) { errno = ENOMEM; return NULL; }
    }
    return __libc_calloc(n, size);
}

void *realloc(void *p, size_t size) {
    if (ready && !busy) {
        busy = 1;
        int c = lib_site(__builtin_return_address(0), (size_t)-1);
        int fail = c >= 0 && hit(c);
        busy = 0;
        if (fail) { errno = ENOMEM; return NULL; }
    }
    return __libc_realloc(p, size);
}

char *strdup(const char *t) {
    size_t n = strlen(t) + 1;
    if (ready && !busy) {
        busy = 1;
        int c = lib_site(__builtin_return_address(0), (size_t)-1);
        int fail = c >= 0 && hit(c);
        busy = 0;
        if (fail) { errno = ENOMEM; return NULL; }
    }
    char *r = (char *)__libc_malloc(n);
    if (r) memcpy(r, t, n);
    return r;
}
