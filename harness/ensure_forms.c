/* C08 harness: the four spellings of a test definition through the real macros - Ensure(name), Ensure(Context, name),
 * xEnsure(name), xEnsure(Context, name) - with context fixtures and with suite fixtures, in the three execution modes.
 *
 *   ensure_forms <fork|inproc|single:<test>> <ctx|suitefix> <logfile>
 *   The log gets one line "<pid> <event>" per fixture/body event; stdout gets "totals <passes> <failures> <skips> <exceptions>". */
#define _GNU_SOURCE
#include <cgreen/cgreen.h>
#include <cgreen/mocks.h>
#include <fcntl.h>
#include <stdio.h>
#include <stdlib.h>
#include <string.h>
#include <unistd.h>

static const char *log_path;

static void note(const char *event) {
    char line[128];
    int fd = open(log_path, O_WRONLY | O_APPEND | O_CREAT, 0600);
    int n = snprintf(line, sizeof line, "%ld %s\n", (long)getpid(), event);
    if (fd < 0 || write(fd, line, (size_t)n) != n) _exit(99);
    close(fd);
}

static void never_called(void) { mock(); }

Describe(Forms);
BeforeEach(Forms) { note("before_each"); }
AfterEach(Forms) { note("after_each"); }

Ensure(plain_runs) { note("body plain_runs"); assert_that(1, is_equal_to(1)); }
Ensure(Forms, in_context_runs) { note("body in_context_runs"); assert_that(1, is_equal_to(1)); }
/* switched off: the body would leave an expectation unmet and fail */
xEnsure(plain_is_skipped) { note("body plain_is_skipped"); expect(never_called); assert_that(1, is_equal_to(2)); }
xEnsure(Forms, in_context_is_skipped) { note("body in_context_is_skipped"); expect(never_called); assert_that(1, is_equal_to(2)); }

static void suite_setup(void) { note("suite_setup"); }
static void suite_teardown(void) { note("suite_teardown"); }

int main(int argc, char **argv) {
    TestSuite *suite = create_named_test_suite("forms");
    TestReporter *reporter = create_text_reporter();      /* keeps the totals of the run */
    int rc;
    if (argc < 4) return 2;
    log_path = argv[3];
    if (!strcmp(argv[2], "suitefix")) { set_setup(suite, suite_setup); set_teardown(suite, suite_teardown); }
    add_test(suite, plain_runs);
    add_test(suite, plain_is_skipped);
    add_test_with_context(suite, Forms, in_context_runs);
    add_test_with_context(suite, Forms, in_context_is_skipped);
    if (!strcmp(argv[1], "inproc")) setenv("CGREEN_NO_FORK", "1", 1); else unsetenv("CGREEN_NO_FORK");
    if (!strncmp(argv[1], "single:", 7)) rc = run_single_test(suite, argv[1] + 7, reporter);
    else rc = run_test_suite(suite, reporter);
    printf("totals %d %d %d %d rc %d\n", reporter->total_passes, reporter->total_failures, reporter->total_skips, reporter->total_exceptions, rc);
    return 0;
}
