/* Correspondence harness: runs a scenario file (same grammar the Lean driver reads) against the real
 * cgreen library built from /repo's working tree.
 *
 *   scenario_run <scenario-file> <reporter> <outdir>
 *     reporter: text | quiet | cute | xml | libxml | cdash
 *   stdout/stderr: the reporter's native output (captured by the caller)
 *   <outdir>/events  : one line per fixture/body/tally event  "ev <pid> <path> <phase>"
 *   <outdir>/status  : "returned <n>" once run_test_suite()/run_single_test() has returned
 *   <outdir>/xml-*.xml, <outdir>/Testing/...: files of the file-writing reporters
 */
#define _GNU_SOURCE
#include <cgreen/cgreen.h>
#include <cgreen/mocks.h>
#include <cgreen/cdash_reporter.h>
#include <cgreen/cute_reporter.h>
#include <cgreen/xml_reporter.h>
#include <cgreen/text_reporter.h>
#include <cgreen/breadcrumb.h>
#include <fcntl.h>
#include <signal.h>
#include <stdarg.h>
#include <stdio.h>
#include <stdlib.h>
#include <string.h>
#include <unistd.h>

#ifdef __cplusplus
using namespace cgreen;
#endif

extern TestReporter *create_libxml_reporter(const char *prefix);
/* the reporters' internal printer hooks (src/xml_reporter_internal.h, src/libxml_reporter_internal.h): what their own unit
 * tests use; here they let suites nest deeper than a per-suite file name (NAME_MAX) allows */
extern void set_xml_reporter_printer(TestReporter *reporter, int (*printer)(FILE *, const char *format, ...));
extern void set_libxml_reporter_printer(TestReporter *reporter, int (*printer)(void *doc));
static FILE *printer_file;
static int file_printer(FILE *out, const char *format, ...) {
    va_list ap; (void)out;
    va_start(ap, format);
    int n = vfprintf(printer_file, format, ap);
    va_end(ap);
    return n;
}
static int doc_printer(void *doc) { (void)doc; return 0; }

#define MAXT 1024
#define MAXS 2048
#define MAXA 400000

typedef struct { char kind; int arg; char *text; } ActC;      /* P F S p(MP) f(MF) K E U Z X Y */
typedef struct {
    char path[16384];
    char name[6000];
    int xskip, ctx;
    ActC *body, *setup, *teardown;
    int nbody, nsetup, nteardown;
    CgreenTest spec;
} TestC;

static TestC tests[MAXT];
static int ntests;
typedef struct { char path[16384]; ActC *setup, *teardown; int nsetup, nteardown; } SuiteC;
static SuiteC *suites;      /* suites that have scripted fixtures ("fixture" line) */
static int nsuites;
static int events_fd = -1;
static char *mock_names[256];
static pid_t main_pid;

static void path_walker(const char *name, void *memo) {
    char *buf = (char *)memo;
    if (buf[0]) strcat(buf, "/");
    strcat(buf, name);
}

static void current_path(char *buf) {
    buf[0] = 0;
    walk_breadcrumb(get_test_reporter()->breadcrumb, path_walker, buf);
}

static void log_event(const char *phase) {
    static char path[70000], line[71000];
    current_path(path);
    int n = snprintf(line, sizeof line, "ev %d %s %s\n", getpid() == main_pid ? 0 : (int)getpid(), path, phase);
    if (write(events_fd, line, n) != n) abort();
}

/* The process attributes a test finds when it starts (what it inherits from the runner): signal dispositions, blocked
 * signals, number of open descriptors. One line per executed test in <outdir>/fingerprints. */
#include <dirent.h>
static int fingerprints_fd = -1;
static void log_fingerprint(void) {
    static char path[70000], line[71000];
    char sigs[40]; int n = 0;
    for (int sig = 1; sig < 32; sig++) {
        struct sigaction old;
        if (sig == SIGKILL || sig == SIGSTOP || sigaction(sig, NULL, &old) != 0) { sigs[n++] = '-'; continue; }
        sigs[n++] = old.sa_handler == SIG_DFL ? 'D' : old.sa_handler == SIG_IGN ? 'I' : 'H';
    }
    sigs[n] = 0;
    sigset_t blocked; sigprocmask(SIG_BLOCK, NULL, &blocked);
    unsigned long mask = 0;
    for (int sig = 1; sig < 32; sig++) if (sigismember(&blocked, sig)) mask |= 1ul << sig;
    int fds = 0;
    DIR *d = opendir("/proc/self/fd");
    if (d) { while (readdir(d)) fds++; closedir(d); }
    current_path(path);
    int len = snprintf(line, sizeof line, "%s sig:%s blocked:%lx fds:%d\n", path, sigs, mask, fds);
    if (fingerprints_fd >= 0 && write(fingerprints_fd, line, len) != len) abort();
}

static TestC *current(void) {
    static char path[70000];
    current_path(path);
    for (int i = 0; i < ntests; i++)
        if (strcmp(tests[i].path, path) == 0) return &tests[i];
    /* test code running outside any test's start/finish bracket: logged (with the path as it is), judged by the oracle */
    return NULL;
}

static int decl_counter;
static const char *current_file = "scenario";
static const char *running_file = "scenario";
static char *unhex_text(const char *h) {
    size_t n = strlen(h) / 2; char *t = (char *)malloc(n + 1);
    for (size_t i = 0; i < n; i++) { unsigned v; sscanf(h + 2 * i, "%2x", &v); t[i] = (char)v; }
    t[n] = 0; return t;
}
static volatile int program_global;

static int probe_fn(void) { return (int)mock(); }
static void setter_fn(int *out) { mock(out); }

static void green_body(void) { assert_that(1, is_equal_to(1)); }
static void late_failure(void) { assert_that(0, is_equal_to(1)); }      /* a check that fails in an exit handler of the test's process */
static int late_n;
static void late_many(void) { for (int i = 0; i < late_n; i++) assert_that(1, is_equal_to(1)); assert_that(0, is_equal_to(1)); }      /* many checks, then a failing one, in an exit handler */

static void do_acts(ActC *acts, int n) {
    for (int i = 0; i < n; i++) {
        switch (acts[i].kind) {
        case 'P': assert_that(1, is_equal_to(1)); break;
        case 'F': assert_that(i, is_equal_to(-1)); break;
        case 'S': skip_test(); break;
        case 'A': atexit(late_failure); break;
        case 'L': late_n = acts[i].arg; atexit(late_many); break;
        case 'N': send_reporter_exception_notification(get_test_reporter()); break;      /* what a C++ test body that throws makes cgreen send, after which the test completes */
        case 'H': {          /* a helper process of the test's own (a server it talks to ...): it lives as long as the test's process does */
            pid_t parent = getpid();
            if (fork() == 0) { for (int i = 0; i < 3000 && getppid() == parent; i++) usleep(20000); _exit(0); }
            break;
        }
        case 'I': signal(acts[i].arg ? SIGPIPE : SIGALRM, SIG_IGN); break;
        case 'Q': { void (*old)(int) = signal(SIGINT, SIG_DFL); assert_that(old == SIG_DFL, is_true); break; }      /* the test finds Ctrl-C in its default disposition */          /* code under test that uses the alarm signal itself and leaves it ignored */
        case 'X': assert_true_with_message(0, "%s", acts[i].text); break;           /* the text as an argument */
        case 'Y': {                                                                  /* the text as the (percent-doubled) format, as assert_that() passes it */
            char *doubled = (char *)malloc(2 * strlen(acts[i].text) + 1), *d = doubled;
            for (const char *c = acts[i].text; *c; c++) { if (*c == '%') *d++ = '%'; *d++ = *c; }
            *d = 0;
            (*get_test_reporter()->assert_true)(get_test_reporter(), running_file, 7, 0, doubled);
            free(doubled);
            break;
        }
        case 'p': never_expect_(get_test_reporter(), mock_names[decl_counter++ % 256], "scenario", i, (Constraint *)0); break;
        case 'f': expect_(get_test_reporter(), mock_names[decl_counter++ % 256], "scenario", i, (Constraint *)0); break;
        case 'K': kill(getpid(), acts[i].arg); pause(); break;
        case 'E': exit(0);
        case 'U': _exit(0);
        case 'Z': if (acts[i].arg) die_in(1); for (;;) sleep(100);
        case 'l': cgreen_mocks_are(loose_mocks); break;
        case 'g': cgreen_mocks_are(learning_mocks); break;
        case 's': cgreen_mocks_are(strict_mocks); break;
        case 'u': probe_fn(); break;
        case 'e': expect(probe_fn); probe_fn(); break;
        case 'G': significant_figures_for_assert_double_are(acts[i].arg); break;
        case 'D': assert_that_double(1.0, is_equal_to_double(1.002)); break;
        case 'W': program_global = 1; break;
        case 'R': assert_that(program_global, is_equal_to(0)); break;
        case 'c': {
            static int value = 4711;
            int buffer = 0;
            expect(setter_fn, will_set_contents_of_parameter(out, &value, sizeof(value)));
            setter_fn(&buffer);
            assert_that(buffer, is_equal_to(4711));
            break;
        }
        default: abort();
        }
    }
}

/* every declaration of one test (context setup, body, context teardown) names its own mock function */
static void scripted_body(void) { TestC *t = current(); log_event("body"); log_fingerprint(); if (!t || !t->ctx) decl_counter = 0; if (t) { running_file = t->spec.filename; do_acts(t->body, t->nbody); } }
static void ctx_setup(void) { TestC *t = current(); log_event("ctxSetup"); decl_counter = 0; if (t) do_acts(t->setup, t->nsetup); }
static void ctx_teardown(void) { TestC *t = current(); log_event("ctxTeardown"); if (t) do_acts(t->teardown, t->nteardown); }
/* A suite's fixtures run in the reporting process around its sub-suites (breadcrumb = the suite) and in the
 * test's process around each of its own tests (breadcrumb = the suite + the test) */
static SuiteC *current_suite(void) {
    static char path[70000];
    current_path(path);
    for (int pass = 0; pass < 2; pass++) {
        for (int i = 0; i < nsuites; i++)
            if (strcmp(suites[i].path, path) == 0) return &suites[i];
        char *slash = strrchr(path, '/');
        if (!slash) break;
        *slash = 0;
    }
    return NULL;
}
static void suite_setup(void) { SuiteC *s = current_suite(); log_event("suiteSetup"); if (s) do_acts(s->setup, s->nsetup); }
static void suite_teardown(void) { SuiteC *s = current_suite(); log_event("suiteTeardown"); if (s) do_acts(s->teardown, s->nteardown); }

static CgreenContext scripted_ctx = { "Ctx", "scenario", &ctx_setup, &ctx_teardown };

static int parse_acts(char *s, ActC **out) {
    static ActC pool[MAXA];
    static int used;
    ActC *start = pool + used;
    int n = 0;
    for (char *tok = strtok(s, " \t\n"); tok; tok = strtok(NULL, " \t\n")) {
        ActC a = { 0, 0, NULL };
        if (!strcmp(tok, "P")) a.kind = 'P';
        else if (!strcmp(tok, "F")) a.kind = 'F';
        else if (!strcmp(tok, "S")) a.kind = 'S';
        else if (!strcmp(tok, "AX")) a.kind = 'A';
        else if (tok[0] == 'A' && tok[1] == 'L') { a.kind = 'L'; a.arg = atoi(tok + 2); }
        else if (!strcmp(tok, "XN")) a.kind = 'N';
        else if (!strcmp(tok, "IA")) a.kind = 'I';
        else if (!strcmp(tok, "IP")) { a.kind = 'I'; a.arg = 1; }      /* code under test that ignores SIGPIPE, as network code does */
        else if (!strcmp(tok, "HP")) a.kind = 'H';
        else if (!strcmp(tok, "QI")) a.kind = 'Q';
        else if (tok[0] == 'X' || tok[0] == 'Y') { a.kind = tok[0]; a.text = unhex_text(tok + 1); }
        else if (!strcmp(tok, "MP")) a.kind = 'p';
        else if (!strcmp(tok, "MF")) a.kind = 'f';
        else if (!strcmp(tok, "E")) a.kind = 'E';
        else if (!strcmp(tok, "U")) a.kind = 'U';
        else if (!strcmp(tok, "Z")) a.kind = 'Z';
        else if (!strcmp(tok, "ZD")) { a.kind = 'Z'; a.arg = 1; }
        else if (tok[0] == 'K') { a.kind = 'K'; a.arg = atoi(tok + 1); }
        else if (!strcmp(tok, "ML")) a.kind = 'l';
        else if (!strcmp(tok, "MG")) a.kind = 'g';
        else if (!strcmp(tok, "MS")) a.kind = 's';
        else if (!strcmp(tok, "CU")) a.kind = 'u';
        else if (!strcmp(tok, "EC")) a.kind = 'e';
        else if (!strcmp(tok, "MC")) a.kind = 'c';
        else if (!strcmp(tok, "D")) a.kind = 'D';
        else if (!strcmp(tok, "W")) a.kind = 'W';
        else if (!strcmp(tok, "R")) a.kind = 'R';
        else if (tok[0] == 'G') { a.kind = 'G'; a.arg = atoi(tok + 1); }
        else { fprintf(stderr, "bad act %s\n", tok); exit(3); }
        if (used >= MAXA) { fprintf(stderr, "too many acts\n"); exit(3); }
        pool[used++] = a;
        n++;
    }
    *out = start;
    return n;
}

int main(int argc, char **argv) {
    if (argc < 4) { fprintf(stderr, "usage: scenario_run file reporter outdir\n"); return 2; }
    const char *reporter_kind = argv[2];
    const char *outdir = argv[3];
    static char buf[1000000];
    FILE *in = fopen(argv[1], "r");
    if (!in) { perror(argv[1]); return 2; }
    main_pid = getpid();
    for (int i = 0; i < 256; i++) { char nm[16]; snprintf(nm, sizeof nm, "mf%d", i); mock_names[i] = strdup(nm); }

    ActC *pre = NULL; int npre = 0;
    int rerun_green = 0;
    char again_value[64] = "", again_mode[256] = "";
    TestSuite *stack[MAXS];
    static char paths[MAXS][16384];
    int sp = 0;
    TestSuite *root = NULL;
    char mode[256] = "fork";
    while (fgets(buf, sizeof buf, in)) {
        if (buf[0] == '#' || buf[0] == '\n') continue;
        if (!strncmp(buf, "cfg ", 4)) {
            int cap;
            sscanf(buf, "cfg %d %255s", &cap, mode);
        } else if (!strncmp(buf, "begin ", 6)) {
            static char name[6000]; int su, td;
            sscanf(buf, "begin %5999s %d %d", name, &su, &td);
            TestSuite *s = create_named_test_suite_(strdup(name), "scenario", 1);
            if (su) set_setup(s, suite_setup);
            if (td) set_teardown(s, suite_teardown);
            if (sp > 0) { add_suite_(stack[sp - 1], strdup(name), s); snprintf(paths[sp], sizeof paths[sp], "%s/%s", paths[sp - 1], name); }
            else { root = s; snprintf(paths[sp], sizeof paths[sp], "%s", name); }
            stack[sp++] = s;
        } else if (!strncmp(buf, "rerun", 5)) {
            rerun_green = 1;      /* after the run, a second run with the SAME reporter: one suite with one passing test */
        } else if (!strncmp(buf, "again ", 6)) {
            sscanf(buf, "again %63s %255s", again_value, again_mode);
        } else if (!strncmp(buf, "pre ", 4)) {
            /* acts executed by the program itself before the run starts */
            npre = parse_acts(buf + 4, &pre);
        } else if (!strncmp(buf, "fixture ", 8)) {
            /* scripted fixtures of the suite just begun: "fixture <setup acts>;<teardown acts>" */
            if (!suites) suites = (SuiteC *)calloc(MAXS, sizeof(SuiteC));
            SuiteC *su = &suites[nsuites++];
            snprintf(su->path, sizeof su->path, "%s", paths[sp - 1]);
            char *a = buf + 8, *b = strchr(a, ';');
            *b++ = 0;
            su->nsetup = parse_acts(a, &su->setup);
            su->nteardown = parse_acts(b, &su->teardown);
        } else if (!strncmp(buf, "file ", 5)) {
            buf[strcspn(buf, "\n")] = 0;
            current_file = unhex_text(buf + 5);
        } else if (!strncmp(buf, "end", 3)) {
            sp--;
        } else if (!strncmp(buf, "test ", 5)) {
            TestC *t = &tests[ntests++];
            int off = 0;
            sscanf(buf, "test %5999s %d %d %n", t->name, &t->xskip, &t->ctx, &off);
            char *rest = buf + off;
            char *b = rest, *s = strchr(rest, ';'), *d;
            *s++ = 0; d = strchr(s, ';'); *d++ = 0;
            t->nbody = parse_acts(b, &t->body);
            t->nsetup = parse_acts(s, &t->setup);
            t->nteardown = parse_acts(d, &t->teardown);
            snprintf(t->path, sizeof t->path, "%s/%s", paths[sp - 1], t->name);
            t->spec.skip = t->xskip;
            t->spec.context = t->ctx ? &scripted_ctx : &defaultContext;
            t->spec.name = t->name;
            t->spec.run = &scripted_body;
            t->spec.filename = current_file;
            t->spec.line = ntests;
            add_test_(stack[sp - 1], t->name, &t->spec);
        }
    }
    fclose(in);

    if (chdir(outdir) != 0) { perror(outdir); return 2; }
    events_fd = open("events", O_WRONLY | O_CREAT | O_APPEND, 0644);
    fingerprints_fd = open("fingerprints", O_WRONLY | O_CREAT | O_APPEND, 0644);

    TestReporter *reporter = NULL;
    TextReporterOptions topt;
    memset(&topt, 0, sizeof topt);
    CDashInfo cdash;
    memset(&cdash, 0, sizeof cdash);
    if (!strcmp(reporter_kind, "text")) { reporter = create_text_reporter(); set_reporter_options(reporter, &topt); }
    else if (!strcmp(reporter_kind, "textc")) { reporter = create_text_reporter(); topt.use_colours = 1; set_reporter_options(reporter, &topt); }      /* as cgreen-runner on a terminal */
    else if (!strcmp(reporter_kind, "quiet")) { reporter = create_text_reporter(); topt.quiet_mode = 1; set_reporter_options(reporter, &topt); }
    else if (!strcmp(reporter_kind, "cute")) reporter = create_cute_reporter();
    else if (!strcmp(reporter_kind, "xml")) reporter = create_xml_reporter("xml");
    else if (!strcmp(reporter_kind, "libxml")) reporter = create_libxml_reporter("xml");
    else if (!strcmp(reporter_kind, "xmlp")) { reporter = create_xml_reporter("xml"); printer_file = fopen("xmlp.out", "w"); set_xml_reporter_printer(reporter, &file_printer); }
    else if (!strcmp(reporter_kind, "libxmlp")) { reporter = create_libxml_reporter("xml"); set_libxml_reporter_printer(reporter, &doc_printer); }
    else if (!strcmp(reporter_kind, "cdash")) {
        cdash.name = (char *)"n"; cdash.build = (char *)"b"; cdash.type = (char *)"t"; cdash.hostname = (char *)"h";
        cdash.os_name = (char *)"o"; cdash.os_platform = (char *)"p"; cdash.os_release = (char *)"r"; cdash.os_version = (char *)"v";
        reporter = create_cdash_reporter(&cdash);
    }
    if (!reporter) { fprintf(stderr, "no reporter\n"); return 2; }

    if (npre) do_acts(pre, npre);
    int status;
    if (!strcmp(mode, "fork")) { unsetenv("CGREEN_NO_FORK"); status = run_test_suite(root, reporter); }
    else if (!strcmp(mode, "inproc")) { setenv("CGREEN_NO_FORK", "1", 1); status = run_test_suite(root, reporter); }
    else if (!strncmp(mode, "single:", 7)) status = run_single_test(root, mode + 7, reporter);
    else { fprintf(stderr, "bad mode %s\n", mode); return 2; }

    if (getpid() != main_pid) _exit(77);      /* a child escaped: must never happen */
    if (again_mode[0]) {
        /* a second run in the same process, with another time limit: "again <value|-> <mode>" (text reporter) */
        if (!strcmp(again_value, "-")) unsetenv("CGREEN_PER_TEST_TIMEOUT"); else setenv("CGREEN_PER_TEST_TIMEOUT", again_value, 1);
        TestReporter *second = create_text_reporter();
        if (!strcmp(again_mode, "fork")) { unsetenv("CGREEN_NO_FORK"); status = run_test_suite(root, second); }
        else if (!strcmp(again_mode, "inproc")) { setenv("CGREEN_NO_FORK", "1", 1); status = run_test_suite(root, second); }
        else status = run_single_test(root, again_mode + 7, second);
        if (getpid() != main_pid) _exit(77);
    }
    if (rerun_green) {
        static CgreenTest green_spec = { 0, &defaultContext, "green", &green_body, "scenario", 1 };
        TestSuite *second_suite = create_named_test_suite_("second", "scenario", 1);
        add_test_(second_suite, "green", &green_spec);
        FILE *fs = fopen("status1", "w"); fprintf(fs, "returned %d\n", status); fclose(fs);
        unsetenv("CGREEN_NO_FORK");
        status = run_test_suite(second_suite, reporter);
        if (getpid() != main_pid) _exit(77);
    }
    FILE *st = fopen("status", "w");
    fprintf(st, "returned %d\n", status);
    fclose(st);
    reporter->destroy(reporter);
    fflush(NULL);
    return status;      /* what a test program does: `return run_test_suite(...)` */
}
