/* C08 harness: a test whose body runs another suite in its own process (as cgreen's own tests of the runner do) still
 * gets its own fixtures, once each, around its body - and so does the inner test.
 *
 *   nested_run <fork|inproc|single> <single|suite> <ctx|suitefix|both> <logfile>
 *     1st: how the outer suite is run; 2nd: how the outer test's body runs the inner suite (run_single_test, or
 *     run_test_suite with CGREEN_NO_FORK set for the duration); 3rd: which fixtures the outer test has.
 *   The log gets one line "<pid> <event>" per fixture/body event. */
#define _GNU_SOURCE
#include <cgreen/cgreen.h>
#include <fcntl.h>
#include <stdio.h>
#include <stdlib.h>
#include <string.h>
#include <unistd.h>

static const char *log_path, *inner_kind;

static void note(const char *event) {
    char line[128];
    int fd = open(log_path, O_WRONLY | O_APPEND | O_CREAT, 0600);
    int n = snprintf(line, sizeof line, "%ld %s\n", (long)getpid(), event);
    if (fd < 0 || write(fd, line, (size_t)n) != n) _exit(99);
    close(fd);
}

static void inner_setup(void) { note("inner_setup"); }
static void inner_teardown(void) { note("inner_teardown"); }
static CgreenContext inner_context = { "Inner", "nested_run.c", &inner_setup, &inner_teardown };
static void inner_body(void) { note("inner_body"); assert_that(1, is_equal_to(1)); }
static CgreenTest inner_spec = { 0, &inner_context, "inner_test", &inner_body, "nested_run.c", 1 };

static void outer_setup(void) { note("outer_setup"); }
static void outer_teardown(void) { note("outer_teardown"); }
static CgreenContext outer_context = { "Outer", "nested_run.c", &outer_setup, &outer_teardown };
static void suite_setup(void) { note("suite_setup"); }
static void suite_teardown(void) { note("suite_teardown"); }

static void outer_body(void) {
    TestSuite *inner = create_named_test_suite_("inner", "nested_run.c", 1);
    TestReporter *inner_reporter = create_reporter();      /* the silent base reporter */
    add_test_(inner, "inner_test", &inner_spec);
    note("outer_body_begin");
    if (!strcmp(inner_kind, "suite")) {
        char *was = getenv("CGREEN_NO_FORK") ? strdup(getenv("CGREEN_NO_FORK")) : NULL;
        setenv("CGREEN_NO_FORK", "1", 1);
        run_test_suite(inner, inner_reporter);
        if (was) setenv("CGREEN_NO_FORK", was, 1); else unsetenv("CGREEN_NO_FORK");
    } else
        run_single_test(inner, "inner_test", inner_reporter);
    note("outer_body_end");
}
static void plain_body(void) { note("plain_body"); }
static CgreenTest outer_spec = { 0, &outer_context, "runs_an_inner_suite", &outer_body, "nested_run.c", 2 };
static CgreenTest outer_spec_noctx = { 0, &defaultContext, "runs_an_inner_suite", &outer_body, "nested_run.c", 2 };
static CgreenTest plain_spec = { 0, &outer_context, "plain", &plain_body, "nested_run.c", 3 };
static CgreenTest plain_spec_noctx = { 0, &defaultContext, "plain", &plain_body, "nested_run.c", 3 };

int main(int argc, char **argv) {
    if (argc < 5) return 2;
    const char *mode = argv[1], *fixtures = argv[3];
    inner_kind = argv[2]; log_path = argv[4];
    int ctx = strcmp(fixtures, "suitefix") != 0, sfx = strcmp(fixtures, "ctx") != 0;
    TestSuite *outer = create_named_test_suite_("outer", "nested_run.c", 1);
    if (sfx) { set_setup(outer, suite_setup); set_teardown(outer, suite_teardown); }
    add_test_(outer, "runs_an_inner_suite", ctx ? &outer_spec : &outer_spec_noctx);
    add_test_(outer, "plain", ctx ? &plain_spec : &plain_spec_noctx);
    TestReporter *reporter = create_reporter();
    if (!strcmp(mode, "single")) return run_single_test(outer, "runs_an_inner_suite", reporter);
    if (!strcmp(mode, "inproc")) setenv("CGREEN_NO_FORK", "1", 1); else unsetenv("CGREEN_NO_FORK");
    return run_test_suite(outer, reporter);
}
