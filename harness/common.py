"""Shared machinery of every check: build cgreen from /repo's working tree, re-check the Lean
theorems, audit axioms, run the model driver, match known findings, write evidence."""
import fcntl, glob, hashlib, json, os, re, shutil, subprocess, sys, tempfile, time

VERIF = os.path.dirname(os.path.dirname(os.path.abspath(__file__)))
REPO = os.environ.get("VERIF_REPO", "/repo")
LEAN = os.path.join(VERIF, "lean")
HARNESS = os.path.join(VERIF, "harness")
GUARD = "CGREEN_VERIF"
ALLOWED_AXIOMS = {"propext", "Classical.choice", "Quot.sound"}
NCPU = os.cpu_count() or 4


def sh(cmd, **kw):
    kw.setdefault("stdout", subprocess.PIPE)
    kw.setdefault("stderr", subprocess.STDOUT)
    kw.setdefault("text", True)
    return subprocess.run(cmd, **kw)


class Ctx:
    """One invocation of ./check <prop> --tier <tier>."""

    def __init__(self, prop, tier, seed):
        self.prop, self.tier, self.seed = prop, tier, seed
        self.t0 = time.time()
        os.makedirs(os.path.join(VERIF, ".work"), exist_ok=True)
        self.work = tempfile.mkdtemp(prefix=f"{prop}-", dir=os.path.join(VERIF, ".work"))
        self.violations = []       # (what, replay_path, found_input: bool)
        self.known_printed = []
        self.obligations = []      # (name, ok, detail)
        self.coverage = {}
        self.assumptions = []
        self.known = load_known()
        self.log_lines = []

    def log(self, *a):
        s = " ".join(str(x) for x in a)
        self.log_lines.append(s)
        print(s, flush=True)

    # ---- obligations -------------------------------------------------------------------------
    def oblige(self, name, ok, detail=""):
        self.obligations.append((name, bool(ok), detail))
        if not ok:
            self.log(f"obligation FAILED: {name} {detail[:400]}")

    # ---- violations / known findings -------------------------------------------------------
    def violation(self, what, case, found_input=True, facts=None):
        """Report a property violation; `case` is written as the replay file. `facts` is a dict of
        structural facts about the failing case that known_findings.json predicates match on."""
        facts = facts or {}
        for k in self.known:
            if k.get("kind") == "known" and k["property"] == self.prop and match_known(k["match"], facts):
                line = f"KNOWN-FINDING: property={self.prop} {k['id']}: {k['what']}"
                if line not in self.known_printed:
                    self.known_printed.append(line)
                    print(line, flush=True)
                return False
        os.makedirs(os.path.join(VERIF, "replays"), exist_ok=True)
        n = len(self.violations)
        path = os.path.join(VERIF, "replays", f"{self.prop}-{self.tier}-{self.seed}-{n}.txt")
        with open(path, "w") as f:
            f.write(f"# property {self.prop}: {what}\n")
            f.write(f"# facts: {json.dumps(facts, sort_keys=True)}\n")
            f.write(case if isinstance(case, str) else json.dumps(case, indent=1))
            f.write("\n")
        self.violations.append((what, path, found_input))
        tail = "" if found_input else " no-failing-input-found"
        print(f"VIOLATION property={self.prop} replay={path} {what[:300]}{tail}", flush=True)
        return True

    # ---- finish --------------------------------------------------------------------------------
    def finish(self, write=True):
        if not write:
            shutil.rmtree(self.work, ignore_errors=True)
            return 1 if self.violations else 0
        obl = len(self.obligations)
        dis = sum(1 for o in self.obligations if o[1])
        cov = dict(self.coverage)
        cov.setdefault("obligations", obl)
        cov.setdefault("discharged", dis)
        cov["obligation_list"] = [{"name": n, "ok": ok, **({"detail": d[:300]} if d and not ok else {})}
                                  for n, ok, d in self.obligations]
        cov.setdefault("checker_cmd", f"cd {LEAN} && lake build CgreenModel.Props.{self.prop} && lake env lean CgreenModel/Audit/{self.prop}.lean")
        cov.setdefault("trusted_base", TRUSTED_BASE)
        cov["known_findings_printed"] = self.known_printed
        ev = {"property_id": self.prop, "tier": self.tier, "seed": self.seed, "level": "proof",
              "coverage": cov, "assumptions": self.assumptions,
              "wall_s": round(time.time() - self.t0, 2), "violations": len(self.violations)}
        os.makedirs(os.path.join(VERIF, "evidence"), exist_ok=True)
        with open(os.path.join(VERIF, "evidence", f"{self.prop}.json"), "w") as f:
            json.dump(ev, f, indent=1, default=str)
        shutil.rmtree(self.work, ignore_errors=True)
        return 1 if self.violations else 0


TRUSTED_BASE = [
    "Lean 4.33 kernel (theorems re-checked by `lake build` on every run; leanchecker in the thorough tier)",
    "axioms allowed in property theorems: propext, Classical.choice, Quot.sound (audited by #print axioms on every run); no native_decide, no bv_decide, no sorry",
    "the correspondence harness (harness/*.c, harness/*.py): drives the real code built from /repo's working tree and canonicalises its output",
    "gcc, glibc, the Linux kernel (fork/wait/pipe semantics), libxml2 are modelled or assumed, not verified",
]


def load_known():
    p = os.path.join(VERIF, "known_findings.json")
    if not os.path.exists(p):
        return []
    return json.load(open(p))["findings"]


def match_known(pred, facts):
    """pred: dict key -> required value (or list of allowed values). All keys must be present in facts."""
    for k, v in pred.items():
        if k not in facts:
            return False
        if isinstance(v, list):
            if facts[k] not in v:
                return False
        elif facts[k] != v:
            return False
    return True


# ------------------------------------------------------------------------------------------------
# Building the implementation from the working tree
# ------------------------------------------------------------------------------------------------
def cmake_list(path, var):
    txt = open(path).read()
    out = []
    # first definition `set(var ... )` and LIST(APPEND var ...) for posix/xml/libxml
    for m in re.finditer(r"(?:set|LIST)\s*\(\s*(?:APPEND\s+)?%s\b(.*?)\)" % re.escape(var), txt, re.S | re.I):
        for f in re.findall(r"\$\{CMAKE_CURRENT_SOURCE_DIR\}/([\w\-\.]+)", m.group(1)):
            if f not in out:
                out.append(f)
    return out


def lib_sources():
    srcs = cmake_list(os.path.join(REPO, "src", "CMakeLists.txt"), "cgreen_SRCS")
    return [s for s in srcs if not s.startswith("win32")]


def runner_sources():
    return cmake_list(os.path.join(REPO, "tools", "CMakeLists.txt"), "RUNNER_SRCS")


def version_string():
    txt = open(os.path.join(REPO, "CMakeLists.txt")).read()
    m = re.search(r"APPLICATION_VERSION\s+\"?\$?\{?([^\"\)\s]+)", txt)
    return "1.6.4"


def build_impl(ctx, asan=False, runner=False, tag=None):
    """Compile libcgreen.so (and optionally cgreen-runner) from REPO's working tree with -DCGREEN_VERIF.
    Returns dict(dir=, lib=, runner=, cflags=, ldflags=)."""
    tag = tag or ("asan" if asan else "plain")
    d = os.path.join(ctx.work, "impl-" + tag)
    os.makedirs(d, exist_ok=True)
    inc = os.path.join(d, "inc")
    os.makedirs(inc, exist_ok=True)
    with open(os.path.join(inc, "config.h"), "w") as f:
        f.write('#define PACKAGE "cgreen"\n#define VERSION "1.6.4"\n#define PLUGINDIR "-1"\n')
    # utils.c includes "../gitrevision.h" (generated by cmake into the source dir, git-ignored)
    gitrev_created = False
    gr = os.path.join(REPO, "gitrevision.h")
    if not os.path.exists(gr):
        # keep the source dir untouched: compile utils.c from a shadow copy instead
        pass
    san = ["-fsanitize=address,undefined", "-fno-sanitize-recover=all", "-fno-omit-frame-pointer"] if asan else []
    common = ["-g", "-O1", "-fPIC", "-w", f"-D{GUARD}", '-DVERSION="1.6.4"', "-DHAVE_XML_REPORTER=1",
              "-DHAVE_LIBXML2_REPORTER=1", f"-I{REPO}", f"-I{REPO}/include", f"-I{REPO}/src", f"-I{inc}",
              "-I/usr/include/libxml2"] + san
    srcs = lib_sources()
    objs = []
    procs = []
    shadow = os.path.join(d, "shadow", "src")
    for s in srcs:
        path = os.path.join(REPO, "src", s)
        if s == "utils.c" and not os.path.exists(gr):
            os.makedirs(shadow, exist_ok=True)
            shutil.copy(path, os.path.join(shadow, "utils.c"))
            with open(os.path.join(d, "shadow", "gitrevision.h"), "w") as f:
                f.write('#define GITREVISION "verif"\n')
            path = os.path.join(shadow, "utils.c")
        o = os.path.join(d, s.replace(".", "_") + ".o")
        objs.append(o)
        cc = ["g++", "-std=gnu++17"] if s.endswith(".cpp") else ["gcc"]
        procs.append((s, subprocess.Popen(cc + common + ["-c", path, "-o", o], stdout=subprocess.PIPE,
                                          stderr=subprocess.STDOUT, text=True)))
    errs = []
    for s, p in procs:
        out, _ = p.communicate()
        if p.returncode != 0:
            errs.append(f"{s}: {out[-2000:]}")
    if errs:
        raise BuildError("\n".join(errs))
    lib = os.path.join(d, "libcgreen.so")
    r = sh(["g++", "-shared", "-o", lib] + objs + san + ["-lxml2", "-lm"])
    if r.returncode != 0:
        raise BuildError(r.stdout[-3000:])
    res = {"dir": d, "lib": lib, "cflags": common, "san": san,
           "ldflags": [f"-L{d}", "-lcgreen", f"-Wl,-rpath,{d}"] + san + ["-lxml2", "-lm", "-ldl"]}
    if runner:
        rs = [os.path.join(REPO, "tools", s) for s in runner_sources()]
        exe = os.path.join(d, "cgreen-runner")
        nm = shutil.which("nm") or "/usr/bin/nm"
        r = sh(["gcc"] + common + [f"-I{REPO}/tools", f'-DNM_EXECUTABLE="{nm}"'] + rs + ["-o", exe] + res["ldflags"])
        if r.returncode != 0:
            raise BuildError(r.stdout[-3000:])
        res["runner"] = exe
    return res


class BuildError(Exception):
    pass


def compile_harness(ctx, impl, name, srcs, cxx=False, extra=None, out=None):
    exe = os.path.join(impl["dir"], out or name)
    cc = ["g++", "-std=gnu++17"] if cxx else ["gcc"]
    r = sh(cc + impl["cflags"] + [f"-I{HARNESS}"] + (extra or []) + [os.path.join(HARNESS, s) if not os.path.isabs(s) else s for s in srcs]
           + ["-o", exe] + impl["ldflags"] + ["-lpthread"])
    if r.returncode != 0:
        raise BuildError(f"harness {name}: {r.stdout[-3000:]}")
    return exe


def asan_env(extra=None):
    e = dict(os.environ)
    e["ASAN_OPTIONS"] = "detect_leaks=0:abort_on_error=0:exitcode=99:allocator_may_return_null=1"
    e["UBSAN_OPTIONS"] = "halt_on_error=1:exitcode=98:print_stacktrace=1"
    if extra:
        e.update(extra)
    return e


# ------------------------------------------------------------------------------------------------
# Lean: re-check theorems, audit
# ------------------------------------------------------------------------------------------------
class LakeLock:
    def __enter__(self):
        os.makedirs(os.path.join(LEAN, ".lake"), exist_ok=True)
        self.f = open(os.path.join(LEAN, ".lake", "verif.lock"), "w")
        fcntl.flock(self.f, fcntl.LOCK_EX)
        return self

    def __exit__(self, *a):
        fcntl.flock(self.f, fcntl.LOCK_UN)
        self.f.close()


FORBIDDEN = re.compile(r"\b(sorry|admit|native_decide|bv_decide|implemented_by|unsafe)\b|^\s*axiom\s|maxHeartbeats\s+0")


def strip_comments(txt):
    # remove nested block comments and line comments (good enough for an audit grep)
    out, i, depth = [], 0, 0
    while i < len(txt):
        if txt.startswith("/-", i):
            depth += 1; i += 2; continue
        if txt.startswith("-/", i) and depth:
            depth -= 1; i += 2; continue
        if depth == 0:
            if txt.startswith("--", i):
                j = txt.find("\n", i)
                i = len(txt) if j < 0 else j
                continue
            out.append(txt[i])
        elif txt[i] == "\n":
            out.append("\n")
        i += 1
    return "".join(out)


def lean_sources():
    return sorted(glob.glob(os.path.join(LEAN, "CgreenModel", "**", "*.lean"), recursive=True)) + \
        sorted(glob.glob(os.path.join(LEAN, "Driver", "*.lean")))


def grep_audit():
    hits = []
    for p in lean_sources():
        if "/Audit/" in p:
            continue
        txt = strip_comments(open(p).read())
        # string literals may legitimately contain words; drop them
        txt = re.sub(r'"(?:[^"\\]|\\.)*"', '""', txt)
        for n, line in enumerate(txt.split("\n"), 1):
            if FORBIDDEN.search(line):
                hits.append(f"{os.path.relpath(p, LEAN)}:{n}: {line.strip()[:120]}")
    return hits


def property_theorems(prop):
    """Names of the theorems declared in Props/<prop>.lean (property theorems live only there)."""
    p = os.path.join(LEAN, "CgreenModel", "Props", f"{prop}.lean")
    txt = strip_comments(open(p).read())
    ns = None
    names = []
    stack = []
    for line in txt.split("\n"):
        m = re.match(r"\s*namespace\s+(\S+)", line)
        if m:
            stack.append(m.group(1)); continue
        m = re.match(r"\s*end\s+(\S+)", line)
        if m and stack and stack[-1] == m.group(1):
            stack.pop(); continue
        m = re.match(r"\s*(?:@\[[^\]]*\]\s*)?(?:protected\s+|private\s+)?theorem\s+([^\s:({\[]+)", line)
        if m:
            names.append(".".join(stack + [m.group(1)]))
    return names


def lean_check(ctx, prop=None, lean_dir=None):
    """lake build the property module, grep-audit, #print axioms audit. Records obligations."""
    prop = prop or ctx.prop
    lean_dir = lean_dir or LEAN
    t0 = time.time()
    with LakeLock():
        r = sh(["lake", "build", f"CgreenModel.Props.{prop}", "modeldrv"], cwd=lean_dir)
        build_ok = r.returncode == 0
        build_out = r.stdout
        thms = property_theorems(prop)
        axioms = {}
        audit_ok = True
        if build_ok:
            os.makedirs(os.path.join(lean_dir, "CgreenModel", "Audit"), exist_ok=True)
            af = os.path.join(ctx.work, f"Audit{prop}.lean")
            with open(af, "w") as f:
                f.write(f"import CgreenModel.Props.{prop}\n")
                for t in thms:
                    f.write(f"#print axioms {t}\n")
            r2 = sh(["lake", "env", "lean", af], cwd=lean_dir)
            cur = None
            txt = r2.stdout
            # output format: 'X' depends on axioms: [a, b]   |  'X' does not depend on any axioms
            for m in re.finditer(r"^'(.+?)' (does not depend on any axioms|depends on axioms: \[([^\]]*)\])", txt, re.S | re.M):
                nm = m.group(1)
                axs = [a.strip() for a in (m.group(3) or "").replace("\n", " ").split(",") if a.strip()]
                axioms[nm] = axs
            if r2.returncode != 0:
                audit_ok = False
                build_out += "\n" + txt
    ctx.coverage["lean_wall_s"] = round(time.time() - t0, 1)
    failed_thms = []
    if not build_ok:
        # which theorems failed? parse error lines "error: ...Props/Cxx.lean:LINE:COL"
        failed_thms = failing_decls(build_out, prop)
    for t in thms:
        if not build_ok:
            ok = t.split(".")[-1] not in failed_thms and False  # nothing is accepted when the module fails
            ctx.oblige(f"theorem {t}", ok, "module does not build: " + short_err(build_out))
            continue
        short = t
        ax = axioms.get(short)
        if ax is None:
            ctx.oblige(f"theorem {t}", False, "no #print axioms output")
            continue
        bad = [a for a in ax if a not in ALLOWED_AXIOMS]
        ctx.oblige(f"theorem {t}", not bad, f"axioms {ax}")
    hits = grep_audit()
    ctx.oblige("audit: no sorry/admit/axiom/native_decide/bv_decide/implemented_by/unsafe/maxHeartbeats 0", not hits, "; ".join(hits))
    ctx.coverage["axioms"] = axioms
    ctx.coverage["theorems"] = thms
    if ctx.tier == "thorough" and build_ok:
        with LakeLock():
            r3 = sh(["lake", "env", "leanchecker", f"CgreenModel.Props.{prop}"], cwd=lean_dir)
        ctx.oblige(f"leanchecker CgreenModel.Props.{prop}", r3.returncode == 0, r3.stdout[-500:])
    return build_ok and audit_ok and not hits, build_out, failed_thms


def short_err(out):
    errs = [l for l in out.split("\n") if "error" in l]
    return " | ".join(errs[:4])[:600]


def failing_decls(out, prop):
    """Map error positions in Props/<prop>.lean (and elsewhere) to the enclosing theorem names."""
    names = []
    for m in re.finditer(r"error: ([^\s:]+\.lean):(\d+):(\d+)", out):
        path, line = m.group(1), int(m.group(2))
        full = path if os.path.isabs(path) else os.path.join(LEAN, path)
        try:
            lines = open(full).read().split("\n")
        except OSError:
            continue
        for i in range(min(line, len(lines)) - 1, -1, -1):
            mm = re.match(r"\s*(?:@\[[^\]]*\]\s*)?(?:protected\s+|private\s+)?(?:theorem|lemma|def|example|instance)\s+([^\s:({\[]+)?", lines[i])
            if mm:
                names.append((os.path.relpath(full, LEAN), mm.group(1) or "example"))
                break
    return names


def modeldrv_path():
    return os.path.join(LEAN, ".lake", "build", "bin", "modeldrv")


def run_model(args, inp, timeout=600):
    exe = modeldrv_path()
    r = subprocess.run([exe] + args, input=inp, stdout=subprocess.PIPE, stderr=subprocess.PIPE, text=True, timeout=timeout)
    if r.returncode != 0:
        raise RuntimeError(f"modeldrv {args} failed: {r.stderr[-1000:]}")
    return r.stdout


def report_broken_obligations(ctx, searched):
    """Called after the search for a concrete failing input found nothing: every failed obligation is
    still a violation (the property is no longer shown to hold)."""
    bad = [(n, d) for n, ok, d in ctx.obligations if not ok]
    if bad and not ctx.violations:
        body = "broken proof obligations / correspondence (no concrete failing input was found):\n"
        body += "\n".join(f"- {n}: {d}" for n, d in bad)
        body += "\n\nsearch performed:\n" + searched
        ctx.violation("obligation no longer checks: " + bad[0][0], body, found_input=False, facts={"obligation": bad[0][0]})
