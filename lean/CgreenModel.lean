-- This module serves as the root of the `CgreenModel` library.
-- Import modules here that should be built as part of the library.
import CgreenModel.Basic
