import CgreenModel.Model.Runner
