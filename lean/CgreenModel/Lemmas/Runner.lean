import CgreenModel.Model.Runner
/-! Helper lemmas about the runner model: the reader drains exactly one test's records, a process
never writes a completion notice before its last record, one test leaves the channel empty. -/
namespace Cgreen

/-- What the reader adds to the counters for a block of records that contains no completion notice,
given whether a `skipped` record has already been seen (`sk`). -/
def cntOf : Bool → List Rec → Cnt
  | _, [] => 0
  | sk, .skipped :: q => (if sk then 0 else Rec.skipped.cnt) + cntOf true q
  | sk, r :: q => r.cnt + cntOf sk q

def hasSkip (l : List Rec) : Bool := l.contains .skipped

theorem readResults_block (c : Cnt) (sk : Bool) (w rest : List Rec) (h : Rec.completion ∉ w) :
    readResults c sk (w ++ .completion :: rest)
      = (c + cntOf sk w, rest, if sk || hasSkip w then .skippedSt else .received) := by
  induction w generalizing c sk with
  | nil => cases sk <;> simp [readResults, cntOf, hasSkip]
  | cons r w ih =>
    have hw : Rec.completion ∉ w := fun hm => h (List.mem_cons_of_mem _ hm)
    have hr : r ≠ .completion := fun e => h (e ▸ List.mem_cons_self)
    cases r with
    | completion => exact absurd rfl hr
    | skipped =>
      cases sk
      · simp only [List.cons_append, readResults, cntOf, Bool.false_eq_true, if_false]
        rw [ih _ _ hw]; simp [hasSkip, Cnt.add_assoc]
      · simp only [List.cons_append, readResults, cntOf, if_true]
        rw [ih _ _ hw]; simp [hasSkip]
    | pass => simp only [List.cons_append, readResults, cntOf]; rw [ih _ _ hw]; simp [hasSkip, Cnt.add_assoc]
    | fail => simp only [List.cons_append, readResults, cntOf]; rw [ih _ _ hw]; simp [hasSkip, Cnt.add_assoc]
    | exception => simp only [List.cons_append, readResults, cntOf]; rw [ih _ _ hw]; simp [hasSkip, Cnt.add_assoc]

theorem readResults_drain (c : Cnt) (sk : Bool) (w : List Rec) (h : Rec.completion ∉ w) :
    readResults c sk w = (c + cntOf sk w, [], if sk || hasSkip w then .skippedSt else .notReceived) := by
  induction w generalizing c sk with
  | nil => cases sk <;> simp [readResults, cntOf, hasSkip]
  | cons r w ih =>
    have hw : Rec.completion ∉ w := fun hm => h (List.mem_cons_of_mem _ hm)
    have hr : r ≠ .completion := fun e => h (e ▸ List.mem_cons_self)
    cases r with
    | completion => exact absurd rfl hr
    | skipped =>
      cases sk
      · simp only [readResults, cntOf, Bool.false_eq_true, if_false]
        rw [ih _ _ hw]; simp [hasSkip, Cnt.add_assoc]
      · simp only [readResults, cntOf, if_true]
        rw [ih _ _ hw]; simp [hasSkip]
    | pass => simp only [readResults, cntOf]; rw [ih _ _ hw]; simp [hasSkip, Cnt.add_assoc]
    | fail => simp only [readResults, cntOf]; rw [ih _ _ hw]; simp [hasSkip, Cnt.add_assoc]
    | exception => simp only [readResults, cntOf]; rw [ih _ _ hw]; simp [hasSkip, Cnt.add_assoc]

/-! ### Processes -/

/-- Invariant of a process that runs test code: it has written neither a completion notice nor an
exception record, and it has not been marked as killed late. -/
def Proc.NoCompl (pr : Proc) : Prop := Rec.completion ∉ pr.pipe ∧ Rec.exception ∉ pr.pipe ∧ pr.late = none

theorem Proc.send_noCompl (cap : Nat) (pr : Proc) (r : Rec) (h : pr.NoCompl) (hr : r ≠ .completion ∧ r ≠ .exception) :
    (pr.send cap r).NoCompl := by
  unfold Proc.send Proc.NoCompl at *
  have hmem : Rec.completion ∉ pr.pipe ++ [r] ∧ Rec.exception ∉ pr.pipe ++ [r] := by
    simp only [List.mem_append, List.mem_singleton, not_or]
    exact ⟨⟨h.1, fun e => hr.1 e.symm⟩, ⟨h.2.1, fun e => hr.2 e.symm⟩⟩
  split
  · exact h
  · split
    · exact h
    · split
      · split
        · exact ⟨hmem.1, hmem.2, h.2.2⟩
        · exact ⟨hmem.1, hmem.2, h.2.2⟩
      · exact h

theorem Proc.check_noCompl (cap : Nat) (pr : Proc) (ok : Bool) (h : pr.NoCompl) : (pr.check cap ok).NoCompl := by
  unfold Proc.check
  split
  · exact h
  · apply Proc.send_noCompl
    · exact h
    · cases ok <;> simp [recOf]

theorem Proc.checks_noCompl (cap : Nat) (pr : Proc) (oks : List Bool) (h : pr.NoCompl) : (pr.checks cap oks).NoCompl := by
  induction oks generalizing pr with
  | nil => exact h
  | cons ok oks ih => exact ih _ (Proc.check_noCompl cap pr ok h)

theorem Proc.step_noCompl (cap : Nat) (pr : Proc) (st : Step) (h : pr.NoCompl) : (pr.step cap st).NoCompl := by
  cases st with
  | ev ph => simp only [Proc.step]; split <;> exact h
  | tallyNow => exact Proc.checks_noCompl cap pr _ h
  | act a =>
    cases a with
    | check ok => exact Proc.check_noCompl cap pr ok h
    | skip => exact Proc.send_noCompl cap pr _ h (by simp)
    | decl ok => simp only [Proc.step]; split <;> exact h
    | die d => simp only [Proc.step]; split <;> exact h

theorem Proc.steps_noCompl (cap : Nat) (pr : Proc) (ss : List Step) (h : pr.NoCompl) : (pr.steps cap ss).NoCompl := by
  induction ss generalizing pr with
  | nil => exact h
  | cons s ss ih => exact ih _ (Proc.step_noCompl cap pr s h)

/-- The shape of what a process leaves in an initially empty channel. -/
def Proc.Shape (pr : Proc) : Prop :=
  (pr.dead = none ∧ (∃ w, pr.pipe = w ++ [.completion] ∧ Rec.completion ∉ w ∧ Rec.exception ∉ w)
      ∧ ∀ d, pr.late = some d → d.isSignal = true)
  ∨ (pr.dead.isSome ∧ Rec.completion ∉ pr.pipe ∧ Rec.exception ∉ pr.pipe ∧ pr.late = none)

/-- Either the process completed and the channel holds its records followed by one completion notice
(it may still have been killed by a signal afterwards), or it ended early and the channel holds its
records only. -/
theorem runCode_shape (cap : Nat) (su td : Bool) (t : Test) : (runCode cap [] su td t).Shape := by
  have h0 : (({ pipe := [], killWrite := (planOf t).atWrite, how := (planOf t).how } : Proc).steps cap (scriptOf su td t)).NoCompl :=
    Proc.steps_noCompl cap _ _ (by simp [Proc.NoCompl])
  unfold runCode
  generalize (({ pipe := [], killWrite := (planOf t).atWrite, how := (planOf t).how } : Proc).steps cap (scriptOf su td t)) = q at h0
  unfold Proc.sendCompletion Proc.Shape
  by_cases hd : q.dead.isSome
  · right; simp only [hd, if_true]; exact ⟨trivial, h0.1, h0.2.1, h0.2.2⟩
  · simp only [hd]
    by_cases hk : q.killWrite = some (q.sends + 1, false)
    · right; simp only [hk, if_true]; exact ⟨by simp, h0.1, h0.2.1, h0.2.2⟩
    · simp only [hk]
      by_cases hl : q.pipe.length < cap
      · left
        simp only [hl, if_true]
        refine ⟨?_, ⟨q.pipe, rfl, h0.1, h0.2.1⟩, ?_⟩
        · cases hq' : q.dead with
          | none => simp
          | some d => simp [hq'] at hd
        · intro d hdd
          by_cases hc : ((decide (q.killWrite = some (q.sends + 1, true)) || (planOf t).late) && q.how.isSignal) = true
          · simp only [hc, if_true] at hdd
            simp only [Bool.and_eq_true] at hc
            have : q.how = d := by simpa using hdd
            rw [← this]; exact hc.2
          · simp [hc] at hdd
      · right
        simp only [hl]
        exact ⟨by simp, h0.1, h0.2.1, h0.2.2⟩

/-! ### One test -/

/-- A write by the process that owns the verdict (no kill plan applies to it). -/
theorem send_fresh (cap : Nat) (q : List Rec) (r : Rec) (h : q.length < cap) :
    (({ pipe := q } : Proc).send cap r).pipe = q ++ [r] ∧ (({ pipe := q } : Proc).send cap r).dead = none := by
  simp [Proc.send, h]

theorem cntOf_eq (sk : Bool) (w : List Rec) :
    cntOf sk w = ⟨(w.filter (· == .pass)).length, (w.filter (· == .fail)).length,
                  (if !sk && w.contains .skipped then 1 else 0), (w.filter (· == .exception)).length⟩ := by
  induction w generalizing sk with
  | nil => simp [cntOf, Cnt.zero_def]
  | cons r w ih =>
    cases r <;> cases sk <;> simp [cntOf, ih, Rec.cnt, Cnt.add_def, Cnt.zero_def] <;> omega

theorem filter_ne_completion (w : List Rec) (h : Rec.completion ∉ w) : w.filter (· != .completion) = w := by
  apply List.filter_eq_self.mpr
  intro a ha
  have : a ≠ .completion := fun e => h (e ▸ ha)
  simpa using this

theorem filter_exception_nil (w : List Rec) (h : Rec.exception ∉ w) : w.filter (· == .exception) = [] := by
  apply List.filter_eq_nil_iff.mpr
  intro a ha
  have : a ≠ .exception := fun e => h (e ▸ ha)
  simpa using this

/-- Did the process end abnormally (before completing, or by a signal afterwards)? -/
def Proc.abnormal (pr : Proc) : Bool := pr.dead.isSome || pr.late.isSome

/-- Finding F02 as an explicit hypothesis: a process that ended abnormally had not called
`skip_test()` before (such a test is reported as skipped, not as an exception). -/
def Proc.ok (pr : Proc) : Prop := pr.abnormal = true → Rec.skipped ∉ pr.pipe

/-- Side conditions under which the refinement theorem is stated: the test is not an instance of F02,
and when test code runs in the process that owns the verdict (`inproc`) the test completes (a death
there ends the whole run; that case is covered by `St.procEnd`). -/
def Test.ok (cap : Nat) (m : Mode) (su td : Bool) (t : Test) : Prop :=
  t.xskip = false → (runCode cap [] su td t).ok ∧ (m = .inproc → (runCode cap [] su td t).abnormal = false)

/-- The finish status the parent derives for a process. -/
def Proc.finishSt (pr : Proc) : Finish :=
  if pr.pipe.contains .skipped then .skippedSt
  else if pr.dead.isSome then .notReceived else .received

def Test.finishSt (cap : Nat) (su td : Bool) (t : Test) : Finish :=
  if t.xskip then .skippedSt else (runCode cap [] su td t).finishSt

def Test.abnormal (cap : Nat) (su td : Bool) (t : Test) : Bool :=
  if t.xskip then false else (runCode cap [] su td t).abnormal

/-- The result lines of one test (everything in `Out` that carries no process id). -/
def Test.results (cap : Nat) (su td : Bool) (tp : List String) (t : Test) : List Out :=
  if t.xskip then [.testEnd tp Rec.skipped.cnt .skippedSt] else
  [.failLines tp (runCode cap [] su td t).fails]
    ++ ((if t.abnormal cap su td then [.excLine tp] else [])
    ++ [.testEnd tp (t.truth cap su td) (t.finishSt cap su td)])

def Out.isResult : Out → Bool
  | .failLines .. => true | .excLine .. => true | .testEnd .. => true | .suiteEnd .. => true | .totals .. => true
  | _ => false

theorem filter_isResult_evs (n : Nat) (p : List String) (tr : List Phase) : (evs n p tr).filter Out.isResult = [] := by
  apply List.filter_eq_nil_iff.mpr
  intro a ha
  simp only [evs, List.mem_map] at ha
  obtain ⟨ph, _, rfl⟩ := ha
  simp [Out.isResult]

theorem Cnt.add_sub_self (a b : Cnt) :
    (⟨(a + b).p - a.p, (a + b).f - a.f, (a + b).s - a.s, (a + b).e - a.e⟩ : Cnt) = b := by
  cases a; cases b; simp [Cnt.add_def]

/-- What the parent's `finish_test` does to a channel that holds exactly one process's records. -/
theorem finishTest_of_proc (pr : Proc) (hok : pr.ok) (hshape : pr.Shape)
    (s : St) (tp : List String) (hpipe : s.pipe = pr.pipe) :
    finishTest s tp (signalMsg (pr.dead <|> pr.late)) =
      { s with
        pipe := [], cur := s.cur + pr.truth,
        out := s.out ++ ((if pr.abnormal then [Out.excLine tp] else [])
                          ++ [Out.testEnd tp pr.truth pr.finishSt]) } := by
  unfold finishTest
  rw [hpipe]
  rcases hshape with ⟨hd, ⟨w, hw, hc, he⟩, hlate⟩ | ⟨hd, hc, he, hl⟩
  · -- completed
    have hr := readResults_block s.cur false w [] hc
    have hfilt : (w ++ [Rec.completion]).filter (· != .completion) = w := by
      rw [List.filter_append, filter_ne_completion w hc]; simp
    have hfin : pr.finishSt = (if hasSkip w then Finish.skippedSt else Finish.received) := by
      unfold Proc.finishSt
      simp only [hw, hd, Option.isSome_none, hasSkip]
      by_cases hs : w.contains Rec.skipped <;> simp [hs] <;> simp_all
    cases hlt : pr.late with
    | none =>
      have htruth : pr.truth = cntOf false w := by
        unfold Proc.truth
        simp only [hw, hd, hlt, Option.isSome_none, hfilt]
        rw [cntOf_eq, filter_exception_nil w he]
        by_cases hs : Rec.skipped ∈ w <;> simp [hs, Rec.cnt, Cnt.add_def, Cnt.zero_def]
      have hab : pr.abnormal = false := by simp [Proc.abnormal, hd, hlt]
      rw [hw, hr, htruth, hfin, hab, hd]
      by_cases hs : hasSkip w <;> simp [hs, Cnt.add_sub_self, signalMsg]
    | some d =>
      have hsig : d.isSignal = true := hlate d hlt
      have hab : pr.abnormal = true := by simp [Proc.abnormal, hlt]
      have hns : Rec.skipped ∉ pr.pipe := hok hab
      have hnsw : hasSkip w = false := by
        have : Rec.skipped ∉ w := fun hm => hns (by rw [hw]; exact List.mem_append_left _ hm)
        simpa [hasSkip] using this
      have htruth : pr.truth = cntOf false w + Rec.exception.cnt := by
        unfold Proc.truth
        simp only [hw, hd, hlt, Option.isSome_none, hfilt, Option.isSome_some, Bool.or_true, if_true]
        rw [cntOf_eq, filter_exception_nil w he]
        have : Rec.skipped ∉ w := by simpa [hasSkip] using hnsw
        simp [this, Rec.cnt, Cnt.add_def, Cnt.zero_def]
      have hmsg : signalMsg (pr.dead <|> some d) = true := by
        rw [hd]; cases d <;> simp_all [signalMsg, Death.isSignal]
      rw [hw, hr, htruth, hfin, hab, hmsg]
      simp [hnsw, Cnt.add_sub_self, Cnt.add_assoc]
  · -- ended early
    have hr := readResults_drain s.cur false _ hc
    rw [hr]
    have hab : pr.abnormal = true := by simp [Proc.abnormal, hd]
    have hns : Rec.skipped ∉ pr.pipe := hok hab
    have hns' : hasSkip pr.pipe = false := by simpa [hasSkip] using hns
    have htruth : pr.truth = cntOf false pr.pipe + Rec.exception.cnt := by
      unfold Proc.truth
      simp only [hd, Bool.true_or, if_true]
      rw [filter_ne_completion _ hc, cntOf_eq, filter_exception_nil _ he]
      simp [hns, Rec.cnt, Cnt.add_def, Cnt.zero_def]
    have hfin : pr.finishSt = .notReceived := by
      unfold Proc.finishSt
      simp [hd, hns]
    simp only [Bool.false_or, hns', Bool.false_eq_true, if_false]
    rw [hfin, htruth, hab]
    simp [Cnt.add_sub_self, Cnt.add_assoc]

theorem Test.truth_of_not_xskip (cap : Nat) (su td : Bool) (t : Test) (hx : t.xskip = false) :
    t.truth cap su td = (runCode cap [] su td t).truth := by simp [Test.truth, hx]

theorem Test.abnormal_of_not_xskip (cap : Nat) (su td : Bool) (t : Test) (hx : t.xskip = false) :
    t.abnormal cap su td = (runCode cap [] su td t).abnormal := by simp [Test.abnormal, hx]

theorem Test.finishSt_of_not_xskip (cap : Nat) (su td : Bool) (t : Test) (hx : t.xskip = false) :
    t.finishSt cap su td = (runCode cap [] su td t).finishSt := by simp [Test.finishSt, hx]

/-- One forked test, started on an empty channel: the channel is empty again afterwards, the test's
own counts (and nothing else) are added to the suite's counters, and its result lines are a function
of the test alone. -/
theorem runTest_fork (cap : Nat) (hcap : 0 < cap) (m : Mode) (r : Reporter) (su td : Bool) (path : List String) (s : St) (t : Test)
    (hp : s.pipe = []) (hh : s.halted = none) (hok : t.ok cap m su td) :
    ∃ o n, runTest ⟨cap, m, r⟩ su td path s t
            = { s with cur := s.cur + t.truth cap su td, nproc := s.nproc + n, out := s.out ++ o }
          ∧ o.filter Out.isResult = t.results cap su td (path ++ [t.name]) := by
  by_cases hx : t.xskip = true
  · refine ⟨[Out.testStart (path ++ [t.name]), Out.testEnd (path ++ [t.name]) Rec.skipped.cnt .skippedSt], 0, ?_, ?_⟩
    · have hlt : (0 : Nat) < cap := hcap
      have hs := send_fresh cap [] .skipped (by simpa using hlt)
      simp only [runTest, hh, Option.isSome_none, Bool.false_eq_true, if_false, hx, if_true, hp, hs.1, hs.2,
        List.nil_append, finishTest, readResults]
      cases s
      simp [Cnt.add_sub_self, List.append_assoc, Test.truth, hx]
    · simp [Test.results, hx, Out.isResult]
  · have hx' : t.xskip = false := by simpa using hx
    refine ⟨[Out.testStart (path ++ [t.name])] ++ (evs (match m with | .fork => s.nproc + 1 | .inproc => 0) (path ++ [t.name]) (runCode cap [] su td t).trace
              ++ [Out.failLines (path ++ [t.name]) (runCode cap [] su td t).fails])
              ++ ((if t.abnormal cap su td then [Out.excLine (path ++ [t.name])] else [])
                  ++ [Out.testEnd (path ++ [t.name]) (t.truth cap su td) (t.finishSt cap su td)]), (match m with | .fork => 1 | .inproc => 0), ?_, ?_⟩
    · cases m with
      | fork =>
        simp only [runTest, hh, Option.isSome_none, Bool.false_eq_true, if_false, hx', hp]
        rw [finishTest_of_proc (runCode cap [] su td t) (hok hx').1 (runCode_shape cap su td t) _ _ rfl]
        rw [← Test.truth_of_not_xskip cap su td t hx', ← Test.finishSt_of_not_xskip cap su td t hx',
          ← Test.abnormal_of_not_xskip cap su td t hx']
        simp [List.append_assoc]
      | inproc =>
        have hab : (runCode cap [] su td t).abnormal = false := (hok hx').2 rfl
        have hd : (runCode cap [] su td t).dead = none := by
          simp only [Proc.abnormal, Bool.or_eq_false_iff] at hab
          cases h : (runCode cap [] su td t).dead <;> simp_all
        have hl : (runCode cap [] su td t).late = none := by
          simp only [Proc.abnormal, Bool.or_eq_false_iff] at hab
          cases h : (runCode cap [] su td t).late <;> simp_all
        have hmsg : false = signalMsg ((runCode cap [] su td t).dead <|> (runCode cap [] su td t).late) := by
          simp [hd, hl, signalMsg]
        simp only [runTest, hh, Option.isSome_none, Bool.false_eq_true, if_false, hx', hp, hd]
        rw [hmsg, finishTest_of_proc (runCode cap [] su td t) (hok hx').1 (runCode_shape cap su td t) _ _ rfl]
        rw [← Test.truth_of_not_xskip cap su td t hx', ← Test.finishSt_of_not_xskip cap su td t hx',
          ← Test.abnormal_of_not_xskip cap su td t hx']
        simp [List.append_assoc]
    · simp only [List.filter_append, filter_isResult_evs, Test.results, hx', Bool.false_eq_true, if_false]
      by_cases hf : t.abnormal cap su td = true <;> simp [hf, Out.isResult, List.filter_cons]

/-- `r` is `s` after a piece of the run that left the channel empty, did not halt, set the suite
counters to `c`, added `dt` to the totals, forked `n` processes and printed `o`. -/
structure Steps (s r : St) (c dt : Cnt) (o : List Out) (n : Nat) : Prop where
  pipe : r.pipe = []
  halted : r.halted = none
  cur : r.cur = c
  tot : r.tot = s.tot + dt
  nproc : r.nproc = s.nproc + n
  out : r.out = s.out ++ o

theorem runTest_fork' (cap : Nat) (hcap : 0 < cap) (m : Mode) (r : Reporter) (su td : Bool) (path : List String) (s : St) (t : Test)
    (hp : s.pipe = []) (hh : s.halted = none) (hok : t.ok cap m su td) :
    ∃ o n, Steps s (runTest ⟨cap, m, r⟩ su td path s t) (s.cur + t.truth cap su td) 0 o n
          ∧ o.filter Out.isResult = t.results cap su td (path ++ [t.name]) := by
  obtain ⟨o, n, h, hr⟩ := runTest_fork cap hcap m r su td path s t hp hh hok
  refine ⟨o, n, ?_, hr⟩
  rw [h]
  constructor <;> simp [hp, hh]

/-- A list of forked tests: the per-test theorem threaded through. -/
def resultsTests (cap : Nat) (su td : Bool) (path : List String) : List Test → List Out
  | [] => []
  | t :: ts => t.results cap su td (path ++ [t.name]) ++ resultsTests cap su td path ts

theorem runTests_fork (cap : Nat) (hcap : 0 < cap) (m : Mode) (r : Reporter) (su td : Bool) (path : List String) (ts : List Test) (s : St)
    (hp : s.pipe = []) (hh : s.halted = none) (hok : ∀ t ∈ ts, t.ok cap m su td) :
    ∃ o n, Steps s (runTests ⟨cap, m, r⟩ su td path s ts) (s.cur + truthTests cap su td ts) 0 o n
          ∧ o.filter Out.isResult = resultsTests cap su td path ts := by
  induction ts generalizing s with
  | nil => exact ⟨[], 0, by constructor <;> simp [runTests, truthTests, hp, hh], by simp [resultsTests]⟩
  | cons t ts ih =>
    obtain ⟨o1, n1, h1, hr1⟩ := runTest_fork' cap hcap m r su td path s t hp hh (hok t List.mem_cons_self)
    obtain ⟨o2, n2, h2, hr2⟩ := ih (runTest ⟨cap, m, r⟩ su td path s t) h1.pipe h1.halted
      (fun t' ht' => hok t' (List.mem_cons_of_mem _ ht'))
    refine ⟨o1 ++ o2, n1 + n2, ?_, ?_⟩
    · simp only [runTests]
      constructor
      · exact h2.pipe
      · exact h2.halted
      · rw [h2.cur, h1.cur]; simp [truthTests, Cnt.add_assoc]
      · rw [h2.tot, h1.tot]; simp
      · rw [h2.nproc, h1.nproc]; omega
      · rw [h2.out, h1.out]; simp [List.append_assoc]
    · simp [List.filter_append, hr1, hr2, resultsTests]

/-! ### Suites -/

theorem finishSuite_empty (cap : Nat) (hcap : 0 < cap) (mode : Mode) (r : Reporter) (s : St) (path : List String)
    (hp : s.pipe = []) (hh : s.halted = none) :
    Steps s (finishSuite ⟨cap, mode, r⟩ s path) s.cur s.cur [Out.suiteEnd path s.cur] 0 := by
  have hlt : (0 : Nat) < cap := hcap
  have hs := send_fresh cap [] .completion (by simpa using hlt)
  simp only [finishSuite, hh, Option.isSome_none, Bool.false_eq_true, if_false, hp, hs.1, hs.2,
    List.nil_append, readResults]
  constructor <;> simp [hh]

mutual
/-- No test in the tree is an instance of finding F02. -/
def Tree.AllOk (cap : Nat) (m : Mode) : Tree → Prop
  | .node _ su td subs tests => allOkSubs cap m subs ∧ ∀ t ∈ tests, t.ok cap m su td
def allOkSubs (cap : Nat) (m : Mode) : List Tree → Prop
  | [] => True
  | c :: cs => c.AllOk cap m ∧ allOkSubs cap m cs
end

mutual
/-- The result lines of a whole tree, in the order every reporter produces them: sub-suites first,
then the suite's own tests, then the suite's own line. -/
def Tree.results (cap : Nat) (parent : List String) : Tree → List Out
  | .node name su td subs tests =>
    resultsSubs cap (parent ++ [name]) subs ++ resultsTests cap su td (parent ++ [name]) tests
      ++ [Out.suiteEnd (parent ++ [name]) (truthTests cap su td tests)]
def resultsSubs (cap : Nat) (path : List String) : List Tree → List Out
  | [] => []
  | c :: cs => c.results cap path ++ resultsSubs cap path cs
end

mutual
theorem runSuite_fork (cap : Nat) (hcap : 0 < cap) (m : Mode) (r : Reporter) :
    ∀ (t : Tree) (parent : List String) (s : St), s.pipe = [] → s.halted = none → t.AllOk cap m →
    ∃ c o n, Steps s (runSuite ⟨cap, m, r⟩ parent s t) c (t.truth cap) o n
            ∧ o.filter Out.isResult = t.results cap parent
  | .node name su td subs tests, parent, s, hp, hh, hok => by
    have hi : s.halted.isSome = false := by simp [hh]
    have hok' : allOkSubs cap m subs ∧ ∀ t ∈ tests, t.ok cap m su td := by simpa [Tree.AllOk] using hok
    obtain ⟨c1, o1, n1, h1, hr1⟩ := runSubs_fork cap hcap m r subs (parent ++ [name]) su td
      { s with cur := 0, out := s.out ++ [Out.suiteStart (parent ++ [name])] } hp hh hok'.1
    generalize hr1def : runSubs ⟨cap, m, r⟩ (parent ++ [name]) su td
      { s with cur := 0, out := s.out ++ [Out.suiteStart (parent ++ [name])] } subs = r1 at h1
    obtain ⟨o2, n2, h2, hr2⟩ := runTests_fork cap hcap m r su td (parent ++ [name]) tests
      { r1 with cur := 0 } h1.pipe h1.halted hok'.2
    generalize hr2def : runTests ⟨cap, m, r⟩ su td (parent ++ [name]) { r1 with cur := 0 } tests = r2 at h2
    have h3 := finishSuite_empty cap hcap m r r2 (parent ++ [name]) h2.pipe h2.halted
    have hrun : runSuite ⟨cap, m, r⟩ parent s (.node name su td subs tests)
        = finishSuite ⟨cap, m, r⟩ r2 (parent ++ [name]) := by
      simp only [runSuite, hi, Bool.false_eq_true, if_false, hr1def, hr2def]
    rw [hrun]
    refine ⟨r2.cur, [Out.suiteStart (parent ++ [name])] ++ o1 ++ o2
              ++ [Out.suiteEnd (parent ++ [name]) (truthTests cap su td tests)], n1 + n2, ?_, ?_⟩
    · have hc2 : r2.cur = truthTests cap su td tests := by rw [h2.cur]; simp
      constructor
      · exact h3.pipe
      · exact h3.halted
      · exact h3.cur
      · rw [h3.tot, h2.tot, hc2]; simp only [h1.tot, Tree.truth]; simp [Cnt.add_assoc]
      · rw [h3.nproc, h2.nproc]; simp only [h1.nproc]; omega
      · rw [h3.out, h2.out, hc2]; simp only [h1.out]; simp [List.append_assoc]
    · simp [List.filter_append, hr1, hr2, Tree.results, Out.isResult, List.filter_cons]
theorem runSubs_fork (cap : Nat) (hcap : 0 < cap) (m : Mode) (r : Reporter) :
    ∀ (cs : List Tree) (path : List String) (su td : Bool) (s : St), s.pipe = [] → s.halted = none → allOkSubs cap m cs →
    ∃ c o n, Steps s (runSubs ⟨cap, m, r⟩ path su td s cs) c (truthSubs cap cs) o n
            ∧ o.filter Out.isResult = resultsSubs cap path cs
  | [], path, su, td, s, hp, hh, _ =>
    ⟨s.cur, [], 0, by constructor <;> simp [runSubs, truthSubs, hp, hh], by simp [resultsSubs]⟩
  | c :: cs, path, su, td, s, hp, hh, hok => by
    have hok' : c.AllOk cap m ∧ allOkSubs cap m cs := by simpa [allOkSubs] using hok
    have hi : s.halted.isSome = false := by simp [hh]
    obtain ⟨c1, o1, n1, h1, hr1⟩ := runSuite_fork cap hcap m r c path
      { s with out := s.out ++ (if su then [Out.ev 0 path .suiteSetup] else []) } hp hh hok'.1
    generalize hr1def : runSuite ⟨cap, m, r⟩ path
      { s with out := s.out ++ (if su then [Out.ev 0 path .suiteSetup] else []) } c = r1 at h1
    obtain ⟨c2, o2, n2, h2, hr2⟩ := runSubs_fork cap hcap m r cs path su td
      { r1 with out := r1.out ++ (if td then [Out.ev 0 path .suiteTeardown] else []) } h1.pipe h1.halted hok'.2
    have hrun : runSubs ⟨cap, m, r⟩ path su td s (c :: cs)
        = runSubs ⟨cap, m, r⟩ path su td
            { r1 with out := r1.out ++ (if td then [Out.ev 0 path .suiteTeardown] else []) } cs := by
      have hi1 : r1.halted.isSome = false := by simp [h1.halted]
      simp only [runSubs, hi, Bool.false_eq_true, if_false, hr1def, hi1]
    rw [hrun]
    refine ⟨c2, (if su then [Out.ev 0 path .suiteSetup] else []) ++ o1
                ++ (if td then [Out.ev 0 path .suiteTeardown] else []) ++ o2, n1 + n2, ?_, ?_⟩
    · constructor
      · exact h2.pipe
      · exact h2.halted
      · exact h2.cur
      · rw [h2.tot]; simp only [h1.tot, truthSubs]; simp [Cnt.add_assoc]
      · rw [h2.nproc]; simp only [h1.nproc]; omega
      · rw [h2.out]; simp only [h1.out]; simp [List.append_assoc]
    · cases su <;> cases td <;> simp [List.filter_append, hr1, hr2, resultsSubs, Out.isResult, List.filter_cons]
end

/-! ### The whole run -/

theorem run_spec (cap : Nat) (hcap : 0 < cap) (m : Mode) (r : Reporter) (t : Tree) (hok : t.AllOk cap m) :
    (run ⟨cap, m, r⟩ t).halted = none ∧ (run ⟨cap, m, r⟩ t).pipe = [] ∧ (run ⟨cap, m, r⟩ t).tot = t.truth cap
    ∧ (run ⟨cap, m, r⟩ t).out.filter Out.isResult = t.results cap [] ++ [Out.totals (t.truth cap)] := by
  obtain ⟨c, o, n, h, hr⟩ := runSuite_fork cap hcap m r t [] {} rfl rfl hok
  have hi : (runSuite ⟨cap, m, r⟩ [] {} t).halted.isSome = false := by simp [h.halted]
  simp only [run, hi, Bool.false_eq_true, if_false]
  refine ⟨h.halted, h.pipe, ?_, ?_⟩
  · rw [h.tot]; simp
  · rw [h.out, h.tot]; simp [List.filter_append, hr, Out.isResult, List.filter_cons]

/-- All tests of a tree with the fixture flags of their suite, in execution order. -/
def testsWith (su td : Bool) : List Test → List (Bool × Bool × Test)
  | [] => []
  | t :: ts => (su, td, t) :: testsWith su td ts

mutual
def Tree.allTests : Tree → List (Bool × Bool × Test)
  | .node _ su td subs tests => allTestsSubs subs ++ testsWith su td tests
def allTestsSubs : List Tree → List (Bool × Bool × Test)
  | [] => []
  | c :: cs => c.allTests ++ allTestsSubs cs
end

def sumTruth (cap : Nat) : List (Bool × Bool × Test) → Cnt
  | [] => 0
  | (su, td, t) :: l => t.truth cap su td + sumTruth cap l

theorem sumTruth_append (cap : Nat) (a b : List (Bool × Bool × Test)) :
    sumTruth cap (a ++ b) = sumTruth cap a + sumTruth cap b := by
  induction a with
  | nil => simp [sumTruth]
  | cons x a ih => obtain ⟨su, td, t⟩ := x; simp [sumTruth, ih, Cnt.add_assoc]

theorem sumTruth_testsWith (cap : Nat) (su td : Bool) (ts : List Test) :
    sumTruth cap (testsWith su td ts) = truthTests cap su td ts := by
  induction ts with
  | nil => simp [testsWith, sumTruth, truthTests]
  | cons t ts ih => simp [testsWith, sumTruth, truthTests, ih]

mutual
theorem Tree.truth_eq_sum (cap : Nat) : ∀ t : Tree, t.truth cap = sumTruth cap t.allTests
  | .node _ su td subs tests => by
    simp [Tree.truth, Tree.allTests, sumTruth_append, sumTruth_testsWith, truthSubs_eq_sum cap subs]
theorem truthSubs_eq_sum (cap : Nat) : ∀ cs : List Tree, truthSubs cap cs = sumTruth cap (allTestsSubs cs)
  | [] => by simp [truthSubs, allTestsSubs, sumTruth]
  | c :: cs => by simp [truthSubs, allTestsSubs, sumTruth_append, Tree.truth_eq_sum cap c, truthSubs_eq_sum cap cs]
end

theorem sumTruth_clean (cap : Nat) (l : List (Bool × Bool × Test)) :
    ((sumTruth cap l).f = 0 ∧ (sumTruth cap l).e = 0)
      ↔ ∀ x ∈ l, (x.2.2.truth cap x.1 x.2.1).f = 0 ∧ (x.2.2.truth cap x.1 x.2.1).e = 0 := by
  induction l with
  | nil => simp [sumTruth, Cnt.zero_def]
  | cons x l ih =>
    obtain ⟨su, td, t⟩ := x
    simp only [sumTruth, Cnt.add_def, List.mem_cons, forall_eq_or_imp]
    rw [← ih]
    omega

end Cgreen
