import CgreenModel.Model.Xml
/-! Helper lemmas about the XML escaping models (used by Props/C11.lean). -/
namespace Cgreen.Xml

theorem decode_cons_ne (b : Nat) (r : List Nat) (h : b ≠ 38) : decode (b :: r) = b :: decode r := by
  conv => lhs; unfold decode
  split <;> simp_all

theorem attrOk_cons_ne (b : Nat) (r : List Nat) (h : b ≠ 38) :
    attrOk (b :: r) = (b != 38 && b != 34 && b != 60 && !forbidden b && attrOk r) := by
  conv => lhs; unfold attrOk
  split <;> simp_all

theorem attrOk_plain (b : Nat) (r : List Nat) (h : b ≠ 38) (h2 : b ≠ 34) (h3 : b ≠ 60) (hf : forbidden b = false) :
    attrOk (b :: r) = attrOk r := by
  rw [attrOk_cons_ne _ _ h]; simp [h, h2, h3, hf]

theorem hexDigit_ne (n : Nat) : hexDigit n ≠ 38 ∧ hexDigit n ≠ 34 ∧ hexDigit n ≠ 60 ∧ forbidden (hexDigit n) = false := by
  unfold hexDigit forbidden; split <;> simp <;> omega

theorem escape_cons (b : Nat) (s : List Nat) : escape (b :: s) = escByte b ++ escape s := by
  simp [escape, List.flatMap_cons]
theorem translit_cons (b : Nat) (s : List Nat) : translit (b :: s) = translitByte b ++ translit s := by
  simp [translit, List.flatMap_cons]

theorem decode_escByte (b : Nat) (r : List Nat) : decode (escByte b ++ r) = translitByte b ++ decode r := by
  unfold escByte translitByte
  by_cases h1 : b = 34
  · subst h1; simp [QUOT, decode, forbidden]
  by_cases h2 : b = 38
  · subst h2; simp [AMP, decode, forbidden]
  by_cases h3 : b = 60
  · subst h3; simp [LT, decode, forbidden]
  by_cases h4 : b = 62
  · subst h4; simp [GT, decode, forbidden]
  by_cases h5 : b = 39
  · subst h5; simp [APOS, decode, forbidden]
  simp only [h1, h2, h3, h4, h5, if_false]
  by_cases hf : forbidden b = true
  · simp only [hf, if_true, backslashX, List.cons_append, List.nil_append]
    rw [decode_cons_ne _ _ (by decide), decode_cons_ne _ _ (by decide), decode_cons_ne _ _ (hexDigit_ne _).1,
      decode_cons_ne _ _ (hexDigit_ne _).1]
  · simp only [hf, Bool.false_eq_true, if_false, List.cons_append, List.nil_append]
    rw [decode_cons_ne _ _ h2]

theorem decode_escape (s : List Nat) : decode (escape s) = translit s := by
  induction s with
  | nil => simp [escape, translit, decode]
  | cons b s ih => rw [escape_cons, translit_cons, decode_escByte, ih]

theorem attrOk_escByte (b : Nat) (r : List Nat) : attrOk (escByte b ++ r) = attrOk r := by
  unfold escByte
  by_cases h1 : b = 34
  · subst h1; simp [QUOT, attrOk]
  by_cases h2 : b = 38
  · subst h2; simp [AMP, attrOk]
  by_cases h3 : b = 60
  · subst h3; simp [LT, attrOk]
  by_cases h4 : b = 62
  · subst h4; simp [GT, attrOk]
  by_cases h5 : b = 39
  · subst h5; simp [APOS, attrOk]
  simp only [h1, h2, h3, h4, h5, if_false]
  by_cases hf : forbidden b = true
  · simp only [hf, if_true, backslashX, List.cons_append, List.nil_append]
    have a := hexDigit_ne (b / 16); have c := hexDigit_ne (b % 16)
    rw [attrOk_plain _ _ (by decide) (by decide) (by decide) (by decide), attrOk_plain _ _ (by decide) (by decide) (by decide) (by decide),
      attrOk_plain _ _ a.1 a.2.1 a.2.2.1 a.2.2.2, attrOk_plain _ _ c.1 c.2.1 c.2.2.1 c.2.2.2]
  · simp only [hf, Bool.false_eq_true, if_false, List.cons_append, List.nil_append]
    rw [attrOk_plain _ _ h2 h1 h3 (by simpa using hf)]

theorem attrOk_escape (s : List Nat) : attrOk (escape s) = true := by
  induction s with
  | nil => simp [escape, attrOk]
  | cons b s ih => rw [escape_cons, attrOk_escByte, ih]


theorem getUTF8_len (s : List Nat) (u l : Nat) (h : getUTF8 s = some (u, l)) : 1 ≤ l ∧ l ≤ s.length := by
  unfold getUTF8 at h
  split at h
  · simp at h
  · rename_i c rest
    split at h
    · simp at h; simp; omega
    · split at h
      · simp at h
      · split at h
        · simp at h
        · split at h
          · simp at h; simp; omega
          · split at h
            · simp at h
            · split at h
              · simp at h
              · split at h
                · simp at h; simp; omega
                · split at h
                  · simp at h
                  · split at h
                    · simp at h
                    · simp at h; simp; omega

theorem headSeq_len (s : List Nat) (u l : Nat) (h : headSeq s = some (u, l)) : 1 ≤ l ∧ l ≤ s.length := by
  unfold headSeq at h
  split at h
  · simp at h
  · split at h
    · simp at h
    · exact getUTF8_len _ _ _ h

theorem nonRestricted_xmlChar (c : Nat) (h : nonRestricted c = true) : xmlChar c = true := by
  simp only [nonRestricted, xmlChar, inR, Bool.or_eq_true, Bool.and_eq_true, beq_iff_eq, decide_eq_true_eq] at *
  omega

theorem hexDigit_xmlChar (n : Nat) (h : n < 16) : xmlChar (hexDigit n) = true := by
  simp only [hexDigit, xmlChar, inR, Bool.or_eq_true, Bool.and_eq_true, beq_iff_eq]
  split <;> simp only [decide_eq_true_eq] <;> omega

theorem backslashX_xmlChar (b : Nat) (h : b < 256) : ∀ c ∈ backslashX b, xmlChar c = true := by
  intro c hc
  simp only [backslashX, List.mem_cons, List.not_mem_nil, or_false] at hc
  rcases hc with rfl | rfl | rfl | rfl
  · decide
  · decide
  · exact hexDigit_xmlChar _ (by omega)
  · exact hexDigit_xmlChar _ (Nat.mod_lt _ (by decide))

theorem escBytes_xmlChar (bs : List Nat) (h : ∀ b ∈ bs, b < 256) : ∀ c ∈ escBytes bs, xmlChar c = true := by
  intro c hc
  simp only [escBytes, List.mem_flatMap] at hc
  obtain ⟨b, hb, hc⟩ := hc
  exact backslashX_xmlChar b (h b hb) c hc

theorem escapePropF_allowed : ∀ (fuel : Nat) (s : List Nat), (∀ b ∈ s, b < 256) → ∀ c ∈ escapePropF fuel s, xmlChar c = true := by
  intro fuel
  induction fuel with
  | zero => intro s _ c hc; simp [escapePropF] at hc
  | succ n ih =>
    intro s hs c hc
    cases s with
    | nil => simp [escapePropF] at hc
    | cons b rest =>
      simp only [escapePropF] at hc
      split at hc
      · rename_i ucs len hg
        have hdrop : ∀ x ∈ (b :: rest).drop len, x < 256 := fun x hx => hs x (List.mem_of_mem_drop hx)
        have htake : ∀ x ∈ (b :: rest).take len, x < 256 := fun x hx => hs x (List.mem_of_mem_take hx)
        split at hc
        · rename_i hcond
          simp only [Bool.and_eq_true, Bool.not_eq_true'] at hcond
          rcases List.mem_cons.mp hc with rfl | hc
          · exact nonRestricted_xmlChar _ hcond.2
          · exact ih _ hdrop c hc
        · rcases List.mem_append.mp hc with hc | hc
          · exact escBytes_xmlChar _ htake c hc
          · exact ih _ hdrop c hc
      · rcases List.mem_append.mp hc with hc | hc
        · exact backslashX_xmlChar b (hs b List.mem_cons_self) c hc
        · exact ih _ (fun x hx => hs x (List.mem_cons_of_mem _ hx)) c hc

theorem escapePropF_stable : ∀ (n : Nat) (s : List Nat) (fuel : Nat), s.length ≤ n → n ≤ fuel → escapePropF fuel s = escapePropF n s := by
  intro n
  induction n with
  | zero =>
    intro s fuel hs _
    have : s = [] := List.length_eq_zero_iff.mp (by omega)
    subst this
    cases fuel <;> simp [escapePropF]
  | succ n ih =>
    intro s fuel hs hf
    cases s with
    | nil => cases fuel <;> simp [escapePropF]
    | cons b rest =>
      obtain ⟨f, rfl⟩ : ∃ f, fuel = f + 1 := ⟨fuel - 1, by omega⟩
      simp only [escapePropF]
      have hrest : rest.length ≤ n := by simpa using hs
      split
      · rename_i ucs len hg
        obtain ⟨h1, h2⟩ := headSeq_len _ _ _ hg
        have hd : ((b :: rest).drop len).length ≤ n := by simp [List.length_drop] at *; omega
        rw [ih _ f hd (by omega)]
      · rw [ih _ f hrest (by omega)]


theorem nonRestricted_lt (c : Nat) (h : nonRestricted c = true) : c < 0x110000 ∧ 0 < c := by
  simp only [nonRestricted, inR, Bool.or_eq_true, Bool.and_eq_true, beq_iff_eq, decide_eq_true_eq] at h
  omega

theorem getUTF8_encode (c : Nat) (t : List Nat) (h : c < 0x110000) :
    getUTF8 (encodeUTF8 c ++ t) = some (c, (encodeUTF8 c).length) := by
  unfold encodeUTF8
  split
  · simp [getUTF8, *]
  · split
    · have h1 : ¬ (192 + c / 64 < 128) := by omega
      have h2 : 128 ≤ 128 + c % 64 ∧ 128 + c % 64 < 192 := by omega
      have h3 : 192 + c / 64 < 224 := by omega
      simp only [List.cons_append, List.nil_append, getUTF8, h1, h2, h3, if_false, if_true, and_self, not_true_eq_false, List.length_cons, List.length_nil]
      congr 2; omega
    · split
      · have h1 : ¬ (224 + c / 4096 < 128) := by omega
        have h2 : 128 ≤ 128 + c / 64 % 64 ∧ 128 + c / 64 % 64 < 192 := by omega
        have h2' : 128 ≤ 128 + c % 64 ∧ 128 + c % 64 < 192 := by omega
        have h3 : ¬ (224 + c / 4096 < 224) := by omega
        have h4 : 224 + c / 4096 < 240 := by omega
        simp only [List.cons_append, List.nil_append, getUTF8, h1, h2, h2', h3, h4, if_false, if_true, and_self, not_true_eq_false, List.length_cons, List.length_nil]
        congr 2; omega
      · have h1 : ¬ (240 + c / 262144 < 128) := by omega
        have h2 : 128 ≤ 128 + c / 4096 % 64 ∧ 128 + c / 4096 % 64 < 192 := by omega
        have h2' : 128 ≤ 128 + c / 64 % 64 ∧ 128 + c / 64 % 64 < 192 := by omega
        have h2'' : 128 ≤ 128 + c % 64 ∧ 128 + c % 64 < 192 := by omega
        have h3 : ¬ (240 + c / 262144 < 224) := by omega
        have h4 : ¬ (240 + c / 262144 < 240) := by omega
        have h5 : ¬ (240 + c / 262144 ≥ 248) := by omega
        simp only [List.cons_append, List.nil_append, getUTF8, h1, h2, h2', h2'', h3, h4, h5, if_false, if_true, and_self, not_true_eq_false, or_self, List.length_cons, List.length_nil]
        congr 2; omega

theorem headSeq_encode (c : Nat) (t : List Nat) (h : c < 0x110000) :
    headSeq (encodeUTF8 c ++ t) = some (c, (encodeUTF8 c).length) := by
  rw [← getUTF8_encode c t h]
  unfold headSeq encodeUTF8
  split
  · rename_i heq; split at heq <;> (try split at heq) <;> (try split at heq) <;> simp at heq
  · rename_i b r heq
    have hb : ¬ (128 ≤ b ∧ b < 192) := by
      split at heq
      · simp at heq; omega
      · split at heq
        · simp at heq; omega
        · split at heq <;> (simp at heq; omega)
    simp [hb]

theorem encode_not_overlong (c : Nat) (h : c < 0x110000) : overlong c (encodeUTF8 c).length = false := by
  unfold encodeUTF8 overlong
  split
  · simp
  · split
    · simp; omega
    · split
      · simp; omega
      · simp; omega

theorem encode_ne_nil (c : Nat) : encodeUTF8 c ≠ [] := by
  unfold encodeUTF8; split <;> (try split) <;> (try split) <;> simp

theorem escapePropF_encode : ∀ (cps : List Nat) (fuel : Nat), (∀ c ∈ cps, nonRestricted c = true) →
    (cps.flatMap encodeUTF8).length ≤ fuel → escapePropF fuel (cps.flatMap encodeUTF8) = cps := by
  intro cps
  induction cps with
  | nil => intro fuel _ _; cases fuel <;> simp [escapePropF]
  | cons c cs ih =>
    intro fuel hall hlen
    have hc := hall c List.mem_cons_self
    obtain ⟨hlt, _⟩ := nonRestricted_lt c hc
    rw [List.flatMap_cons] at hlen ⊢
    have hlen' := hlen
    rw [List.length_append] at hlen'
    obtain ⟨b, rest, hbr⟩ : ∃ b rest, encodeUTF8 c ++ cs.flatMap encodeUTF8 = b :: rest := by
      cases h : encodeUTF8 c with
      | nil => exact absurd h (encode_ne_nil c)
      | cons b r => exact ⟨b, r ++ cs.flatMap encodeUTF8, rfl⟩
    have hg := headSeq_encode c (cs.flatMap encodeUTF8) hlt
    have hpos : 1 ≤ (encodeUTF8 c).length := by
      cases h : encodeUTF8 c with
      | nil => exact absurd h (encode_ne_nil c)
      | cons _ _ => simp
    obtain ⟨f, rfl⟩ : ∃ f, fuel = f + 1 := ⟨fuel - 1, by omega⟩
    rw [hbr] at hg ⊢
    simp only [escapePropF, hg, encode_not_overlong c hlt, hc, Bool.not_false, Bool.and_self, if_true]
    rw [← hbr, List.drop_left]
    rw [ih f (fun x hx => hall x (List.mem_cons_of_mem _ hx)) (by omega)]



theorem headSeq_bytes (s : List Nat) (u l : Nat) (h : headSeq s = some (u, l)) (ho : overlong u l = false) :
    s.take l = encodeUTF8 u := by
  unfold headSeq at h
  split at h
  · simp at h
  · rename_i c rest
    split at h
    · simp at h
    · rename_i hc
      unfold getUTF8 at h
      split at h
      · simp at h
      · rename_i c' rest' heq
        simp only [List.cons.injEq] at heq
        obtain ⟨rfl, rfl⟩ := heq
        split at h
        · simp only [Option.some.injEq, Prod.mk.injEq] at h
          obtain ⟨rfl, rfl⟩ := h
          simp [encodeUTF8, *]
        · split at h
          · simp at h
          · rename_i b1 r1
            split at h
            · simp at h
            · rename_i hb1
              split at h
              · simp only [Option.some.injEq, Prod.mk.injEq] at h
                obtain ⟨rfl, rfl⟩ := h
                simp only [overlong, Bool.or_eq_false_iff, Bool.and_eq_false_iff, decide_eq_false_iff_not] at ho
                have h1 : ¬ (c % 32 * 64 + b1 % 64 < 0x80) := by omega
                have h2 : c % 32 * 64 + b1 % 64 < 0x800 := by omega
                simp only [encodeUTF8, h1, h2, if_false, if_true, List.take_succ_cons, List.take_zero, List.cons.injEq, and_true]
                omega
              · split at h
                · simp at h
                · rename_i b2 r2
                  split at h
                  · simp at h
                  · rename_i hb2
                    split at h
                    · simp only [Option.some.injEq, Prod.mk.injEq] at h
                      obtain ⟨rfl, rfl⟩ := h
                      simp only [overlong, Bool.or_eq_false_iff, Bool.and_eq_false_iff, decide_eq_false_iff_not] at ho
                      have h1 : ¬ (c % 16 * 4096 + b1 % 64 * 64 + b2 % 64 < 0x80) := by omega
                      have h2 : ¬ (c % 16 * 4096 + b1 % 64 * 64 + b2 % 64 < 0x800) := by omega
                      have h3 : c % 16 * 4096 + b1 % 64 * 64 + b2 % 64 < 0x10000 := by omega
                      simp only [encodeUTF8, h1, h2, h3, if_false, if_true, List.take_succ_cons, List.take_zero, List.cons.injEq, and_true]
                      omega
                    · split at h
                      · simp at h
                      · rename_i b3 r3
                        split at h
                        · simp at h
                        · rename_i hb3
                          simp only [Option.some.injEq, Prod.mk.injEq] at h
                          obtain ⟨rfl, rfl⟩ := h
                          simp only [overlong, Bool.or_eq_false_iff, Bool.and_eq_false_iff, decide_eq_false_iff_not] at ho
                          have h1 : ¬ (c % 8 * 262144 + b1 % 64 * 4096 + b2 % 64 * 64 + b3 % 64 < 0x80) := by omega
                          have h2 : ¬ (c % 8 * 262144 + b1 % 64 * 4096 + b2 % 64 * 64 + b3 % 64 < 0x800) := by omega
                          have h3 : ¬ (c % 8 * 262144 + b1 % 64 * 4096 + b2 % 64 * 64 + b3 % 64 < 0x10000) := by omega
                          simp only [encodeUTF8, h1, h2, h3, if_false, List.take_succ_cons, List.take_zero, List.cons.injEq, and_true]
                          omega

theorem hexDigit_lt (n : Nat) (h : n < 16) : hexDigit n < 128 := by unfold hexDigit; split <;> omega

theorem ascii_flatMap (l : List Nat) (h : ∀ b ∈ l, b < 128) : l.flatMap encodeUTF8 = l := by
  induction l with
  | nil => rfl
  | cons b l ih =>
    have hb := h b List.mem_cons_self
    rw [List.flatMap_cons, ih (fun x hx => h x (List.mem_cons_of_mem _ hx))]
    simp [encodeUTF8, hb]

theorem backslashX_ascii (b : Nat) (h : b < 256) : ∀ x ∈ backslashX b, x < 128 := by
  intro x hx
  simp only [backslashX, List.mem_cons, List.not_mem_nil, or_false] at hx
  rcases hx with rfl | rfl | rfl | rfl
  · decide
  · decide
  · exact hexDigit_lt _ (by omega)
  · exact hexDigit_lt _ (Nat.mod_lt _ (by decide))

theorem escBytes_ascii (bs : List Nat) (h : ∀ b ∈ bs, b < 256) : ∀ x ∈ escBytes bs, x < 128 := by
  intro x hx
  simp only [escBytes, List.mem_flatMap] at hx
  obtain ⟨b, hb, hx⟩ := hx
  exact backslashX_ascii b (h b hb) x hx

/-- The bytes handed to libxml2 are the UTF-8 encoding of the characters of `escapePropF`. -/
theorem escapePropBytesF_eq : ∀ (fuel : Nat) (s : List Nat), (∀ b ∈ s, b < 256) →
    escapePropBytesF fuel s = (escapePropF fuel s).flatMap encodeUTF8 := by
  intro fuel
  induction fuel with
  | zero => intro s _; simp [escapePropBytesF, escapePropF]
  | succ n ih =>
    intro s hs
    cases s with
    | nil => simp [escapePropBytesF, escapePropF]
    | cons b rest =>
      simp only [escapePropBytesF, escapePropF]
      split
      · rename_i ucs len hg
        have hdrop : ∀ x ∈ (b :: rest).drop len, x < 256 := fun x hx => hs x (List.mem_of_mem_drop hx)
        have htake : ∀ x ∈ (b :: rest).take len, x < 256 := fun x hx => hs x (List.mem_of_mem_take hx)
        split
        · rename_i hcond
          simp only [Bool.and_eq_true, Bool.not_eq_true'] at hcond
          rw [List.flatMap_cons, ih _ hdrop, headSeq_bytes _ _ _ hg hcond.1]
        · rw [List.flatMap_append, ih _ hdrop, ascii_flatMap _ (escBytes_ascii _ htake)]
      · rw [List.flatMap_append, ih _ (fun x hx => hs x (List.mem_cons_of_mem _ hx)),
          ascii_flatMap _ (backslashX_ascii b (hs b List.mem_cons_self))]

/-! ### How long the escaped text can get -/

theorem escByte_length_le (b : Nat) : (escByte b).length ≤ 6 := by
  unfold escByte
  repeat' split
  all_goals simp [QUOT, AMP, LT, GT, APOS, backslashX]

theorem flatMap_length_le {α β : Type} (f : α → List β) (k : Nat) (h : ∀ a, (f a).length ≤ k) :
    ∀ s : List α, (s.flatMap f).length ≤ k * s.length
  | [] => by simp
  | a :: s => by
    have := flatMap_length_le f k h s
    have := h a
    simp only [List.flatMap_cons, List.length_append, List.length_cons, Nat.mul_succ]
    omega

theorem escape_length_le (s : List Nat) : (escape s).length ≤ 6 * s.length :=
  flatMap_length_le escByte 6 escByte_length_le s

end Cgreen.Xml
