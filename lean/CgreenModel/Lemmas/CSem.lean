import CgreenModel.Model.CSem
namespace Cgreen.CSem
open Cgreen.Cmp (CStr)

theorem strcmp_eq_zero (a b : CStr) : strcmp a b = 0 ↔ a = b := by
  induction a generalizing b with
  | nil => cases b <;> simp [strcmp]
  | cons x xs ih =>
    cases b with
    | nil => simp [strcmp]
    | cons y ys =>
      simp only [strcmp]
      by_cases h : x = y
      · simp [h, ih]
      · simp only [h, if_false]
        split <;> simp [h]

theorem strcmp_beq (a b : CStr) : (strcmp a b == 0) = (a == b) := by
  by_cases h : a = b
  · subst h; simp [(strcmp_eq_zero a a).2 rfl]
  · have : strcmp a b ≠ 0 := fun h0 => h ((strcmp_eq_zero a b).1 h0)
    have h1 : (a == b) = false := by simpa using h
    have h2 : (strcmp a b == 0) = false := by simpa using this
    rw [h1, h2]

theorem strcmp_beq' (a b : CStr) : ((0 : Int) == strcmp a b) = (a == b) := by
  rw [← strcmp_beq]; simp [BEq.comm]

theorem memcmp_beq (p q : List UInt8) (n : Nat) : (memcmp p q n == 0) = Cgreen.Cmp.memcmpEq p q n := by
  simp [memcmp, Cgreen.Cmp.memcmpEq, strcmp_beq]

theorem memcmp_beq' (p q : List UInt8) (n : Nat) : ((0 : Int) == memcmp p q n) = Cgreen.Cmp.memcmpEq p q n := by
  rw [← memcmp_beq]; simp [BEq.comm]

end Cgreen.CSem
