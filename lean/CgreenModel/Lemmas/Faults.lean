import CgreenModel.Model.Faults
/-! Lemmas about result delivery with one failing read (used by Props/C19.lean). -/
namespace Cgreen.Faults
open Cgreen

def bad (c : Cnt) : Nat := c.f + c.e

theorem nbad_append (a b : List Rec) : nbad (a ++ b) = nbad a + nbad b := by
  induction a with
  | nil => simp [nbad]
  | cons r a ih => cases r <;> simp [nbad, ih] <;> omega

/-- Reading moves records from the channel into the counters; it never discards one. -/
theorem readLoop_conserve (k : Option Nat) : ∀ (pipe : List Rec) (n : Nat) (sk : Bool) (c : Cnt),
    bad (readLoop k n sk c pipe).2.1 + nbad (readLoop k n sk c pipe).2.2.1 = bad c + nbad pipe := by
  intro pipe
  induction pipe with
  | nil => intro n sk c; simp [readLoop, nbad]
  | cons r rest ih =>
    intro n sk c
    unfold readLoop
    by_cases hk : k = some n
    · simp [hk]
    · simp only [hk, if_false]
      cases r with
      | completion => simp [nbad]
      | pass => simp only []; rw [ih]; simp [bad, nbad]
      | fail => simp only []; rw [ih]; simp [bad, nbad]; omega
      | exception => simp only []; rw [ih]; simp [bad, nbad]; omega
      | skipped => simp only []; rw [ih]; cases sk <;> simp [bad, nbad]

/-- What a reader does to the channel: it stops behind the first completion notice, or drains a channel
that holds none, or stops where the failing `read()` hits. -/
theorem readLoop_cases (k : Option Nat) : ∀ (pipe : List Rec) (n : Nat) (sk : Bool) (c : Cnt),
    (∃ l rest, pipe = l ++ Rec.completion :: rest ∧ Rec.completion ∉ l ∧ (readLoop k n sk c pipe).2.2.1 = rest
        ∧ (readLoop k n sk c pipe).1 = n + l.length + 1 ∧ ∀ kk, k = some kk → ¬ (n ≤ kk ∧ kk < n + l.length + 1))
    ∨ (Rec.completion ∉ pipe ∧ (readLoop k n sk c pipe).2.2.1 = [] ∧ n < (readLoop k n sk c pipe).1)
    ∨ (∃ pre kk, k = some kk ∧ pipe = pre ++ (readLoop k n sk c pipe).2.2.1 ∧ Rec.completion ∉ pre
        ∧ kk = n + pre.length ∧ (readLoop k n sk c pipe).1 = kk + 1) := by
  intro pipe
  induction pipe with
  | nil => intro n sk c; right; left; simp [readLoop]
  | cons r rest ih =>
    intro n sk c
    unfold readLoop
    by_cases hk : k = some n
    · right; right
      exact ⟨[], n, hk, by simp [hk], by simp, by simp, by simp [hk]⟩
    · simp only [hk, if_false]
      have step : ∀ (sk' : Bool) (c' : Cnt), r ≠ .completion →
          ((∃ l rest', r :: rest = l ++ Rec.completion :: rest' ∧ Rec.completion ∉ l ∧ (readLoop k (n + 1) sk' c' rest).2.2.1 = rest'
              ∧ (readLoop k (n + 1) sk' c' rest).1 = n + l.length + 1 ∧ ∀ kk, k = some kk → ¬ (n ≤ kk ∧ kk < n + l.length + 1))
          ∨ (Rec.completion ∉ r :: rest ∧ (readLoop k (n + 1) sk' c' rest).2.2.1 = [] ∧ n < (readLoop k (n + 1) sk' c' rest).1)
          ∨ (∃ pre kk, k = some kk ∧ r :: rest = pre ++ (readLoop k (n + 1) sk' c' rest).2.2.1 ∧ Rec.completion ∉ pre
              ∧ kk = n + pre.length ∧ (readLoop k (n + 1) sk' c' rest).1 = kk + 1)) := by
        intro sk' c' hr
        rcases ih (n + 1) sk' c' with ⟨l, rest', h1, h2, h3, h4, h5⟩ | ⟨h1, h2, h3⟩ | ⟨pre, kk, h1, h2, h3, h4, h5⟩
        · left
          refine ⟨r :: l, rest', by simp [h1], ?_, h3, by simp [h4]; omega, ?_⟩
          · simp only [List.mem_cons, not_or]; exact ⟨fun h => hr h.symm, h2⟩
          · intro kk hkk ⟨ha, hb⟩
            by_cases hn : kk = n
            · subst hn; exact hk hkk
            · exact h5 kk hkk ⟨by omega, by simp at hb ⊢; omega⟩
        · right; left
          refine ⟨?_, h2, by omega⟩
          simp only [List.mem_cons, not_or]; exact ⟨fun h => hr h.symm, h1⟩
        · right; right
          refine ⟨r :: pre, kk, h1, by simp [← h2], ?_, by simp [h4]; omega, h5⟩
          simp only [List.mem_cons, not_or]; exact ⟨fun h => hr h.symm, h3⟩
      cases r with
      | completion =>
        left
        refine ⟨[], rest, by simp, by simp, by simp, by simp, ?_⟩
        intro kk hkk ⟨ha, hb⟩
        have : kk = n := by simp at hb; omega
        subst this; exact hk hkk
      | pass => exact step _ _ (by decide)
      | fail => exact step _ _ (by decide)
      | exception => exact step _ _ (by decide)
      | skipped => exact step _ _ (by decide)

/-- The completion notice, if the list holds one, is its last element. -/
def OnlyLast (L : List Rec) : Prop := ∀ l r, L = l ++ [r] → Rec.completion ∉ l
def Unfired (k : Option Nat) (n : Nat) : Prop := k = none ∨ ∃ kk, k = some kk ∧ n ≤ kk
/-- Invariant of a run with at most one failing read: until it fails every reader leaves the channel
empty; afterwards the channel holds at most one completion notice, at its end. -/
def Inv (k : Option Nat) (s : RSt) : Prop := OnlyLast s.pipe ∧ (Unfired k s.reads → s.pipe = [])
def PhaseOk (ph : Leg) : Prop := Rec.completion ∉ ph.recs

theorem onlyLast_nil : OnlyLast [] := by
  intro l r h; cases l <;> simp at h

theorem onlyLast_suffix (pre L : List Rec) (h : OnlyLast (pre ++ L)) : OnlyLast L := by
  intro l r hl
  have := h (pre ++ l) r (by rw [hl, List.append_assoc])
  intro hm; exact this (List.mem_append_right _ hm)

theorem onlyLast_group (ph : Leg) (h : PhaseOk ph) : OnlyLast ph.group := by
  intro l r hl
  unfold Leg.group at hl
  by_cases hc : ph.complete = true
  · simp only [hc, if_true] at hl
    have := List.append_inj' hl (by simp)
    rw [← this.1]; exact h
  · simp only [hc, Bool.false_eq_true, if_false, List.append_nil] at hl
    intro hm; exact h (by rw [hl]; exact List.mem_append_left _ hm)

theorem onlyLast_cases (L : List Rec) (h : OnlyLast L) :
    Rec.completion ∉ L ∨ ∃ l, L = l ++ [Rec.completion] ∧ Rec.completion ∉ l := by
  rcases List.eq_nil_or_concat L with rfl | ⟨l, r, rfl⟩
  · left; simp
  · have hl := h l r (by simp)
    by_cases hr : r = Rec.completion
    · right; exact ⟨l, by simp [hr], hl⟩
    · left; simp only [List.concat_eq_append, List.mem_append, List.mem_singleton, not_or]
      exact ⟨hl, fun h => hr h.symm⟩

theorem first_split_unique (c : Rec) : ∀ (l1 l2 r1 r2 : List Rec), l1 ++ c :: r1 = l2 ++ c :: r2 → c ∉ l1 → c ∉ l2 →
    l1 = l2 ∧ r1 = r2 := by
  intro l1
  induction l1 with
  | nil =>
    intro l2 r1 r2 h _ h2
    cases l2 with
    | nil => simpa using h
    | cons x l2 => simp at h; exact absurd (by simp [h.1]) h2
  | cons x l1 ih =>
    intro l2 r1 r2 h h1 h2
    cases l2 with
    | nil => simp at h; exact absurd (by simp [h.1]) h1
    | cons y l2 =>
      simp only [List.cons_append, List.cons.injEq] at h
      obtain ⟨e1, e2⟩ := ih l2 r1 r2 h.2 (fun hm => h1 (List.mem_cons_of_mem _ hm)) (fun hm => h2 (List.mem_cons_of_mem _ hm))
      exact ⟨by rw [h.1, e1], e2⟩

theorem phaseStep_pipe (k : Option Nat) (s : RSt) (ph : Leg) :
    (phaseStep k s ph).pipe = (readLoop k s.reads false s.cnt (s.pipe ++ ph.group)).2.2.1
    ∧ (phaseStep k s ph).reads = (readLoop k s.reads false s.cnt (s.pipe ++ ph.group)).1 := by
  simp [phaseStep]

theorem inv_step (k : Option Nat) (s : RSt) (ph : Leg) (hinv : Inv k s) (hok : PhaseOk ph) : Inv k (phaseStep k s ph) := by
  obtain ⟨hshape, hempty⟩ := hinv
  obtain ⟨hp, hr⟩ := phaseStep_pipe k s ph
  unfold Inv
  rw [hp, hr]
  have hg := onlyLast_group ph hok
  by_cases hun : Unfired k s.reads
  · -- no read has failed yet: the channel holds exactly this phase's group
    have hL := hempty hun
    rw [hL, List.nil_append]
    rcases readLoop_cases k ph.group s.reads false s.cnt with ⟨l, rest, h1, h2, h3, h4, h5⟩ | ⟨h1, h2, h3⟩ | ⟨pre, kk, h1, h2, h3, h4, h5⟩
    · -- stopped at the completion notice, which is the group's last record
      have hrest : rest = [] := by
        unfold Leg.group at h1
        by_cases hc : ph.complete = true
        · simp only [hc, if_true] at h1
          exact ((first_split_unique _ _ _ _ _ h1 hok h2).2).symm
        · simp only [hc, Bool.false_eq_true, if_false, List.append_nil] at h1
          exact absurd (by rw [h1]; simp) hok
      rw [h3, hrest]
      exact ⟨onlyLast_nil, fun _ => rfl⟩
    · rw [h2]; exact ⟨onlyLast_nil, fun _ => rfl⟩
    · refine ⟨onlyLast_suffix pre _ (by rw [← h2]; exact hg), ?_⟩
      intro hun'
      rcases hun' with hnone | ⟨kk', hk', hle⟩
      · rw [hnone] at h1; cases h1
      · rw [h1] at hk'; cases hk'; omega
  · -- a read has failed before: no further one does
    have hfired : ∃ kk, k = some kk ∧ kk < s.reads := by
      cases hk : k with
      | none => exact absurd (Or.inl hk) hun
      | some kk => exact ⟨kk, rfl, by
          by_cases h : s.reads ≤ kk
          · exact absurd (Or.inr ⟨kk, hk, h⟩) hun
          · omega⟩
    obtain ⟨kk, hk, hlt⟩ := hfired
    have hnot : ¬ Unfired k (readLoop k s.reads false s.cnt (s.pipe ++ ph.group)).1 := by
      intro hu
      rcases hu with hnone | ⟨kk', hk', hle⟩
      · rw [hk] at hnone; cases hnone
      · rw [hk] at hk'; cases hk'
        rcases readLoop_cases k (s.pipe ++ ph.group) s.reads false s.cnt with ⟨l, rest, _, _, _, h4, _⟩ | ⟨_, _, h3⟩ | ⟨pre, kk2, h1, _, _, h4, h5⟩
        · omega
        · omega
        · rw [hk] at h1; cases h1; omega
    refine ⟨?_, fun hu => absurd hu hnot⟩
    rcases readLoop_cases k (s.pipe ++ ph.group) s.reads false s.cnt with ⟨l, rest, h1, h2, h3, h4, h5⟩ | ⟨h1, h2, h3⟩ | ⟨pre, kk2, h1, h2, h3, h4, h5⟩
    · rw [h3]
      rcases onlyLast_cases s.pipe hshape with hnc | ⟨l0, hl0, hnl0⟩
      · -- the first completion notice is the group's: nothing stays behind it
        unfold Leg.group at h1
        by_cases hc : ph.complete = true
        · simp only [hc, if_true] at h1
          have : s.pipe ++ (ph.recs ++ [Rec.completion]) = (s.pipe ++ ph.recs) ++ Rec.completion :: [] := by simp
          rw [this] at h1
          have hni : Rec.completion ∉ s.pipe ++ ph.recs := by
            simp only [List.mem_append, not_or]; exact ⟨hnc, hok⟩
          rw [← (first_split_unique _ _ _ _ _ h1 hni h2).2]
          exact onlyLast_nil
        · simp only [hc, Bool.false_eq_true, if_false, List.append_nil] at h1
          have : Rec.completion ∈ s.pipe ++ ph.recs := by rw [h1]; simp
          simp only [List.mem_append] at this
          rcases this with h | h
          · exact absurd h hnc
          · exact absurd h hok
      · -- the first completion notice is the one left behind: the whole group stays
        rw [hl0] at h1
        have : l0 ++ [Rec.completion] ++ ph.group = l0 ++ Rec.completion :: ph.group := by simp
        rw [this] at h1
        rw [← (first_split_unique _ _ _ _ _ h1 hnl0 h2).2]
        exact hg
    · rw [h2]; exact onlyLast_nil
    · rw [hk] at h1; cases h1; omega

theorem inv_run (k : Option Nat) : ∀ (phases : List Leg) (s : RSt), Inv k s → (∀ ph ∈ phases, PhaseOk ph) →
    Inv k (phases.foldl (phaseStep k) s) := by
  intro phases
  induction phases with
  | nil => intro s h _; exact h
  | cons ph rest ih =>
    intro s h hok
    exact ih _ (inv_step k s ph h (hok ph List.mem_cons_self)) (fun p hp => hok p (List.mem_cons_of_mem _ hp))

/-- Counted plus still in the channel is at least everything sent (readers only add exceptions). -/
theorem conserve_step (k : Option Nat) (s : RSt) (ph : Leg) :
    bad s.cnt + nbad s.pipe + nbad ph.group ≤ bad (phaseStep k s ph).cnt + nbad (phaseStep k s ph).pipe := by
  have h := readLoop_conserve k (s.pipe ++ ph.group) s.reads false s.cnt
  rw [nbad_append] at h
  have hmono : ∀ (exc : Bool) (c : Cnt), bad c ≤ bad (bump exc c) := by
    intro exc c; cases exc <;> simp [bad, bump]
  simp only [phaseStep]
  have := hmono (excOf ph (readLoop k s.reads false s.cnt (s.pipe ++ ph.group)).2.2.2) (readLoop k s.reads false s.cnt (s.pipe ++ ph.group)).2.1
  omega

theorem conserve_run (k : Option Nat) : ∀ (phases : List Leg) (s : RSt),
    bad s.cnt + nbad s.pipe + sentBad phases ≤ bad (phases.foldl (phaseStep k) s).cnt + nbad (phases.foldl (phaseStep k) s).pipe := by
  intro phases
  induction phases with
  | nil => intro s; simp [sentBad]
  | cons ph rest ih =>
    intro s
    have h1 := conserve_step k s ph
    have h2 := ih (phaseStep k s ph)
    simp only [sentBad, List.map_cons, List.sum_cons, List.foldl_cons] at *
    omega

/-- The phase that ends every run: the outermost suite's completion notice, read by finish_suite. -/
def top : Leg := { recs := [], complete := true, isTest := false }

theorem final_pipe (k : Option Nat) (s : RSt) (hinv : Inv k s) : nbad (phaseStep k s top).pipe = 0 := by
  obtain ⟨hshape, hempty⟩ := hinv
  rw [(phaseStep_pipe k s top).1]
  have hgrp : top.group = [Rec.completion] := rfl
  rw [hgrp]
  rcases readLoop_cases k (s.pipe ++ [Rec.completion]) s.reads false s.cnt with ⟨l, rest, h1, h2, h3, h4, h5⟩ | ⟨h1, h2, h3⟩ | ⟨pre, kk2, h1, h2, h3, h4, h5⟩
  · rw [h3]
    rcases onlyLast_cases s.pipe hshape with hnc | ⟨l0, hl0, hnl0⟩
    · have : s.pipe ++ [Rec.completion] = s.pipe ++ Rec.completion :: [] := rfl
      rw [this] at h1
      rw [← (first_split_unique _ _ _ _ _ h1 hnc h2).2]; rfl
    · rw [hl0] at h1
      have : l0 ++ [Rec.completion] ++ [Rec.completion] = l0 ++ Rec.completion :: [Rec.completion] := by simp
      rw [this] at h1
      rw [← (first_split_unique _ _ _ _ _ h1 hnl0 h2).2]; rfl
  · exact absurd (by simp) h1
  · have hL := hempty (Or.inr ⟨kk2, h1, by omega⟩)
    rw [hL, List.nil_append] at h2 ⊢
    have hsuf : (readLoop k s.reads false s.cnt [Rec.completion]).2.2.1 <:+ [Rec.completion] := ⟨pre, h2.symm⟩
    rcases List.suffix_cons_iff.mp hsuf with h | h
    · rw [h]; rfl
    · have := List.suffix_nil.mp h
      rw [this]; rfl


end Cgreen.Faults
