import CgreenModel.Model.Lines
/-! Helper lemmas about reading a stream line by line in pieces. -/
namespace Cgreen.Lines
open Cgreen.Sel

theorem first_after (s : Str) : firstLine s ++ afterLine s = s := by
  induction s with
  | nil => rfl
  | cons c s ih => by_cases h : c = '\n' <;> simp [firstLine, afterLine, h, ih]

/-- `fgets` hands out the next piece of the first line. -/
theorem fgetsGo_eq (k : Nat) (s : Str) :
    fgetsGo k s = ((firstLine s).take k, (firstLine s).drop k ++ afterLine s) := by
  induction k generalizing s with
  | zero => simp [fgetsGo, first_after]
  | succ k ih =>
    cases s with
    | nil => simp [fgetsGo, firstLine, afterLine]
    | cons c s =>
      by_cases h : c = '\n'
      · simp [fgetsGo, firstLine, afterLine, h]
      · simp [fgetsGo, firstLine, afterLine, h, ih]

/-- A line feed is the last character of the first line. -/
theorem firstLine_newline_last (s : Str) (i : Nat) (h : (firstLine s)[i]? = some '\n') : i + 1 = (firstLine s).length := by
  induction s generalizing i with
  | nil => simp [firstLine] at h
  | cons c s ih =>
    by_cases hc : c = '\n'
    · simp only [firstLine, hc, if_true] at h ⊢
      cases i with
      | zero => rfl
      | succ i => simp at h
    · simp only [firstLine, hc, if_false] at h ⊢
      cases i with
      | zero => simp at h; exact absurd h hc
      | succ i => simp only [List.getElem?_cons_succ] at h; simp [ih i h]

/-- Something follows the first line only if that line ends in a line feed. -/
theorem afterLine_ne_nil (s : Str) (h : afterLine s ≠ []) : (firstLine s).getLast? = some '\n' := by
  induction s with
  | nil => simp [afterLine] at h
  | cons c s ih =>
    by_cases hc : c = '\n'
    · simp [firstLine, hc]
    · simp only [afterLine, hc, if_false] at h
      have := ih h
      simp only [firstLine, hc, if_false]
      cases hf : firstLine s with
      | nil => simp [hf] at this
      | cons d t => simpa [hf, List.getLast?_cons_cons] using this

/-- In the middle of the first line, the first line of what is left is what is left of the first line. -/
theorem firstLine_drop (s : Str) (n : Nat) (h : n < (firstLine s).length) :
    firstLine ((firstLine s).drop n ++ afterLine s) = (firstLine s).drop n ∧
    afterLine ((firstLine s).drop n ++ afterLine s) = afterLine s := by
  induction n generalizing s with
  | zero =>
    simp only [List.drop_zero, first_after]
    exact ⟨trivial, trivial⟩
  | succ n ih =>
    cases s with
    | nil => simp [firstLine] at h
    | cons c s =>
      by_cases hc : c = '\n'
      · simp [firstLine, hc] at h
      · simp only [firstLine, hc, if_false, List.length_cons, Nat.add_lt_add_iff_right] at h
        simpa [firstLine, afterLine, hc] using ih s h

theorem firstLine_length_le (s : Str) : (firstLine s).length ≤ s.length := by
  have := congrArg List.length (first_after s)
  simp at this; omega

theorem firstLine_pos (s : Str) (h : s ≠ []) : 0 < (firstLine s).length := by
  cases s with
  | nil => exact absurd rfl h
  | cons c s => by_cases hc : c = '\n' <;> simp [firstLine, hc]

theorem afterLine_length_lt (s : Str) (h : s ≠ []) : (afterLine s).length < s.length := by
  have := congrArg List.length (first_after s)
  have := firstLine_pos s h
  simp at *; omega

theorem getLast?_take (l : Str) (n : Nat) (h1 : 1 ≤ n) (h2 : n ≤ l.length) : (l.take n).getLast? = l[n - 1]? := by
  rw [List.getLast?_eq_getElem?]
  simp only [List.length_take, Nat.min_eq_left h2]
  rw [List.getElem?_take]
  simp; omega

/-- The loop of `read_whole_line`, started after `n` characters of the first line of `s`. -/
theorem grow_spec (s : Str) : ∀ (fuel n size : Nat) (safe : Bool),
    1 ≤ n → n ≤ (firstLine s).length → n + 2 ≤ size → (n + 2 < size → n = (firstLine s).length) →
    (firstLine s).length - n + 1 ≤ fuel →
    ∃ size', size ≤ size' ∧ (firstLine s).length + 2 ≤ size' ∧
      grow fuel ((firstLine s).take n) size ((firstLine s).drop n ++ afterLine s) safe
        = ⟨some (firstLine s), size', afterLine s, safe⟩ := by
  intro fuel
  induction fuel with
  | zero => intro n size safe _ _ _ _ h; omega
  | succ fuel ih =>
    intro n size safe h1 hn hsz hshort hfuel
    have hlen : ((firstLine s).take n).length = n := by simp [Nat.min_eq_left hn]
    have hdone : n = (firstLine s).length →
        (⟨some ((firstLine s).take n), size, (firstLine s).drop n ++ afterLine s, safe⟩ : Res)
          = ⟨some (firstLine s), size, afterLine s, safe⟩ := by
      intro h; subst h; simp
    unfold grow
    rw [hlen]
    by_cases hc : n + 2 = size ∧ ((firstLine s).take n).getLast? ≠ some '\n'
    · rw [if_pos hc]
      obtain ⟨hfull, hnl⟩ := hc
      by_cases hrest : (firstLine s).drop n ++ afterLine s = []
      · -- the stream ends here
        have hn' : n = (firstLine s).length := by
          have := List.append_eq_nil_iff.mp hrest
          have := List.drop_eq_nil_iff.mp this.1
          omega
        have ha : afterLine s = [] := (List.append_eq_nil_iff.mp hrest).2
        refine ⟨size * 2, by omega, by omega, ?_⟩
        have : readLine (size + 1) ((firstLine s).drop n ++ afterLine s) = none := by
          simp [readLine, hrest]; omega
        rw [this]
        subst hn'
        simp [ha]
      · have hlt : n < (firstLine s).length := by
          rcases Nat.lt_or_ge n (firstLine s).length with h | h
          · exact h
          · exfalso
            have hn' : n = (firstLine s).length := by omega
            have hd : (firstLine s).drop n = [] := by simp [hn']
            rw [hd, List.nil_append] at hrest
            have := afterLine_ne_nil s hrest
            apply hnl
            rw [hn', List.take_length]; exact this
        obtain ⟨hf, ha⟩ := firstLine_drop s n hlt
        have hread : readLine (size + 1) ((firstLine s).drop n ++ afterLine s)
            = some (((firstLine s).drop n).take size, ((firstLine s).drop n).drop size ++ afterLine s) := by
          have h0 : ¬ (size + 1 = 0) := by omega
          have h1' : ¬ (size + 1 = 1) := by omega
          have h2 : ((firstLine s).drop n ++ afterLine s).isEmpty = false := by
            cases h : (firstLine s).drop n ++ afterLine s with
            | nil => exact absurd h hrest
            | cons _ _ => rfl
          simp only [readLine, h0, h1', if_false, h2, Nat.add_sub_cancel]
          rw [fgetsGo_eq, hf, ha]
          simp
        rw [hread]
        simp only []
        have htake : (firstLine s).take n ++ ((firstLine s).drop n).take size = (firstLine s).take (n + size) := by
          rw [List.take_add]
        have hdrop : ((firstLine s).drop n).drop size = (firstLine s).drop (n + size) := by
          rw [List.drop_drop]
        rw [htake, hdrop]
        have hsafe : (safe && decide (n + (size + 1) ≤ size * 2)) = safe := by
          have : n + (size + 1) ≤ size * 2 := by omega
          simp [this]
        rw [hsafe]
        by_cases hfit : n + size ≤ (firstLine s).length
        · obtain ⟨size', h1', h2', h3'⟩ := ih (n + size) (size * 2) safe (by omega) hfit (by omega) (by omega) (by omega)
          exact ⟨size', by omega, h2', h3'⟩
        · have hall : (firstLine s).take (n + size) = (firstLine s).take (firstLine s).length := by
            rw [List.take_length]; exact List.take_of_length_le (by omega)
          have hnone : (firstLine s).drop (n + size) = (firstLine s).drop (firstLine s).length := by
            rw [List.drop_length]; exact List.drop_of_length_le (by omega)
          rw [hall, hnone]
          obtain ⟨size', h1', h2', h3'⟩ := ih (firstLine s).length (size * 2) safe (by omega) (Nat.le_refl _) (by omega) (by omega) (by omega)
          exact ⟨size', by omega, h2', h3'⟩
    · rw [if_neg hc]
      have hn' : n = (firstLine s).length := by
        by_cases hfull : n + 2 = size
        · have hnl : ((firstLine s).take n).getLast? = some '\n' := by
            by_cases h : ((firstLine s).take n).getLast? = some '\n'
            · exact h
            · exact absurd ⟨hfull, h⟩ hc
          rw [getLast?_take _ _ h1 hn] at hnl
          have := firstLine_newline_last s (n - 1) hnl
          omega
        · exact hshort (by omega)
      exact ⟨size, Nat.le_refl _, by omega, hdone hn'⟩

/-- `read_whole_line` returns the first line of the stream, whole and alone, whatever its length and the
size of the buffer, and stays inside the buffer. -/
theorem readWholeLine_spec (size : Nat) (s : Str) (hs : s ≠ []) (hsize : 3 ≤ size) :
    ∃ size', size ≤ size' ∧ (firstLine s).length + 2 ≤ size' ∧
      readWholeLine size s = ⟨some (firstLine s), size', afterLine s, true⟩ := by
  have h0 : ¬ (size - 1 = 0) := by omega
  have h1 : ¬ (size - 1 = 1) := by omega
  have h2 : s.isEmpty = false := by cases s with | nil => exact absurd rfl hs | cons _ _ => rfl
  have hpos := firstLine_pos s hs
  simp only [readWholeLine, readLine, h0, h1, if_false, h2, fgetsGo_eq]
  have hsafe : decide (size - 1 ≤ size) = true := by simp
  rw [hsafe]
  by_cases hfit : size - 2 ≤ (firstLine s).length
  · have := grow_spec s (((firstLine s).drop (size - 1 - 1) ++ afterLine s).length + 1) (size - 2) size true
      (by omega) hfit (by omega) (by omega) (by simp; omega)
    have e : size - 1 - 1 = size - 2 := by omega
    rw [e]
    exact this
  · have hall : (firstLine s).take (size - 1 - 1) = (firstLine s).take (firstLine s).length := by
      rw [List.take_length]; exact List.take_of_length_le (by omega)
    have hnone : (firstLine s).drop (size - 1 - 1) = (firstLine s).drop (firstLine s).length := by
      rw [List.drop_length]; exact List.drop_of_length_le (by omega)
    rw [hall, hnone]
    exact grow_spec s _ (firstLine s).length size true (by omega) (Nat.le_refl _) (by omega) (by omega) (by simp)

theorem readWholeLine_nil (size : Nat) (h : 3 ≤ size) : readWholeLine size [] = ⟨none, size, [], true⟩ := by
  have h0 : ¬ (size - 1 = 0) := by omega
  have h1 : ¬ (size - 1 = 1) := by omega
  simp [readWholeLine, readLine, h0, h1]

theorem splitLines_cons (s : Str) (h : s ≠ []) : splitLines s = firstLine s :: splitLines (afterLine s) := by
  induction s with
  | nil => exact absurd rfl h
  | cons c s ih =>
    by_cases hc : c = '\n'
    · simp [splitLines, firstLine, afterLine, hc]
    · cases s with
      | nil => simp [splitLines, firstLine, afterLine, hc]
      | cons d t =>
        have := ih (by simp)
        simp only [splitLines, hc, if_false, firstLine, afterLine] at this ⊢
        rw [this]

/-- Reading until the end of the stream yields the stream cut at its line feeds. -/
theorem allLines_spec : ∀ (fuel size : Nat) (s : Str), 3 ≤ size → s.length + 1 ≤ fuel →
    allLines fuel size s = (splitLines s, true) := by
  intro fuel
  induction fuel with
  | zero => intro size s _ h; omega
  | succ fuel ih =>
    intro size s hsize hfuel
    by_cases hs : s = []
    · subst hs
      simp only [allLines, readWholeLine_nil size hsize, splitLines]
    · obtain ⟨size', h1, _, h3⟩ := readWholeLine_spec size s hs hsize
      have hlt := afterLine_length_lt s hs
      simp only [allLines, h3, ih size' (afterLine s) (by omega) (by omega), splitLines_cons s hs, Bool.and_self]

end Cgreen.Lines
