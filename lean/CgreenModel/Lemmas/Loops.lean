/-
  Generic lifting of one-step obligations to every execution, for the two translators of C20
  (translate/growth.py: arrays that grow one element at a time; translate/readloops.py: loops that read a stream
  into a buffer they enlarge). Core Lean only.
-/
namespace Cgreen.Loops

/-! ### A loop that reads into a buffer it enlarges -/

/-- `p` characters in a buffer recorded as `s` bytes of which `a` are allocated. -/
structure Buf where
  p : Nat
  s : Nat
  a : Nat
  deriving Repr, DecidableEq

/-- Room for the terminator, and the recorded size is not more than what is allocated. -/
def Buf.Inv (b : Buf) : Prop := b.p + 1 ≤ b.s ∧ b.s ≤ b.a

/-- The loop as the translator extracts it: `chars b` is how many characters the read of this turn can deliver at most,
`turn b r` the state after it delivered `r`, `good b` what must hold of the turn (window inside the allocation, no
wrap-around, progress). `reads` is what the stream delivers, turn by turn. -/
def run (turn : Buf → Nat → Buf) : Buf → List Nat → Buf
  | b, [] => b
  | b, r :: rs => run turn (turn b r) rs

/-- Every state the loop visits. -/
def visited (turn : Buf → Nat → Buf) : Buf → List Nat → List Buf
  | b, [] => [b]
  | b, r :: rs => b :: visited turn (turn b r) rs

/-- The stream never delivers more than was asked for. -/
def Admissible (chars : Buf → Nat) (turn : Buf → Nat → Buf) : Buf → List Nat → Prop
  | _, [] => True
  | b, r :: rs => r ≤ chars b ∧ Admissible chars turn (turn b r) rs

/-- One-turn obligations hold in every state the loop ever visits, whatever the stream delivers. -/
theorem always' (inv : Buf → Prop) (chars : Buf → Nat) (turn : Buf → Nat → Buf) (good : Buf → Prop)
    (hgood : ∀ b, inv b → good b)
    (hstep : ∀ b r, inv b → r ≤ chars b → inv (turn b r)) :
    ∀ (rs : List Nat) (b : Buf), inv b → Admissible chars turn b rs →
      (∀ v ∈ visited turn b rs, inv v ∧ good v) ∧ inv (run turn b rs) := by
  intro rs
  induction rs with
  | nil =>
    intro b hb _
    exact ⟨by intro v hv; simp [visited] at hv; subst hv; exact ⟨hb, hgood _ hb⟩, hb⟩
  | cons r rs ih =>
    intro b hb hadm
    obtain ⟨hr, hrest⟩ := hadm
    have hb' := hstep b r hb hr
    obtain ⟨h1, h2⟩ := ih (turn b r) hb' hrest
    refine ⟨?_, h2⟩
    intro v hv
    simp only [visited, List.mem_cons] at hv
    rcases hv with rfl | hv
    · exact ⟨hb, hgood v hb⟩
    · exact h1 v hv

/-! ### An array that grows as elements are added -/

/-- `n` elements in an array recorded as holding `c`. -/
structure Arr where
  n : Nat
  c : Nat
  deriving Repr, DecidableEq

def addN (step : Arr → Arr) : Nat → Arr → Arr
  | 0, a => a
  | k + 1, a => addN step k (step a)

def states (step : Arr → Arr) : Nat → Arr → List Arr
  | 0, a => [a]
  | k + 1, a => a :: states step k (step a)

/-- If the invariant is kept by one addition and makes that addition safe, every addition of every history is safe. -/
theorem always_add (inv good : Arr → Prop) (step : Arr → Arr)
    (hgood : ∀ a, inv a → good a) (hstep : ∀ a, inv a → inv (step a)) :
    ∀ (k : Nat) (a : Arr), inv a → (∀ v ∈ states step k a, inv v ∧ good v) := by
  intro k
  induction k with
  | zero => intro a ha v hv; simp [states] at hv; subst hv; exact ⟨ha, hgood _ ha⟩
  | succ k ih =>
    intro a ha v hv
    simp only [states, List.mem_cons] at hv
    rcases hv with rfl | hv
    · exact ⟨ha, hgood v ha⟩
    · exact ih (step a) (hstep a ha) v hv

end Cgreen.Loops
