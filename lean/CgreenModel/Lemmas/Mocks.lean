import CgreenModel.Model.Mocks
/-! Helper lemmas: every queue operation of `mocks.c` commutes with the projection onto one function. -/
namespace Cgreen.Mocks

theorem proj_append (g : Nat) (q : List Exp) (e : Exp) :
    proj g (q ++ [e]) = if e.fn = g then proj g q ++ [e] else proj g q := by
  by_cases h : e.fn = g <;> simp [proj, List.filter_append, h]

theorem findExp_proj (f : Nat) (q : List Exp) : findExp f (proj f q) = findExp f q := by
  induction q with
  | nil => rfl
  | cons e q ih =>
    simp only [findExp, proj] at ih ⊢
    by_cases h : (e.fn == f) = true
    · simp only [List.filter_cons, h, if_true, List.find?_cons]
    · simp only [List.filter_cons, h, List.find?_cons]; exact ih

theorem findExp_head (f : Nat) (q : List Exp) : findExp f q = (proj f q).head? := by
  induction q with
  | nil => rfl
  | cons e q ih =>
    simp only [findExp, proj] at ih ⊢
    by_cases h : (e.fn == f) = true
    · simp only [List.filter_cons, h, if_true, List.find?_cons, List.head?_cons]
    · simp only [List.filter_cons, h, List.find?_cons]; exact ih

theorem haveAlways_proj (f : Nat) (q : List Exp) : haveAlways f (proj f q) = haveAlways f q := by
  induction q with
  | nil => rfl
  | cons e q ih =>
    simp only [haveAlways, proj] at ih ⊢
    by_cases h : (e.fn == f) = true
    · simp only [List.filter_cons, h, if_true, List.any_cons, ih]
    · simp only [List.filter_cons, h, List.any_cons, ih]; simp [h]

theorem haveNever_proj (f : Nat) (q : List Exp) : haveNever f (proj f q) = haveNever f q := by
  induction q with
  | nil => rfl
  | cons e q ih =>
    simp only [haveNever, proj] at ih ⊢
    by_cases h : (e.fn == f) = true
    · simp only [List.filter_cons, h, if_true, List.any_cons, ih]
    · simp only [List.filter_cons, h, List.any_cons, ih]; simp [h]

theorem removeNever_proj_same (f : Nat) (q : List Exp) : proj f (removeNever f q) = removeNever f (proj f q) := by
  simp only [proj, removeNever, List.filter_filter]
  congr 1; funext e; exact Bool.and_comm _ _

theorem removeNever_proj_other (f g : Nat) (hg : g ≠ f) (q : List Exp) : proj g (removeNever f q) = proj g q := by
  simp only [proj, removeNever, List.filter_filter]
  congr 1; funext e
  by_cases h : (e.fn == g) = true
  · have h' : e.fn = g := by simpa using h
    have : (e.fn == f) = false := by simp [h', hg]
    simp [h, this]
  · simp [h]

theorem modifyFirst_proj_same (f : Nat) (u : Exp → Exp) (hu : ∀ e, (u e).fn = e.fn) (q : List Exp) :
    proj f (modifyFirst f u q) = modifyFirst f u (proj f q) := by
  induction q with
  | nil => rfl
  | cons e q ih =>
    simp only [proj] at ih ⊢
    by_cases h : (e.fn == f) = true
    · simp only [modifyFirst, h, if_true, List.filter_cons, hu]
    · have h' : (e.fn == f) = false := by simpa using h
      simp [modifyFirst, h', List.filter_cons, ih]

theorem modifyFirst_proj_other (f g : Nat) (hg : g ≠ f) (u : Exp → Exp) (hu : ∀ e, (u e).fn = e.fn) (q : List Exp) :
    proj g (modifyFirst f u q) = proj g q := by
  induction q with
  | nil => rfl
  | cons e q ih =>
    simp only [proj] at ih ⊢
    by_cases h : (e.fn == f) = true
    · have h' : e.fn = f := by simpa using h
      have hne : (e.fn == g) = false := by simp [h', Ne.symm hg]
      simp only [modifyFirst, h, if_true, List.filter_cons, hu, hne]; rfl
    · have h' : (e.fn == f) = false := by simpa using h
      simp [modifyFirst, h', List.filter_cons, ih]

theorem removeFirst_proj_same (f : Nat) (q : List Exp) : proj f (removeFirst f q) = removeFirst f (proj f q) := by
  induction q with
  | nil => rfl
  | cons e q ih =>
    simp only [proj] at ih ⊢
    by_cases h : (e.fn == f) = true
    · simp only [removeFirst, h, if_true, List.filter_cons]
    · have h' : (e.fn == f) = false := by simpa using h
      simp [removeFirst, h', List.filter_cons, ih]

theorem removeFirst_proj_other (f g : Nat) (hg : g ≠ f) (q : List Exp) : proj g (removeFirst f q) = proj g q := by
  induction q with
  | nil => rfl
  | cons e q ih =>
    simp only [proj] at ih ⊢
    by_cases h : (e.fn == f) = true
    · have h' : e.fn = f := by simpa using h
      have hne : (e.fn == g) = false := by simp [h', Ne.symm hg]
      simp only [removeFirst, h, if_true, List.filter_cons, hne]; rfl
    · have h' : (e.fn == f) = false := by simpa using h
      simp [removeFirst, h', List.filter_cons, ih]

theorem proj_proj (f : Nat) (q : List Exp) : proj f (proj f q) = proj f q := by
  simp [proj, List.filter_filter]

/-- A call to `f` behaves on the whole queue exactly as on `f`'s own FIFO, and leaves every other
function's FIFO untouched. -/
theorem call_refines (s : MState) (f : Nat) (args : List Int) :
    (call s f args).2 = (call { s with q := proj f s.q } f args).2
    ∧ proj f (call s f args).1.q = (call { s with q := proj f s.q } f args).1.q
    ∧ (∀ g, g ≠ f → proj g (call s f args).1.q = proj g s.q)
    ∧ (call s f args).1.nextId = s.nextId ∧ (call s f args).1.mode = s.mode := by
  unfold call
  simp only [findExp_proj]
  cases hfind : findExp f s.q with
  | none => exact ⟨by first | rfl | trivial, by simp [proj_proj], fun g _ => rfl, by first | rfl | trivial, by first | rfl | trivial⟩
  | some e =>
    simp only []
    by_cases hn : e.isNever = true
    · simp only [hn, if_true]
      refine ⟨trivial, ?_, ?_, trivial, trivial⟩
      · apply modifyFirst_proj_same; intro x; rfl
      · intro g hg; apply modifyFirst_proj_other f g hg; intro x; rfl
    · simp only [hn, Bool.false_eq_true, if_false]
      refine ⟨trivial, ?_, ?_, trivial, trivial⟩
      · split
        · rw [removeFirst_proj_same]; congr 1; apply modifyFirst_proj_same; intro x; rfl
        · apply modifyFirst_proj_same; intro x; rfl
      · intro g hg
        split
        · rw [removeFirst_proj_other f g hg]; apply modifyFirst_proj_other f g hg; intro x; rfl
        · apply modifyFirst_proj_other f g hg; intro x; rfl

/-- A declaration for `f` likewise. -/
theorem declare_refines (s : MState) (k : Kind) (f : Nat) (r : Int) (c : List Con) :
    (declare s k f r c).2 = (declare { s with q := proj f s.q } k f r c).2
    ∧ proj f (declare s k f r c).1.q = (declare { s with q := proj f s.q } k f r c).1.q
    ∧ (∀ g, g ≠ f → proj g (declare s k f r c).1.q = proj g s.q)
    ∧ (declare s k f r c).1.nextId = s.nextId + 1 ∧ (declare s k f r c).1.mode = s.mode := by
  unfold declare
  simp only [haveAlways_proj, haveNever_proj]
  by_cases ha : haveAlways f s.q = true
  · simp only [ha, if_true]
    exact ⟨by first | rfl | trivial, by simp [proj_proj], fun g _ => by first | rfl | trivial, by first | rfl | trivial, by first | rfl | trivial⟩
  · simp only [ha, Bool.false_eq_true, if_false]
    by_cases hn : haveNever f s.q = true
    · simp only [hn, if_true]
      refine ⟨by first | rfl | trivial, ?_, ?_, by first | rfl | trivial, by first | rfl | trivial⟩
      · rw [removeNever_proj_same]
      · intro g hg; rw [removeNever_proj_other f g hg]
    · simp only [hn, Bool.false_eq_true, if_false]
      refine ⟨by first | rfl | trivial, ?_, ?_, by first | rfl | trivial, by first | rfl | trivial⟩
      · rw [proj_append]; simp
      · intro g hg; rw [proj_append]; simp [Ne.symm hg]

end Cgreen.Mocks
