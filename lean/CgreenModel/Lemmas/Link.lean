import CgreenModel.Lemmas.Faults
import CgreenModel.Lemmas.Runner
/-! The channel model (Model/Faults.lean) as an abstraction of the runner model (Model/Runner.lean): the legs of a
suite tree, and what the channel model makes of them (used by Props/C19.lean). -/
namespace Cgreen
open Faults

/-- Finish statuses of the two models. -/
def Finish.toStatus : Finish → Status
  | .received => .received | .skippedSt => .skipped | .notReceived => .notReceived

/-- The reader of the channel model, without a failing read, is the reader of the runner model. -/
theorem readLoop_none_eq : ∀ (pipe : List Rec) (n : Nat) (sk : Bool) (c : Cnt),
    (readLoop none n sk c pipe).2.1 = (readResults c sk pipe).1
    ∧ (readLoop none n sk c pipe).2.2.1 = (readResults c sk pipe).2.1
    ∧ (readLoop none n sk c pipe).2.2.2 = (readResults c sk pipe).2.2.toStatus := by
  intro pipe
  induction pipe with
  | nil => intro n sk c; cases sk <;> simp [readLoop, readResults, statusEnd, Finish.toStatus]
  | cons r rest ih =>
    intro n sk c
    cases r with
    | completion => cases sk <;> simp [readLoop, readResults, Finish.toStatus]
    | pass =>
      simp only [readLoop, readResults, reduceCtorEq, if_false]
      have : ({ c with p := c.p + 1 } : Cnt) = c + Rec.pass.cnt := by cases c; simp [Rec.cnt, Cnt.add_def]
      rw [this]; exact ih _ _ _
    | fail =>
      simp only [readLoop, readResults, reduceCtorEq, if_false]
      have : ({ c with f := c.f + 1 } : Cnt) = c + Rec.fail.cnt := by cases c; simp [Rec.cnt, Cnt.add_def]
      rw [this]; exact ih _ _ _
    | exception =>
      simp only [readLoop, readResults, reduceCtorEq, if_false]
      have : ({ c with e := c.e + 1 } : Cnt) = c + Rec.exception.cnt := by cases c; simp [Rec.cnt, Cnt.add_def]
      rw [this]; exact ih _ _ _
    | skipped =>
      simp only [readLoop, readResults, reduceCtorEq, if_false]
      have : (if sk then c else ({ c with s := c.s + 1 } : Cnt)) = (if sk then c else c + Rec.skipped.cnt) := by
        cases sk <;> simp; cases c; simp [Rec.cnt, Cnt.add_def]
      rw [this]; exact ih _ _ _

/-- The leg a test's process is, for the channel: what it wrote, whether a completion notice is among it, and
whether the reporting process is told that it was killed. -/
def legOfProc (pr : Proc) : Leg :=
  { recs := pr.pipe.filter (· != .completion), complete := pr.pipe.contains .completion, isTest := true,
    signalled := signalMsg (pr.dead <|> pr.late) }

theorem legOfProc_group (pr : Proc) (h : pr.Shape) : (legOfProc pr).group = pr.pipe := by
  unfold legOfProc Leg.group
  rcases h with ⟨_, ⟨w, hw, hc, _⟩, _⟩ | ⟨_, hc, _, _⟩
  · have hf : (w ++ [Rec.completion]).filter (· != .completion) = w := by
      rw [List.filter_append]
      have : w.filter (· != Rec.completion) = w := by
        apply List.filter_eq_self.mpr; intro a ha; simp; intro e; exact hc (e ▸ ha)
      simp [this]
    simp [hw, hf]
  · have hf : pr.pipe.filter (· != .completion) = pr.pipe := by
      apply List.filter_eq_self.mpr; intro a ha; simp; intro e; exact hc (e ▸ ha)
    simp [hf, hc]

/-- One test's leg on an empty channel: what the reporting process concludes is what `finishTest` of the runner
model concludes — the counters grow by the test's own truth and the channel is empty again. -/
theorem phaseStep_proc (pr : Proc) (hok : pr.ok) (hshape : pr.Shape) (s : RSt) (hp : s.pipe = []) :
    (phaseStep none s (legOfProc pr)).cnt = s.cnt + pr.truth ∧ (phaseStep none s (legOfProc pr)).pipe = [] := by
  have hft := finishTest_of_proc pr hok hshape { pipe := pr.pipe, cur := s.cnt } [] rfl
  obtain ⟨h1, h2, h3⟩ := readLoop_none_eq pr.pipe s.reads false s.cnt
  have hcur := congrArg St.cur hft
  have hpipe := congrArg St.pipe hft
  simp only [finishTest] at hcur hpipe
  simp only [phaseStep, hp, List.nil_append, legOfProc_group pr hshape, h1, h2, h3]
  refine ⟨?_, hpipe⟩
  rw [← hcur]
  simp only [excOf, legOfProc, bump]
  have hex : ∀ c : Cnt, ({ p := c.p, f := c.f, s := c.s, e := c.e + 1 } : Cnt) = c + Rec.exception.cnt := by
    intro c; cases c; simp [Rec.cnt, Cnt.add_def]
  cases hst : (readResults s.cnt false pr.pipe).2.2 <;> simp [Finish.toStatus, hex]

/-- The leg of a test: a test skipped by declaration is a `skipped` record sent by the reporting process itself. -/
def legOfTest (cap : Nat) (su td : Bool) (t : Test) : Leg :=
  if t.xskip then { recs := [.skipped], complete := false, isTest := true } else legOfProc (runCode cap [] su td t)

mutual
/-- A whole run as the channel sees it: sub-suites first, then the suite's own tests, then the suite's completion notice. -/
def Tree.legs (cap : Nat) : Tree → List Leg
  | .node _ su td subs tests => legsOfSubs cap subs ++ (tests.map (legOfTest cap su td) ++ [top])
def legsOfSubs (cap : Nat) : List Tree → List Leg
  | [] => []
  | c :: cs => c.legs cap ++ legsOfSubs cap cs
end

theorem phaseStep_top (s : RSt) (hp : s.pipe = []) : (phaseStep none s top).cnt = s.cnt ∧ (phaseStep none s top).pipe = [] := by
  simp [phaseStep, hp, top, Leg.group, readLoop, excOf, bump]

theorem phaseStep_test (cap : Nat) (su td : Bool) (t : Test) (hok : t.ok cap .fork su td) (s : RSt) (hp : s.pipe = []) :
    (phaseStep none s (legOfTest cap su td t)).cnt = s.cnt + t.truth cap su td ∧ (phaseStep none s (legOfTest cap su td t)).pipe = [] := by
  unfold legOfTest Test.truth
  by_cases hx : t.xskip = true
  · simp only [hx, if_true]
    refine ⟨?_, ?_⟩
    · simp [phaseStep, hp, Leg.group, readLoop, statusEnd, excOf, bump, Rec.cnt, Cnt.add_def]
    · simp [phaseStep, hp, Leg.group, readLoop]
  · have hx' : t.xskip = false := by simpa using hx
    simp only [hx, Bool.false_eq_true, if_false]
    exact phaseStep_proc _ (hok hx').1 (runCode_shape cap su td t) s hp

theorem foldl_tests (cap : Nat) (su td : Bool) : ∀ (ts : List Test) (s : RSt), s.pipe = [] → (∀ t ∈ ts, t.ok cap .fork su td) →
    ((ts.map (legOfTest cap su td)).foldl (phaseStep none) s).cnt = s.cnt + truthTests cap su td ts
    ∧ ((ts.map (legOfTest cap su td)).foldl (phaseStep none) s).pipe = [] := by
  intro ts
  induction ts with
  | nil => intro s hp _; simp [truthTests, hp]
  | cons t ts ih =>
    intro s hp hok
    obtain ⟨h1, h2⟩ := phaseStep_test cap su td t (hok t List.mem_cons_self) s hp
    obtain ⟨i1, i2⟩ := ih _ h2 (fun x hx => hok x (List.mem_cons_of_mem _ hx))
    simp only [List.map_cons, List.foldl_cons, truthTests]
    rw [i1, h1, Cnt.add_assoc]
    exact ⟨rfl, i2⟩

mutual
theorem foldl_tree (cap : Nat) : ∀ (t : Tree) (s : RSt), s.pipe = [] → t.AllOk cap .fork →
    ((t.legs cap).foldl (phaseStep none) s).cnt = s.cnt + t.truth cap ∧ ((t.legs cap).foldl (phaseStep none) s).pipe = []
  | .node name su td subs tests, s, hp, hok => by
    have hok' : allOkSubs cap .fork subs ∧ ∀ t ∈ tests, t.ok cap .fork su td := by simpa [Tree.AllOk] using hok
    obtain ⟨h1, h2⟩ := foldl_subs cap subs s hp hok'.1
    obtain ⟨i1, i2⟩ := foldl_tests cap su td tests _ h2 hok'.2
    obtain ⟨j1, j2⟩ := phaseStep_top _ i2
    simp only [Tree.legs, List.foldl_append, List.foldl_cons, List.foldl_nil, Tree.truth]
    rw [j1, i1, h1, Cnt.add_assoc]
    exact ⟨rfl, j2⟩
theorem foldl_subs (cap : Nat) : ∀ (cs : List Tree) (s : RSt), s.pipe = [] → allOkSubs cap .fork cs →
    ((legsOfSubs cap cs).foldl (phaseStep none) s).cnt = s.cnt + truthSubs cap cs ∧ ((legsOfSubs cap cs).foldl (phaseStep none) s).pipe = []
  | [], s, hp, _ => by simp [legsOfSubs, truthSubs, hp]
  | c :: cs, s, hp, hok => by
    have hok' : c.AllOk cap .fork ∧ allOkSubs cap .fork cs := by simpa [allOkSubs] using hok
    obtain ⟨h1, h2⟩ := foldl_tree cap c s hp hok'.1
    obtain ⟨i1, i2⟩ := foldl_subs cap cs _ h2 hok'.2
    simp only [legsOfSubs, List.foldl_append, truthSubs]
    rw [i1, h1, Cnt.add_assoc]
    exact ⟨rfl, i2⟩
end


end Cgreen
