def hello := "world"
