import CgreenModel.Model.Runner
namespace Cgreen
theorem C01_placeholder : True := trivial
end Cgreen
