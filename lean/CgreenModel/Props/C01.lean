import CgreenModel.Lemmas.Runner
import CgreenModel.Lemmas.Faults
/-!
# C01 — the run verdict is failure iff some test failed or ended abnormally

Property theorems only. `run cfg t` is the model of `run_test_suite()` (Model/Runner.lean);
`Tree.truth` is what happened, computed from the test scripts alone.
-/
namespace Cgreen

/-- The verdict of a completed run is success exactly when no executed check failed and no test ended
abnormally — for every suite tree, every capacity, forked and in-process execution. -/
theorem C01_verdict (cap : Nat) (hcap : 0 < cap) (m : Mode) (r : Reporter) (t : Tree) (hok : t.AllOk cap m) :
    verdict (run ⟨cap, m, r⟩ t) = some (if (t.truth cap).f = 0 ∧ (t.truth cap).e = 0 then 0 else 1) := by
  obtain ⟨hh, _, ht, _⟩ := run_spec cap hcap m r t hok
  simp only [verdict, hh, Option.isSome_none, Bool.false_eq_true, if_false, ht]
  by_cases h1 : (t.truth cap).f = 0 <;> by_cases h2 : (t.truth cap).e = 0 <;> simp [h1, h2]

/-- … and "no executed check failed and no test ended abnormally" is meant per test, anywhere in the tree. -/
theorem C01_anywhere (cap : Nat) (t : Tree) :
    ((t.truth cap).f = 0 ∧ (t.truth cap).e = 0)
      ↔ ∀ x ∈ t.allTests, (x.2.2.truth cap x.1 x.2.1).f = 0 ∧ (x.2.2.truth cap x.1 x.2.1).e = 0 := by
  rw [Tree.truth_eq_sum]; exact sumTruth_clean cap _

/-- What the caller of the process sees says "success" exactly in that case. -/
theorem C01_process (cap : Nat) (hcap : 0 < cap) (m : Mode) (r : Reporter) (t : Tree) (hok : t.AllOk cap m) :
    (run ⟨cap, m, r⟩ t).procEnd.success = true ↔ ((t.truth cap).f = 0 ∧ (t.truth cap).e = 0) := by
  obtain ⟨hh, _, ht, _⟩ := run_spec cap hcap m r t hok
  simp only [St.procEnd, hh, ht, ProcEnd.success]
  by_cases h1 : (t.truth cap).f = 0 <;> by_cases h2 : (t.truth cap).e = 0 <;> simp [h1, h2]

/-- A test is counted as ended abnormally exactly when its process ended before the completion notice
or was killed by a signal after it. -/
theorem C01_exception_iff (cap : Nat) (su td : Bool) (t : Test) :
    (t.truth cap su td).e = (if t.abnormal cap su td then 1 else 0) := by
  unfold Test.truth Proc.truth Test.abnormal Proc.abnormal
  by_cases hx : t.xskip = true
  · simp [hx, Rec.cnt]
  · have hx' : t.xskip = false := by simpa using hx
    simp only [hx', Bool.false_eq_true, if_false, Cnt.add_def]
    by_cases hd : ((runCode cap [] su td t).dead.isSome || (runCode cap [] su td t).late.isSome) = true
    · by_cases hs : Rec.skipped ∈ List.filter (fun x => x != Rec.completion) (runCode cap [] su td t).pipe <;>
        simp [hd, hs, Rec.cnt, Cnt.zero_def]
    · by_cases hs : Rec.skipped ∈ List.filter (fun x => x != Rec.completion) (runCode cap [] su td t).pipe <;>
        simp [hd, hs, Rec.cnt, Cnt.zero_def]

/-- In-process execution: when test code ends the process that owns the verdict, the way the process
ends never says "success" — except through `_exit(0)`, which the library cannot intercept (known
finding F04b). -/
theorem C01_killed (s : St) (d : Death) (h : s.halted = some d) (hd : d ≠ .uexit0) :
    s.procEnd.success = false := by
  cases d <;> simp_all [St.procEnd, ProcEnd.success]

/-- Witness for F04b: the excluded case really is a failure of the full statement. -/
theorem C01_uexit_witness :
    (run ⟨4096, .inproc, .text⟩ (.node "top" false false [] [{ name := "t", body := [.check false, .die .uexit0] }])).procEnd.success = true := by
  decide

/-! Non-vacuity: a concrete non-trivial tree meets the hypotheses. -/
def exampleTree : Tree :=
  .node "top" false true
    [.node "sub" true false [] [{ name := "a", body := [.check true, .check false, .decl false] },
                                { name := "b", xskip := true }]]
    [{ name := "c", ctx := some ([.check true], [.check false]), body := [.check true, .die (.signal 11), .check true] },
     { name := "d", body := [.skip, .check true] }]

example : exampleTree.AllOk 4096 .fork := by
  simp [exampleTree, Tree.AllOk, allOkSubs, Test.ok, Proc.ok]
  decide

example : verdict (run ⟨4096, .fork, .text⟩ exampleTree) = some 1 := by decide
example : exampleTree.truth 4096 = ⟨4, 2, 2, 1⟩ := by decide

/-! ### Failed checks outside a test's own bracket (the run as the result channel sees it: `Model/Faults.lean`) -/
section OutsideBracket
open Faults

/-- Without a fault every reader leaves the channel empty … -/
theorem channel_empty_after_every_reader (phases : List Leg) (hok : ∀ ph ∈ phases, PhaseOk ph) :
    (runPhases none phases).pipe = [] :=
  (inv_run none phases {} ⟨onlyLast_nil, fun _ => rfl⟩ hok).2 (Or.inl rfl)

/-- … so every failure or exception record that reached the channel has been counted, whoever sent it and
whenever: inside a test's bracket, from a suite fixture that the reporting process runs around a sub-suite, or
from an exit handler of a test's process after its completion notice (such records are simply part of the
group the next reader finds). -/
theorem C01_every_record_counted (phases : List Leg) (hok : ∀ ph ∈ phases, PhaseOk ph) :
    sentBad phases ≤ bad (runPhases none phases).cnt := by
  have hc := conserve_run none phases {}
  have hp := channel_empty_after_every_reader phases hok
  unfold runPhases at hp ⊢
  rw [hp] at hc
  have h0 : bad ({} : RSt).cnt + nbad ({} : RSt).pipe = 0 := rfl
  simp only [nbad] at hc
  omega

theorem C01_outside_bracket_verdict (phases : List Leg) (hok : ∀ ph ∈ phases, PhaseOk ph) (h : 0 < sentBad phases) :
    success (runPhases none phases) = false := by
  have := C01_every_record_counted phases hok
  simp only [success, bad] at *
  cases hf : (runPhases none phases).cnt.f <;> cases he : (runPhases none phases).cnt.e <;> simp_all

/-- A failed check in the teardown fixture of the outermost suite (sent by the reporting process after the
sub-suite, read when the suite is finished), and one from an exit handler of the last test. -/
example : (runPhases none [{ recs := [.pass] }, { recs := [], isTest := false }, { recs := [.fail], isTest := false }]).cnt = ⟨1, 1, 0, 0⟩ := by decide
example : (runPhases none [{ recs := [.pass] }, { recs := [.fail], isTest := false }]).cnt = ⟨1, 1, 0, 0⟩ := by decide

end OutsideBracket

end Cgreen
