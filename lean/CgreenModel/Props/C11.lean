import CgreenModel.Lemmas.Xml
import CgreenModel.Lemmas.Runner
/-!
# C11 — XML reports are well-formed and complete for every run
Three layers: (1) what goes between the quotes of an attribute (message, name, file text) is well formed
and decodes to the text, for every byte string; (2) the libxml2 reporter hands libxml2 only characters XML
allows, terminates, and is the identity on valid UTF-8 of allowed characters; (3) the `<testcase>` elements
of a run are a function of its result lines, one per executed test, with the children the property names.
That libxml2 and the C library write what they are given is trusted; that the C agrees with these
definitions is the correspondence check's.
-/
namespace Cgreen
open Xml

/-- Plain XML reporter: for every message the attribute value is well formed, and an XML parser's entity
decoding gives back the message (cut to the reporter's 999 byte buffer, an unaltered prefix), with the bytes
XML cannot carry spelled `\xNN`. -/
theorem C11_message (s : List Nat) :
    attrOk (attrOfMessage s) = true
    ∧ decode (attrOfMessage s) = translit (s.take MSGMAX)
    ∧ s.take MSGMAX <+: s := by
  exact ⟨attrOk_escape _, decode_escape _, List.take_prefix _ _⟩

/-- … and that spelling changes nothing in a text without such bytes; a message that fits is not cut. -/
theorem C11_message_exact (s : List Nat) (hf : ∀ b ∈ s, forbidden b = false) (hl : s.length ≤ MSGMAX) :
    decode (attrOfMessage s) = s := by
  rw [(C11_message s).2.1, List.take_of_length_le hl]
  induction s with
  | nil => rfl
  | cons b s ih =>
    rw [translit_cons, ih (fun x hx => hf x (List.mem_cons_of_mem _ hx)) (by simp at hl ⊢; omega)]
    simp [translitByte, hf b List.mem_cons_self]

/-- Names (suite, test, class) and file texts go through the same escaping, uncut. -/
theorem C11_name (s : List Nat) : attrOk (escape s) = true ∧ decode (escape s) = translit s :=
  ⟨attrOk_escape s, decode_escape s⟩

/-- libxml2 reporter: whatever the bytes, every character handed to libxml2 is one XML allows … -/
theorem C11_libxml_allowed (s : List Nat) (h : ∀ b ∈ s, b < 256) : ∀ c ∈ escapeProp s, xmlChar c = true :=
  escapePropF_allowed _ s h

/-- … precisely: the bytes `xmlEscapePropValue()` returns are the UTF-8 encoding of those characters, so
libxml2 is always given well-formed UTF-8 … -/
theorem C11_libxml_utf8 (s : List Nat) (h : ∀ b ∈ s, b < 256) :
    escapePropBytes s = (escapeProp s).flatMap encodeUTF8 := escapePropBytesF_eq _ s h

/-- … the escaping loop ends (one iteration per remaining byte is always enough: no amount of further
iterations changes the result) … -/
theorem C11_libxml_terminates (s : List Nat) (fuel : Nat) (h : s.length ≤ fuel) : escapePropF fuel s = escapeProp s :=
  escapePropF_stable s.length s fuel (Nat.le_refl _) h

/-- … and valid UTF-8 of allowed characters arrives unchanged. -/
theorem C11_libxml_exact (cps : List Nat) (h : ∀ c ∈ cps, nonRestricted c = true) :
    escapeProp (cps.flatMap encodeUTF8) = cps :=
  escapePropF_encode cps _ h (Nat.le_refl _)

/-- The defect found on the way (F18), as a statement: on a valid encoding of a character XML does not
allow, the previous loop consumed no input (`advanceOld = 0`), so it never ended. -/
def advanceOld (s : List Nat) : Nat :=
  match getUTF8 s with
  | some (ucs, len) => if !overlong ucs len then (if nonRestricted ucs then len else 0) else len
  | none => 1
theorem C11_F18_witness : advanceOld [1, 65] = 0 ∧ escapeProp [1, 65] = [92, 120, 48, 49, 65] := by decide

/-- F39: libxml2's decoder alone takes a stray continuation byte for the start of a sequence (here: bytes
0x88 0x80 as the character 0x200), whose bytes are not the encoding of that character. -/
theorem C11_F39_witness : getUTF8 [0x88, 0x80] = some (0x200, 2) ∧ encodeUTF8 0x200 ≠ [0x88, 0x80]
    ∧ escapeProp [0x88, 0x80] = [92, 120, 56, 56, 92, 120, 56, 48] := by decide

/-! ## The document -/

/-- The testcase element of one test. -/
def Test.xcase (cap : Nat) (su td : Bool) (tp : List String) (t : Test) : XCase :=
  if t.xskip then ⟨tp, 0, 0, true⟩ else
  ⟨tp, (runCode cap [] su td t).fails, if t.abnormal cap su td then 1 else 0, t.finishSt cap su td == .skippedSt⟩

def casesTests (cap : Nat) (su td : Bool) (path : List String) : List Test → List XCase
  | [] => []
  | t :: ts => t.xcase cap su td (path ++ [t.name]) :: casesTests cap su td path ts

mutual
def Tree.cases (cap : Nat) (parent : List String) : Tree → List XCase
  | .node name su td subs tests => casesSubs cap (parent ++ [name]) subs ++ casesTests cap su td (parent ++ [name]) tests
def casesSubs (cap : Nat) (path : List String) : List Tree → List XCase
  | [] => []
  | c :: cs => c.cases cap path ++ casesSubs cap path cs
end

theorem xmlCases_test (cap : Nat) (su td : Bool) (tp : List String) (t : Test) (rest : List Out) :
    xmlCasesGo 0 0 (t.results cap su td tp ++ rest) = t.xcase cap su td tp :: xmlCasesGo 0 0 rest := by
  unfold Test.results Test.xcase
  by_cases hx : t.xskip = true
  · simp [hx, xmlCasesGo, Test.finishSt]
  · by_cases hf : t.abnormal cap su td = true <;> simp [hx, hf, xmlCasesGo]

theorem xmlCases_tests (cap : Nat) (su td : Bool) (path : List String) (ts : List Test) (rest : List Out) :
    xmlCasesGo 0 0 (resultsTests cap su td path ts ++ rest) = casesTests cap su td path ts ++ xmlCasesGo 0 0 rest := by
  induction ts with
  | nil => simp [resultsTests, casesTests]
  | cons t ts ih => simp [resultsTests, casesTests, List.append_assoc, xmlCases_test, ih]

mutual
theorem xmlCases_tree (cap : Nat) : ∀ (t : Tree) (parent : List String) (rest : List Out),
    xmlCasesGo 0 0 (t.results cap parent ++ rest) = t.cases cap parent ++ xmlCasesGo 0 0 rest
  | .node name su td subs tests, parent, rest => by
    simp only [Tree.results, Tree.cases, List.append_assoc]
    rw [xmlCases_subs cap subs (parent ++ [name]), xmlCases_tests]
    simp [xmlCasesGo]
theorem xmlCases_subs (cap : Nat) : ∀ (cs : List Tree) (path : List String) (rest : List Out),
    xmlCasesGo 0 0 (resultsSubs cap path cs ++ rest) = casesSubs cap path cs ++ xmlCasesGo 0 0 rest
  | [], _, _ => by simp [resultsSubs, casesSubs]
  | c :: cs, path, rest => by
    simp only [resultsSubs, casesSubs, List.append_assoc]
    rw [xmlCases_tree cap c path, xmlCases_subs cap cs path]
end

/-- For every tree, capacity, execution mode and reporter: the testcase elements of the run are exactly one
per test, in execution order, each with the children `Test.xcase` says. -/
theorem C11_document (cap : Nat) (hcap : 0 < cap) (m : Mode) (r : Reporter) (t : Tree) (hok : t.AllOk cap m) :
    xmlCases ((run ⟨cap, m, r⟩ t).out.filter Out.isResult) = t.cases cap [] := by
  rw [(run_spec cap hcap m r t hok).2.2.2]
  unfold xmlCases
  rw [xmlCases_tree]
  simp [xmlCasesGo]

/-- What `Test.xcase` says, in the property's words: a test that ran to completion shows its failed checks
as that many failure elements and no error; a test that ended abnormally shows exactly one error; a test
skipped by declaration shows `skipped` and nothing else. -/
theorem C11_case_completed (cap : Nat) (su td : Bool) (tp : List String) (t : Test) (hx : t.xskip = false)
    (hab : t.abnormal cap su td = false) :
    (t.xcase cap su td tp).errors = 0 ∧ (t.xcase cap su td tp).failures = (runCode cap [] su td t).fails := by
  simp [Test.xcase, hx, hab]

theorem C11_case_abnormal (cap : Nat) (su td : Bool) (tp : List String) (t : Test) (hab : t.abnormal cap su td = true) :
    (t.xcase cap su td tp).errors = 1 := by
  have hx : t.xskip = false := by
    cases h : t.xskip
    · rfl
    · simp [Test.abnormal, h] at hab
  simp [Test.xcase, hx, hab]

theorem C11_case_xskip (cap : Nat) (su td : Bool) (tp : List String) (t : Test) (hx : t.xskip = true) :
    t.xcase cap su td tp = ⟨tp, 0, 0, true⟩ := by simp [Test.xcase, hx]

/-- One testcase per test of the tree. -/
theorem casesTests_length (cap : Nat) (su td : Bool) (path : List String) (ts : List Test) :
    (casesTests cap su td path ts).length = ts.length := by
  induction ts with
  | nil => rfl
  | cons t ts ih => simp [casesTests, ih]

example : xmlCases [.failLines ["s", "a"] 2, .testEnd ["s", "a"] ⟨0, 2, 0, 0⟩ .received, .failLines ["s", "b"] 1, .excLine ["s", "b"],
      .testEnd ["s", "b"] ⟨0, 1, 0, 1⟩ .notReceived, .testEnd ["s", "c"] ⟨0, 0, 1, 0⟩ .skippedSt, .suiteEnd ["s"] ⟨0, 3, 1, 1⟩]
    = [⟨["s", "a"], 2, 0, false⟩, ⟨["s", "b"], 1, 1, false⟩, ⟨["s", "c"], 0, 0, true⟩] := by decide

/-- `xml_escaped()`: a buffer of `k * strlen(text) + m` bytes holds the escaped text and its terminator, for every text,
whenever `k` is at least the longest replacement (6 bytes, `&quot;`) and `m` at least 1. The factor and the addend in the
source are re-read on every run (`translate/xmlsizes.py`) and checked against these two hypotheses. -/
theorem C11_escape_fits (s : List Nat) (k m : Nat) (hk : 6 ≤ k) (hm : 1 ≤ m) :
    (escape s).length + 1 ≤ k * s.length + m := by
  have := escape_length_le s
  have : 6 * s.length ≤ k * s.length := Nat.mul_le_mul_right _ hk
  omega

example : (escape [34, 34, 34]).length + 1 = 6 * 3 + 1 := by decide      -- the bound is attained: three double quotes

end Cgreen
