import CgreenModel.Lemmas.Xml
import CgreenModel.Lemmas.Runner
import CgreenModel.Model.XmlBuf
/-!
# C11 — XML reports are well-formed and complete for every run
Three layers: (1) what goes between the quotes of an attribute (message, name, file text) is well formed
and decodes to the text, for every byte string; (2) the libxml2 reporter hands libxml2 only characters XML
allows, terminates, and is the identity on valid UTF-8 of allowed characters; (3) the `<testcase>` elements
of a run are a function of its result lines, one per executed test, with the children the property names.
That libxml2 and the C library write what they are given is trusted; that the C agrees with these
definitions is the correspondence check's.
-/
namespace Cgreen
open Xml

/-- Plain XML reporter: for every message the attribute value is well formed, and an XML parser's entity
decoding gives back the message (cut to the reporter's 999 byte buffer, an unaltered prefix), with the bytes
XML cannot carry spelled `\xNN`. -/
theorem C11_message (s : List Nat) :
    attrOk (attrOfMessage s) = true
    ∧ decode (attrOfMessage s) = translit (s.take MSGMAX)
    ∧ s.take MSGMAX <+: s := by
  exact ⟨attrOk_escape _, decode_escape _, List.take_prefix _ _⟩

/-- … and that spelling changes nothing in a text without such bytes; a message that fits is not cut. -/
theorem C11_message_exact (s : List Nat) (hf : ∀ b ∈ s, forbidden b = false) (hl : s.length ≤ MSGMAX) :
    decode (attrOfMessage s) = s := by
  rw [(C11_message s).2.1, List.take_of_length_le hl]
  induction s with
  | nil => rfl
  | cons b s ih =>
    rw [translit_cons, ih (fun x hx => hf x (List.mem_cons_of_mem _ hx)) (by simp at hl ⊢; omega)]
    simp [translitByte, hf b List.mem_cons_self]

/-- Names (suite, test, class) and file texts go through the same escaping, uncut. -/
theorem C11_name (s : List Nat) : attrOk (escape s) = true ∧ decode (escape s) = translit s :=
  ⟨attrOk_escape s, decode_escape s⟩

/-- libxml2 reporter: whatever the bytes, every character handed to libxml2 is one XML allows … -/
theorem C11_libxml_allowed (s : List Nat) (h : ∀ b ∈ s, b < 256) : ∀ c ∈ escapeProp s, xmlChar c = true :=
  escapePropF_allowed _ s h

/-- … precisely: the bytes `xmlEscapePropValue()` returns are the UTF-8 encoding of those characters, so
libxml2 is always given well-formed UTF-8 … -/
theorem C11_libxml_utf8 (s : List Nat) (h : ∀ b ∈ s, b < 256) :
    escapePropBytes s = (escapeProp s).flatMap encodeUTF8 := escapePropBytesF_eq _ s h

/-- … the escaping loop ends (one iteration per remaining byte is always enough: no amount of further
iterations changes the result) … -/
theorem C11_libxml_terminates (s : List Nat) (fuel : Nat) (h : s.length ≤ fuel) : escapePropF fuel s = escapeProp s :=
  escapePropF_stable s.length s fuel (Nat.le_refl _) h

/-- … and valid UTF-8 of allowed characters arrives unchanged. -/
theorem C11_libxml_exact (cps : List Nat) (h : ∀ c ∈ cps, nonRestricted c = true) :
    escapeProp (cps.flatMap encodeUTF8) = cps :=
  escapePropF_encode cps _ h (Nat.le_refl _)

/-- The defect found on the way (F18), as a statement: on a valid encoding of a character XML does not
allow, the previous loop consumed no input (`advanceOld = 0`), so it never ended. -/
def advanceOld (s : List Nat) : Nat :=
  match getUTF8 s with
  | some (ucs, len) => if !overlong ucs len then (if nonRestricted ucs then len else 0) else len
  | none => 1
theorem C11_F18_witness : advanceOld [1, 65] = 0 ∧ escapeProp [1, 65] = [92, 120, 48, 49, 65] := by decide

/-- F39: libxml2's decoder alone takes a stray continuation byte for the start of a sequence (here: bytes
0x88 0x80 as the character 0x200), whose bytes are not the encoding of that character. -/
theorem C11_F39_witness : getUTF8 [0x88, 0x80] = some (0x200, 2) ∧ encodeUTF8 0x200 ≠ [0x88, 0x80]
    ∧ escapeProp [0x88, 0x80] = [92, 120, 56, 56, 92, 120, 56, 48] := by decide

/-! ## The document -/

/-- The testcase element of one test. -/
def Test.xcase (cap : Nat) (su td : Bool) (tp : List String) (t : Test) : XCase :=
  if t.xskip then ⟨tp, 0, 0, true⟩ else
  ⟨tp, (runCode cap [] su td t).fails, if t.abnormal cap su td then 1 else 0, t.finishSt cap su td == .skippedSt⟩

def casesTests (cap : Nat) (su td : Bool) (path : List String) : List Test → List XCase
  | [] => []
  | t :: ts => t.xcase cap su td (path ++ [t.name]) :: casesTests cap su td path ts

mutual
def Tree.cases (cap : Nat) (parent : List String) : Tree → List XCase
  | .node name su td subs tests => casesSubs cap (parent ++ [name]) subs ++ casesTests cap su td (parent ++ [name]) tests
def casesSubs (cap : Nat) (path : List String) : List Tree → List XCase
  | [] => []
  | c :: cs => c.cases cap path ++ casesSubs cap path cs
end

theorem xmlCases_test (cap : Nat) (su td : Bool) (tp : List String) (t : Test) (rest : List Out) :
    xmlCasesGo 0 0 (t.results cap su td tp ++ rest) = t.xcase cap su td tp :: xmlCasesGo 0 0 rest := by
  unfold Test.results Test.xcase
  by_cases hx : t.xskip = true
  · simp [hx, xmlCasesGo, Test.finishSt]
  · by_cases hf : t.abnormal cap su td = true <;> simp [hx, hf, xmlCasesGo]

theorem xmlCases_tests (cap : Nat) (su td : Bool) (path : List String) (ts : List Test) (rest : List Out) :
    xmlCasesGo 0 0 (resultsTests cap su td path ts ++ rest) = casesTests cap su td path ts ++ xmlCasesGo 0 0 rest := by
  induction ts with
  | nil => simp [resultsTests, casesTests]
  | cons t ts ih => simp [resultsTests, casesTests, List.append_assoc, xmlCases_test, ih]

mutual
theorem xmlCases_tree (cap : Nat) : ∀ (t : Tree) (parent : List String) (rest : List Out),
    xmlCasesGo 0 0 (t.results cap parent ++ rest) = t.cases cap parent ++ xmlCasesGo 0 0 rest
  | .node name su td subs tests, parent, rest => by
    simp only [Tree.results, Tree.cases, List.append_assoc]
    rw [xmlCases_subs cap subs (parent ++ [name]), xmlCases_tests]
    simp [xmlCasesGo]
theorem xmlCases_subs (cap : Nat) : ∀ (cs : List Tree) (path : List String) (rest : List Out),
    xmlCasesGo 0 0 (resultsSubs cap path cs ++ rest) = casesSubs cap path cs ++ xmlCasesGo 0 0 rest
  | [], _, _ => by simp [resultsSubs, casesSubs]
  | c :: cs, path, rest => by
    simp only [resultsSubs, casesSubs, List.append_assoc]
    rw [xmlCases_tree cap c path, xmlCases_subs cap cs path]
end

/-- For every tree, capacity, execution mode and reporter: the testcase elements of the run are exactly one
per test, in execution order, each with the children `Test.xcase` says. -/
theorem C11_document (cap : Nat) (hcap : 0 < cap) (m : Mode) (r : Reporter) (t : Tree) (hok : t.AllOk cap m) :
    xmlCases ((run ⟨cap, m, r⟩ t).out.filter Out.isResult) = t.cases cap [] := by
  rw [(run_spec cap hcap m r t hok).2.2.2]
  unfold xmlCases
  rw [xmlCases_tree]
  simp [xmlCasesGo]

/-- What `Test.xcase` says, in the property's words: a test that ran to completion shows its failed checks
as that many failure elements and no error; a test that ended abnormally shows exactly one error; a test
skipped by declaration shows `skipped` and nothing else. -/
theorem C11_case_completed (cap : Nat) (su td : Bool) (tp : List String) (t : Test) (hx : t.xskip = false)
    (hab : t.abnormal cap su td = false) :
    (t.xcase cap su td tp).errors = 0 ∧ (t.xcase cap su td tp).failures = (runCode cap [] su td t).fails := by
  simp [Test.xcase, hx, hab]

theorem C11_case_abnormal (cap : Nat) (su td : Bool) (tp : List String) (t : Test) (hab : t.abnormal cap su td = true) :
    (t.xcase cap su td tp).errors = 1 := by
  have hx : t.xskip = false := by
    cases h : t.xskip
    · rfl
    · simp [Test.abnormal, h] at hab
  simp [Test.xcase, hx, hab]

theorem C11_case_xskip (cap : Nat) (su td : Bool) (tp : List String) (t : Test) (hx : t.xskip = true) :
    t.xcase cap su td tp = ⟨tp, 0, 0, true⟩ := by simp [Test.xcase, hx]

/-- One testcase per test of the tree. -/
theorem casesTests_length (cap : Nat) (su td : Bool) (path : List String) (ts : List Test) :
    (casesTests cap su td path ts).length = ts.length := by
  induction ts with
  | nil => rfl
  | cons t ts ih => simp [casesTests, ih]

example : xmlCases [.failLines ["s", "a"] 2, .testEnd ["s", "a"] ⟨0, 2, 0, 0⟩ .received, .failLines ["s", "b"] 1, .excLine ["s", "b"],
      .testEnd ["s", "b"] ⟨0, 1, 0, 1⟩ .notReceived, .testEnd ["s", "c"] ⟨0, 0, 1, 0⟩ .skippedSt, .suiteEnd ["s"] ⟨0, 3, 1, 1⟩]
    = [⟨["s", "a"], 2, 0, false⟩, ⟨["s", "b"], 1, 1, false⟩, ⟨["s", "c"], 0, 0, true⟩] := by decide

/-- `xml_escaped()`: a buffer of `k * strlen(text) + m` bytes holds the escaped text and its terminator, for every text,
whenever `k` is at least the longest replacement (6 bytes, `&quot;`) and `m` at least 1. The factor and the addend in the
source are re-read on every run (`translate/xmlsizes.py`) and checked against these two hypotheses. -/
theorem C11_escape_fits (s : List Nat) (k m : Nat) (hk : 6 ≤ k) (hm : 1 ≤ m) :
    (escape s).length + 1 ≤ k * s.length + m := by
  have := escape_length_le s
  have : 6 * s.length ≤ k * s.length := Nat.mul_le_mul_right _ hk
  omega

example : (escape [34, 34, 34]).length + 1 = 6 * 3 + 1 := by decide      -- the bound is attained: three double quotes

/-! ### How the plain XML reporter carries a test's elements to the suite's file (`Model/XmlBuf.lean`) -/
namespace XmlBuf

/-- Elements shown by one process while a test is open: the file receives exactly their texts, in order, nothing goes to the
suite's file yet, and the process's `output` is its earlier contents followed by them. -/
theorem showAll_file (p : Proc) (sh : Shared) (f : Text) (es : List Text) (hf : sh.file = some f) :
    (showAll .length p sh es).2.file = some (f ++ es.flatten)
    ∧ (showAll .length p sh es).2.suite = sh.suite
    ∧ (showAll .length p sh es).1.output = (if es = [] then p.output else some (p.output.getD [] ++ es.flatten)) := by
  induction es generalizing p sh f with
  | nil => simp [showAll, hf]
  | cons e es ih =>
    simp only [showAll, showWith, hf]
    have := ih { output := some (p.output.getD [] ++ e) } { sh with file := some (f ++ (p.output.getD [] ++ e).drop (p.output.getD []).length) } (f ++ e) (by simp)
    simp at this ⊢
    obtain ⟨h1, h2, h3⟩ := this
    refine ⟨by simpa using h1, h2, ?_⟩
    rw [h3]; split <;> simp_all

end XmlBuf
/-- **Each element once, in order, in every mode.** Whatever the test's process shows (any number of failure elements of any
texts) and whatever the reporting process adds afterwards (its skip mark, its error element), whatever the two processes'
`output` held before, finishing the test writes to the suite's file exactly those elements, each once, in that order - whether
the test ran in a process of its own (two `output`s, one shared file) or in the reporting process (one `output`). -/
theorem C11_buffer_each_once (forked : Bool) (p : XmlBuf.Proc) (sh : XmlBuf.Shared) (child parent : List XmlBuf.Text) :
    (XmlBuf.runTest forked .length p sh child parent).2.2 = (child ++ parent).flatten
    ∧ (XmlBuf.runTest forked .length p sh child parent).2.1 = { file := none, suite := sh.suite ++ (child ++ parent).flatten }
    ∧ (XmlBuf.runTest forked .length p sh child parent).1 = { output := none } := by
  have hc := XmlBuf.showAll_file { output := some [] } { sh with file := some [] } [] child rfl
  obtain ⟨hc1, hc2, _⟩ := hc
  simp only [XmlBuf.runTest, XmlBuf.startTest, XmlBuf.finishTest]
  generalize (if forked = true then ({ output := some [] } : XmlBuf.Proc) else (XmlBuf.showAll .length { output := some [] } { sh with file := some [] } child).1) = q
  have hp := XmlBuf.showAll_file q (XmlBuf.showAll .length { output := some [] } { sh with file := some [] } child).2 _ parent hc1
  obtain ⟨hp1, hp2, _⟩ := hp
  simp [hp1, hp2, hc2]

/-- A check made outside any test (a suite's fixture run by the reporting process): its element goes to the suite's file at
once, exactly once, and nothing is kept - whatever `output` held. -/
theorem C11_buffer_outside_test (p : XmlBuf.Proc) (s e : XmlBuf.Text) :
    XmlBuf.showElem p { file := none, suite := s } e = ({ output := none }, { file := none, suite := s ++ e }) := by
  simp [XmlBuf.showElem, XmlBuf.showWith]

/-- Witness for the seeded changes C13-B12 / C17-A7 / C11-A10 (the skip mark appended from offset 0): harmless when the test
has a process of its own, a second copy of every failure element when it has not. -/
theorem C11_buffer_offset_zero_witness :
    (XmlBuf.runTest true .zero { output := none } { file := none, suite := [] } ["<f>".toList] ["<s>".toList]).2.2 = "<f><s>".toList
    ∧ (XmlBuf.runTest false .zero { output := none } { file := none, suite := [] } ["<f>".toList] ["<s>".toList]).2.2 = "<f><f><s>".toList := by decide

/-- Witness for the seeded change C11-B12 (print the reporting process's own `output` when there is any, read the file only
otherwise): the failure elements of a forked test that is then skipped or killed are lost. -/
theorem C11_buffer_prefer_output_witness :
    let (p1, sh1) := XmlBuf.startTest { output := none } { file := none, suite := [] }
    let (_, sh2) := XmlBuf.showAll .length p1 sh1 ["<f>".toList]
    let (p2, sh3) := XmlBuf.showAll .length p1 sh2 ["<e>".toList]
    (XmlBuf.finishTestPreferOutput p2 sh3).2.2 = "<e>".toList ∧ (XmlBuf.finishTest p2 sh3).2.2 = "<f><e>".toList := by decide

example : (XmlBuf.runTest true .length { output := some "stale".toList } { file := none, suite := "<suite>".toList } ["<f1>".toList, "<f2>".toList] ["<error>".toList]).2.1.suite
    = "<suite><f1><f2><error>".toList := by decide

end Cgreen
