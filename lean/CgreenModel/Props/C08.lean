import CgreenModel.Lemmas.Runner
import CgreenModel.Props.C18
/-!
# C08 — setup, body, teardown and mock tally run once each, in order, in one process
The event log of the model (`Proc.trace`, `Out.ev`) is what the scripted fixtures and bodies of the
correspondence harness write; here its shape is proved for every test, fixture combination, outcome
and death point.
-/
namespace Cgreen

/-- The phases of a test in the order `run_the_test_code` goes through them: the applicable setup (the
suite's if it has one, otherwise the context's), the body, the applicable teardown (same rule, applied
independently), the mock tally. -/
def phasesOf (su td : Bool) (t : Test) : List Phase :=
  (if su then [Phase.suiteSetup] else if t.ctx.isSome then [Phase.ctxSetup] else [])
  ++ [Phase.body]
  ++ (if td then [Phase.suiteTeardown] else if t.ctx.isSome then [Phase.ctxTeardown] else [])
  ++ [Phase.tally]

def evPhases (ss : List Step) : List Phase := ss.filterMap (fun s => match s with | .ev p => some p | _ => none)

theorem evPhases_append (a b : List Step) : evPhases (a ++ b) = evPhases a ++ evPhases b := by
  simp [evPhases, List.filterMap_append]

@[simp] theorem evPhases_nil : evPhases [] = [] := rfl
@[simp] theorem evPhases_ev (p : Phase) (l : List Step) : evPhases (Step.ev p :: l) = p :: evPhases l := by
  simp [evPhases, List.filterMap_cons]
@[simp] theorem evPhases_act (a : Act) (l : List Step) : evPhases (Step.act a :: l) = evPhases l := by
  simp [evPhases, List.filterMap_cons]
@[simp] theorem evPhases_tallyNow (l : List Step) : evPhases (Step.tallyNow :: l) = evPhases l := by
  simp [evPhases, List.filterMap_cons]

@[simp] theorem evPhases_acts (l : List Act) : evPhases (l.map Step.act) = [] := by
  induction l with
  | nil => rfl
  | cons a l ih => simpa using ih

theorem evPhases_script (su td : Bool) (t : Test) : evPhases (script su td t) = phasesOf su td t := by
  unfold script phasesOf
  cases su <;> cases td <;> cases hc : t.ctx with
  | none => simp [evPhases_append]
  | some c => obtain ⟨a, b⟩ := c; simp [evPhases_append]

theorem evPhases_scriptOf (su td : Bool) (t : Test) : evPhases (scriptOf su td t) = phasesOf su td t := by
  unfold scriptOf
  split
  · rename_i i aw lt d _
    have : evPhases ((script su td t).take i ++ Step.act (.die d) :: (script su td t).drop i)
        = evPhases ((script su td t).take i ++ (script su td t).drop i) := by
      rw [evPhases_append, evPhases_append, evPhases_act]
    rw [this, List.take_append_drop, evPhases_script]
    
  · exact evPhases_script su td t

theorem send_trace (cap : Nat) (pr : Proc) (r : Rec) : (pr.send cap r).trace = pr.trace := by
  unfold Proc.send; repeat' split
  all_goals rfl

theorem check_trace (cap : Nat) (pr : Proc) (ok : Bool) : (pr.check cap ok).trace = pr.trace := by
  unfold Proc.check; split
  · rfl
  · rw [send_trace]

theorem checks_trace (cap : Nat) (pr : Proc) (l : List Bool) : (pr.checks cap l).trace = pr.trace := by
  induction l generalizing pr with
  | nil => rfl
  | cons b l ih => simp [Proc.checks, ih, check_trace]

/-- The events a process logs while it runs a list of steps: always a prefix of the events the steps
contain, in order, each at most once; all of them when the process is still alive at the end. -/
theorem steps_trace (cap : Nat) (ss : List Step) (pr : Proc) :
    ∃ l, (pr.steps cap ss).trace = pr.trace ++ l ∧ l <+: evPhases ss
         ∧ ((pr.steps cap ss).dead = none → l = evPhases ss) := by
  induction ss generalizing pr with
  | nil => exact ⟨[], by simp [Proc.steps], by simp, by simp⟩
  | cons s ss ih =>
    by_cases hd : pr.dead.isSome = true
    · refine ⟨[], ?_, List.nil_prefix, ?_⟩
      · rw [steps_dead cap _ pr hd]; simp
      · rw [steps_dead cap _ pr hd]; intro h; simp [h] at hd
    · have hd' : pr.dead.isSome = false := by simpa using hd
      obtain ⟨l, h1, h2, h3⟩ := ih (pr.step cap s)
      cases s with
      | ev ph =>
        refine ⟨ph :: l, ?_, ?_, ?_⟩
        · simp only [Proc.steps]; rw [h1]; simp [Proc.step, hd']
        · simpa using h2
        · intro h; simp only [Proc.steps] at h; simpa using h3 h
      | tallyNow =>
        refine ⟨l, ?_, by simpa using h2, ?_⟩
        · simp only [Proc.steps]; rw [h1]; simp [Proc.step, checks_trace]
        · intro h; simp only [Proc.steps] at h; simpa using h3 h
      | act a =>
        have htr : (pr.step cap (.act a)).trace = pr.trace := by
          cases a with
          | check ok => exact check_trace cap pr ok
          | skip => exact send_trace cap pr _
          | decl ok => simp [Proc.step, hd']
          | die d => simp [Proc.step, hd']
        refine ⟨l, ?_, by simpa using h2, ?_⟩
        · simp only [Proc.steps]; rw [h1, htr]
        · intro h; simp only [Proc.steps] at h; simpa using h3 h

theorem sendCompletion_trace (cap : Nat) (pr : Proc) (b : Bool) : (pr.sendCompletion cap b).trace = pr.trace := by
  unfold Proc.sendCompletion; repeat' split
  all_goals rfl

theorem sendCompletion_dead (cap : Nat) (pr : Proc) (b : Bool) (h : (pr.sendCompletion cap b).dead = none) : pr.dead = none := by
  unfold Proc.sendCompletion at h
  by_cases hd : pr.dead.isSome = true
  · simp [hd] at h; simp [h] at hd
  · cases hq : pr.dead <;> simp_all

/-- Around every executed test the phases run in the documented order, each at most once, and nothing
after the point of death: the event log is a prefix of `phasesOf` — for every death point, every way
of dying, every fixture combination. -/
theorem C08_order (cap : Nat) (pipe : List Rec) (su td : Bool) (t : Test) :
    (runCode cap pipe su td t).trace <+: phasesOf su td t := by
  unfold runCode
  rw [sendCompletion_trace]
  obtain ⟨l, h1, h2, _⟩ := steps_trace cap (scriptOf su td t)
    ({ pipe := pipe, killWrite := (planOf t).atWrite, how := (planOf t).how } : Proc)
  rw [h1, evPhases_scriptOf] at *
  simpa using h2

/-- A test that does not end early runs all of them: setup exactly once before the body, the
matching teardown exactly once after it — also when assertions fail — then the tally. -/
theorem C08_complete (cap : Nat) (pipe : List Rec) (su td : Bool) (t : Test)
    (h : (runCode cap pipe su td t).dead = none) :
    (runCode cap pipe su td t).trace = phasesOf su td t := by
  unfold runCode at h ⊢
  rw [sendCompletion_trace]
  obtain ⟨l, h1, _, h3⟩ := steps_trace cap (scriptOf su td t)
    ({ pipe := pipe, killWrite := (planOf t).atWrite, how := (planOf t).how } : Proc)
  rw [h1, h3 (sendCompletion_dead cap _ _ h), evPhases_scriptOf]; simp

theorem finishTest_out (s : St) (p : List String) (m : Bool) :
    ∃ o, (finishTest s p m).out = s.out ++ o ∧ ∀ n q ph, Out.ev n q ph ∉ o := by
  refine ⟨_, rfl, ?_⟩
  intro n q ph hm
  simp only [List.mem_append, List.mem_singleton] at hm
  rcases hm with hm | hm
  · split at hm <;> simp at hm
  · cases hm

/-- All events of one test are logged by one process: the forked child (a fresh process id) or, in
in-process execution, the runner itself (id 0); a skipped (xEnsure) test logs nothing. -/
theorem C08_one_process (cfg : Cfg) (su td : Bool) (path : List String) (s : St) (t : Test) (hh : s.halted = none) :
    ∃ o, (runTest cfg su td path s t).out = s.out ++ o ∧
      ∀ n p ph, Out.ev n p ph ∈ o →
        t.xskip = false ∧ p = path ++ [t.name] ∧ n = (match cfg.mode with | .fork => s.nproc + 1 | .inproc => 0) := by
  unfold runTest
  have hi : s.halted.isSome = false := by simp [hh]
  simp only [hi, Bool.false_eq_true, if_false]
  by_cases hx : t.xskip = true
  · simp only [hx, if_true]
    split
    · exact ⟨[Out.testStart (path ++ [t.name])], by simp, by simp⟩
    · obtain ⟨o, h1, h2⟩ := finishTest_out
        { s with pipe := (({ pipe := s.pipe } : Proc).send cfg.cap .skipped).pipe, out := s.out ++ [Out.testStart (path ++ [t.name])] }
        (path ++ [t.name]) false
      refine ⟨[Out.testStart (path ++ [t.name])] ++ o, ?_, ?_⟩
      · rw [h1]; simp
      · intro n p ph hm
        simp only [List.mem_append, List.mem_singleton] at hm
        rcases hm with hm | hm
        · cases hm
        · exact absurd hm (h2 n p ph)
  · have hx' : t.xskip = false := by simpa using hx
    simp only [hx', Bool.false_eq_true, if_false]
    have hev : ∀ k n p ph, Out.ev n p ph ∈ ([Out.testStart (path ++ [t.name])] ++ (evs k (path ++ [t.name]) (runCode cfg.cap s.pipe su td t).trace
                ++ [Out.failLines (path ++ [t.name]) (runCode cfg.cap s.pipe su td t).fails])) → p = path ++ [t.name] ∧ n = k := by
      intro k n p ph hm
      simp [evs] at hm
      obtain ⟨_, _, h1, h2, _⟩ := hm
      exact ⟨h2.symm, h1.symm⟩
    cases hm : cfg.mode with
    | fork =>
      simp only []
      obtain ⟨o, h1, h2⟩ := finishTest_out
        { s with pipe := (runCode cfg.cap s.pipe su td t).pipe, nproc := s.nproc + 1,
                 out := s.out ++ [Out.testStart (path ++ [t.name])] ++ (evs (s.nproc + 1) (path ++ [t.name]) (runCode cfg.cap s.pipe su td t).trace
                        ++ [Out.failLines (path ++ [t.name]) (runCode cfg.cap s.pipe su td t).fails]) }
        (path ++ [t.name]) (signalMsg ((runCode cfg.cap s.pipe su td t).dead <|> (runCode cfg.cap s.pipe su td t).late))
      refine ⟨[Out.testStart (path ++ [t.name])] ++ (evs (s.nproc + 1) (path ++ [t.name]) (runCode cfg.cap s.pipe su td t).trace
                ++ [Out.failLines (path ++ [t.name]) (runCode cfg.cap s.pipe su td t).fails]) ++ o, ?_, ?_⟩
      · rw [h1]; simp [List.append_assoc]
      · intro n p ph hmem
        rw [List.mem_append] at hmem
        rcases hmem with hmem | hmem
        · exact ⟨by first | rfl | trivial, hev _ n p ph hmem⟩
        · exact absurd hmem (h2 n p ph)
    | inproc =>
      simp only []
      split
      · refine ⟨[Out.testStart (path ++ [t.name])] ++ (evs 0 (path ++ [t.name]) (runCode cfg.cap s.pipe su td t).trace
                  ++ [Out.failLines (path ++ [t.name]) (runCode cfg.cap s.pipe su td t).fails]), by simp [List.append_assoc], ?_⟩
        intro n p ph hmem
        exact ⟨by first | rfl | trivial, hev _ n p ph hmem⟩
      · obtain ⟨o, h1, h2⟩ := finishTest_out
          { s with pipe := (runCode cfg.cap s.pipe su td t).pipe,
                   out := s.out ++ [Out.testStart (path ++ [t.name])] ++ (evs 0 (path ++ [t.name]) (runCode cfg.cap s.pipe su td t).trace
                          ++ [Out.failLines (path ++ [t.name]) (runCode cfg.cap s.pipe su td t).fails]) }
          (path ++ [t.name]) false
        refine ⟨[Out.testStart (path ++ [t.name])] ++ (evs 0 (path ++ [t.name]) (runCode cfg.cap s.pipe su td t).trace
                  ++ [Out.failLines (path ++ [t.name]) (runCode cfg.cap s.pipe su td t).fails]) ++ o, ?_, ?_⟩
        · rw [h1]; simp [List.append_assoc]
        · intro n p ph hmem
          rw [List.mem_append] at hmem
          rcases hmem with hmem | hmem
          · exact ⟨by first | rfl | trivial, hev _ n p ph hmem⟩
          · exact absurd hmem (h2 n p ph)

/-- A suite's setup and teardown bracket each of its sub-suites exactly once, in the process that owns
the verdict: the events of `runSubs` for one sub-suite are setup (if any), the sub-suite's own output,
teardown (if any). -/
theorem C08_brackets (cfg : Cfg) (path : List String) (su td : Bool) (s : St) (c : Tree) (cs : List Tree)
    (hh : s.halted = none)
    (hsub : (runSuite cfg path { s with out := s.out ++ (if su then [Out.ev 0 path .suiteSetup] else []) } c).halted = none) :
    runSubs cfg path su td s (c :: cs)
      = runSubs cfg path su td
          { (runSuite cfg path { s with out := s.out ++ (if su then [Out.ev 0 path .suiteSetup] else []) } c) with
            out := (runSuite cfg path { s with out := s.out ++ (if su then [Out.ev 0 path .suiteSetup] else []) } c).out
                    ++ (if td then [Out.ev 0 path .suiteTeardown] else []) } cs := by
  have hi : s.halted.isSome = false := by simp [hh]
  have hi2 : (runSuite cfg path { s with out := s.out ++ (if su then [Out.ev 0 path .suiteSetup] else []) } c).halted.isSome = false := by
    simp [hsub]
  simp only [runSubs, hi, Bool.false_eq_true, if_false, hi2]

example : phasesOf false true { name := "t", ctx := some ([], []) } = [.ctxSetup, .body, .suiteTeardown, .tally] := by decide
example : (runCode 4096 [] false false { name := "t", ctx := some ([.check true], []), body := [.check false, .die (.signal 11)] }).trace
    = [.ctxSetup, .body] := by decide

end Cgreen
