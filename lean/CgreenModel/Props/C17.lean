import CgreenModel.Lemmas.Runner
import CgreenModel.Props.C01
import CgreenModel.Props.C03
/-!
# C17 — all reporters agree on what happened
The built-in reporters share the result reader and the folding of suite counters into totals; they
differ in presentation and in how they finish a suite (`Reporter.suiteViaFinishTest`). What each of
them *shows* of the abstract result lines is a projection (harness/scenario.py, `model_proj`); here it
is proved that the lines themselves, the counts and the verdict do not depend on the reporter.
-/
namespace Cgreen

/-- Every count, every result line (hence the attribution of every failure and exception) and the
verdict are the same under any two reporters, for every tree and both execution modes. -/
theorem C17_agree (cap : Nat) (hcap : 0 < cap) (m : Mode) (r₁ r₂ : Reporter) (t : Tree) (hok : t.AllOk cap m) :
    (run ⟨cap, m, r₁⟩ t).tot = (run ⟨cap, m, r₂⟩ t).tot
    ∧ (run ⟨cap, m, r₁⟩ t).out.filter Out.isResult = (run ⟨cap, m, r₂⟩ t).out.filter Out.isResult
    ∧ verdict (run ⟨cap, m, r₁⟩ t) = verdict (run ⟨cap, m, r₂⟩ t) := by
  refine ⟨?_, ?_, ?_⟩
  · rw [C03_totals cap hcap m r₁ t hok, C03_totals cap hcap m r₂ t hok]
  · rw [C03_results cap hcap m r₁ t hok, C03_results cap hcap m r₂ t hok]
  · rw [C01_verdict cap hcap m r₁ t hok, C01_verdict cap hcap m r₂ t hok]

/-- The one piece of logic in which reporters differ is exercised: on a channel whose suite completion
notice is missing, a reporter that finishes suites through `finish_test` counts an exception and one
that does not, doesn't — so the agreement above is a theorem about the runner (the notice is always
there), not a triviality of the model. -/
theorem C17_difference_is_real :
    (finishSuite ⟨0, .fork, .cute⟩ {} ["top"]).halted = some (.signal 13)
    ∧ ((let s : St := {}; let r := readResults s.cur false [];
        if Reporter.cute.suiteViaFinishTest && r.2.2 = .notReceived then r.1 + Rec.exception.cnt else r.1) = ⟨0, 0, 0, 1⟩)
    ∧ ((let s : St := {}; let r := readResults s.cur false [];
        if Reporter.text.suiteViaFinishTest && r.2.2 = .notReceived then r.1 + Rec.exception.cnt else r.1) = ⟨0, 0, 0, 0⟩) := by
  decide

example : (run ⟨4096, .fork, .cdash⟩ exampleTree).tot = (run ⟨4096, .fork, .xml⟩ exampleTree).tot := by decide

end Cgreen
