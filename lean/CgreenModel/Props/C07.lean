import CgreenModel.Lemmas.Mocks
import CgreenModel.Props.C06
/-!
# C07 — a strict-mock test passes exactly when calls made match calls declared
The counting statements, on the model of `mocks.c`; by the refinement theorems of C06 each of them
holds on the global queue because it holds on the function's own FIFO.
-/
namespace Cgreen
open Mocks

def Out.passes : Out → Bool
  | .check _ ok => ok
  | .ret _ => true

def allPass (outs : List (List Out)) : Bool := outs.all (fun l => l.all Out.passes)

/-- An expectation that was not satisfied yields exactly one failure at the end of the test. -/
theorem C07_unsatisfied_one_failure (e : Exp) (ha : e.isAlways = false) (hn : e.isNever = false) (ht : e.times = none) :
    tallyOne e = [.check (some e.id) false] := by simp [tallyOne, ha, hn, ht]

/-- With `times(n)`: one check, which passes exactly when it was called `n` times. -/
theorem C07_times_check (e : Exp) (n : Int) (ha : e.isAlways = false) (hn : e.isNever = false) (ht : e.times = some n) :
    tallyOne e = [.check (some e.id) ((e.called : Int) == n)] := by simp [tallyOne, ha, hn, ht]

/-- An honoured `never_expect` yields a pass; a violated one yields nothing more at the tally … -/
theorem C07_never_tally (e : Exp) (hn : e.isNever = true) :
    tallyOne e = if e.triggered = 0 then [.check (some e.id) true] else [] := by
  have ha : e.isAlways = false := by
    simp only [Exp.isAlways, Exp.isNever, UNL] at hn ⊢; simp at hn ⊢; omega
  by_cases h : e.triggered = 0 <;> simp [tallyOne, ha, hn, h]

/-- … because every offending call already yielded exactly one failure (and returned 0). -/
theorem C07_never_violated (s : MState) (f : Nat) (args : List Int) (e : Exp) (rest : List Exp)
    (hq : proj f s.q = e :: rest) (hn : e.isNever = true) :
    (call s f args).2 = [.check (some e.id) false, .ret 0]
    ∧ proj f (call s f args).1.q = { e with triggered := e.triggered + 1 } :: rest := by
  obtain ⟨h1, h2, _, _, _⟩ := call_refines s f args
  have hfn : e.fn = f := proj_mem_fn f s.q e (by rw [hq]; exact List.mem_cons_self)
  have hb : (e.fn == f) = true := by simp [hfn]
  rw [h1, h2, hq]
  simp [call, findExp, List.find?_cons, hb, hn, modifyFirst]

/-- An `always_expect` yields neither a pass nor a failure at the tally. -/
theorem C07_always_silent (e : Exp) (ha : e.isAlways = true) : tallyOne e = [] := by simp [tallyOne, ha]

/-- A call that has no pending expectation: with strict mocks exactly one failure and 0 is returned;
with loose (or learning) mocks nothing and 0 is returned. -/
theorem C07_unexpected (s : MState) (f : Nat) (args : List Int) (h : proj f s.q = []) :
    (call s f args).2 = (if s.mode = .strict then [.check none false] else []) ++ [.ret 0] := by
  have hf : findExp f s.q = none := by rw [findExp_head, h]; rfl
  simp [call, hf]

/-- A declaration for a function that already has an `always_expect` or a `never_expect` yields one
failure. -/
theorem C07_decl_after_always (s : MState) (k : Kind) (f : Nat) (r : Int) (c : List Con) (h : haveAlways f s.q = true) :
    (declare s k f r c).2 = [.check (some s.nextId) false] := by simp [declare, h]

theorem C07_decl_after_never (s : MState) (k : Kind) (f : Nat) (r : Int) (c : List Con)
    (ha : haveAlways f s.q = false) (h : haveNever f s.q = true) :
    (declare s k f r c).2 = [.check (some s.nextId) false] := by simp [declare, ha, h]

/-! ### Calls made = calls declared, in number -/

/-- One expectation `e` for `f` with `t ≥ 1` uses left and no clauses, alone in the queue, strict mocks:
`k` calls. -/
theorem calls_single (t : Nat) : ∀ (k : Nat) (e : Exp) (s : MState) (f : Nat),
    s.q = [e] → s.mode = .strict → e.fn = f → e.ttl = (t : Int) + 1 → (t : Int) + 1 < UNL → e.cons = [] → e.times.isSome = true →
    (k ≤ t → (calls s f (List.replicate k [])).2 = List.replicate k [.ret e.ret]
             ∧ ∃ e', (calls s f (List.replicate k [])).1.q = [e'] ∧ e'.called = e.called + k ∧ e'.times = e.times
                     ∧ e'.isAlways = false ∧ e'.isNever = false ∧ e'.id = e.id)
    ∧ (t < k → (calls s f (List.replicate k [])).2
                 = List.replicate (t + 1) [.ret e.ret] ++ List.replicate (k - (t + 1)) [.check none false, .ret 0]
             ∧ (calls s f (List.replicate k [])).1.q = []) := by
  induction t with
  | zero =>
    intro k e s f hq hm hfn httl hb hc hts
    have hn : e.isNever = false := by simp [Exp.isNever, httl, UNL]
    have ha : e.isAlways = false := by simp [Exp.isAlways, httl, UNL]
    have hbq : (e.fn == f) = true := by simp [hfn]
    constructor
    · intro hk
      have : k = 0 := by omega
      subst this
      exact ⟨rfl, e, hq, by simp, rfl, ha, hn, rfl⟩
    · intro hk
      obtain ⟨j, rfl⟩ : ∃ j, k = j + 1 := ⟨k - 1, by omega⟩
      have hcall : (call s f []).2 = [.ret e.ret] ∧ (call s f []).1.q = [] ∧ (call s f []).1.mode = .strict := by
        simp [call, findExp, hq, List.find?_cons, hbq, hn, ha, modifyFirst, removeFirst, httl, checksFor, hm, reportFor, Exp.unknownParam, hc, Exp.served, hfn]
      have hrest : ∀ (j : Nat) (s' : MState), s'.q = [] → s'.mode = .strict →
          (calls s' f (List.replicate j [])).2 = List.replicate j [.check none false, .ret 0]
          ∧ (calls s' f (List.replicate j [])).1.q = [] := by
        intro j
        induction j with
        | zero => intro s' h1 _; exact ⟨rfl, h1⟩
        | succ j ihj =>
          intro s' h1 h2
          have hc' : (call s' f []).2 = [.check none false, .ret 0] ∧ (call s' f []).1.q = [] ∧ (call s' f []).1.mode = .strict := by
            simp [call, findExp, h1, h2]
          obtain ⟨r1, r2⟩ := ihj (call s' f []).1 hc'.2.1 hc'.2.2
          simp only [List.replicate_succ, calls, hc'.1, r1, r2]
          exact ⟨trivial, trivial⟩
      obtain ⟨r1, r2⟩ := hrest j (call s f []).1 hcall.2.1 hcall.2.2
      simp only [List.replicate_succ, calls, hcall.1, r1, r2]
      simp
  | succ t ih =>
    intro k e s f hq hm hfn httl hb hc hts
    have hn : e.isNever = false := by
      have : e.ttl ≠ -UNL := by rw [httl]; simp only [UNL]; omega
      simpa [Exp.isNever] using this
    have ha : e.isAlways = false := by
      have : e.ttl ≠ UNL := by rw [httl]; omega
      simpa [Exp.isAlways] using this
    have hbq : (e.fn == f) = true := by simp [hfn]
    cases k with
    | zero =>
      constructor
      · intro _; exact ⟨rfl, e, hq, by simp, rfl, ha, hn, rfl⟩
      · intro h; omega
    | succ k =>
      have hnot : ¬ (e.ttl - 1 ≤ 0) := by rw [httl]; omega
      have hcall : (call s f []).2 = [.ret e.ret]
          ∧ (call s f []).1.q = [{ e with called := e.called + 1, triggered := e.triggered + 1, ttl := e.ttl - 1 }]
          ∧ (call s f []).1.mode = .strict := by
        simp [call, findExp, hq, List.find?_cons, hbq, hn, ha, modifyFirst, hnot, checksFor, hm, hts, reportFor, Exp.unknownParam, hc, Exp.served]
      obtain ⟨i1, i2⟩ := ih k { e with called := e.called + 1, triggered := e.triggered + 1, ttl := e.ttl - 1 }
        (call s f []).1 f hcall.2.1 hcall.2.2 hfn (by show e.ttl - 1 = (t : Int) + 1; omega) (by omega) hc hts
      constructor
      · intro hk
        obtain ⟨o1, e', q1, c1, t1, a1, n1, d1⟩ := i1 (by omega)
        simp only [List.replicate_succ, calls, hcall.1, o1]
        refine ⟨trivial, e', q1, ?_, t1, a1, n1, d1⟩
        rw [c1]; simp; omega
      · intro hk
        obtain ⟨o1, q1⟩ := i2 (by omega)
        simp only [List.replicate_succ, calls, hcall.1, o1, q1]
        refine ⟨?_, trivial⟩
        have : k + 1 - (t + 1 + 1) = k - (t + 1) := by omega
        simp [this, List.replicate_succ]

theorem run_append (s : MState) (a b : List Op) :
    (run s (a ++ b)).2 = (run s a).2 ++ (run (run s a).1 b).2 ∧ (run s (a ++ b)).1 = (run (run s a).1 b).1 := by
  induction a generalizing s with
  | nil => simp [run]
  | cons o a ih => simp [run, ih]

theorem run_calls (s : MState) (f : Nat) (k : Nat) :
    (run s (List.replicate k (Op.call f []))).2 = (calls s f (List.replicate k [])).2
    ∧ (run s (List.replicate k (Op.call f []))).1 = (calls s f (List.replicate k [])).1 := by
  induction k generalizing s with
  | zero => simp [run, calls]
  | succ k ih => simp [List.replicate_succ, run, calls, step, ih]

theorem allPass_append (a b : List (List Out)) : allPass (a ++ b) = (allPass a && allPass b) := by
  simp [allPass, List.all_append]

theorem allPass_replicate_ret (k : Nat) (r : Int) : allPass (List.replicate k [Out.ret r]) = true := by
  simp [allPass, List.all_replicate, Out.passes]

theorem allPass_replicate_fail (k : Nat) (o : Option Nat) (r : Int) :
    allPass (List.replicate k [Out.check o false, Out.ret r]) = (k == 0) := by
  cases k <;> simp [allPass, List.all_replicate, Out.passes]

/-- A `never` expectation alone in the queue, `k` calls. -/
theorem calls_never (k : Nat) : ∀ (e : Exp) (s : MState) (f : Nat), s.q = [e] → e.fn = f → e.isNever = true →
    (calls s f (List.replicate k [])).2 = List.replicate k [.check (some e.id) false, .ret 0]
    ∧ ∃ e', (calls s f (List.replicate k [])).1.q = [e'] ∧ e'.triggered = e.triggered + k ∧ e'.isNever = true ∧ e'.id = e.id := by
  induction k with
  | zero => intro e s f hq _ hn; exact ⟨rfl, e, hq, rfl, hn, rfl⟩
  | succ k ih =>
    intro e s f hq hfn hn
    have hbq : (e.fn == f) = true := by simp [hfn]
    have hcall : (call s f []).2 = [.check (some e.id) false, .ret 0]
        ∧ (call s f []).1.q = [{ e with triggered := e.triggered + 1 }] := by
      simp [call, findExp, hq, List.find?_cons, hbq, hn, modifyFirst]
    obtain ⟨o1, e', q1, t1, n1, d1⟩ := ih { e with triggered := e.triggered + 1 } (call s f []).1 f hcall.2 hfn
      (by simpa [Exp.isNever] using hn)
    simp only [List.replicate_succ, calls, hcall.1, o1]
    refine ⟨trivial, e', q1, ?_, n1, d1⟩
    rw [t1]; simp; omega

/-- `expect(f, times(n))` followed by `k` calls and the tally, with strict mocks and nothing else in the
test: every check passes exactly when `k = n` — for every `n ≥ 0` and every `k`. -/
theorem C07_times_iff (n k : Nat) (f : Nat) (r : Int) (hb : (n : Int) < UNL) :
    allPass (run {} ([Op.decl (.expect (some (n : Int))) f r []] ++ (List.replicate k (Op.call f [])) ++ [Op.tally])).2 = true
      ↔ k = n := by
  have hdecl : (step {} (Op.decl (.expect (some (n : Int))) f r [])).2 = []
      ∧ (step {} (Op.decl (.expect (some (n : Int))) f r [])).1.q
          = [{ id := 0, fn := f, ttl := ttlOf (.expect (some (n : Int))), times := some (n : Int), ret := r, cons := [] }]
      ∧ (step {} (Op.decl (.expect (some (n : Int))) f r [])).1.mode = .strict := by
    simp [step, declare, haveAlways, haveNever, timesOf]
  generalize hs1 : (step {} (Op.decl (.expect (some (n : Int))) f r [])).1 = s1 at hdecl
  have hrun : (run {} ([Op.decl (.expect (some (n : Int))) f r []] ++ (List.replicate k (Op.call f [])) ++ [Op.tally])).2
      = [] :: ((calls s1 f (List.replicate k [])).2 ++ [(tally (calls s1 f (List.replicate k [])).1).2]) := by
    rw [List.append_assoc, List.singleton_append]
    simp only [run, hdecl.1, hs1]
    rw [(run_append s1 _ _).1, (run_calls s1 f k).1, (run_calls s1 f k).2]
    simp [run, step]
  rw [hrun]
  cases n with
  | zero =>
    -- times(0): never to be called
    have hnever : ({ id := 0, fn := f, ttl := ttlOf (.expect (some ((0 : Nat) : Int))), times := some ((0 : Nat) : Int), ret := r, cons := [] } : Exp).isNever = true := by
      simp [Exp.isNever, ttlOf]
    obtain ⟨o1, e', q1, t1, n1, d1⟩ := calls_never k _ s1 f hdecl.2.1 rfl hnever
    have hta : tallyOne e' = if e'.triggered = 0 then [.check (some e'.id) true] else [] := C07_never_tally e' n1
    simp only [allPass, List.all_cons, List.all_nil, Bool.true_and, List.all_append, Bool.and_true]
    rw [o1, tally, q1]
    simp only [List.flatMap_cons, List.flatMap_nil, List.append_nil, hta, t1]
    cases k with
    | zero => simp [Out.passes]
    | succ k => simp [List.all_replicate, Out.passes]
  | succ t =>
    have httl : ({ id := 0, fn := f, ttl := ttlOf (.expect (some ((t + 1 : Nat) : Int))), times := some ((t + 1 : Nat) : Int), ret := r, cons := [] } : Exp).ttl
        = (t : Int) + 1 := by
      simp only [ttlOf]
      have : ¬ (((t + 1 : Nat) : Int) ≤ 0) := by omega
      rw [if_neg this]; omega
    obtain ⟨c1, c2⟩ := calls_single t k _ s1 f hdecl.2.1 hdecl.2.2 rfl httl (by omega) rfl rfl
    by_cases hk : k ≤ t
    · obtain ⟨o1, e', q1, cl, tm, a1, n1, d1⟩ := c1 hk
      have hta := C07_times_check e' ((t + 1 : Nat) : Int) a1 n1 tm
      simp only [allPass, List.all_cons, List.all_nil, Bool.true_and, List.all_append, Bool.and_true]
      rw [o1, tally, q1]
      simp only [List.flatMap_cons, List.flatMap_nil, List.append_nil, hta, cl]
      have hne : ((((0 : Nat) + k : Nat) : Int) == ((t + 1 : Nat) : Int)) = false := by
        simp; omega
      simp [List.all_replicate, Out.passes, hne]
      omega
    · obtain ⟨o1, q1⟩ := c2 (by omega)
      simp only [allPass, List.all_cons, List.all_nil, Bool.true_and, List.all_append, Bool.and_true]
      rw [o1, tally, q1]
      simp only [List.flatMap_nil, List.all_nil, Bool.and_true, List.all_append]
      have h1 := allPass_replicate_ret (t + 1) r
      have h2 := allPass_replicate_fail (k - (t + 1)) none 0
      simp only [allPass] at h1 h2
      rw [h1, h2]
      simp; omega

example : allPass (run {} [Op.decl (.expect (some 2)) 0 5 [], .call 0 [], .call 0 [], .tally]).2 = true := by decide
example : allPass (run {} [Op.decl (.expect (some 0)) 0 5 [], .call 0 [], .tally]).2 = false := by decide

end Cgreen
