import CgreenModel.Model.Vector
import CgreenModel.Lemmas.Lines
/-!
# C20 — cgreen's own bookkeeping is safe for any count
`CgreenVector` (expectation queue, constraint lists, parameter names, the runner's discovered-test
list): for every history of operations and every growth step, every slot the code touches is inside
the allocation, and the vector behaves like the plain list it represents — in particular at
`step−1`, `step`, `step+1` elements. The line buffer with which cgreen-runner reads a library's symbol listing
(tools/discoverer.c: `read_whole_line`) returns every line whole whatever its length (`C20_line_of_any_length`,
`C20_listing_read_whole`). Other fixed-size buffers and name lengths are covered by the sanitizer sweep of the
check (DESIGN.md), not by a theorem.
-/
namespace Cgreen
open Vec

theorem wf_empty : WF {} := by simp [WF]

theorem add_wf (stp : Nat) (hs : 0 < stp) (v : Vec) (x : Nat) (h : WF v) : WF (Vec.add stp v x).1 := by
  obtain ⟨h1, h2⟩ := h
  by_cases hf : v.size = v.space
  · simp only [Vec.add, WF, hf, if_true, grow, List.length_set, List.length_append, List.length_replicate, h1]
    exact ⟨trivial, by omega⟩
  · simp only [Vec.add, WF, hf, if_false, List.length_set, h1]
    exact ⟨trivial, by omega⟩

theorem take_set_append (l : List Nat) (n : Nat) (x : Nat) (h : n < l.length) :
    (l.set n x).take (n + 1) = l.take n ++ [x] := by
  apply List.ext_getElem?
  intro k
  simp only [List.getElem?_take, List.getElem?_set, List.getElem?_append, List.length_take]
  have hm : min n l.length = n := by omega
  rw [hm]
  by_cases hk : k < n
  · have h1 : ¬ n = k := by omega
    have h2 : k < n + 1 := by omega
    simp [hk, h1, h2]
  · by_cases hk2 : k = n
    · subst hk2; simp [h]
    · have h1 : ¬ k < n + 1 := by omega
      have h2 : ¬ n = k := fun e => hk2 e.symm
      have h3 : k - n ≠ 0 := by omega
      simp [h1, hk]
      cases hkn : k - n with
      | zero => omega
      | succ j => simp

theorem add_spec (stp : Nat) (hs : 0 < stp) (v : Vec) (x : Nat) (h : WF v) :
    (∀ i ∈ (Vec.add stp v x).2, i < (Vec.add stp v x).1.space) ∧ abs (Vec.add stp v x).1 = abs v ++ [x] := by
  obtain ⟨h1, h2⟩ := h
  by_cases hf : v.size = v.space
  · simp only [Vec.add, abs, hf, if_true, grow, List.mem_singleton, forall_eq]
    refine ⟨by omega, ?_⟩
    rw [take_set_append _ _ _ (by simp [h1]; omega)]
    congr 1
    rw [List.take_append_of_le_length (by omega)]
  · have hlt : v.size < v.space := by omega
    simp only [Vec.add, abs, hf, if_false, List.mem_singleton, forall_eq]
    exact ⟨hlt, take_set_append _ _ _ (by omega)⟩

theorem shift_length (items : List Nat) (i n : Nat) : (shift items i n).1.length = items.length := by
  induction n generalizing items i with
  | zero => rfl
  | succ n ih => simp [shift, ih]

theorem shift_bounds (items : List Nat) (i n : Nat) : ∀ j ∈ (shift items i n).2, j ≤ i + n := by
  induction n generalizing items i with
  | zero => simp [shift]
  | succ n ih =>
    intro j hj
    simp only [shift, List.mem_cons] at hj
    rcases hj with rfl | rfl | hj
    · omega
    · omega
    · have := ih _ _ j hj; omega

/-- After the loop, slot `k` holds what slot `k + 1` held for `i ≤ k < i + n`; other slots are unchanged. -/
theorem shift_get (items : List Nat) (i n k : Nat) (hlen : i + n < items.length) :
    (shift items i n).1[k]? = if i ≤ k ∧ k < i + n then items[k + 1]? else items[k]? := by
  induction n generalizing items i with
  | zero =>
    simp only [shift]
    rw [if_neg (by omega)]
  | succ n ih =>
    simp only [shift]
    rw [ih _ _ (by simp; omega)]
    have hget : items.getD (i + 1) 0 = items[i + 1]'(by omega) := by
      simp [List.getD_eq_getElem?_getD, List.getElem?_eq_getElem (show i + 1 < items.length by omega)]
    by_cases h1 : i + 1 ≤ k ∧ k < i + 1 + n
    · have h2 : i ≤ k ∧ k < i + (n + 1) := by omega
      have h3 : ¬ i = k + 1 := by omega
      simp only [h1, h2, and_self, if_true, List.getElem?_set, h3, if_false]
    · by_cases hk : k = i
      · subst hk
        have h2 : k ≤ k ∧ k < k + (n + 1) := by omega
        simp only [h1, if_false, h2, and_self, if_true, List.getElem?_set, hget]
        have : k < items.length := by omega
        simp [this, List.getElem?_eq_getElem (show k + 1 < items.length by omega)]
      · have h2 : ¬ (i ≤ k ∧ k < i + (n + 1)) := by omega
        have h3 : ¬ i = k := fun e => hk e.symm
        simp only [h1, if_false, h2, List.getElem?_set, h3]

theorem remove_wf (v : Vec) (pos : Nat) (h : WF v) (v' : Vec) (item : Nat) (acc : List Nat)
    (hr : Vec.remove v pos = some (v', item, acc)) : WF v' := by
  obtain ⟨h1, h2⟩ := h
  simp only [Vec.remove] at hr
  split at hr
  · simp only [Option.some.injEq, Prod.mk.injEq] at hr
    obtain ⟨rfl, _, _⟩ := hr
    simp only [WF, List.length_set, shift_length, h1]
    exact ⟨trivial, by omega⟩
  · cases hr

theorem abs_getD (v : Vec) (pos : Nat) (hp : pos < v.size) : (abs v).getD pos 0 = v.items.getD pos 0 := by
  simp [abs, List.getD_eq_getElem?_getD, List.getElem?_take, hp]

/-- `cgreen_vector_remove` touches only slots below `size` (hence inside the allocation), returns the
element at `pos`, and what remains is the list with that element erased. -/
theorem remove_spec (v : Vec) (pos : Nat) (h : WF v) (hp : pos < v.size) :
    ∃ v' acc, Vec.remove v pos = some (v', (abs v).getD pos 0, acc)
      ∧ (∀ i ∈ acc, i < v.size) ∧ abs v' = (abs v).eraseIdx pos := by
  obtain ⟨h1, h2⟩ := h
  simp only [Vec.remove, hp, if_true, abs_getD v pos hp]
  refine ⟨_, _, rfl, ?_, ?_⟩
  · intro i hi
    simp only [List.cons_append, List.mem_cons, List.mem_append, List.not_mem_nil, or_false] at hi
    rcases hi with rfl | hi | rfl
    · exact hp
    · have := shift_bounds v.items pos (v.size - 1 - pos) i hi; omega
    · omega
  · apply List.ext_getElem?
    intro k
    simp only [abs]
    rw [List.getElem?_take, List.getElem?_eraseIdx]
    by_cases hk : k < v.size - 1
    · have hks : k < v.size := by omega
      simp only [hk, if_true]
      rw [List.getElem?_set_ne (by omega), shift_get v.items pos (v.size - 1 - pos) k (by omega)]
      by_cases hkp : k < pos
      · have hn : ¬ (pos ≤ k ∧ k < pos + (v.size - 1 - pos)) := by omega
        simp only [hn, if_false, hkp, if_true, List.getElem?_take, hks]
      · have hy : pos ≤ k ∧ k < pos + (v.size - 1 - pos) := by omega
        have hk1 : k + 1 < v.size := by omega
        simp only [hy, and_self, if_true, hkp, if_false, List.getElem?_take, hk1]
    · simp only [hk, if_false]
      by_cases hkp : k < pos
      · omega
      · have hk1 : ¬ k + 1 < v.size := by omega
        simp only [hkp, if_false, List.getElem?_take, hk1]

/-- `cgreen_vector_get`: inside the allocation, and the element of the list. -/
theorem get_spec (v : Vec) (pos : Nat) :
    (pos < v.size → Vec.get v pos = some ((abs v).getD pos 0, [pos])) ∧ (¬ pos < v.size → Vec.get v pos = none) := by
  constructor
  · intro hp; simp only [Vec.get, hp, if_true, abs_getD v pos hp]
  · intro hp; simp [Vec.get, hp]

/-- Every operation preserves the representation invariant and touches only slots inside the allocation. -/
theorem step_safe (stp : Nat) (hs : 0 < stp) (v : Vec) (op : Op) (h : WF v) :
    WF (step stp v op).1 ∧ ∀ a ∈ (step stp v op).2.2, a.1 < a.2 := by
  cases op with
  | add x =>
    refine ⟨add_wf stp hs v x h, ?_⟩
    intro a ha
    simp only [step, List.mem_map] at ha
    obtain ⟨i, hi, rfl⟩ := ha
    exact (add_spec stp hs v x h).1 i hi
  | remove p =>
    by_cases hp : p < v.size
    · obtain ⟨v', acc, hr, hb, _⟩ := remove_spec v p h hp
      simp only [step, hr]
      refine ⟨remove_wf v p h v' _ acc hr, ?_⟩
      intro a ha
      simp only [List.mem_map] at ha
      obtain ⟨i, hi, rfl⟩ := ha
      have := hb i hi; have := h.2
      show i < v.space; omega
    · have hn : Vec.remove v p = none := by simp [Vec.remove, hp]
      simp only [step, hn]; exact ⟨h, by simp⟩
  | get p =>
    by_cases hp : p < v.size
    · have hg := (get_spec v p).1 hp
      simp only [step, hg]
      refine ⟨h, ?_⟩
      intro a ha
      simp only [List.map_cons, List.map_nil, List.mem_singleton] at ha
      subst ha; have := h.2
      show p < v.space; omega
    · have hg := (get_spec v p).2 hp
      simp only [step, hg]; exact ⟨h, by simp⟩

/-- For every history of operations, starting from the empty vector and for every positive growth
step: no access outside the allocation. -/
theorem C20_vector_in_bounds (stp : Nat) (hs : 0 < stp) (ops : List Op) :
    ∀ a ∈ (run stp {} ops).2.2, a.1 < a.2 := by
  suffices h : ∀ v, WF v → ∀ a ∈ (run stp v ops).2.2, a.1 < a.2 from h {} wf_empty
  induction ops with
  | nil => intro v _ a ha; simp [run] at ha
  | cons o os ih =>
    intro v hv a ha
    simp only [run, List.mem_append] at ha
    obtain ⟨hi, hb⟩ := step_safe stp hs v o hv
    rcases ha with ha | ha
    · exact hb a ha
    · exact ih _ hi a ha

/-- The vector behaves as the list it represents, whatever the growth step: add appends, remove
erases and returns the element, get reads it. -/
theorem C20_vector_refines (stp : Nat) (hs : 0 < stp) (v : Vec) (h : WF v) :
    (∀ x, abs (Vec.add stp v x).1 = abs v ++ [x])
    ∧ (∀ p, p < v.size → ∃ v' acc, Vec.remove v p = some (v', (abs v).getD p 0, acc) ∧ abs v' = (abs v).eraseIdx p)
    ∧ (∀ p, p < v.size → Vec.get v p = some ((abs v).getD p 0, [p]))
    ∧ (∀ p, ¬ p < v.size → Vec.remove v p = none ∧ Vec.get v p = none) := by
  refine ⟨fun x => (add_spec stp hs v x h).2, ?_, fun p hp => (get_spec v p).1 hp, ?_⟩
  · intro p hp
    obtain ⟨v', acc, h1, _, h3⟩ := remove_spec v p h hp
    exact ⟨v', acc, h1, h3⟩
  · intro p hp; exact ⟨by simp [Vec.remove, hp], (get_spec v p).2 hp⟩

/-- Witness of finding F07: the old `cgreen_vector_remove`, on a vector that is exactly full (here
space = size = 2), touched slot `size`, which is outside the allocation. -/
theorem C20_F07_witness :
    ∃ v' item acc, removeOld { size := 2, space := 2, items := [7, 8] } 0 = some (v', item, acc) ∧ 2 ∈ acc := by
  refine ⟨_, _, _, rfl, ?_⟩; decide

example : (run 2 {} [.add 5, .add 6, .add 7, .remove 0, .get 1, .remove 5]).2.1 = [none, none, none, some 5, some 7, none] := by decide

/-! ### The discoverer's line buffer -/
open Lines in
/-- `read_whole_line`, for a buffer of any size from 3 bytes and a line of any length (with or without a line
feed at its end): the buffer ends up holding exactly the first line of the stream, the stream is left at the start
of the next line, every piece was read into memory the buffer owned at that moment, and the buffer (never
smaller than before) has room for the line and its terminator. -/
theorem C20_line_of_any_length (size : Nat) (s : Sel.Str) (hs : s ≠ []) (hsize : 3 ≤ size) :
    ∃ size', size ≤ size' ∧ (firstLine s).length + 2 ≤ size' ∧
      readWholeLine size s = ⟨some (firstLine s), size', afterLine s, true⟩ :=
  readWholeLine_spec size s hs hsize

open Lines in
/-- Reading a whole listing: the lines handed to the discoverer are the listing cut after each line feed —
independent of the buffer's initial size, so a line that exactly fills the buffer (or any multiple of it) is
treated as a short one is — and no piece was read outside the buffer. -/
theorem C20_listing_read_whole (size : Nat) (s : Sel.Str) (hsize : 3 ≤ size) :
    allLines (s.length + 1) size s = (splitLines s, true) :=
  allLines_spec _ size s hsize (Nat.le_refl _)

open Lines in
/-- Nothing of the listing is lost, repeated or moved to another line. -/
theorem C20_lines_partition (s : Sel.Str) : (splitLines s).flatten = s := by
  induction s with
  | nil => rfl
  | cons c s ih =>
    by_cases hc : c = '\n'
    · simp [splitLines, hc, ih]
    · simp only [splitLines, hc, if_false]
      cases h : splitLines s with
      | nil => rw [h] at ih; simp at ih; simp [← ih]
      | cons l ls => rw [h] at ih; simp at ih ⊢; exact ih

open Lines in
example : readWholeLine 4 "abcdefg\nxy".toList = ⟨some "abcdefg\n".toList, 16, "xy".toList, true⟩ := by decide +kernel
open Lines in
example : (readWholeLine 4 "ab\nxy".toList).line = some "ab\n".toList := by decide +kernel   -- exactly fills the buffer

end Cgreen
