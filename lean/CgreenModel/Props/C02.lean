import CgreenModel.Lemmas.Runner
import CgreenModel.Props.C01
import CgreenModel.Props.C03
/-!
# C02 — a test process that dies is one exception and harms no other test

A death point is any position in the test's script (`Act.die` anywhere in setup, body, teardown), any
named point of the framework's child-side path, before/after any record write, or after the
completion notice (`KillPlan`); a way of dying is any `Death`. `Test.abnormal` says the process ended
abnormally. Forked execution (`Mode.fork`).
-/
namespace Cgreen

/-- Lines that belong to one test. -/
def Out.isTestLine : Out → Bool
  | .failLines .. => true | .excLine .. => true | .testEnd .. => true
  | _ => false

/-- The dying test is exactly one exception … -/
theorem C02_one_exception (cap : Nat) (su td : Bool) (x : Test) (hab : x.abnormal cap su td = true) :
    (x.truth cap su td).e = 1 := by
  rw [C01_exception_iff]; simp [hab]

/-- … shown as exactly one exception line, under its own path … -/
theorem C02_one_exception_line (cap : Nat) (su td : Bool) (tp : List String) (x : Test) (hab : x.abnormal cap su td = true) :
    ((x.results cap su td tp).filter (fun o => match o with | .excLine _ => true | _ => false)) = [Out.excLine tp] := by
  have hx : x.xskip = false := by
    cases h : x.xskip
    · rfl
    · simp [Test.abnormal, h] at hab
  simp [Test.results, hx, hab, List.filter_cons]

/-- … and every result it delivered before dying is counted: its passes and failures are the pass and
fail records it wrote, whatever happened afterwards. -/
theorem C02_delivered_counted (cap : Nat) (su td : Bool) (x : Test) (hx : x.xskip = false) :
    (x.truth cap su td).p = ((runCode cap [] su td x).pipe.filter (· == .pass)).length
    ∧ (x.truth cap su td).f = ((runCode cap [] su td x).pipe.filter (· == .fail)).length := by
  have hfp : ∀ l : List Rec, (l.filter (· != .completion)).filter (· == .pass) = l.filter (· == .pass) := by
    intro l; rw [List.filter_filter]; congr 1; funext r; cases r <;> rfl
  have hff : ∀ l : List Rec, (l.filter (· != .completion)).filter (· == .fail) = l.filter (· == .fail) := by
    intro l; rw [List.filter_filter]; congr 1; funext r; cases r <;> rfl
  unfold Test.truth Proc.truth
  simp only [hx, Bool.false_eq_true, if_false, hfp, hff]
  constructor
  · by_cases h1 : Rec.skipped ∈ List.filter (fun x => x != Rec.completion) (runCode cap [] su td x).pipe <;>
      by_cases h2 : ((runCode cap [] su td x).dead.isSome || (runCode cap [] su td x).late.isSome) = true <;>
      simp [h1, h2, Cnt.add_def, Rec.cnt, Cnt.zero_def]
  · by_cases h1 : Rec.skipped ∈ List.filter (fun x => x != Rec.completion) (runCode cap [] su td x).pipe <;>
      by_cases h2 : ((runCode cap [] su td x).dead.isSome || (runCode cap [] su td x).late.isSome) = true <;>
      simp [h1, h2, Cnt.add_def, Rec.cnt, Cnt.zero_def]

/-- The verdict of a run in which some test, anywhere in the tree, ended abnormally is failure. -/
theorem C02_verdict (cap : Nat) (hcap : 0 < cap) (t : Tree) (hok : t.AllOk cap .fork)
    (x : Bool × Bool × Test) (hmem : x ∈ t.allTests) (hab : x.2.2.abnormal cap x.1 x.2.1 = true) :
    verdict (run ⟨cap, .fork, r⟩ t) = some 1 := by
  rw [C01_verdict cap hcap .fork r t hok]
  have : ¬ ((t.truth cap).f = 0 ∧ (t.truth cap).e = 0) := by
    intro h
    have := ((C01_anywhere cap t).mp h) x hmem
    rw [C01_exception_iff] at this
    simp [hab] at this
  simp [this]

theorem resultsTests_append (cap : Nat) (su td : Bool) (path : List String) (a b : List Test) :
    resultsTests cap su td path (a ++ b) = resultsTests cap su td path a ++ resultsTests cap su td path b := by
  induction a with
  | nil => simp [resultsTests]
  | cons t a ih => simp [resultsTests, ih, List.append_assoc]

theorem results_isTestLine (cap : Nat) (su td : Bool) (tp : List String) (t : Test) :
    (t.results cap su td tp).filter Out.isTestLine = t.results cap su td tp := by
  unfold Test.results
  by_cases hx : t.xskip = true
  · simp [hx, Out.isTestLine]
  · by_cases hf : t.abnormal cap su td = true <;> simp [hx, hf, Out.isTestLine, List.filter_cons]

theorem resultsTests_isTestLine (cap : Nat) (su td : Bool) (path : List String) (ts : List Test) :
    (resultsTests cap su td path ts).filter Out.isTestLine = resultsTests cap su td path ts := by
  induction ts with
  | nil => simp [resultsTests]
  | cons t ts ih => simp [resultsTests, List.filter_append, results_isTestLine, ih]

/-- Every other test yields exactly the results it yields when the dying test is absent: the test
lines of the run with `x` are the test lines of the run without `x` with `x`'s own lines inserted at
its position — for every history `pre` (tests that skip, fail, die themselves) and every `post`. -/
theorem C02_others_unaffected (cap : Nat) (hcap : 0 < cap) (name : String) (su td : Bool) (subs : List Tree)
    (pre post : List Test) (x : Test)
    (hok : (Tree.node name su td subs (pre ++ x :: post)).AllOk cap .fork)
    (hok' : (Tree.node name su td subs (pre ++ post)).AllOk cap .fork) :
    ∃ before after,
      ((run ⟨cap, .fork, r⟩ (.node name su td subs (pre ++ post))).out.filter Out.isResult).filter Out.isTestLine
        = before ++ after
      ∧ ((run ⟨cap, .fork, r⟩ (.node name su td subs (pre ++ x :: post))).out.filter Out.isResult).filter Out.isTestLine
        = before ++ x.results cap su td ([name] ++ [x.name]) ++ after := by
  rw [C03_results cap hcap .fork r _ hok, C03_results cap hcap .fork r _ hok']
  refine ⟨(resultsSubs cap [name] subs).filter Out.isTestLine ++ resultsTests cap su td [name] pre,
          resultsTests cap su td [name] post, ?_, ?_⟩
  · simp [Tree.results, List.filter_append, resultsTests_append, resultsTests_isTestLine, Out.isTestLine,
      List.filter_cons, List.append_assoc]
  · simp [Tree.results, List.filter_append, resultsTests_append, resultsTests_isTestLine, Out.isTestLine,
      List.filter_cons, List.append_assoc, resultsTests, results_isTestLine]

/-- The hypothesis excluded by `Test.ok` is a real failure of the full statement (finding F02): a test
that calls `skip_test()` and then dies is reported as skipped, not as an exception. -/
theorem C02_F02_witness :
    (run ⟨4096, .fork, .text⟩ (.node "top" false false [] [{ name := "t", body := [.skip, .die (.signal 11)] }])).tot = ⟨0, 0, 1, 0⟩ := by
  decide

/-! Non-vacuity: dying tests of every kind meet the hypotheses. -/
example : ({ name := "v", body := [.check true, .check false], kill := some { atWrite := some (2, true), how := .exit0 } } : Test).abnormal 4096 false false = true := by decide
example : ({ name := "v", body := [.check true], kill := some { late := true, how := .signal 6 } } : Test).abnormal 4096 false false = true := by decide
example : ({ name := "v", body := [.check true], kill := some { late := true, how := .exit0 } } : Test).abnormal 4096 false false = false := by decide
example : (Tree.node "top" false false [] [{ name := "a", body := [.skip] }, { name := "v", body := [.check false, .die .uexit0] }, { name := "b", body := [.check true] }]).AllOk 4096 .fork := by
  simp [Tree.AllOk, allOkSubs, Test.ok, Proc.ok]; decide

end Cgreen
