import CgreenModel.Model.Timeout
import CgreenModel.Props.C02
/-!
# C14 — a per-test time limit stops the test and fails the run in every mode
An overrunning test is a test whose process ends through `Death.overrun` (the alarm handler ends the
process). That the alarm fires after n seconds, not earlier or later, is the kernel's and is assumed.
-/
namespace Cgreen
open Tmo

/-- Forked: the overrunning test is one exception … -/
theorem C14_forked_exception (cap : Nat) (su td : Bool) (x : Test) (hab : x.abnormal cap su td = true) :
    (x.truth cap su td).e = 1 := C02_one_exception cap su td x hab

/-- … the verdict is failure, wherever the test is, and every other test is unaffected (C02). -/
theorem C14_forked_verdict (cap : Nat) (hcap : 0 < cap) (r : Reporter) (t : Tree) (hok : t.AllOk cap .fork)
    (x : Bool × Bool × Test) (hmem : x ∈ t.allTests) (hab : x.2.2.abnormal cap x.1 x.2.1 = true) :
    verdict (run ⟨cap, .fork, r⟩ t) = some 1 := C02_verdict cap hcap t hok x hmem hab

/-- In-process (CGREEN_NO_FORK, single test): the run ends when the limit expires, and never in a way
that says "success". -/
theorem C14_inproc (s : St) (h : s.halted = some .overrun) : s.procEnd.success = false := C01_killed s _ h (by decide)

/-- A test that overruns does end abnormally in the model (non-vacuity of the hypotheses above). -/
example : ({ name := "slow", body := [.check false, .die .overrun, .check true] } : Test).abnormal 4096 false false = true := by decide
example : (run ⟨4096, .inproc, .text⟩ (.node "top" false false [] [{ name := "slow", body := [.check false, .die .overrun] }])).procEnd = .exited 1 := by decide

/-- The variable's value: accepted exactly when it is a non-empty string of decimal digits denoting a
number from 1 to INT_MAX. -/
theorem C14_env (s : List Char) (n : Nat) :
    parseTimeout s = some n ↔ (s ≠ [] ∧ digitsValue s = some n ∧ 0 < n ∧ n ≤ INT_MAX) := by
  unfold parseTimeout
  by_cases he : s.isEmpty = true
  · have : s = [] := by simpa using he
    subst this; simp
  · have hne : s ≠ [] := by simpa using he
    simp only [he, Bool.false_eq_true, if_false]
    cases hd : digitsValue s with
    | none => simp
    | some m =>
      simp only []
      by_cases hm : 0 < m ∧ m ≤ INT_MAX
      · simp only [hm, and_self, if_true, Option.some.injEq]
        constructor
        · intro e; subst e; exact ⟨hne, rfl, hm.1, hm.2⟩
        · intro ⟨_, e, _, _⟩; exact e
      · simp only [hm, if_false]
        constructor
        · intro e; cases e
        · intro ⟨_, e, h1, h2⟩
          have : m = n := by simpa using e
          subst this; exact absurd ⟨h1, h2⟩ hm

/-- The classes the property names. -/
theorem C14_env_classes :
    parseTimeout "".toList = none ∧ parseTimeout "0".toList = none ∧ parseTimeout "-5".toList = none
    ∧ parseTimeout "abc".toList = none ∧ parseTimeout "5abc".toList = none ∧ parseTimeout " 7".toList = none
    ∧ parseTimeout "2147483648".toList = none ∧ parseTimeout "60".toList = some 60 := by decide +kernel

end Cgreen
