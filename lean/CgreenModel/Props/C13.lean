import CgreenModel.Model.PerTest
import CgreenModel.Props.C17
import CgreenModel.Props.C11
/-!
# C13 — forked, in-process and single-test execution give the same results
For tests that complete normally. (1) The framework's own per-test state is reset by the prologue of
`run_the_test_code`, so a test that shares a process with earlier tests reports what it reports in a
process of its own (`Model/PerTest.lean`). The test program's own memory is not the framework's to
reset: the theorem is stated for tests that do not depend on it. (2) Result delivery is the same in
both modes (`Model/Runner.lean`).
-/
namespace Cgreen
open PerTest

/-- The prologue makes the framework state fresh: it forgets everything earlier tests did to it. -/
theorem reset_is_fresh (fw : Fw) : resetPerTest fw = { ({} : Fw) with glob := fw.glob } := by
  cases fw; simp [resetPerTest]

/-- A test that does not read the program's global reports the same from any starting state. -/
def usesGlobal : List FAct → Bool
  | [] => false
  | .readGlobal :: _ => true
  | _ :: as => usesGlobal as

/-- Two states that agree on everything that belongs to the framework. -/
def sameFw (a b : Fw) : Prop := a.mode = b.mode ∧ a.figs = b.figs ∧ a.pending = b.pending ∧ a.mocked = b.mocked

theorem runActs_glob_irrelevant (a b : Fw) (t : List FAct) (hs : sameFw a b) (h : usesGlobal t = false) :
    (runActs a t).2 = (runActs b t).2 ∧ sameFw (runActs a t).1 (runActs b t).1 := by
  induction t generalizing a b with
  | nil => exact ⟨rfl, hs⟩
  | cons x as ih =>
    obtain ⟨h1, h2, h3, h4⟩ := hs
    cases x with
    | readGlobal => simp [usesGlobal] at h
    | writeGlobal =>
      have := ih { a with glob := 1 } { b with glob := 1 } ⟨h1, h2, h3, h4⟩ (by simpa [usesGlobal] using h)
      simpa [runActs, FAct.run] using this
    | check ok =>
      have := ih a b ⟨h1, h2, h3, h4⟩ (by simpa [usesGlobal] using h)
      simp only [runActs, FAct.run]; exact ⟨by rw [this.1], this.2⟩
    | setMode m =>
      have := ih { a with mode := m } { b with mode := m } ⟨rfl, h2, h3, h4⟩ (by simpa [usesGlobal] using h)
      simpa [runActs, FAct.run] using this
    | callUnexpected =>
      have := ih a b ⟨h1, h2, h3, h4⟩ (by simpa [usesGlobal] using h)
      simp only [runActs, FAct.run, ← h1, ← h4]
      cases a.mode <;> exact ⟨by rw [this.1], this.2⟩
    | expectAndCall =>
      have := ih { a with mocked := true } { b with mocked := true } ⟨h1, h2, h3, rfl⟩ (by simpa [usesGlobal] using h)
      simpa [runActs, FAct.run] using this
    | setFigs n =>
      have := ih { a with figs := n } { b with figs := n } ⟨h1, rfl, h3, h4⟩ (by simpa [usesGlobal] using h)
      simpa [runActs, FAct.run] using this
    | dblCheck =>
      have := ih a b ⟨h1, h2, h3, h4⟩ (by simpa [usesGlobal] using h)
      simp only [runActs, FAct.run, ← h2]; exact ⟨by rw [this.1], this.2⟩
    | leave =>
      have := ih { a with pending := a.pending + 1 } { b with pending := b.pending + 1 } ⟨h1, h2, by simp [h3], h4⟩
        (by simpa [usesGlobal] using h)
      simpa [runActs, FAct.run] using this

theorem runTest_fresh (fw : Fw) (t : List FAct) (h : usesGlobal t = false) :
    (PerTest.runTest resetPerTest fw t).2 = (PerTest.runTest resetPerTest {} t).2 := by
  have hs : sameFw (resetPerTest fw) (resetPerTest {}) := by simp [sameFw, resetPerTest]
  obtain ⟨h1, h2⟩ := runActs_glob_irrelevant _ _ t hs h
  simp only [PerTest.runTest, tally, h1, h2.2.2.1]

/-- In-process execution (CGREEN_NO_FORK) reports, test by test, exactly what forked execution
reports — for every sequence of tests that switch mock mode, leave expectations pending, change the
significant figures or write globals, as long as no test reads a global another one wrote. -/
theorem C13_inproc_eq_fork (ts : List (List FAct)) (h : ∀ t ∈ ts, usesGlobal t = false) (fw : Fw) :
    runInproc resetPerTest fw ts = runFork resetPerTest {} ts := by
  induction ts generalizing fw with
  | nil => rfl
  | cons t ts ih =>
    simp only [runInproc, runFork, List.map_cons]
    rw [runTest_fresh fw t (h t List.mem_cons_self)]
    congr 1
    exact ih (fun t' ht' => h t' (List.mem_cons_of_mem _ ht')) _

/-- … and running a test singly gives what it reports in a forked run that contains it. -/
theorem C13_single_eq_fork (ts : List (List FAct)) (i : Nat) (x : List FAct) (hi : ts[i]? = some x) :
    (runFork resetPerTest {} ts)[i]? = some (runSingle resetPerTest x) := by
  simp [runFork, runSingle, List.getElem?_map, hi]

/-- Result delivery does not depend on the mode either (tests that complete normally): same totals,
same result lines, same verdict. -/
theorem C13_delivery (cap : Nat) (hcap : 0 < cap) (r : Reporter) (t : Tree)
    (hf : t.AllOk cap .fork) (hi : t.AllOk cap .inproc) :
    (run ⟨cap, .inproc, r⟩ t).tot = (run ⟨cap, .fork, r⟩ t).tot
    ∧ (run ⟨cap, .inproc, r⟩ t).out.filter Out.isResult = (run ⟨cap, .fork, r⟩ t).out.filter Out.isResult
    ∧ verdict (run ⟨cap, .inproc, r⟩ t) = verdict (run ⟨cap, .fork, r⟩ t) := by
  refine ⟨?_, ?_, ?_⟩
  · rw [C03_totals cap hcap .inproc r t hi, C03_totals cap hcap .fork r t hf]
  · rw [C03_results cap hcap .inproc r t hi, C03_results cap hcap .fork r t hf]
  · rw [C01_verdict cap hcap .inproc r t hi, C01_verdict cap hcap .fork r t hf]

/-- Witness of finding F05: with the prologue of the pinned commit a loose-mode test makes the next
strict-mode test pass in-process although it fails when forked. -/
theorem C13_F05_witness :
    runInproc resetPerTestOld {} [[.setMode .loose], [.callUnexpected]] = [[], []]
    ∧ runFork resetPerTestOld {} [[.setMode .loose], [.callUnexpected]] = [[], [.fail]] := by decide

/-- The global is the program's, not the framework's: the excluded case is real. -/
example : runInproc resetPerTest {} [[.writeGlobal], [.readGlobal]] ≠ runFork resetPerTest {} [[.writeGlobal], [.readGlobal]] := by decide

/-- The plain XML reporter's element for a test is the same in the three modes: what reaches the suite's file does not depend
on whether the test had a process of its own (corollary of `C11_buffer_each_once`). -/
theorem C13_xml_modes_agree (p p' : XmlBuf.Proc) (sh : XmlBuf.Shared) (child parent : List XmlBuf.Text) :
    (XmlBuf.runTest true .length p sh child parent).2.2 = (XmlBuf.runTest false .length p' sh child parent).2.2 := by
  rw [(C11_buffer_each_once true p sh child parent).1, (C11_buffer_each_once false p' sh child parent).1]

end Cgreen
