import CgreenModel.Lemmas.Runner
import CgreenModel.Model.Cute
/-!
# C03 — reported totals equal what happened; every result is attributed to its test
-/
namespace Cgreen

/-- The totals the run accumulates are exactly what happened, for every tree. -/
theorem C03_totals (cap : Nat) (hcap : 0 < cap) (m : Mode) (r : Reporter) (t : Tree) (hok : t.AllOk cap m) :
    (run ⟨cap, m, r⟩ t).tot = t.truth cap := (run_spec cap hcap m r t hok).2.2.1

/-- Everything a reporter can show that does not depend on process ids — failure messages, exception
lines, per-test credit, per-suite lines, totals — is the list computed from the tree alone:
each line carries the path of the test or suite that produced it, in execution order. -/
theorem C03_results (cap : Nat) (hcap : 0 < cap) (m : Mode) (r : Reporter) (t : Tree) (hok : t.AllOk cap m) :
    (run ⟨cap, m, r⟩ t).out.filter Out.isResult = t.results cap [] ++ [Out.totals (t.truth cap)] :=
  (run_spec cap hcap m r t hok).2.2.2

/-- The channel is empty when the run ends: nothing was left over to be credited to anybody else. -/
theorem C03_channel_empty (cap : Nat) (hcap : 0 < cap) (m : Mode) (r : Reporter) (t : Tree) (hok : t.AllOk cap m) :
    (run ⟨cap, m, r⟩ t).pipe = [] := (run_spec cap hcap m r t hok).2.1

/-- Sum of the per-suite lines. -/
def sumSuiteEnds : List Out → Cnt
  | [] => 0
  | .suiteEnd _ c :: l => c + sumSuiteEnds l
  | _ :: l => sumSuiteEnds l

theorem sumSuiteEnds_append (a b : List Out) : sumSuiteEnds (a ++ b) = sumSuiteEnds a + sumSuiteEnds b := by
  induction a with
  | nil => simp [sumSuiteEnds]
  | cons x a ih => cases x <;> simp [sumSuiteEnds, ih, Cnt.add_assoc]

theorem sumSuiteEnds_test (cap : Nat) (su td : Bool) (tp : List String) (t : Test) :
    sumSuiteEnds (t.results cap su td tp) = 0 := by
  unfold Test.results
  by_cases hx : t.xskip = true
  · simp [hx, sumSuiteEnds]
  · by_cases hf : t.abnormal cap su td = true <;> simp [hx, hf, sumSuiteEnds]

theorem sumSuiteEnds_tests (cap : Nat) (su td : Bool) (path : List String) (ts : List Test) :
    sumSuiteEnds (resultsTests cap su td path ts) = 0 := by
  induction ts with
  | nil => simp [resultsTests, sumSuiteEnds]
  | cons t ts ih => simp [resultsTests, sumSuiteEnds_append, sumSuiteEnds_test, ih]

mutual
theorem sumSuiteEnds_tree (cap : Nat) : ∀ (t : Tree) (parent : List String),
    sumSuiteEnds (t.results cap parent) = t.truth cap
  | .node name su td subs tests, parent => by
    simp [Tree.results, Tree.truth, sumSuiteEnds_append, sumSuiteEnds_tests, sumSuiteEnds,
      sumSuiteEnds_subs cap subs (parent ++ [name])]
theorem sumSuiteEnds_subs (cap : Nat) : ∀ (cs : List Tree) (path : List String),
    sumSuiteEnds (resultsSubs cap path cs) = truthSubs cap cs
  | [], _ => by simp [resultsSubs, truthSubs, sumSuiteEnds]
  | c :: cs, path => by
    simp [resultsSubs, truthSubs, sumSuiteEnds_append, sumSuiteEnds_tree cap c path, sumSuiteEnds_subs cap cs path]
end

/-- The per-suite subtotals a reporter prints add up to the grand total it prints. -/
theorem C03_subtotals (cap : Nat) (hcap : 0 < cap) (m : Mode) (r : Reporter) (t : Tree) (hok : t.AllOk cap m) :
    sumSuiteEnds ((run ⟨cap, m, r⟩ t).out.filter Out.isResult) = (run ⟨cap, m, r⟩ t).tot := by
  rw [C03_results cap hcap m r t hok, C03_totals cap hcap m r t hok]
  simp [sumSuiteEnds_append, sumSuiteEnds_tree, sumSuiteEnds]

/-- Per-test status (CUTE `#success`, XML `<testcase>` children): the credit the parent gives a test is
that test's own truth, so "successful" means exactly "no failure and no exception of that test". -/
theorem C03_status (cap : Nat) (su td : Bool) (tp : List String) (t : Test) :
    ∀ d st, Out.testEnd tp d st ∈ t.results cap su td tp → d = t.truth cap su td := by
  intro d st h
  unfold Test.results at h
  by_cases hx : t.xskip = true
  · simp [hx] at h; simp [Test.truth, hx, h.1]
  · by_cases hf : t.abnormal cap su td = true <;> simp [hx, hf] at h <;> exact h.1

/-- The reader as it was at the pinned commit (F01): after a test that called `skip_test()` the
completion notice stays in the channel — the witness that made the totals theorem unprovable. -/
theorem C03_F01_witness : (readResultsOld 0 [.skipped, .pass, .completion]).2.1 = [.pass, .completion] := by decide

/-- The repaired reader on the same input drains the test's records. -/
theorem C03_F01_repaired : (readResults 0 false [.skipped, .pass, .completion]).2.1 = [] := by decide

example : (run ⟨4, .fork, .text⟩ (.node "top" false false [] [{ name := "t", body := [.check true, .check true, .check true, .check false, .check true] }])).tot
    = ⟨3, 1, 0, 1⟩ := by decide

/-! ### What the CUTE reporter says about a test (`Model/Cute.lean`) -/

theorem Cute.showFails_lines (m : Cute.Memo) (n : Nat) :
    (Cute.showFails m n).2 = (if m.previousError = false ∧ n > 0 then [Cute.Line.failure] else [])
    ∧ (Cute.showFails m n).1.errorCount = m.errorCount := by
  induction n generalizing m with
  | zero => simp [Cute.showFails]
  | succ n ih =>
    simp only [Cute.showFails, Cute.showFail]
    split
    · rename_i h; have := ih m; simp_all
    · rename_i h; have := ih { m with previousError := true }; simp_all

/-- **CUTE's per-test status.** Whatever the memo and the suite's counters hold when a test starts (whatever ran before it),
forked or in the reporting process: the test gets its `#starting` line, one `#failure` line exactly when it failed a check,
one `#error` line exactly when it ended abnormally, and `#success` exactly when no failure of it was counted and it completed. -/
theorem C03_cute_status (forked : Bool) (m : Cute.Memo) (k : Cute.Counters) (shown delivered : Nat) (abnormal : Bool) :
    (Cute.runTest Cute.startTest forked m k shown delivered abnormal).2.2 = Cute.spec shown delivered abnormal := by
  have h := Cute.showFails_lines { errorCount := k.failures + k.exceptions, previousError := false } shown
  simp only [Cute.runTest, Cute.startTest, Cute.finishTest, Cute.spec]
  rw [h.1]
  have he : (if forked = true then ({ errorCount := k.failures + k.exceptions, previousError := false } : Cute.Memo)
      else (Cute.showFails { errorCount := k.failures + k.exceptions, previousError := false } shown).1).errorCount = k.failures + k.exceptions := by
    split <;> simp [h.2]
  simp only [he]
  cases abnormal <;> simp <;> omega

/-- ... for every sequence of tests of a suite, each on the memo and the counters its predecessors leave behind. -/
theorem C03_cute_sequence (forked : Bool) (m : Cute.Memo) (k : Cute.Counters) (ts : List (Nat × Nat × Bool)) :
    Cute.runTests Cute.startTest forked m k ts = ts.map (fun t => Cute.spec t.1 t.2.1 t.2.2) := by
  induction ts generalizing m k with
  | nil => rfl
  | cons t ts ih =>
    obtain ⟨s, d, a⟩ := t
    simp only [Cute.runTests, List.map_cons]
    rw [ih]
    congr 1
    exact C03_cute_status forked m k s d a

/-- Witness for the seeded changes C13-A6 / C13-B8 / C03-B10 (the "failure shown" flag set once, not per test): invisible when
every test has a process of its own, the second failing test of a process shows nothing otherwise. -/
theorem C03_cute_flag_witness :
    Cute.runTests Cute.startTestKeepFlag true ⟨0, false⟩ ⟨0, 0⟩ [(1, 1, false), (2, 2, false)] = [[.starting, .failure], [.starting, .failure]]
    ∧ Cute.runTests Cute.startTestKeepFlag false ⟨0, false⟩ ⟨0, 0⟩ [(1, 1, false), (2, 2, false)] = [[.starting, .failure], [.starting]] := by decide

/-- Witness for the seeded change C17-B (the baseline kept although the runner has reset the counters underneath it): a test that
fails after such a reset is marked successful. -/
theorem C03_cute_baseline_witness :
    (Cute.runTest Cute.startTestKeepBaseline true ⟨1, false⟩ ⟨0, 0⟩ 1 1 false).2.2 = [.starting, .failure, .success] := by decide

example : Cute.runTests Cute.startTest false ⟨7, true⟩ ⟨3, 1⟩ [(0, 0, false), (2, 2, false), (1, 0, true), (0, 0, true)]
    = [[.starting, .success], [.starting, .failure], [.starting, .failure, .error], [.starting, .error]] := by decide

end Cgreen
