import CgreenModel.Model.Runner
namespace Cgreen
theorem C03_placeholder : True := trivial
end Cgreen
