import CgreenModel.Lemmas.Mocks
/-!
# C06 — mock calls consume expectations in declaration order, per function
`Model/Mocks.lean` mirrors `mocks.c` on one global queue; the specification is one independent FIFO
per function (`proj`, `SState`, `specStep`).
-/
namespace Cgreen
open Mocks

/-- The abstraction: the global queue seen as one FIFO per function. -/
def absM (s : MState) : SState := { qs := fun g => proj g s.q, nextId := s.nextId, mode := s.mode }

/-- Refinement, one step: a declaration or a call reports on the global queue exactly what it reports
on its own function's FIFO, transforms that FIFO as the specification says and leaves every other
function's FIFO alone. -/
theorem C06_step_refines (s : MState) (op : Op) (hop : op.fn?.isSome ∨ ∃ m, op = .mode m) :
    (specStep (absM s) op).2 = (step s op).2
    ∧ (∀ g, (specStep (absM s) op).1.qs g = proj g (step s op).1.q)
    ∧ (specStep (absM s) op).1.nextId = (step s op).1.nextId
    ∧ (specStep (absM s) op).1.mode = (step s op).1.mode := by
  cases op with
  | decl k f r c =>
    obtain ⟨h1, h2, h3, h4, h5⟩ := declare_refines s k f r c
    refine ⟨h1.symm, ?_, ?_, ?_⟩
    · intro g
      by_cases hg : g = f
      · subst hg; simp [specStep, absM, step, h2]
      · simp [specStep, absM, step, hg, h3 g hg]
    · simp only [specStep, absM, step]; rw [h4]; exact (declare_refines { s with q := proj f s.q } k f r c).2.2.2.1
    · simp [specStep, absM, step, h5]
  | call f a =>
    obtain ⟨h1, h2, h3, h4, h5⟩ := call_refines s f a
    refine ⟨h1.symm, ?_, ?_, ?_⟩
    · intro g
      by_cases hg : g = f
      · subst hg; simp [specStep, absM, step, h2]
      · simp [specStep, absM, step, hg, h3 g hg]
    · simp [specStep, absM, step, h4]
    · simp [specStep, absM, step, h5]
  | tally => rcases hop with h | ⟨m, h⟩ <;> simp [Op.fn?] at h
  | mode m => simp [specStep, absM, step]

/-- … and the tally reports, for every function, what that function's FIFO holds; afterwards every
FIFO is empty. -/
theorem C06_tally_refines (s : MState) (g : Nat) :
    specTally (absM s) g = (proj g s.q).flatMap tallyOne ∧ proj g (step s .tally).1.q = [] := by
  simp [specTally, absM, step, tally, proj]

/-- The expectation a call uses is the earliest pending one declared for that function. -/
theorem C06_earliest (f : Nat) (q : List Exp) : findExp f q = (proj f q).head? := findExp_head f q

theorem proj_mem_fn (f : Nat) (q : List Exp) (e : Exp) (h : e ∈ proj f q) : e.fn = f := by
  simp [proj] at h; exact h.2

/-- What a call reports does not change when the expectation has served a call. -/
theorem reportFor_served (b : Bool) (e : Exp) (a : List Int) : reportFor (Exp.served b e) a = reportFor e a := by
  simp [reportFor, Exp.served, Exp.unknownParam, checksFor]

/-- A call when the head of `f`'s FIFO is an ordinary expectation `e`: it is checked against `e`'s
clauses (or, if one of them names a parameter the mock does not pass, reported once), returns `e`'s value,
and `e` is consumed when its time to live runs out. -/
theorem call_head (s : MState) (f : Nat) (args : List Int) (e : Exp) (rest : List Exp)
    (hq : proj f s.q = e :: rest) (ha : e.isAlways = false) (hn : e.isNever = false) :
    (call s f args).2 = reportFor e args ++ [.ret e.ret]
    ∧ proj f (call s f args).1.q =
        (if e.ttl - 1 ≤ 0 then rest else Exp.served (e.unknownParam args) e :: rest) := by
  obtain ⟨h1, h2, _, _, _⟩ := call_refines s f args
  have hfn : e.fn = f := proj_mem_fn f s.q e (by rw [hq]; exact List.mem_cons_self)
  have hb : (e.fn == f) = true := by simp [hfn]
  have hsf : (Exp.served (e.unknownParam args) e).fn = f := by simp [Exp.served, hfn]
  rw [h1, h2, hq]
  simp only [call, findExp, List.find?_cons, hb, hn, Bool.false_eq_true, if_false, ha, modifyFirst, if_true,
    Bool.not_false, Bool.true_and]
  by_cases ht : e.ttl - 1 ≤ 0
  · simp [ht, removeFirst, hsf]
  · simp [ht]

/-- The ordinary case: every clause names a parameter the mock passes. -/
theorem reportFor_known (e : Exp) (args : List Int) (h : e.unknownParam args = false) : reportFor e args = checksFor e args := by
  simp [reportFor, h]

/-- The other case: one failure report attributed to the expectation, and no clause is applied. -/
theorem C06_unknown_parameter (e : Exp) (args : List Int) (h : e.unknownParam args = true) :
    reportFor e args = [.check (some e.id) false] := by
  simp [reportFor, h]

/-- `calls` performs a list of calls to `f`. -/
def calls (s : MState) (f : Nat) : List (List Int) → MState × List (List Out)
  | [] => (s, [])
  | a :: as => let r := call s f a; let r' := calls r.1 f as; (r'.1, r.2 :: r'.2)

/-- An expectation with `times(n)` (or the default single use, `n = 1`) serves exactly `n`
consecutive calls: each of them is checked against its clauses and gets its return value, and after
the `n`-th it is gone, so the next call is served by the next expectation for that function. -/
theorem C06_times (n : Nat) : ∀ (s : MState) (f : Nat) (argss : List (List Int)) (e : Exp) (rest : List Exp),
    proj f s.q = e :: rest → e.ttl = (n : Int) + 1 → (n : Int) + 1 < UNL → argss.length = n + 1 →
    (calls s f argss).2 = argss.map (fun a => reportFor e a ++ [.ret e.ret])
    ∧ proj f (calls s f argss).1.q = rest := by
  induction n with
  | zero =>
    intro s f argss e rest hq httl hb hlen
    have hn : e.isNever = false := by simp [Exp.isNever, httl, UNL]
    have ha : e.isAlways = false := by simp [Exp.isAlways, httl, UNL]
    match argss, hlen with
    | [a], _ =>
      obtain ⟨h1, h2⟩ := call_head s f a e rest hq ha hn
      simp only [calls, List.map_cons, List.map_nil, h1]
      refine ⟨trivial, ?_⟩
      rw [h2]; simp [httl]
  | succ n ih =>
    intro s f argss e rest hq httl hb hlen
    have hn : e.isNever = false := by
      have : e.ttl ≠ -UNL := by rw [httl]; simp only [UNL]; omega
      simpa [Exp.isNever] using this
    have ha : e.isAlways = false := by
      have : e.ttl ≠ UNL := by rw [httl]; omega
      simpa [Exp.isAlways] using this
    match argss, hlen with
    | a :: as, hl =>
      obtain ⟨h1, h2⟩ := call_head s f a e rest hq ha hn
      have hnot : ¬ (e.ttl - 1 ≤ 0) := by rw [httl]; omega
      simp only [hnot, if_false] at h2
      have hlen' : as.length = n + 1 := by simpa using hl
      obtain ⟨i1, i2⟩ := ih (call s f a).1 f as _ rest h2 (by simp only [Exp.served, ha, Bool.false_eq_true, if_false]; omega) (by omega) hlen'
      simp only [calls, List.map_cons, h1]
      refine ⟨?_, i2⟩
      rw [i1]
      have hret : (Exp.served (e.unknownParam a) e).ret = e.ret := rfl
      simp only [reportFor_served, hret]

/-- An `always_expect` at the head of `f`'s FIFO serves every call and stays. -/
theorem C06_always (s : MState) (f : Nat) (args : List Int) (e : Exp) (rest : List Exp)
    (hq : proj f s.q = e :: rest) (ha : e.isAlways = true) :
    (call s f args).2 = reportFor e args ++ [.ret e.ret]
    ∧ ∃ e', proj f (call s f args).1.q = e' :: rest ∧ e'.isAlways = true ∧ e'.ret = e.ret ∧ e'.cons = e.cons ∧ e'.id = e.id := by
  obtain ⟨h1, h2, _, _, _⟩ := call_refines s f args
  have hfn : e.fn = f := proj_mem_fn f s.q e (by rw [hq]; exact List.mem_cons_self)
  have hb : (e.fn == f) = true := by simp [hfn]
  have hn : e.isNever = false := by
    simp only [Exp.isAlways, Exp.isNever, UNL] at ha ⊢
    simp at ha ⊢; omega
  rw [h1, h2, hq]
  simp only [call, findExp, List.find?_cons, hb, hn, Bool.false_eq_true, if_false, ha, modifyFirst, if_true,
    Bool.not_true, Bool.false_and]
  refine ⟨trivial, _, rfl, ?_, rfl, rfl, rfl⟩
  simp only [Exp.served, Exp.isAlways] at ha ⊢
  simp [ha]

/-- What a call reports depends on the queue and the mock mode only. -/
theorem call_out_congr (s s' : MState) (f : Nat) (a : List Int) (hq : s.q = s'.q) (hm : s.mode = s'.mode) :
    (call s f a).2 = (call s' f a).2 := by
  unfold call
  rw [hq, hm]
  cases findExp f s'.q with
  | none => rfl
  | some e => simp only []; split <;> rfl

/-- Expectations for different functions never influence one another: what a call to `f` reports and
returns is the same before and after any declaration or call concerning another function `g`. -/
theorem C06_independent (s : MState) (op : Op) (g f : Nat) (hop : op.fn? = some g) (hg : f ≠ g) (args : List Int) :
    (call (step s op).1 f args).2 = (call s f args).2 := by
  have hproj : proj f (step s op).1.q = proj f s.q ∧ (step s op).1.mode = s.mode := by
    cases op with
    | decl k f' r c =>
      simp [Op.fn?] at hop; subst hop
      exact ⟨(declare_refines s k f' r c).2.2.1 f hg, (declare_refines s k f' r c).2.2.2.2⟩
    | call f' a =>
      simp [Op.fn?] at hop; subst hop
      exact ⟨(call_refines s f' a).2.2.1 f hg, (call_refines s f' a).2.2.2.2⟩
    | tally => simp [Op.fn?] at hop
    | mode m => simp [Op.fn?] at hop
  rw [(call_refines (step s op).1 f args).1, (call_refines s f args).1]
  exact call_out_congr _ _ f args hproj.1 hproj.2

/-- The defect found on the way (F06), as a statement about the previous `ttlOf`: a `times(0)`
expectation with time to live 0 was still found by the next call. -/
theorem C06_F06_witness :
    (call { q := [{ id := 0, fn := 0, ttl := 0, times := some 0, ret := 8 }] } 0 []).2 = [.ret 8]
    ∧ (call { q := [{ id := 0, fn := 0, ttl := ttlOf (.expect (some 0)), times := some 0, ret := 8 }] } 0 []).2
        = [.check (some 0) false, .ret 0] := by decide

example : (run {} [.decl (.expect (some 2)) 1 7 [⟨0, .eq, 3⟩], .decl (.expect none) 0 9 [], .call 1 [3], .call 0 [], .call 1 [4], .call 1 [3], .tally]).2
    = [[], [], [.check (some 0) true, .ret 7], [.ret 9], [.check (some 0) false, .ret 7], [.check none false, .ret 0], []] := by decide

end Cgreen
