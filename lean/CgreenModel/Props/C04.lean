import CgreenModel.Model.PerTest
import CgreenModel.Props.C02
import CgreenModel.Model.Signals
/-!
# C04 — a test's results do not depend on which other tests ran before it (forking mode)
Two parts. (1) Framework and program state: in forking mode a test runs in a copy of the parent's
state and the parent runs no test code, so what a test reports is a function of the test alone
(`Model/PerTest.lean`). That fork gives the child a *copy* is the kernel's behaviour and is assumed.
(2) Result delivery: the results credited to a test are its own whatever the others do
(`Model/Runner.lean`, corollaries of the refinement theorem).
-/
namespace Cgreen
open PerTest

/-- What a forked test reports does not depend on the other tests: it is the same in every run that
contains it, whatever the others do to mock mode, expectations, significant figures or globals. -/
theorem C04_isolated (reset : Fw → Fw) (fw : Fw) (ts ts' : List (List FAct)) (x : List FAct) (i j : Nat)
    (hi : ts[i]? = some x) (hj : ts'[j]? = some x) :
    (runFork reset fw ts)[i]? = (runFork reset fw ts')[j]? := by
  simp [runFork, List.getElem?_map, hi, hj]

/-- Hence every permutation of the tests yields the same reports, permuted the same way … -/
theorem C04_perm (reset : Fw → Fw) (fw : Fw) (ts ts' : List (List FAct)) (h : ts.Perm ts') :
    (runFork reset fw ts).Perm (runFork reset fw ts') := h.map _

/-- … and every subset (sub-list) yields the corresponding sub-list of reports. -/
theorem C04_sublist (reset : Fw → Fw) (fw : Fw) (ts ts' : List (List FAct)) (h : ts.Sublist ts') :
    (runFork reset fw ts).Sublist (runFork reset fw ts') := h.map _

/-- The same holds even for the defective prologue of the pinned commit: isolation in forking mode
does not rest on the per-test reset but on the parent never running test code. -/
example (ts : List (List FAct)) (h : ts.Perm ts') :
    (runFork resetPerTestOld {} ts).Perm (runFork resetPerTestOld {} ts') := C04_perm _ _ _ _ h

/-- Result delivery: the result lines of the tests of a suite are the concatenation of per-test lines
that depend on the test alone, so permuting the tests permutes the blocks and changes nothing else. -/
theorem C04_delivery (cap : Nat) (su td : Bool) (path : List String) (a b : List Test) (x y : Test) :
    ∃ pre mid post,
      resultsTests cap su td path (a ++ x :: y :: b) = pre ++ (x.results cap su td (path ++ [x.name]) ++ y.results cap su td (path ++ [y.name])) ++ post
      ∧ resultsTests cap su td path (a ++ y :: x :: b) = pre ++ (y.results cap su td (path ++ [y.name]) ++ x.results cap su td (path ++ [x.name])) ++ post
      ∧ mid = () := by
  refine ⟨resultsTests cap su td path a, (), resultsTests cap su td path b, ?_, ?_, rfl⟩ <;>
    simp [resultsTests_append, resultsTests, List.append_assoc]

/-- The totals do not depend on the order either. -/
theorem C04_totals (cap : Nat) (su td : Bool) (ts ts' : List Test) (h : ts.Perm ts') :
    truthTests cap su td ts = truthTests cap su td ts' := by
  induction h with
  | nil => rfl
  | cons x _ ih => simp [truthTests, ih]
  | swap x y l => simp only [truthTests, ← Cnt.add_assoc]; rw [Cnt.add_comm (y.truth cap su td)]
  | trans _ _ ih1 ih2 => exact ih1.trans ih2

example : runFork resetPerTest {} [[.setMode .loose, .leave, .setFigs 2, .writeGlobal], [.callUnexpected, .dblCheck, .readGlobal]]
    = [[.fail], [.fail, .fail, .pass]] := by decide

end Cgreen

/-! ### What a test inherits from the runner: the disposition of SIGINT (finding F47) -/
namespace Cgreen
open Sig (Disp allowCtrlC allowCtrlCOld ignoreCtrlC forkTest)

theorem forkTest_cur (r : Sig.Runner) (s : Bool) : (forkTest allowCtrlC r s).2.cur = r.cur := by
  unfold forkTest; split <;> simp [allowCtrlC, ignoreCtrlC]

/-- Every test process of a run starts with the disposition of SIGINT the test program itself was started with (default,
ignored as under `nohup`, or a handler of the program's own) - for every number of tests before it, switched off or not -
and the runner has that disposition again when the run is over. -/
theorem C04_sigint_inherited (r : Sig.Runner) (tests : List Bool) :
    (∀ d ∈ (Sig.runTests allowCtrlC r tests).1, d = none ∨ d = some r.cur) ∧ (Sig.runTests allowCtrlC r tests).2.cur = r.cur := by
  induction tests generalizing r with
  | nil => simp [Sig.runTests]
  | cons s rest ih =>
    have h := ih (forkTest allowCtrlC r s).2
    rw [forkTest_cur] at h
    simp only [Sig.runTests, List.mem_cons, forall_eq_or_imp]
    refine ⟨⟨?_, h.1⟩, h.2⟩
    unfold forkTest; split <;> simp

/-- Two tests of the same run therefore start alike, wherever they stand. -/
theorem C04_sigint_same (r : Sig.Runner) (tests : List Bool) (i j : Nat) (a b : Disp)
    (hi : (Sig.runTests allowCtrlC r tests).1[i]? = some (some a)) (hj : (Sig.runTests allowCtrlC r tests).1[j]? = some (some b)) : a = b := by
  have h := (C04_sigint_inherited r tests).1
  have ha := h _ (List.mem_of_getElem? hi)
  have hb := h _ (List.mem_of_getElem? hj)
  simp at ha hb; rw [ha, hb]

/-- Witness for F47: with the `allow_ctrl_c()` of the pinned commit a program started with SIGINT ignored hands that to its
first test only. -/
theorem C04_F47_witness : (Sig.runTests allowCtrlCOld { cur := .ign } [false, false]).1 = [some .ign, some .dfl] := by decide

example : (Sig.runTests allowCtrlC { cur := .ign } [false, true, false]).1 = [some .ign, none, some .ign] := by decide

end Cgreen
