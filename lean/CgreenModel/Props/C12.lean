import CgreenModel.Model.Values
import CgreenModel.Props.C06
/-!
# C12 — values pass through mocks unchanged
The model is thin here: what the theorems add is the quantifier (every 64-bit value, every size, every
address); that the C passes the right size and address is what the differential sweep under ASan with
guard bytes checks. Bit-preservation of `double` loads and stores by compiler and ABI is assumed.
-/
namespace Cgreen
open Val Mocks

/-- `will_return(v)`: the call served by that expectation returns exactly `v`, for every `v`. -/
theorem C12_will_return (s : MState) (f : Nat) (args : List Int) (e : Exp) (rest : List Exp)
    (hq : proj f s.q = e :: rest) (ha : e.isAlways = false) (hn : e.isNever = false) :
    (call s f args).2.getLast? = some (.ret e.ret) := by
  rw [(call_head s f args e rest hq ha hn).1]; simp

/-- `box_double` then `unbox_double` gives back the same 64 bits (NaN payloads, signed zeros,
subnormals, infinities included: the pattern is stored, not a number). -/
theorem C12_box_roundtrip (h : Heap) (bits : Word) :
    (unboxDouble (boxDouble h bits).1 (boxDouble h bits).2).2 = some bits := by
  simp [boxDouble, unboxDouble]

/-- `will_return_by_value`: a byte-identical copy of the first `size` bytes, however often it is served. -/
theorem C12_by_value (src : List UInt8) (size : Nat) : returnByValue src size = src.take size := by
  simp [returnByValue, List.take_take]

/-- `will_set_contents_of_output_parameter`: exactly the given bytes at the given place … -/
theorem C12_set_contents_written (m : Mem) (actual : Nat) (src : List UInt8) (size : Nat) (hs : size ≤ src.length) :
    readBytes (setContents m actual src size) actual size = src.take size := by
  apply List.ext_getElem?
  intro i
  simp only [readBytes, setContents, writeBytes, List.getElem?_map, List.getElem?_range, List.length_take]
  by_cases hi : i < size
  · have hm : min size src.length = size := by omega
    have h1 : actual ≤ actual + i ∧ actual + i < actual + min size src.length := by omega
    simp only [List.getElem?_range hi, Option.map_some, h1, and_self, if_true, Nat.add_sub_cancel_left]
    rw [List.getD_eq_getElem?_getD, List.getElem?_take]
    simp only [hi, if_true]
    rw [List.getElem?_eq_getElem (by omega)]; simp
  · rw [List.getElem?_take]
    simp only [hi, if_false]
    rw [List.getElem?_eq_none (by simp; omega)]; simp

/-- … and none beyond them: every other byte of memory is unchanged. -/
theorem C12_set_contents_frame (m : Mem) (actual : Nat) (src : List UInt8) (size : Nat) (a : Nat)
    (ha : a < actual ∨ actual + size ≤ a) : setContents m actual src size a = m a := by
  simp only [setContents, writeBytes, List.length_take]
  have : ¬ (actual ≤ a ∧ a < actual + min size src.length) := by omega
  simp [this]

theorem leBytes_length (v : Word) : (leBytes v).length = 8 := by simp [leBytes]

theorem leValue_take_leBytes (v : Word) (size : Nat) (hs : size ≤ 8) :
    leValue ((leBytes v).take size) = v.toNat % 2 ^ (8 * size) := by
  have h := v.isLt
  have key : ∀ (n k : Nat), k ≤ 8 → leValue (((List.range 8).map (fun i => UInt8.ofNat ((n / 2 ^ (8 * i)) % 256))).take k) = n % 2 ^ (8 * k) := by
    intro n k hk
    have hk' : k = 0 ∨ k = 1 ∨ k = 2 ∨ k = 3 ∨ k = 4 ∨ k = 5 ∨ k = 6 ∨ k = 7 ∨ k = 8 := by omega
    rcases hk' with rfl | rfl | rfl | rfl | rfl | rfl | rfl | rfl | rfl <;>
      simp [List.range, List.range.loop, leValue, UInt8.toNat_ofNat'] <;> omega
  exact key v.toNat size hs

/-- `will_capture_parameter` into a 1-, 2-, 4- or 8-byte variable stores exactly the argument's value
(its low `size` bytes): the number the variable then holds is the argument modulo `2^(8·size)`. -/
theorem C12_capture (m : Mem) (localAddr : Nat) (actual : Word) (size : Nat) (hs : size ≤ 8) :
    leValue (readBytes (captureLE m localAddr actual size) localAddr size) = actual.toNat % 2 ^ (8 * size)
    ∧ ∀ a, (a < localAddr ∨ localAddr + size ≤ a) → captureLE m localAddr actual size a = m a := by
  constructor
  · have hlen : ((leBytes actual).take size).length = size := by simp [leBytes_length]; omega
    have : readBytes (captureLE m localAddr actual size) localAddr size = (leBytes actual).take size := by
      apply List.ext_getElem?
      intro i
      simp only [readBytes, captureLE, writeBytes, List.getElem?_map, hlen]
      by_cases hi : i < size
      · have h1 : localAddr ≤ localAddr + i ∧ localAddr + i < localAddr + size := by omega
        simp only [List.getElem?_range hi, Option.map_some, h1, and_self, if_true, Nat.add_sub_cancel_left]
        rw [List.getD_eq_getElem?_getD, List.getElem?_eq_getElem (by omega)]; simp
      · rw [List.getElem?_eq_none (by simp; omega), List.getElem?_eq_none (by omega)]; simp
    rw [this]; exact leValue_take_leBytes actual size hs
  · intro a ha
    simp only [captureLE, writeBytes]
    have hlen : ((leBytes actual).take size).length = size := by simp [leBytes_length]; omega
    rw [hlen]
    have : ¬ (localAddr ≤ a ∧ a < localAddr + size) := by omega
    simp [this]

/-- The big-endian branch of the C stores the same low bytes (most significant first). -/
theorem C12_capture_big_endian (actual : Word) (size : Nat) (hs : size ≤ 8) :
    ((beBytes actual).drop (8 - size)).reverse = (leBytes actual).take size := by
  simp only [beBytes]
  have h8 : (leBytes actual).length = 8 := leBytes_length actual
  rw [← h8, List.drop_reverse, List.reverse_reverse]
  congr 1; omega

example : leValue ((leBytes 0x1122334455667788#64).take 2) = 0x7788 := by decide

end Cgreen
