import CgreenModel.Model.Compare
/-!
# C05 — every constraint passes exactly when its documented relation holds
For all operand pairs: integers over the whole `intptr_t` range (as 64-bit words compared as signed),
all byte strings (with the explicit length guards the `int`/`unsigned int` intermediates of the C
impose), all byte blocks and sizes.
-/
namespace Cgreen
open Cmp

/-! ### Integers -/

theorem beq_swap_decide {α : Type} [BEq α] [LawfulBEq α] [DecidableEq α] (x y : α) : (x == y) = decide (y = x) := by
  by_cases h : y = x
  · subst h; simp
  · have h' : ¬ x = y := fun e => h e.symm
    have : (x == y) = false := by simpa using h'
    rw [this]; simp [h]

theorem C05_equal (a e : Word) : IntC.isEqualTo.eval a e = decide (a = e) := by
  simp only [IntC.eval, wantValue]; exact beq_swap_decide e a

theorem C05_not_equal (a e : Word) : IntC.isNotEqualTo.eval a e = !IntC.isEqualTo.eval a e := rfl

theorem C05_greater (a e : Word) : IntC.isGreaterThan.eval a e = decide (a.toInt > e.toInt) := by
  simp only [IntC.eval, wantGreater, BitVec.slt, gt_iff_lt]

theorem C05_less (a e : Word) : IntC.isLessThan.eval a e = decide (a.toInt < e.toInt) := by
  simp only [IntC.eval, wantLesser, BitVec.slt]

theorem C05_null (a e : Word) : IntC.isNull.eval a e = decide (a = 0) ∧ IntC.isNonNull.eval a e = !decide (a = 0) := by
  simp only [IntC.eval, wantValue, doNotWantValue, beq_swap_decide (0 : Word) a]; exact ⟨by first | rfl | trivial, by first | rfl | trivial⟩

theorem C05_truth (a e : Word) : IntC.isTrue.eval a e = !decide (a = 0) ∧ IntC.isFalse.eval a e = decide (a = 0) := by
  simp only [IntC.eval, wantValue, doNotWantValue, beq_swap_decide (0 : Word) a]; exact ⟨by first | rfl | trivial, by first | rfl | trivial⟩

theorem C05_legacy_int (a e : Word) :
    IntC.assertEqual.eval a e = decide (a = e) ∧ IntC.assertNotEqual.eval a e = !decide (a = e)
    ∧ IntC.assertTrue.eval a e = !decide (a = 0) ∧ IntC.assertFalse.eval a e = decide (a = 0) := by
  have h1 : (a == e) = decide (a = e) := by rw [Bool.eq_iff_iff]; simp
  have h2 : (a == (0 : Word)) = decide (a = 0) := by rw [Bool.eq_iff_iff]; simp
  simp only [IntC.eval, bne, h1, h2, Bool.not_not]; exact ⟨by first | rfl | trivial, by first | rfl | trivial, by first | rfl | trivial, by first | rfl | trivial⟩

/-- Trichotomy ties the three ordering/equality constraints together on the whole range. -/
theorem C05_trichotomy (a e : Word) :
    (IntC.isLessThan.eval a e || IntC.isEqualTo.eval a e || IntC.isGreaterThan.eval a e) = true := by
  rw [C05_less, C05_equal, C05_greater]
  by_cases h : a = e
  · simp [h]
  · have : a.toInt ≠ e.toInt := fun h' => h (BitVec.eq_of_toInt_eq h')
    simp only [h, decide_false, Bool.or_false, Bool.or_eq_true, decide_eq_true_eq]
    omega

/-! ### Strings -/

theorem strstr_le (h n : CStr) (i : Nat) (hi : strstr h n = some i) : i ≤ h.length := by
  induction h generalizing i with
  | nil => simp only [strstr] at hi; split at hi <;> simp_all
  | cons c h ih =>
    simp only [strstr] at hi
    split at hi
    · simp at hi; omega
    · cases hs : strstr h n with
      | none => simp [hs] at hi
      | some j => simp [hs] at hi; have := ih j hs; simp; omega

theorem strstr_zero_iff (h n : CStr) : strstr h n = some 0 ↔ n.isPrefixOf h = true := by
  cases h with
  | nil => cases n <;> simp [strstr, List.isPrefixOf]
  | cons c h =>
    simp only [strstr]
    split
    · simp_all
    · rename_i hp
      cases hs : strstr h n <;> simp [hs, hp]

theorem strstr_isSome_iff (h n : CStr) : (strstr h n).isSome = true ↔ n <:+: h := by
  induction h with
  | nil =>
    cases n with
    | nil => simp [strstr]
    | cons c n => simp [strstr, List.infix_nil]
  | cons c h ih =>
    simp only [strstr]
    split
    · rename_i hp
      simp only [Option.isSome_some, true_iff]
      exact (List.isPrefixOf_iff_prefix.mp hp).isInfix
    · rename_i hp
      rw [Option.isSome_map, ih]
      constructor
      · intro hi; exact hi.trans (List.suffix_cons c h).isInfix
      · intro hi
        rw [List.infix_cons_iff] at hi
        rcases hi with hpre | hi
        · exact absurd (List.isPrefixOf_iff_prefix.mpr hpre) hp
        · exact hi

theorem C05_string_equal (a e : CStr) : StrC.isEqualToString.eval a e = decide (a = e) := by
  simp only [StrC.eval, stringsAreEqual, strcmpEq]; exact beq_swap_decide e a

theorem C05_contains (a e : CStr) : StrC.containsString.eval a e = decide (e <:+: a) := by
  simp only [StrC.eval, stringContains]
  by_cases h : e <:+: a
  · simp [h, (strstr_isSome_iff a e).mpr h]
  · have : (strstr a e).isSome = false := by
      cases hs : (strstr a e).isSome
      · rfl
      · exact absurd ((strstr_isSome_iff a e).mp hs) h
    simp [h, this]

/-- `begins_with_string`: exactly "expected is a prefix of actual", for actual strings shorter than 4 GiB
(the offset goes through an `unsigned int`). -/
theorem C05_begins (a e : CStr) (hlen : a.length < 2 ^ 32) : StrC.beginsWithString.eval a e = e.isPrefixOf a := by
  simp only [StrC.eval, wantBeginning, strpos]
  cases hs : strstr a e with
  | none =>
    have : e.isPrefixOf a = false := by
      cases hp : e.isPrefixOf a
      · rfl
      · have := (strstr_zero_iff a e).mpr hp; simp [hs] at this
    simp [this, NOT_FOUND]
  | some i =>
    have hi := strstr_le a e i hs
    have hmod : toU32 i = i := by simp only [toU32]; exact Nat.mod_eq_of_lt (by omega)
    simp only [hmod]
    cases i with
    | zero => simp [(strstr_zero_iff a e).mp hs]
    | succ j =>
      have : e.isPrefixOf a = false := by
        cases hp : e.isPrefixOf a
        · rfl
        · have := (strstr_zero_iff a e).mpr hp; simp [hs] at this
      simp [this]

theorem toI32_small (n : Nat) (h : n < 2 ^ 31) : toI32 (n : Int) = n := by
  simp only [toI32]; omega

/-- `ends_with_string`: exactly "expected is a suffix of actual", for strings shorter than 2 GiB (the
lengths go through `int`). -/
theorem C05_ends (a e : CStr) (ha : a.length < 2 ^ 31) (he : e.length < 2 ^ 31) :
    StrC.endsWithString.eval a e = e.isSuffixOf a := by
  simp only [StrC.eval, wantEnd, toI32_small _ ha, toI32_small _ he]
  have hsmall : toI32 ((a.length : Int) - (e.length : Int)) = (a.length : Int) - (e.length : Int) := by
    simp only [toI32]; omega
  rw [hsmall]
  by_cases hlt : (a.length : Int) - (e.length : Int) < 0
  · simp only [hlt, if_true]
    have : ¬ e <:+ a := fun hs => by have := hs.length_le; omega
    have : e.isSuffixOf a = false := by
      cases h : e.isSuffixOf a
      · rfl
      · exact absurd (List.isSuffixOf_iff_suffix.mp h) this
    simp [this]
  · simp only [hlt, if_false, strcmpEq]
    have hn : ((a.length : Int) - (e.length : Int)).toNat = a.length - e.length := by omega
    rw [hn]
    by_cases hs : e <:+ a
    · have h1 : a.drop (a.length - e.length) = e := by
        obtain ⟨t, rfl⟩ := hs
        simp
      simp [h1, List.isSuffixOf_iff_suffix.mpr hs]
    · have h1 : a.drop (a.length - e.length) ≠ e := fun h => hs ⟨a.take (a.length - e.length), by
        have := List.take_append_drop (a.length - e.length) a; rw [h] at this; exact this⟩
      have h2 : e.isSuffixOf a = false := by
        cases h : e.isSuffixOf a
        · rfl
        · exact absurd (List.isSuffixOf_iff_suffix.mp h) hs
      simp [h1, h2]

/-- Every negated string form is the complement of its positive form. -/
theorem C05_string_negations (a e : CStr) :
    StrC.isNotEqualToString.eval a e = !StrC.isEqualToString.eval a e
    ∧ StrC.doesNotContainString.eval a e = !StrC.containsString.eval a e
    ∧ StrC.doesNotBeginWithString.eval a e = !StrC.beginsWithString.eval a e
    ∧ StrC.doesNotEndWithString.eval a e = !StrC.endsWithString.eval a e
    ∧ StrC.assertStringNotEqual.eval a e = !StrC.assertStringEqual.eval a e := by
  refine ⟨rfl, rfl, ?_, rfl, rfl⟩
  simp [StrC.eval, wantBeginning, doNotWantBeginning, bne]

theorem C05_legacy_string (a e : CStr) : StrC.assertStringEqual.eval a e = decide (a = e) := by
  simp only [StrC.eval, stringsAreEqual, strcmpEq]; rw [Bool.eq_iff_iff]; simp

/-! ### Memory -/

/-- `is_equal_to_contents_of`: byte-wise equality over the given size; a NULL actual fails both the
positive and the negated form (documented: "we can't inspect the contents of a NULL pointer"). -/
theorem C05_contents (e a : List UInt8) (n : Nat) :
    wantContents e (some a) n = decide (e.take n = a.take n)
    ∧ doNotWantContents e (some a) n = !wantContents e (some a) n
    ∧ wantContents e none n = false ∧ doNotWantContents e none n = false := by
  refine ⟨?_, rfl, rfl, rfl⟩
  simp only [wantContents, memcmpEq]; rw [Bool.eq_iff_iff]; simp

/-- A difference at any offset below the size is detected, one at or beyond it is not looked at. -/
theorem C05_contents_offset (p : List UInt8) (x y : UInt8) (t u : List UInt8) (n : Nat) (hxy : x ≠ y) :
    wantContents (p ++ x :: t) (some (p ++ y :: u)) n = decide (n ≤ p.length) := by
  simp only [wantContents, memcmpEq]
  by_cases h : n ≤ p.length
  · simp [h, List.take_append_of_le_length h]
  · have hn : p.length < n := by omega
    simp only [h, decide_false, beq_eq_false_iff_ne, ne_eq]
    intro heq
    have h1 := congrArg (fun l => l[p.length]?) heq
    simp [List.getElem?_take, hn] at h1
    exact hxy h1

example : StrC.beginsWithString.eval [97, 98] [97, 98, 99] = false := by decide
example : StrC.endsWithString.eval [120, 97, 98, 99] [97, 98, 99] = true := by decide
example : IntC.isGreaterThan.eval 4294967296#64 0#64 = true := by decide +kernel
example : IntC.isLessThan.eval 2147483648#64 0#64 = false := by decide +kernel

end Cgreen
