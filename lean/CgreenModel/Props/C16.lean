import CgreenModel.Model.Params
/-!
# C16 — mock clauses bind to the argument with the same name, however it is written
-/
namespace Cgreen
open Params

/-- An identifier the preprocessor can hand over: non-empty, no comma, parenthesis or white space. -/
def GoodIdent (s : Str) : Prop := s ≠ [] ∧ ∀ c ∈ s, c ≠ ',' ∧ c ≠ '(' ∧ c ≠ ')' ∧ isSpace c = false

def NoComma (s : Str) : Prop := ∀ c ∈ s, c ≠ ','

theorem splitCommas_noComma (x : Str) (h : NoComma x) : splitCommas x = [x] := by
  induction x with
  | nil => rfl
  | cons c x ih =>
    have hc : (c == ',') = false := by simpa using (h c List.mem_cons_self)
    have := ih (fun d hd => h d (List.mem_cons_of_mem _ hd))
    simp [splitCommas, hc, this]

theorem splitCommas_append (x rest : Str) (h : NoComma x) :
    splitCommas (x ++ ',' :: rest) = x :: splitCommas rest := by
  induction x with
  | nil => simp [splitCommas]
  | cons c x ih =>
    have hc : (c == ',') = false := by simpa using (h c List.mem_cons_self)
    have := ih (fun d hd => h d (List.mem_cons_of_mem _ hd))
    simp [splitCommas, hc, this]

theorem boxDouble_noSpecial : ∀ c ∈ boxDouble, c ≠ ',' ∧ c ≠ '(' ∧ c ≠ ')' ∧ isSpace c = false := by decide

theorem compactArg_noComma (a : Arg) (h : GoodIdent a.ident) : NoComma (compactArg a) := by
  intro c hc
  unfold compactArg at hc
  split at hc
  · simp only [List.mem_append, List.mem_singleton] at hc
    rcases hc with ((hc | hc) | hc) | hc
    · exact (boxDouble_noSpecial c hc).1
    · subst hc; decide
    · exact (h.2 c hc).1
    · subst hc; decide
  · exact (h.2 c hc).1

theorem compactArg_ne_nil (a : Arg) (h : GoodIdent a.ident) : compactArg a ≠ [] := by
  unfold compactArg; split
  · simp
  · exact h.1

theorem split_compact (args : List Arg) (h : ∀ a ∈ args, GoodIdent a.ident) (hne : args ≠ []) :
    splitCommas (compact args) = args.map compactArg := by
  induction args with
  | nil => exact absurd rfl hne
  | cons a as ih =>
    cases as with
    | nil => simp [compact, splitCommas_noComma _ (compactArg_noComma a (h a List.mem_cons_self))]
    | cons b bs =>
      have hrest := ih (fun x hx => h x (List.mem_cons_of_mem _ hx)) (by simp)
      simp only [compact, List.append_assoc, List.singleton_append]
      rw [splitCommas_append _ _ (compactArg_noComma a (h a List.mem_cons_self)), hrest]
      simp

theorem noParen_head (s : Str) (h : ∀ c ∈ s, c ≠ '(') (n : Nat) : (s.drop n).head? ≠ some '(' := by
  intro he
  have : '(' ∈ s.drop n := List.mem_of_mem_head? he
  exact h '(' (List.mem_of_mem_drop this) rfl

/-- `strip_function_from` leaves a plain identifier alone. -/
theorem stripFn_ident (fn s : Str) (h : ∀ c ∈ s, c ≠ '(') : stripFn fn s = s := by
  unfold stripFn
  have : ((s.drop fn.length).head? == some '(') = false := by
    have := noParen_head s h fn.length
    cases hh : (s.drop fn.length).head? with
    | none => rfl
    | some c => simp [hh] at this ⊢; exact this
  rw [this]; simp

theorem stripFn_box (s : Str) : stripFn boxDouble (boxDouble ++ ['('] ++ s ++ [')']) = s := by
  unfold stripFn
  have h1 : boxDouble.isPrefixOf (boxDouble ++ ['('] ++ s ++ [')']) = true := by
    rw [List.isPrefixOf_iff_prefix]; exact ⟨['('] ++ s ++ [')'], by simp [List.append_assoc]⟩
  have h2 : ((boxDouble ++ ['('] ++ s ++ [')']).drop boxDouble.length).head? = some '(' := by
    simp [List.append_assoc, List.drop_append]
  have h3 : (boxDouble ++ ['('] ++ s ++ [')']).getLast? = some ')' := by
    rw [List.getLast?_append]; simp
  simp only [h1, h2, h3, beq_self_eq_true, Bool.and_self, if_true]
  have : (boxDouble ++ ['('] ++ s ++ [')']).drop (boxDouble.length + 1) = s ++ [')'] := by
    have : boxDouble ++ ['('] ++ s ++ [')'] = (boxDouble ++ ['(']) ++ (s ++ [')']) := by simp [List.append_assoc]
    rw [this, List.drop_append]
    simp
  rw [this]; simp

theorem strip_compactArg (a : Arg) (h : GoodIdent a.ident) :
    stripFn ['d'] (stripFn boxDouble (compactArg a)) = a.ident := by
  have hnp : ∀ c ∈ a.ident, c ≠ '(' := fun c hc => (h.2 c hc).2.1
  unfold compactArg
  split
  · rw [stripFn_box, stripFn_ident _ _ hnp]
  · rw [stripFn_ident _ _ hnp, stripFn_ident _ _ hnp]

theorem marker_compactArg (a : Arg) (h : GoodIdent a.ident) :
    (boxDouble ++ ['(']).isPrefixOf (compactArg a) = a.isDouble := by
  unfold compactArg
  cases hd : a.isDouble
  · simp only [Bool.false_eq_true, if_false]
    cases hp : (boxDouble ++ ['(']).isPrefixOf a.ident with
    | false => rfl
    | true =>
      rw [List.isPrefixOf_iff_prefix] at hp
      obtain ⟨t, ht⟩ := hp
      have : '(' ∈ a.ident := by rw [← ht]; simp
      exact absurd rfl ((h.2 '(' this).2.1)
  · simp only [if_true]
    rw [List.isPrefixOf_iff_prefix]; exact ⟨a.ident ++ [')'], by simp [List.append_assoc]⟩

/-- The tokenizer on any spelling of an argument list: `s` is a spelling of `args` when its non-blank
characters are exactly the argument list written without blanks — any amount of white space (blanks,
tabs, line breaks) anywhere, including inside `box_double( x )`. -/
theorem C16_tokens (args : List Arg) (h : ∀ a ∈ args, GoodIdent a.ident) (s : Str)
    (hs : removeSpaces s = compact args) :
    names s = args.map (·.ident) ∧ markers s = args.map (·.isDouble) := by
  unfold names markers
  rw [hs]
  cases args with
  | nil => simp [compact, splitCommas]
  | cons a as =>
    rw [split_compact _ h (by simp)]
    have hf : ((a :: as).map compactArg).filter (· ≠ []) = (a :: as).map compactArg := by
      apply List.filter_eq_self.mpr
      intro x hx
      simp only [List.mem_map] at hx
      obtain ⟨b, hb, rfl⟩ := hx
      simpa using compactArg_ne_nil b (h b hb)
    rw [hf]
    constructor
    · rw [List.map_map]; apply List.map_congr_left; intro b hb; exact strip_compactArg b (h b hb)
    · rw [List.map_map]; apply List.map_congr_left; intro b hb; exact marker_compactArg b (h b hb)

theorem filter_comma_removeSpaces (s : Str) : (removeSpaces s).filter (· == ',') = s.filter (· == ',') := by
  unfold removeSpaces
  rw [List.filter_filter]
  congr 1; funext c
  by_cases h : c = ','
  · subst h; decide
  · have : (c == ',') = false := by simpa using h
    simp [this]

theorem commas_compact (args : List Arg) (h : ∀ a ∈ args, GoodIdent a.ident) (hne : args ≠ []) :
    ((compact args).filter (· == ',')).length + 1 = args.length := by
  induction args with
  | nil => exact absurd rfl hne
  | cons a as ih =>
    have ha : (compactArg a).filter (· == ',') = [] := by
      apply List.filter_eq_nil_iff.mpr
      intro c hc
      have := compactArg_noComma a (h a List.mem_cons_self) c hc
      simpa using this
    cases as with
    | nil => simp [compact, ha]
    | cons b bs =>
      have := ih (fun x hx => h x (List.mem_cons_of_mem _ hx)) (by simp)
      simp only [compact, List.filter_append, ha, List.length_append, List.length_cons] at this ⊢
      simp [List.filter_cons] at this ⊢
      omega

/-- The number of actual arguments `mock_()` reads (`number_of_parameters_in`) is the number of names
the tokenizer produces: no actual is read that is not there. -/
theorem C16_count (args : List Arg) (h : ∀ a ∈ args, GoodIdent a.ident) (hne : args ≠ []) (s : Str)
    (hs : removeSpaces s = compact args) : paramCount s = (names s).length := by
  rw [(C16_tokens args h s hs).1, List.length_map]
  have hsne : s ≠ [] := by
    intro e; subst e
    cases args with
    | nil => exact hne rfl
    | cons a as =>
      have : compact (a :: as) ≠ [] := by
        cases as with
        | nil => simpa [compact] using compactArg_ne_nil a (h a List.mem_cons_self)
        | cons b bs => simp [compact]
      exact this (by simpa [removeSpaces] using hs.symm)
  simp only [paramCount, hsne, if_false]
  rw [← filter_comma_removeSpaces, hs]
  exact commas_compact args h hne

/-- A clause for parameter `p` is applied to exactly the positions whose name is `p` … -/
theorem C16_bind_positions (ns : List Str) (p : Str) (i : Nat) :
    i ∈ boundPositions ns p ↔ ns[i]? = some p := by
  simp only [boundPositions, List.mem_filter, List.mem_range, List.getD_eq_getElem?_getD]
  constructor
  · rintro ⟨hi, he⟩
    rw [List.getElem?_eq_getElem hi] at he ⊢
    simpa using he
  · intro he
    have hi : i < ns.length := by
      cases hl : ns[i]? with
      | none => rw [hl] at he; cases he
      | some x => exact (List.getElem?_eq_some_iff.mp hl).1
    exact ⟨hi, by simp [he]⟩

/-- … which, the names of a C function's parameters being distinct, is the one position of that name. -/
theorem C16_bind_unique (ns : List Str) (hnd : ns.Nodup) (p : Str) (i j : Nat)
    (hi : i ∈ boundPositions ns p) (hj : j ∈ boundPositions ns p) : i = j := by
  rw [C16_bind_positions] at hi hj
  obtain ⟨hi1, hi2⟩ := List.getElem?_eq_some_iff.mp hi
  obtain ⟨hj1, hj2⟩ := List.getElem?_eq_some_iff.mp hj
  exact (List.getElem_inj (h₀ := hi1) (h₁ := hj1) hnd).mp (hi2.trans hj2.symm)

/-- A name that does not occur in the argument list is recognised as such (`mock_()` then reports one
failure and returns before any actual is read), and is bound to no position. -/
theorem C16_absent (ns : List Str) (p : Str) (h : p ∉ ns) : nameKnown ns p = false ∧ boundPositions ns p = [] := by
  constructor
  · simpa [nameKnown] using h
  · apply List.filter_eq_nil_iff.mpr
    intro i hi
    simp only [List.mem_range] at hi
    simp only [List.getD_eq_getElem?_getD, List.getElem?_eq_getElem hi, Option.getD_some, beq_iff_eq]
    intro e; exact h (e ▸ List.getElem_mem hi)

/-- Witness of finding F26: the tokenizer of the pinned commit split `box_double( d )` into three names. -/
theorem C16_F26_witness :
    namesOld "a, box_double( d )".toList = ["a".toList, "box_double(".toList, "d".toList, ")".toList]
    ∧ names "a, box_double( d )".toList = ["a".toList, "d".toList] := by decide

example : GoodIdent "next".toList := by
  refine ⟨by decide, ?_⟩
  intro c hc
  have : c = 'n' ∨ c = 'e' ∨ c = 'x' ∨ c = 't' := by simpa using hc
  rcases this with rfl | rfl | rfl | rfl <;> decide
example : removeSpaces "n ,\n box_double( next )".toList = compact [⟨"n".toList, false⟩, ⟨"next".toList, true⟩] := by decide

end Cgreen
