import Mathlib.Tactic.Linarith
import Mathlib.Tactic.Positivity
import Mathlib.Tactic.Ring
import Mathlib.Tactic.FieldSimp
import Mathlib.Algebra.Order.Field.Power
import CgreenModel.Model.Doubles
/-!
# C15 — double comparison obeys equality laws and the documented tolerance
The theorems are about the exact-rational instance `ratOps F` of the one generic algorithm in
`Model/Doubles.lean` (every finite double is a rational). `F` stands for `floor ∘ log10`; all that is
assumed about it is its defining property `FloorLog10 F`. The binary64 instance of the same algorithm
is what the correspondence check runs against the C; the distance between the two instances is
rounding, measured there (finding F27).
-/
namespace Cgreen
open Dbl

/-- The defining property of `floor ∘ log10` on positive rationals. -/
def FloorLog10 (F : Rat → Int) : Prop := ∀ L : Rat, 0 < L → (10 : Rat) ^ (F L) ≤ L ∧ L < (10 : Rat) ^ (F L + 1)

theorem rabs_eq (x : Rat) : rabs x = |x| := by
  unfold rabs; split
  · rw [abs_of_neg]; assumption
  · rw [abs_of_nonneg]; linarith

theorem cmax_eq (F : Rat → Int) (a b : Rat) : cmax (ratOps F) a b = max a b := by
  simp only [cmax, ratOps, decide_eq_true_eq]
  split
  · rw [max_eq_left]; linarith
  · rw [max_eq_right]; linarith

theorem absTol_pos : 0 < absTolRat := by unfold absTolRat; positivity

/-- Equality at `n` figures, as a proposition about exact values. -/
theorem eq_iff (F : Rat → Int) (n : Int) (x y : Rat) :
    doublesAreEqual (ratOps F) n x y = true ↔ (|x - y| < absTolRat ∨ |x - y| < ratAcc F n (max |x| |y|)) := by
  simp only [doublesAreEqual, cmax_eq]
  simp only [ratOps, rabs_eq, Bool.or_eq_true, decide_eq_true_eq]

/-- Symmetric in its operands. -/
theorem C15_symmetric (F : Rat → Int) (n : Int) (x y : Rat) :
    doublesAreEqual (ratOps F) n x y = doublesAreEqual (ratOps F) n y x := by
  rw [Bool.eq_iff_iff, eq_iff, eq_iff, abs_sub_comm x y, max_comm]

/-- Every value equals itself. -/
theorem C15_reflexive (F : Rat → Int) (n : Int) (x : Rat) : doublesAreEqual (ratOps F) n x x = true := by
  rw [eq_iff]; left; simpa using absTol_pos

/-- Equal and not-equal are exact complements (all entry points negate the same function). -/
theorem C15_complement (F : Rat → Int) (n : Int) (e a : Rat) :
    doNotWantDouble (ratOps F) n e a = !wantDouble (ratOps F) n e a := rfl

theorem ratAcc_mono_figs (F : Rat → Int) (m n : Int) (h : m ≤ n) (L : Rat) : ratAcc F n L ≤ ratAcc F m L := by
  unfold ratAcc
  split
  · exact le_refl _
  · exact zpow_le_zpow_right₀ (by norm_num) (by omega)

/-- Values accepted as equal at `n` figures are accepted at every fewer figures. -/
theorem C15_monotone (F : Rat → Int) (m n : Int) (h : m ≤ n) (x y : Rat)
    (heq : doublesAreEqual (ratOps F) n x y = true) : doublesAreEqual (ratOps F) m x y = true := by
  rw [eq_iff] at *
  rcases heq with h1 | h2
  · left; exact h1
  · right; exact lt_of_lt_of_le h2 (ratAcc_mono_figs F m n h _)

/-- The accuracy lies between a tenth of the documented tolerance and the documented tolerance. -/
theorem ratAcc_bounds (F : Rat → Int) (hF : FloorLog10 F) (n : Int) (L : Rat) (hL : 0 < L) :
    L * (10 : Rat) ^ (-n) < ratAcc F n L ∧ ratAcc F n L ≤ L * (10 : Rat) ^ (1 - n) := by
  have hr : rabs L = L := by rw [rabs_eq, abs_of_pos hL]
  have hne : ¬ rabs L = 0 := by rw [hr]; exact ne_of_gt hL
  obtain ⟨h1, h2⟩ := hF L hL
  unfold ratAcc
  rw [if_neg hne, hr]
  have e1 : (10 : Rat) ^ (1 + F L - n) = (10 : Rat) ^ (F L + 1) * (10 : Rat) ^ (-n) := by
    rw [← zpow_add₀ (by norm_num : (10 : Rat) ≠ 0)]; congr 1; omega
  have e2 : (10 : Rat) ^ (1 + F L - n) = (10 : Rat) ^ (F L) * (10 : Rat) ^ (1 - n) := by
    rw [← zpow_add₀ (by norm_num : (10 : Rat) ≠ 0)]; congr 1; omega
  have p1 : (0 : Rat) < (10 : Rat) ^ (-n) := by positivity
  have p2 : (0 : Rat) < (10 : Rat) ^ (1 - n) := by positivity
  constructor
  · rw [e1]; exact mul_lt_mul_of_pos_right h2 p1
  · rw [e2]; exact mul_le_mul_of_nonneg_right h1 (le_of_lt p2)

theorem ratAcc_zero (F : Rat → Int) (n : Int) : ratAcc F n 0 = 0 := by simp [ratAcc, rabs]

/-- Never accepted as equal when they differ by more than `max(|x|,|y|)·10^(1−n)` (beyond the absolute
tolerance around zero). -/
theorem C15_upper (F : Rat → Int) (hF : FloorLog10 F) (n : Int) (x y : Rat)
    (hd : max |x| |y| * (10 : Rat) ^ (1 - n) < |x - y|) (habs : absTolRat ≤ |x - y|) :
    doublesAreEqual (ratOps F) n x y = false := by
  rw [Bool.eq_false_iff]; intro h
  rw [eq_iff] at h
  rcases h with h | h
  · linarith
  · have hL : 0 ≤ max |x| |y| := le_max_of_le_left (abs_nonneg x)
    rcases lt_or_eq_of_le hL with hpos | hz
    · have := (ratAcc_bounds F hF n _ hpos).2; linarith
    · rw [← hz, ratAcc_zero] at h
      have := abs_nonneg (x - y); linarith

/-- Always accepted when they differ by less than a tenth of that. -/
theorem C15_lower (F : Rat → Int) (hF : FloorLog10 F) (n : Int) (x y : Rat)
    (hd : |x - y| < max |x| |y| * (10 : Rat) ^ (1 - n) / 10) :
    doublesAreEqual (ratOps F) n x y = true := by
  rw [eq_iff]
  have hL : 0 ≤ max |x| |y| := le_max_of_le_left (abs_nonneg x)
  rcases lt_or_eq_of_le hL with hpos | hz
  · right
    have h1 := (ratAcc_bounds F hF n _ hpos).1
    have e : max |x| |y| * (10 : Rat) ^ (1 - n) / 10 = max |x| |y| * (10 : Rat) ^ (-n) := by
      have : (10 : Rat) ^ (1 - n) = (10 : Rat) ^ (1 : Int) * (10 : Rat) ^ (-n) := by
        rw [← zpow_add₀ (by norm_num : (10 : Rat) ≠ 0)]; congr 1
      rw [this, zpow_one]; ring
    rw [e] at hd; linarith
  · rw [← hz] at hd
    have := abs_nonneg (x - y)
    simp at hd; linarith

/-- `is_less_than_double(e)` applied to `a`: as a proposition. -/
theorem lesser_iff (F : Rat → Int) (n : Int) (e a : Rat) :
    wantLesserDouble (ratOps F) n e a = true ↔ a < e + ratAcc F n (max e a) := by
  simp only [wantLesserDouble, doubleIsLesser, cmax_eq]
  simp only [ratOps, decide_eq_true_eq]

theorem greater_iff (F : Rat → Int) (n : Int) (e a : Rat) :
    wantGreaterDouble (ratOps F) n e a = true ↔ e - ratAcc F n (max e a) < a := by
  simp only [wantGreaterDouble, doubleIsGreater, cmax_eq]
  simp only [ratOps, decide_eq_true_eq]

theorem ratAcc_nonneg (F : Rat → Int) (n : Int) (L : Rat) : 0 ≤ ratAcc F n L := by
  unfold ratAcc; split
  · exact le_refl _
  · positivity

/-- The accuracy used by the ordering constraints never exceeds the documented tolerance. -/
theorem ratAcc_le_tol (F : Rat → Int) (hF : FloorLog10 F) (n : Int) (e a : Rat) :
    ratAcc F n (max e a) ≤ max |e| |a| * (10 : Rat) ^ (1 - n) := by
  have hle : |max e a| ≤ max |e| |a| := by
    rcases le_total e a with h | h
    · rw [max_eq_right h]; exact le_max_right _ _
    · rw [max_eq_left h]; exact le_max_left _ _
  have p2 : (0 : Rat) ≤ (10 : Rat) ^ (1 - n) := by positivity
  rcases lt_or_eq_of_le (abs_nonneg (max e a)) with hpos | hz
  · have hb := (ratAcc_bounds F hF n |max e a| hpos).2
    have hsame : ratAcc F n |max e a| = ratAcc F n (max e a) := by
      unfold ratAcc; simp [rabs_eq]
    rw [← hsame]
    exact le_trans hb (mul_le_mul_of_nonneg_right hle p2)
  · have : max e a = 0 := abs_eq_zero.mp hz.symm
    rw [this, ratAcc_zero]
    exact mul_nonneg (le_max_of_le_left (abs_nonneg e)) p2

/-- The less-than constraint accepts every strictly ordered pair … -/
theorem C15_less_accepts (F : Rat → Int) (n : Int) (e a : Rat) (h : a < e) : wantLesserDouble (ratOps F) n e a = true := by
  rw [lesser_iff]; have := ratAcc_nonneg F n (max e a); linarith

/-- … and no pair that is out of order by more than the tolerance. -/
theorem C15_less_rejects (F : Rat → Int) (hF : FloorLog10 F) (n : Int) (e a : Rat)
    (h : e + max |e| |a| * (10 : Rat) ^ (1 - n) < a) : wantLesserDouble (ratOps F) n e a = false := by
  rw [Bool.eq_false_iff]; intro h'
  rw [lesser_iff] at h'
  have := ratAcc_le_tol F hF n e a; linarith

theorem C15_greater_accepts (F : Rat → Int) (n : Int) (e a : Rat) (h : e < a) : wantGreaterDouble (ratOps F) n e a = true := by
  rw [greater_iff]; have := ratAcc_nonneg F n (max e a); linarith

theorem C15_greater_rejects (F : Rat → Int) (hF : FloorLog10 F) (n : Int) (e a : Rat)
    (h : a < e - max |e| |a| * (10 : Rat) ^ (1 - n)) : wantGreaterDouble (ratOps F) n e a = false := by
  rw [Bool.eq_false_iff]; intro h'
  rw [greater_iff] at h'
  have := ratAcc_le_tol F hF n e a; linarith

/-- The hypothesis is satisfiable: a function with the defining property of `floor ∘ log10` exists
(here: on the two values the example uses), and the bounds bite on a concrete pair. -/
example : doublesAreEqual (ratOps floorLog10) 3 1 (1002 / 1000) = true ∧ doublesAreEqual (ratOps floorLog10) 4 1 (1002 / 1000) = false := by
  decide +kernel

end Cgreen
