import CgreenModel.Model.Select
import CgreenModel.Lemmas.Lines
/-!
# C09 — cgreen-runner runs exactly the tests that are defined and selected
-/
namespace Cgreen
open Sel

/-- An identifier that survives the `__`-separated symbol encoding: no two consecutive underscores and
no underscore at the end. -/
def good : Str → Bool
  | [] => true
  | [c] => c != '_'
  | c :: d :: s => !(c == '_' && d == '_') && good (d :: s)

theorem splitAtSep_good (s t : Str) (h : good s = true) : splitAtSep (s ++ sep ++ t) = some (s, t) := by
  induction s using good.induct with
  | case1 => simp [sep, splitAtSep]
  | case2 c =>
    have hc : (c == '_') = false := by simpa [good] using h
    simp [sep, splitAtSep, hc]
  | case3 c d s ih =>
    simp only [good, Bool.and_eq_true, Bool.not_eq_true'] at h
    have := ih h.2
    simp only [List.cons_append, List.append_assoc] at this ⊢
    simp [splitAtSep, h.1, this]

/-- Discovery: the symbol the `Ensure` macro defines parses back to its context and name. -/
theorem C09_discover (i : Item) (hc : good i.ctx = true) (hn : good i.name = true) :
    parseSpec (specSymbol i) = some i := by
  have hp : prefixSpec.isPrefixOf (specSymbol i) = true := by
    rw [List.isPrefixOf_iff_prefix]; exact ⟨i.ctx ++ sep ++ i.name ++ sep, by simp [specSymbol, List.append_assoc]⟩
  have hd : (specSymbol i).drop prefixSpec.length = i.ctx ++ sep ++ (i.name ++ sep) := by
    simp [specSymbol, List.append_assoc]
  simp only [parseSpec, hp, if_true, hd]
  rw [splitAtSep_good i.ctx (i.name ++ sep) hc]
  have : i.name ++ sep = i.name ++ sep ++ [] := by simp
  simp only []
  rw [this, splitAtSep_good i.name [] hn]

/-! ### Pattern matching -/

/-- What a pattern of literals and `*` means: each `*` stands for an arbitrary (possibly empty) string. -/
inductive Matches : Str → Str → Prop
  | nil : Matches [] []
  | star (p s t : Str) : Matches p t → Matches ('*' :: p) (s ++ t)
  | char (c : Char) (p s : Str) : c ≠ '*' → Matches p s → Matches (c :: p) (c :: s)

theorem globF_sound : ∀ (n : Nat) (p s : Str), globF n p s = true → Matches p s := by
  intro n
  induction n with
  | zero => intro p s h; simp [globF] at h
  | succ n ih =>
    intro p s h
    cases p with
    | nil =>
      have : s = [] := by simpa [globF] using h
      subst this; exact .nil
    | cons c p =>
      simp only [globF] at h
      by_cases hc : (c == '*') = true
      · have hc' : c = '*' := by simpa using hc
        subst hc'
        simp only [beq_self_eq_true, if_true, Bool.or_eq_true] at h
        rcases h with h | h
        · exact Matches.star p [] s (ih p s h)
        · cases s with
          | nil => simp at h
          | cons d t =>
            simp only [] at h
            have := ih ('*' :: p) t h
            cases this with
            | star _ s' t' hm => exact Matches.star p (d :: s') t' hm
            | char _ _ _ hne _ => exact absurd rfl hne
      · have hc' : (c == '*') = false := by simpa using hc
        simp only [hc', Bool.false_eq_true, if_false] at h
        cases s with
        | nil => simp at h
        | cons d t =>
          simp only [Bool.and_eq_true, beq_iff_eq] at h
          obtain ⟨rfl, h2⟩ := h
          exact Matches.char c p t (by simpa using hc') (ih p t h2)

theorem glob_sound (p s : Str) (h : glob p s = true) : Matches p s := globF_sound _ p s h

theorem globF_star_nil (n : Nat) (p : Str) : globF (n + 1) ('*' :: p) [] = globF n p [] := by
  simp [globF]
theorem globF_star_cons (n : Nat) (p : Str) (d : Char) (t : Str) :
    globF (n + 1) ('*' :: p) (d :: t) = (globF n p (d :: t) || globF n ('*' :: p) t) := by
  simp [globF]
theorem globF_char_nil (n : Nat) (c : Char) (p : Str) (h : (c == '*') = false) : globF (n + 1) (c :: p) [] = false := by
  simp [globF, h]
theorem globF_char_cons (n : Nat) (c : Char) (p : Str) (d : Char) (t : Str) (h : (c == '*') = false) :
    globF (n + 1) (c :: p) (d :: t) = (c == d && globF n p t) := by
  simp [globF, h]
theorem globF_nil (n : Nat) (s : Str) : globF (n + 1) [] s = s.isEmpty := by simp [globF]

/-- More fuel never hurts. -/
theorem globF_mono : ∀ (n : Nat) (p s : Str), globF n p s = true → globF (n + 1) p s = true := by
  intro n
  induction n with
  | zero => intro p s h; simp [globF] at h
  | succ n ih =>
    intro p s h
    cases p with
    | nil => rw [globF_nil] at h ⊢; exact h
    | cons c p =>
      by_cases hc : (c == '*') = true
      · have hc' : c = '*' := by simpa using hc
        subst hc'
        cases s with
        | nil => rw [globF_star_nil] at h ⊢; exact ih p [] h
        | cons d t =>
          rw [globF_star_cons, Bool.or_eq_true] at h ⊢
          rcases h with h | h
          · exact Or.inl (ih _ _ h)
          · exact Or.inr (ih _ _ h)
      · have hc' : (c == '*') = false := by simpa using hc
        cases s with
        | nil => rw [globF_char_nil _ _ _ hc'] at h; cases h
        | cons d t =>
          rw [globF_char_cons _ _ _ _ _ hc', Bool.and_eq_true] at h ⊢
          exact ⟨h.1, ih p t h.2⟩

theorem globF_mono' (n m : Nat) (p s : Str) (hnm : n ≤ m) (h : globF n p s = true) : globF m p s = true := by
  induction hnm with
  | refl => exact h
  | step _ ih => exact globF_mono _ p s ih

/-- With enough fuel every match is found. -/
theorem globF_complete : ∀ (p s : Str), Matches p s → globF (p.length + s.length + 1) p s = true := by
  intro p s h
  induction h with
  | nil => simp [globF]
  | star p s t _ ih =>
    induction s with
    | nil =>
      simp only [List.nil_append, List.length_cons]
      cases t with
      | nil =>
        rw [show p.length + 1 + ([] : Str).length + 1 = (p.length + 1) + 1 by simp, globF_star_nil]
        exact globF_mono' _ _ p [] (by simp) ih
      | cons d t =>
        rw [show p.length + 1 + (d :: t).length + 1 = (p.length + 1 + (d :: t).length) + 1 by omega, globF_star_cons,
          Bool.or_eq_true]
        exact Or.inl (globF_mono' _ _ p (d :: t) (by simp; omega) ih)
    | cons a s ihs =>
      simp only [List.cons_append, List.length_cons, List.length_append] at ihs ⊢
      rw [show p.length + 1 + (s.length + t.length + 1) + 1 = (p.length + 1 + (s.length + t.length + 1)) + 1 by omega,
        globF_star_cons, Bool.or_eq_true]
      exact Or.inr (globF_mono' _ _ _ _ (by omega) ihs)
  | char c p s hc _ ih =>
    have hc' : (c == '*') = false := by simpa using hc
    simp only [List.length_cons]
    rw [show p.length + 1 + (s.length + 1) + 1 = (p.length + 1 + (s.length + 1)) + 1 by omega,
      globF_char_cons _ _ _ _ _ hc', Bool.and_eq_true]
    exact ⟨by simp, globF_mono' _ _ p s (by omega) ih⟩

theorem glob_complete (p s : Str) (h : Matches p s) : glob p s = true := globF_complete p s h

/-- The runner's matching is exactly the meaning of the pattern. -/
theorem C09_glob (p s : Str) : glob p s = true ↔ Matches p s := ⟨glob_sound p s, glob_complete p s⟩

/-! ### Sorting loses nothing -/

theorem insertSorted_perm (x : Item) (l : List Item) : (insertSorted x l).Perm (x :: l) := by
  induction l with
  | nil => exact List.Perm.refl _
  | cons y ys ih =>
    simp only [insertSorted]
    split
    · exact List.Perm.refl _
    · exact (List.Perm.cons y ih).trans (List.Perm.swap x y ys)

theorem sortItems_perm (l : List Item) : (sortItems l).Perm l := by
  induction l with
  | nil => exact List.Perm.refl _
  | cons x xs ih => exact (insertSorted_perm x _).trans (List.Perm.cons x ih)

/-- Selection: the tests executed for a library are exactly the discovered tests that match the pattern
(all of them without a pattern), each exactly once — whether one, several or all match. -/
theorem C09_select (tests : List Item) (hne : tests ≠ []) (pat : Option Str) (fails : Item → Bool) :
    (runLibrary tests pat fails).executed.Perm (selected pat tests) := by
  have hte : tests.isEmpty = false := by cases tests <;> simp_all
  simp only [runLibrary, hte, Bool.false_eq_true, if_false]
  have hperm : (selected pat (sortItems tests)).Perm (selected pat tests) := by
    cases pat with
    | none => exact sortItems_perm tests
    | some p => exact (sortItems_perm tests).filter _
  split
  · rename_i he
    have : selected pat (sortItems tests) = [] := by simpa using he
    rw [this] at hperm; exact hperm
  · exact hperm

/-- A pattern that matches nothing, or a library without tests, is a failure: no selected test is ever
silently left unexecuted. -/
theorem C09_no_match_fails (tests : List Item) (pat : Option Str) (fails : Item → Bool)
    (h : selected pat tests = []) : (runLibrary tests pat fails).failure = true := by
  by_cases hte : tests.isEmpty = true
  · simp [runLibrary, hte]
  · have hperm : (selected pat (sortItems tests)).Perm (selected pat tests) := by
      cases pat with
      | none => exact sortItems_perm tests
      | some p => exact (sortItems_perm tests).filter _
    rw [h] at hperm
    have : selected pat (sortItems tests) = [] := List.Perm.eq_nil hperm
    simp [runLibrary, hte, this]

/-- Otherwise the library reports failure exactly when an executed test fails. -/
theorem C09_status (tests : List Item) (pat : Option Str) (fails : Item → Bool)
    (h : (runLibrary tests pat fails).executed ≠ []) :
    (runLibrary tests pat fails).failure = (runLibrary tests pat fails).executed.any fails := by
  by_cases hte : tests.isEmpty = true
  · simp [runLibrary, hte] at h
  · simp only [runLibrary, hte, Bool.false_eq_true, if_false] at h ⊢
    split
    · rename_i he; simp [he] at h
    · rfl

/-- A missing library makes the whole run fail. -/
theorem C09_missing_library (exists_ : Str → Bool) (lib : Str → List Item) (fails : Item → Bool)
    (l : Str) (p : Option Str) (rest : List (Str × Option Str)) (h : exists_ l = false) :
    (runAll exists_ lib fails ((l, p) :: rest)).2 = true := by simp [runAll, h]

/-- The runner's exit status over several libraries, when all exist: failure exactly when some library's own run
reports failure — an earlier library's failure is never forgotten, whatever the later ones do. -/
theorem C09_all_libraries (exists_ : Str → Bool) (lib : Str → List Item) (fails : Item → Bool) :
    ∀ (args : List (Str × Option Str)), (∀ a ∈ args, exists_ a.1 = true) →
    (runAll exists_ lib fails args).2 = args.any (fun a => (runLibrary (lib a.1) a.2 fails).failure)
    ∧ (runAll exists_ lib fails args).1 = args.flatMap (fun a => (runLibrary (lib a.1) a.2 fails).executed) := by
  intro args
  induction args with
  | nil => intro _; simp [runAll]
  | cons a rest ih =>
    intro h
    obtain ⟨l, p⟩ := a
    have hl : exists_ l = true := h (l, p) List.mem_cons_self
    obtain ⟨i1, i2⟩ := ih (fun x hx => h x (List.mem_cons_of_mem _ hx))
    simp [runAll, hl, i1, i2]

/-- Witness of finding F20: with the pinned commit's single-match path a wildcard pattern that matches
exactly one test executed nothing and did not report failure. -/
theorem C09_F20_witness :
    let tests : List Item := [⟨"Ctx".toList, "alpha".toList⟩, ⟨"Ctx".toList, "beta".toList⟩]
    (runLibraryOld tests (some "Ctx:bet*".toList) (fun _ => true)) = ⟨[], false⟩
    ∧ (runLibrary tests (some "Ctx:bet*".toList) (fun _ => true)) = ⟨[⟨"Ctx".toList, "beta".toList⟩], true⟩ := by
  decide +kernel

example : good "can_match_test_name".toList = true := by decide +kernel
example : glob "T*:con*s".toList "Tcp:connects".toList = true := by decide +kernel

/-! ### From the symbol listing to the list of tests -/
namespace Lines

theorem isPrefixOf_snoc (a : Char) : ∀ (pat x : Str), a ∉ pat → pat.isPrefixOf (x ++ [a]) = pat.isPrefixOf x
  | [], x, _ => by simp
  | p :: ps, [], h => by
    have : (p == a) = false := by simp at h; simpa using fun e => h.1 e.symm
    simp [List.isPrefixOf, this]
  | p :: ps, y :: ys, h => by
    have := isPrefixOf_snoc a ps ys (by simp at h ⊢; exact h.2)
    simp [List.isPrefixOf, this]

theorem findSub_snoc (a : Char) (pat : Str) (hp : pat ≠ []) (ha : a ∉ pat) :
    ∀ x : Str, findSub pat (x ++ [a]) = (findSub pat x).map (· ++ [a])
  | [] => by
    have he : pat.isEmpty = false := by cases pat with | nil => exact absurd rfl hp | cons _ _ => rfl
    have h1 := isPrefixOf_snoc a pat [] ha
    simp only [List.nil_append] at h1
    have h2 : pat.isPrefixOf [] = false := by cases pat with | nil => exact absurd rfl hp | cons _ _ => rfl
    simp [findSub, h1, h2, he]
  | y :: ys => by
    have h1 := isPrefixOf_snoc a pat (y :: ys) ha
    simp only [List.cons_append] at h1
    simp only [List.cons_append, findSub, h1]
    split
    · simp
    · exact findSub_snoc a pat hp ha ys

/-- The first occurrence of a pattern is not before the first occurrence of its first character. -/
theorem findSub_skip (p : Char) (ps t : Str) : ∀ pre : Str, (∀ c ∈ pre, c ≠ p) →
    findSub (p :: ps) (pre ++ (p :: ps) ++ t) = some ((p :: ps) ++ t)
  | [], _ => by
    have : (p :: ps).isPrefixOf ((p :: ps) ++ t) = true := by
      rw [List.isPrefixOf_iff_prefix]; exact ⟨t, rfl⟩
    simp only [List.nil_append, List.cons_append] at this ⊢
    simp [findSub, this]
  | c :: pre, h => by
    have hc : (p == c) = false := by
      have := h c List.mem_cons_self
      simp; exact fun e => this e.symm
    have ih := findSub_skip p ps t pre (fun d hd => h d (List.mem_cons_of_mem _ hd))
    simp only [List.cons_append, List.append_assoc] at ih ⊢
    simp [findSub, List.isPrefixOf, hc, ih]

theorem findSub_exists (pat b : Str) : ∀ a : Str, (findSub pat (a ++ pat ++ b)).isSome = true
  | [] => by
    have hpre : pat.isPrefixOf (pat ++ b) = true := by rw [List.isPrefixOf_iff_prefix]; exact ⟨b, rfl⟩
    simp only [List.nil_append]
    cases h : pat ++ b with
    | nil =>
      have : pat = [] := (List.append_eq_nil_iff.mp h).1
      simp [findSub, this]
    | cons c s => rw [h] at hpre; simp [findSub, hpre]
  | c :: a => by
    simp only [List.cons_append, findSub]
    split
    · rfl
    · exact findSub_exists pat b a

theorem splitLines_line (l t : Str) (h : '\n' ∉ l) : splitLines (l ++ '\n' :: t) = (l ++ ['\n']) :: splitLines t := by
  induction l with
  | nil => simp [splitLines]
  | cons c l ih =>
    have hc : c ≠ '\n' := by intro e; apply h; simp [e]
    have := ih (by intro hm; apply h; simp [hm])
    simp only [List.cons_append, splitLines, hc, if_false, this]

theorem stripNewline_snoc (l : Str) : stripNewline (l ++ ['\n']) = l := by simp [stripNewline]

/-- One line of a symbol listing: a test (`<address> D CgreenSpec__<context>__<name>__`, where what precedes the
symbol does not contain the symbol's first letter) or anything that does not mention `CgreenSpec__`. -/
inductive Entry
  | test (pre : Str) (i : Item)
  | other (l : Str)

def Entry.line : Entry → Str
  | .test pre i => pre ++ definitionMark ++ specSymbol i
  | .other l => l

def Entry.item : Entry → Option Item
  | .test _ i => some i
  | .other _ => none

def Entry.ok : Entry → Prop
  | .test pre i => (∀ c ∈ pre, c ≠ 'C' ∧ c ≠ '\n') ∧ good i.ctx = true ∧ good i.name = true ∧ '\n' ∉ i.ctx ∧ '\n' ∉ i.name
  | .other l => findSub prefixSpec l = none ∧ '\n' ∉ l

def listing (es : List Entry) : Str := es.flatMap (fun e => e.line ++ ['\n'])

theorem entry_no_newline (e : Entry) (h : e.ok) : '\n' ∉ e.line := by
  cases e with
  | other l => exact h.2
  | test pre i =>
    obtain ⟨hpre, _, _, hc, hn⟩ := h
    have h1 : '\n' ∉ definitionMark := by decide
    have h2 : '\n' ∉ prefixSpec := by decide
    have h3 : '\n' ∉ sep := by decide
    intro hm
    simp only [Entry.line, specSymbol, List.mem_append] at hm
    rcases hm with (hm | hm) | ((((hm | hm) | hm) | hm) | hm)
    · exact (hpre _ hm).2 rfl
    · exact h1 hm
    · exact h2 hm
    · exact hc hm
    · exact h3 hm
    · exact hn hm
    · exact h3 hm

theorem splitLines_listing : ∀ es : List Entry, (∀ e ∈ es, e.ok) →
    splitLines (listing es) = es.map (fun e => e.line ++ ['\n'])
  | [], _ => rfl
  | e :: es, h => by
    have ih := splitLines_listing es (fun x hx => h x (List.mem_cons_of_mem _ hx))
    have hn := entry_no_newline e (h e List.mem_cons_self)
    have : listing (e :: es) = e.line ++ '\n' :: listing es := by simp [listing]
    rw [this, splitLines_line _ _ hn, ih]; rfl

theorem itemOfLine_entry (e : Entry) (h : e.ok) : itemOfLine (e.line ++ ['\n']) = e.item := by
  have hs1 := findSub_snoc '\n' prefixSpec (by decide) (by decide) e.line
  have hs2 := findSub_snoc '\n' definitionMark (by decide) (by decide) e.line
  cases e with
  | other l =>
    have : findSub prefixSpec l = none := h.1
    simp only [Entry.line] at hs1
    simp [itemOfLine, specOfLine, hs1, this, Entry.item, Entry.line]
  | test pre i =>
    obtain ⟨hpre, hc, hn, _, _⟩ := h
    have hfind : findSub prefixSpec (pre ++ definitionMark ++ specSymbol i) = some (specSymbol i) := by
      have hp : prefixSpec = 'C' :: "greenSpec__".toList := by decide
      have := findSub_skip 'C' "greenSpec__".toList (i.ctx ++ sep ++ i.name ++ sep) (pre ++ definitionMark)
        (by intro c hm; rcases List.mem_append.mp hm with hm | hm
            · exact (hpre c hm).1
            · revert hm; simp [definitionMark]; rintro (rfl | rfl | rfl) <;> decide)
      simp only [specSymbol, hp, List.append_assoc] at this ⊢
      exact this
    have hdef : (findSub definitionMark (pre ++ definitionMark ++ specSymbol i)).isSome = true :=
      findSub_exists definitionMark (specSymbol i) pre
    simp only [Entry.line] at hs1 hs2
    obtain ⟨d, hd⟩ := Option.isSome_iff_exists.mp hdef
    simp only [itemOfLine, specOfLine, hs1, hs2, hfind, hd, Option.map_some, stripNewline_snoc, Entry.item, Entry.line]
    exact C09_discover i hc hn

end Lines

open Lines in
/-- Discovery reads the listing right: whatever the lengths of the lines and whatever the size (from 3 bytes) of the
buffer they are read into, the tests found are exactly the tests listed, each once, in the listing's order. -/
theorem C09_discovery (size : Nat) (hsize : 3 ≤ size) (es : List Entry) (hok : ∀ e ∈ es, e.ok) :
    discover size (listing es) = es.filterMap Entry.item := by
  simp only [discover, allLines_spec _ size (listing es) hsize (Nat.le_refl _), splitLines_listing es hok]
  induction es with
  | nil => rfl
  | cons e es ih =>
    have he := itemOfLine_entry e (hok e List.mem_cons_self)
    have := ih (fun x hx => hok x (List.mem_cons_of_mem _ hx))
    simp only [List.map_cons, List.filterMap_cons, he, this]

open Lines in
/-- From the bytes of the symbol listing to the tests executed: for a library that defines at least one test, whatever the
lengths of its lines, the tests executed are exactly the listed tests that match the pattern (all without one), each once. -/
theorem C09_from_listing (size : Nat) (hsize : 3 ≤ size) (es : List Entry) (hok : ∀ e ∈ es, e.ok)
    (hne : es.filterMap Entry.item ≠ []) (pat : Option Str) (fails : Item → Bool) :
    (runLibrary (discover size (listing es)) pat fails).executed.Perm (selected pat (es.filterMap Entry.item)) := by
  rw [C09_discovery size hsize es hok]
  exact C09_select _ hne pat fails

open Lines in
example : discover 20 (listing [.other "0000000000001000 T _init".toList,
      .test "0000000000004010".toList ⟨"Ctx".toList, "a_rather_long_test_name".toList⟩,
      .test "0000000000004018".toList ⟨"default".toList, "b".toList⟩])
    = [⟨"Ctx".toList, "a_rather_long_test_name".toList⟩, ⟨"default".toList, "b".toList⟩] := by decide +kernel

end Cgreen
