import CgreenModel.Model.Format
/-!
# C10 — failure messages show the asserted expression and values literally
-/
namespace Cgreen
open Fmt

/-- Printing a percent-doubled text without arguments gives back the text, for every text:
percent signs and printf-like sequences in expression texts and string values come out literally,
and no argument is ever read. -/
theorem C10_double_then_print (s : Str) : expandNoArgs (doublePercent s) = some s := by
  induction s with
  | nil => rfl
  | cons c s ih =>
    by_cases hc : (c == '%') = true
    · simp only [doublePercent, hc, if_true]
      cases hds : doublePercent s with
      | nil =>
        rw [hds] at ih
        have hs : s = [] := by simpa [expandNoArgs] using ih
        subst hs
        have hc' : c = '%' := by simpa using hc
        simp [expandNoArgs, hc']
      | cons d t =>
        rw [hds] at ih
        have hc' : c = '%' := by simpa using hc
        simp [expandNoArgs, ih, hc']
    · have hc' : (c == '%') = false := by simpa using hc
      simp only [doublePercent, hc', Bool.false_eq_true, if_false]
      cases hds : doublePercent s with
      | nil =>
        rw [hds] at ih
        have hs : s = [] := by simpa [expandNoArgs] using ih
        subst hs
        simp [expandNoArgs, hc']
      | cons d t =>
        rw [hds] at ih
        simp [expandNoArgs, hc', ih]

/-- The message a reporter prints for a failed constraint is the literal message — for every
expression text, every value text and every template. -/
theorem C10_assert_message (f1 f2 f3 : Bool) (t : Tmpl) (name actualText expectedText actualValue expectedValue : Str) :
    expandNoArgs (failureMessage f1 f2 f3 t name actualText expectedText actualValue expectedValue)
      = some (literalMessage f1 f2 f3 t name actualText expectedText actualValue expectedValue) :=
  C10_double_then_print _

theorem infix_of_eq (a b c m : Str) (h : m = a ++ b ++ c) : b <:+: m := ⟨a, c, h.symm⟩

/-- … and it contains, verbatim, the source text of the actual and of the expected expression and
both values. -/
theorem C10_contains (t : Tmpl) (name actualText expectedText actualValue expectedValue : Str) :
    actualText <:+: literalMessage true true true t name actualText expectedText actualValue expectedValue
    ∧ expectedText <:+: literalMessage true true true t name actualText expectedText actualValue expectedValue
    ∧ actualValue <:+: literalMessage true true true t name actualText expectedText actualValue expectedValue
    ∧ expectedValue <:+: literalMessage true true true t name actualText expectedText actualValue expectedValue := by
  simp only [literalMessage, if_true]
  refine ⟨?_, ?_, ?_, ?_⟩
  · exact infix_of_eq tExpected _ (tTo ++ name ++ tClose ++ (tOpen ++ expectedText ++ tClose ++ (t.aLabel ++ actualValue ++ t.aClose ++ (tNl ++ t.eLabel ++ expectedValue ++ t.eClose)))) _
      (by simp only [List.append_assoc])
  · exact infix_of_eq (tExpected ++ actualText ++ tTo ++ name ++ tClose ++ tOpen) _ (tClose ++ (t.aLabel ++ actualValue ++ t.aClose ++ (tNl ++ t.eLabel ++ expectedValue ++ t.eClose))) _
      (by simp only [List.append_assoc])
  · exact infix_of_eq (tExpected ++ actualText ++ tTo ++ name ++ tClose ++ tOpen ++ expectedText ++ tClose ++ t.aLabel) _ (t.aClose ++ (tNl ++ t.eLabel ++ expectedValue ++ t.eClose)) _
      (by simp only [List.append_assoc])
  · exact infix_of_eq (tExpected ++ actualText ++ tTo ++ name ++ tClose ++ tOpen ++ expectedText ++ tClose ++ t.aLabel ++ actualValue ++ t.aClose ++ tNl ++ t.eLabel) _ t.eClose _
      (by simp only [List.append_assoc])

/-- Witness of findings F09–F11 on the model of the old behaviour: an undoubled `%d` in the expected
text makes the final print read an argument that does not exist. -/
theorem C10_F09_witness : expandNoArgs "Expected [a] to [equal] [b %d]".toList = none := by decide

example : wellTyped "[%s] should be [%ld] but was [%ld]\n".toList [.cstr, .long, .long] = true := by decide
example : wellTyped "[%s] should be [%d] but was [%d]\n".toList [.cstr, .long, .long] = false := by decide
example : wellTyped "\n\t\tactual value:\t\t\t[0x%lx]".toList [.long] = true := by decide

/-! ### The message buffer is large enough (the terms of the size are re-extracted from the C on every run, see
`message_size_covers` in the generated file) -/

/-- The size `literal_failure_message_for()` allocates: the lengths of the four fixed templates it adds up
(`fixedLen`), of the constraint's two value templates, of the three texts it is given, its slack, and — for
string constraints — of the two strings. -/
def messageSize (fixedLen aTmplLen eTmplLen nameLen expectedTextLen actualTextLen slack stringsLen : Nat) : Nat :=
  fixedLen + aTmplLen + eTmplLen + expectedTextLen + nameLen + actualTextLen + slack + stringsLen

/-- The allocated size is enough for the literal message and its terminator, for all texts and values: the
templates are at least as long as what they print around their conversions, and a value that is not a string
the size accounts for is at most `vmax` characters (a decimal or hexadecimal `intptr_t`), twice within the slack. -/
theorem C10_buffer_suffices (f1 f2 f3 : Bool) (t : Tmpl) (name aText eText aVal eVal : Str)
    (fixedLen aTmplLen eTmplLen slack aStr eStr vmax : Nat)
    (hfixed : tExpected.length + tTo.length + tClose.length + tOpen.length + tClose.length + tNl.length ≤ fixedLen)
    (ha : t.aLabel.length + t.aClose.length ≤ aTmplLen) (he : t.eLabel.length + t.eClose.length ≤ eTmplLen)
    (hav : aVal.length ≤ vmax + aStr) (hev : eVal.length ≤ vmax + eStr) (hslack : 2 * vmax + 2 ≤ slack) :
    (literalMessage f1 f2 f3 t name aText eText aVal eVal).length + 2
      ≤ messageSize fixedLen aTmplLen eTmplLen name.length eText.length aText.length slack (aStr + eStr) := by
  unfold literalMessage messageSize
  cases f1 <;> cases f2 <;> cases f3 <;> simp only [List.length_append, if_true, if_false, Bool.false_eq_true, List.length_nil] <;> omega

end Cgreen
