import CgreenModel.Lemmas.Faults
import CgreenModel.Lemmas.Link
/-!
# C19 — resource failures never turn into a passing verdict
The part of the property that is logic — what the reporting process concludes from a result channel on
which one `read()` fails, or from a sender that dies at a failing `write()` — is proved here for every
sequence of phases, every group of records and every position of the fault. What is the operating system's
(that a failing `fork()`, `pipe()` or `fcntl()` is reported to the caller, that `exit(EXIT_FAILURE)` ends
the process with that status, that SIGPIPE kills) is exercised by the fault-injection check, not modelled.
-/
namespace Cgreen
open Faults

/-- One failing `read()` anywhere in the run (`k` ranges over every read of the run, `none` = no fault):
whatever the sequence of senders and readers, every failure or exception record that was sent has been
counted when the outermost suite is finished; none is lost or left in the channel. -/
theorem C19_read_fault (k : Option Nat) (phases : List Leg) (hok : ∀ ph ∈ phases, PhaseOk ph) :
    sentBad phases ≤ bad (runPhases k (phases ++ [top])).cnt := by
  unfold runPhases
  rw [List.foldl_append]
  have hinv := inv_run k phases {} ⟨onlyLast_nil, fun _ => rfl⟩ hok
  have hc := conserve_run k phases {}
  have hs := conserve_step k (phases.foldl (phaseStep k) {}) top
  have hf := final_pipe k _ hinv
  simp only [List.foldl_cons, List.foldl_nil]
  have h0 : bad ({} : RSt).cnt + nbad ({} : RSt).pipe = 0 := rfl
  have htop : nbad top.group = 0 := rfl
  omega

/-- Hence a run in which some test delivered a failure does not report success, wherever the read fails. -/
theorem C19_read_fault_verdict (k : Option Nat) (phases : List Leg) (hok : ∀ ph ∈ phases, PhaseOk ph)
    (hbad : 0 < sentBad phases) : success (runPhases k (phases ++ [top])) = false := by
  have h := C19_read_fault k phases hok
  simp only [success, bad] at *
  cases hf : (runPhases k (phases ++ [top])).cnt.f <;> cases he : (runPhases k (phases ++ [top])).cnt.e <;> simp_all

/-- A reader of a test that finds no completion notice — the failing read hit it, or the sender died at a
failing `write()` (its process is killed by SIGPIPE) — counts an exception, unless the test had announced
that it skips (known finding F02). -/
theorem C19_unobtained_is_exception (k : Option Nat) (s : RSt) (ph : Leg) (ht : ph.isTest = true)
    (h : (readLoop k s.reads false s.cnt (s.pipe ++ ph.group)).2.2.2 = .notReceived) :
    (phaseStep k s ph).cnt.e = (readLoop k s.reads false s.cnt (s.pipe ++ ph.group)).2.1.e + 1 := by
  simp [phaseStep, excOf, bump, ht, h]

/-- A sender that dies at its `j`-th write: the records before it arrive, no completion notice does. With an
empty channel and no skip announcement among them, the test is an exception. -/
theorem C19_write_fault (s : RSt) (recs : List Rec) (j : Nat) (hp : s.pipe = []) (hc : Rec.completion ∉ recs)
    (hs : Rec.skipped ∉ recs.take j) :
    (phaseStep none s { recs := recs.take j, complete := false, signalled := true }).cnt.e
      = (readLoop none s.reads false s.cnt (recs.take j)).2.1.e + 1 := by
  have hst : ∀ (l : List Rec) (n : Nat) (c : Cnt), Rec.completion ∉ l → Rec.skipped ∉ l →
      (readLoop none n false c l).2.2.2 = .notReceived := by
    intro l
    induction l with
    | nil => intro n c _ _; simp [readLoop, statusEnd]
    | cons r l ih =>
      intro n c h1 h2
      simp only [List.mem_cons, not_or] at h1 h2
      unfold readLoop
      cases r with
      | completion => exact absurd rfl h1.1
      | skipped => exact absurd rfl h2.1
      | pass => simp; exact ih _ _ h1.2 h2.2
      | fail => simp; exact ih _ _ h1.2 h2.2
      | exception => simp; exact ih _ _ h1.2 h2.2
  have hc' : Rec.completion ∉ recs.take j := fun h => hc (List.mem_of_mem_take h)
  have := hst (recs.take j) s.reads s.cnt hc' hs
  simp [phaseStep, Leg.group, hp, excOf, bump, this]

/-- F29, as a statement about the previous `send_cgreen_message()`: dropping one record (the allocation
that failed) can turn a failing run into a passing one — and does so exactly when that record was the only
failure. -/
theorem C19_F29_witness :
    let phases : List Leg := [{ recs := [.pass, .fail] }]
    0 < sentBad phases
    ∧ success (runPhases none (dropNth 1 phases ++ [top])) = true
    ∧ success (runPhases none (phases ++ [top])) = false := by decide

/-- The premises are satisfiable and the conclusion is about something: a read that fails in the middle of a
failing test's results leaves them in the channel, and the next readers pick them up. -/
example : (runPhases (some 1) ([{ recs := [.pass, .fail] }, { recs := [.pass] }] ++ [top])).cnt = ⟨2, 1, 0, 1⟩ := by decide
example : (runPhases (some 1) ([{ recs := [.pass, .fail] }, { recs := [.pass] }] ++ [top])).pipe = [.completion] := by decide
example : (runPhases none ([{ recs := [.pass, .fail] }, { recs := [.pass] }] ++ [top])).cnt = ⟨2, 1, 0, 0⟩ := by decide

/-- The channel model (C19, and the outside-bracket statements of C01) is an abstraction of the runner model: for every
tree, capacity and reporter, the legs of the tree fed to the channel model give the totals the runner model's forked run
ends with, and leave the channel empty. -/
theorem C19_channel_model_abstracts_the_runner (cap : Nat) (hcap : 0 < cap) (r : Reporter) (t : Tree) (hok : t.AllOk cap .fork) :
    (runPhases none (t.legs cap)).cnt = (run ⟨cap, .fork, r⟩ t).tot ∧ (runPhases none (t.legs cap)).pipe = [] := by
  obtain ⟨h1, h2⟩ := foldl_tree cap t {} rfl hok
  rw [(run_spec cap hcap .fork r t hok).2.2.1]
  unfold runPhases
  refine ⟨?_, h2⟩
  rw [h1]
  show (0 : Cnt) + t.truth cap = t.truth cap
  simp

end Cgreen
