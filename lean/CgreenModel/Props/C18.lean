import CgreenModel.Lemmas.Runner
import CgreenModel.Props.C03
/-!
# C18 — no result is lost or misplaced however many checks a test makes
`cap` is the capacity of the result channel in records (measured on the implementation, 4096 here);
the theorems hold for every capacity and every number of checks.
-/
namespace Cgreen

def manyChecks (name : String) (k : Nat) (ok : Bool) : Test := { name := name, body := List.replicate k (.check ok) }

theorem Proc.steps_append (cap : Nat) (pr : Proc) (a b : List Step) :
    pr.steps cap (a ++ b) = (pr.steps cap a).steps cap b := by
  induction a generalizing pr with
  | nil => rfl
  | cons s a ih => simp [Proc.steps, ih]

theorem check_room (cap : Nat) (ok : Bool) (pr : Proc) (hd : pr.dead = none) (hk : pr.killWrite = none)
    (hlt : pr.pipe.length < cap) :
    (pr.check cap ok).pipe = pr.pipe ++ [recOf ok] ∧ (pr.check cap ok).dead = none ∧ (pr.check cap ok).killWrite = none
    ∧ (pr.check cap ok).late = pr.late ∧ (pr.check cap ok).decls = pr.decls := by
  simp [Proc.check, Proc.send, hd, hk, hlt]

theorem check_full (cap : Nat) (ok : Bool) (pr : Proc) (hd : pr.dead = none) (hk : pr.killWrite = none)
    (hlt : ¬ pr.pipe.length < cap) :
    (pr.check cap ok).pipe = pr.pipe ∧ (pr.check cap ok).dead = some (.signal 13) ∧ (pr.check cap ok).late = pr.late := by
  simp [Proc.check, Proc.send, hd, hk, hlt]

/-- State of a process after `k` checks with result `ok`, while the channel still has room. -/
theorem steps_replicate (cap : Nat) (ok : Bool) (k : Nat) (pr : Proc)
    (hd : pr.dead = none) (hk : pr.killWrite = none) (hroom : pr.pipe.length + k ≤ cap) :
    (pr.steps cap (List.replicate k (Step.act (.check ok)))).pipe = pr.pipe ++ List.replicate k (recOf ok)
    ∧ (pr.steps cap (List.replicate k (Step.act (.check ok)))).dead = none
    ∧ (pr.steps cap (List.replicate k (Step.act (.check ok)))).killWrite = none
    ∧ (pr.steps cap (List.replicate k (Step.act (.check ok)))).late = pr.late
    ∧ (pr.steps cap (List.replicate k (Step.act (.check ok)))).decls = pr.decls := by
  induction k generalizing pr with
  | zero => simp [Proc.steps, hd, hk]
  | succ k ih =>
    obtain ⟨c1, c2, c3, c4, c5⟩ := check_room cap ok pr hd hk (by omega)
    have hstep : pr.steps cap (List.replicate (k + 1) (Step.act (.check ok)))
        = (pr.check cap ok).steps cap (List.replicate k (Step.act (.check ok))) := by
      simp [List.replicate_succ, Proc.steps, Proc.step]
    rw [hstep]
    obtain ⟨h1, h2, h3, h4, h5⟩ := ih (pr.check cap ok) c2 c3 (by rw [c1]; simp; omega)
    refine ⟨?_, h2, h3, by rw [h4, c4], by rw [h5, c5]⟩
    rw [h1, c1]; simp [List.replicate_succ, List.append_assoc]

/-- Once the process is dead nothing more happens. -/
theorem steps_dead (cap : Nat) (ss : List Step) (pr : Proc) (hd : pr.dead.isSome = true) : pr.steps cap ss = pr := by
  induction ss generalizing pr with
  | nil => rfl
  | cons s ss ih =>
    have : pr.step cap s = pr := by
      cases s with
      | ev ph => simp [Proc.step, hd]
      | tallyNow =>
        simp only [Proc.step]
        generalize pr.decls = l
        induction l with
        | nil => rfl
        | cons b l ihl => simp only [Proc.checks, Proc.check, hd, if_true]; exact ihl
      | act a => cases a <;> simp [Proc.step, Proc.check, Proc.send, hd]
    simp only [Proc.steps, this]; exact ih pr hd

theorem script_manyChecks (name : String) (k : Nat) (ok : Bool) :
    scriptOf false false (manyChecks name k ok)
      = [Step.ev .body] ++ List.replicate k (Step.act (.check ok)) ++ [Step.ev .tally, Step.tallyNow] := by
  simp [scriptOf, script, manyChecks, List.map_replicate]

/-- The process right after it logged the `body` event. -/
def q0 : Proc := ({ pipe := [], killWrite := none, how := .signal 9 } : Proc)

theorem start_fields (cap : Nat) :
    (q0.steps cap [Step.ev .body]).pipe = [] ∧ (q0.steps cap [Step.ev .body]).dead = none
    ∧ (q0.steps cap [Step.ev .body]).killWrite = none ∧ (q0.steps cap [Step.ev .body]).late = none
    ∧ (q0.steps cap [Step.ev .body]).decls = [] := by
  simp [q0, Proc.steps, Proc.step]

/-- The tail of the script (tally with no declarations) and the completion notice, with room. -/
theorem finish_room (cap : Nat) (q : Proc) (hd : q.dead = none) (hk : q.killWrite = none) (hdecl : q.decls = [])
    (hl : q.late = none) (hlt : q.pipe.length < cap) :
    ((q.steps cap [Step.ev .tally, Step.tallyNow]).sendCompletion cap false).pipe = q.pipe ++ [.completion]
    ∧ ((q.steps cap [Step.ev .tally, Step.tallyNow]).sendCompletion cap false).dead = none
    ∧ ((q.steps cap [Step.ev .tally, Step.tallyNow]).sendCompletion cap false).late = none := by
  simp [Proc.steps, Proc.step, hd, hdecl, Proc.checks, Proc.sendCompletion, hk, hlt]

theorem finish_full (cap : Nat) (q : Proc) (hd : q.dead = none) (hk : q.killWrite = none) (hdecl : q.decls = [])
    (hl : q.late = none) (hlt : ¬ q.pipe.length < cap) :
    ((q.steps cap [Step.ev .tally, Step.tallyNow]).sendCompletion cap false).pipe = q.pipe
    ∧ ((q.steps cap [Step.ev .tally, Step.tallyNow]).sendCompletion cap false).dead = some (.signal 13)
    ∧ ((q.steps cap [Step.ev .tally, Step.tallyNow]).sendCompletion cap false).late = none := by
  simp [Proc.steps, Proc.step, hd, hdecl, Proc.checks, Proc.sendCompletion, hk, hlt, hl]

theorem runCode_manyChecks (cap k : Nat) (ok : Bool) (name : String) :
    runCode cap [] false false (manyChecks name k ok)
      = (((q0.steps cap [Step.ev .body]).steps cap (List.replicate k (Step.act (.check ok)))).steps cap
          [Step.ev .tally, Step.tallyNow]).sendCompletion cap false := by
  unfold runCode
  rw [script_manyChecks, Proc.steps_append, Proc.steps_append]
  simp [planOf, manyChecks, q0]

/-- Everything fits: the channel holds the `k` records and the completion notice. -/
theorem runCode_fits (cap k : Nat) (ok : Bool) (name : String) (h : k + 1 ≤ cap) :
    (runCode cap [] false false (manyChecks name k ok)).pipe = List.replicate k (recOf ok) ++ [.completion]
    ∧ (runCode cap [] false false (manyChecks name k ok)).dead = none
    ∧ (runCode cap [] false false (manyChecks name k ok)).late = none := by
  rw [runCode_manyChecks]
  obtain ⟨s1, s2, s3, s4, s5⟩ := start_fields cap
  obtain ⟨h1, h2, h3, h4, h5⟩ := steps_replicate cap ok k (q0.steps cap [Step.ev .body]) s2 s3 (by rw [s1]; simp; omega)
  rw [s1] at h1; rw [s4] at h4; rw [s5] at h5
  obtain ⟨f1, f2, f3⟩ := finish_room cap _ h2 h3 h5 h4 (by rw [h1]; simp; omega)
  refine ⟨?_, f2, f3⟩
  rw [f1, h1]; simp

/-- The channel overflows: exactly `cap` records are in it, no completion notice, and the process has
been ended by SIGPIPE. -/
theorem runCode_overflows (cap k : Nat) (ok : Bool) (name : String) (h : cap < k + 1) :
    (runCode cap [] false false (manyChecks name k ok)).pipe = List.replicate cap (recOf ok)
    ∧ (runCode cap [] false false (manyChecks name k ok)).dead = some (.signal 13)
    ∧ (runCode cap [] false false (manyChecks name k ok)).late = none := by
  rw [runCode_manyChecks]
  have hsplit : List.replicate k (Step.act (.check ok))
      = List.replicate cap (Step.act (.check ok)) ++ List.replicate (k - cap) (Step.act (.check ok)) := by
    rw [List.replicate_append_replicate]; congr 1; omega
  rw [hsplit, Proc.steps_append]
  obtain ⟨s1, s2, s3, s4, s5⟩ := start_fields cap
  obtain ⟨h1, h2, h3, h4, h5⟩ := steps_replicate cap ok cap (q0.steps cap [Step.ev .body]) s2 s3 (by rw [s1]; simp)
  rw [s1] at h1; rw [s4] at h4; rw [s5] at h5
  generalize (q0.steps cap [Step.ev .body]).steps cap (List.replicate cap (Step.act (.check ok))) = q at h1 h2 h3 h4 h5
  have hlen : ¬ q.pipe.length < cap := by rw [h1]; simp
  cases hrest : k - cap with
  | zero =>
    obtain ⟨f1, f2, f3⟩ := finish_full cap q h2 h3 h5 h4 hlen
    simp only [List.replicate_zero, Proc.steps.eq_1]
    exact ⟨by rw [f1, h1]; simp, f2, f3⟩
  | succ j =>
    obtain ⟨c1, c2, c3⟩ := check_full cap ok q h2 h3 hlen
    have hstep : q.steps cap (List.replicate (j + 1) (Step.act (.check ok)))
        = (q.check cap ok).steps cap (List.replicate j (Step.act (.check ok))) := by
      simp [List.replicate_succ, Proc.steps, Proc.step]
    rw [hstep, steps_dead cap _ (q.check cap ok) (by simp [c2]), steps_dead cap _ (q.check cap ok) (by simp [c2])]
    simp [Proc.sendCompletion, c2, c1, c3, h1, h4]

theorem filter_replicate_recOf (n : Nat) (ok : Bool) :
    ((List.replicate n (recOf ok)).filter (· == .pass)).length = (if ok then n else 0)
    ∧ ((List.replicate n (recOf ok)).filter (· == .fail)).length = (if ok then 0 else n)
    ∧ Rec.skipped ∉ List.replicate n (recOf ok) ∧ Rec.completion ∉ List.replicate n (recOf ok) := by
  cases ok <;> simp [recOf, List.filter_replicate, List.mem_replicate]

/-- A test with `k` checks (all passing or all failing) on a channel of capacity `cap`:
if the checks and the completion notice fit, all `k` are counted and the test completes;
otherwise exactly `cap` are counted and the test is one exception. Nothing is dropped silently,
nothing is duplicated. -/
theorem C18_counts (cap k : Nat) (ok : Bool) (name : String) :
    (manyChecks name k ok).truth cap false false =
      if k + 1 ≤ cap then (if ok then ⟨k, 0, 0, 0⟩ else ⟨0, k, 0, 0⟩)
      else (if ok then ⟨cap, 0, 0, 1⟩ else ⟨0, cap, 0, 1⟩) := by
  have hx : (manyChecks name k ok).xskip = false := rfl
  obtain ⟨f1, f2, f3, f4⟩ := filter_replicate_recOf k ok
  obtain ⟨g1, g2, g3, g4⟩ := filter_replicate_recOf cap ok
  by_cases hfit : k + 1 ≤ cap
  · obtain ⟨hp, hd, hl⟩ := runCode_fits cap k ok name hfit
    have hfilt : (List.replicate k (recOf ok) ++ [Rec.completion]).filter (· != .completion) = List.replicate k (recOf ok) := by
      rw [List.filter_append, filter_ne_completion _ f4]; simp
    simp only [Test.truth, hx, Bool.false_eq_true, if_false, Proc.truth, hp, hd, hl, hfit, if_true, hfilt, f1, f2]
    cases ok <;> simp [f3, Cnt.add_def, Cnt.zero_def] <;> simp_all
  · obtain ⟨hp, hd, hl⟩ := runCode_overflows cap k ok name (by omega)
    simp only [Test.truth, hx, Bool.false_eq_true, if_false, Proc.truth, hp, hd, hl, hfit,
      filter_ne_completion _ g4, g1, g2]
    cases ok <;> simp [g3, Cnt.add_def, Cnt.zero_def, Rec.cnt] <;> simp_all

/-- … and the overflowing test is an instance the refinement theorem covers (it never skipped), so the
run reports exactly these counts for it, an exception and a failing verdict when it overflowed, and
every other test as if it were absent (C02, C03). -/
theorem C18_ok (cap k : Nat) (ok : Bool) (name : String) : (manyChecks name k ok).ok cap .fork false false := by
  intro _
  refine ⟨?_, by intro h; cases h⟩
  intro _
  by_cases hfit : k + 1 ≤ cap
  · rw [(runCode_fits cap k ok name hfit).1]
    cases ok <;> simp [recOf, List.mem_replicate]
  · rw [(runCode_overflows cap k ok name (by omega)).1]
    cases ok <;> simp [recOf, List.mem_replicate]

/-- The run with an overflowing test: exactly `cap` results and one exception are reported for it. -/
example : (run ⟨4, .fork, .text⟩ (.node "top" false false [] [manyChecks "big" 9 true, manyChecks "next" 2 false])).tot = ⟨4, 2, 0, 1⟩ := by decide
example : (manyChecks "t" 4095 true).truth 4096 false false = ⟨4095, 0, 0, 0⟩ := by rw [C18_counts]; simp
example : (manyChecks "t" 4096 true).truth 4096 false false = ⟨4096, 0, 0, 1⟩ := by rw [C18_counts]; simp

end Cgreen
