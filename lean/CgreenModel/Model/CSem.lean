import CgreenModel.Model.Compare
/-
  What the comparator translator (translate/comparators.py) renders C into: integer expressions are `Int`s with an explicit
  `wrap` wherever the clang AST shows a conversion or an arithmetic operation in a type; strings are byte lists without NUL,
  `none` is the NULL pointer; a pointer into a string is the suffix it points at; libc's `strlen`, `strcmp`, `memcmp`, `strstr`
  are the definitions below (assumed specifications, see DESIGN.md section 10). Core Lean only.
-/
namespace Cgreen.CSem
open Cgreen.Cmp (CStr)

/-- Conversion to an integer type of `bits` bits (two's complement when signed). -/
def wrap (bits : Nat) (signed : Bool) (x : Int) : Int :=
  if signed then (x + 2 ^ (bits - 1)) % 2 ^ bits - 2 ^ (bits - 1) else x % 2 ^ bits

/-- `strlen`, a `size_t`. -/
def strlen (s : CStr) : Int := s.length

/-- `strcmp`: the sign of the first difference (bytes compared as unsigned char; the end of a string is smaller than any byte). -/
def strcmp : CStr → CStr → Int
  | [], [] => 0
  | [], _ :: _ => -1
  | _ :: _, [] => 1
  | a :: as, b :: bs => if a = b then strcmp as bs else if a < b then -1 else 1

/-- `memcmp` on the first `n` bytes of two blocks that are at least that long. -/
def memcmp (p q : List UInt8) (n : Int) : Int := strcmp (p.take n.toNat) (q.take n.toNat)

/-- `strstr`: where the first occurrence starts, `none` for NULL. -/
def strstr (h n : CStr) : Option Nat := Cgreen.Cmp.strstr h n

/-- `&s[k]`: the string that starts `k` bytes into `s`. -/
def suffix (s : CStr) (k : Int) : CStr := s.drop k.toNat

/-- Everything a `compare_*` function can look at: the expected value stored in the constraint and the actual value, each
through the union members the functions use, and `size_of_expected_value`. -/
structure Args where
  eInt : Int := 0
  aInt : Int := 0
  eStr : CStr := []
  aStr : CStr := []
  eMem : List UInt8 := []
  aMem : Option (List UInt8) := none
  size : Int := 0

end Cgreen.CSem
