/-
  Model of cgreen's test runner: the result channel (messaging.c / posix_cgreen_pipe.c), the result
  reader (reporter.c), the per-test execution sequence (runner.c: run_the_test_code), process handling
  (posix_runner_platform.c) and the suite traversal with the reporters' counter folding
  (runner.c: run_every_test / run_named_test; *_reporter.c: start_suite / finish_suite).

  Core Lean only. Every definition is total and executable; `Driver/Main.lean` runs them on scenario
  files and the correspondence check compares the result with the real library.
-/
namespace Cgreen

/-- Records that travel through the result channel (`enum { pass = 1, fail, skipped, completion, exception }`). -/
inductive Rec | pass | fail | skipped | completion | exception
  deriving DecidableEq, Repr, Inhabited

/-- The four counters of a reporter (`passes failures skips exceptions`). -/
structure Cnt where
  p : Nat := 0
  f : Nat := 0
  s : Nat := 0
  e : Nat := 0
  deriving DecidableEq, Repr, Inhabited

namespace Cnt
def zero : Cnt := {}
def add (a b : Cnt) : Cnt := ⟨a.p + b.p, a.f + b.f, a.s + b.s, a.e + b.e⟩
instance : Add Cnt := ⟨add⟩
instance : OfNat Cnt 0 := ⟨zero⟩
theorem add_def (a b : Cnt) : a + b = ⟨a.p + b.p, a.f + b.f, a.s + b.s, a.e + b.e⟩ := rfl
theorem zero_def : (0 : Cnt) = ⟨0, 0, 0, 0⟩ := rfl
@[simp] theorem add_zero (a : Cnt) : a + 0 = a := by cases a; simp [add_def, zero_def]
@[simp] theorem zero_add (a : Cnt) : 0 + a = a := by cases a; simp [add_def, zero_def]
theorem add_assoc (a b c : Cnt) : a + b + c = a + (b + c) := by
  simp only [add_def]; congr 1 <;> omega
theorem add_comm (a b : Cnt) : a + b = b + a := by
  simp only [add_def]; congr 1 <;> omega
theorem add_left_cancel {a b c : Cnt} (h : a + b = a + c) : b = c := by
  cases a; cases b; cases c; simp only [add_def, Cnt.mk.injEq] at h ⊢; omega
theorem add_right_cancel {a b c : Cnt} (h : b + a = c + a) : b = c := by
  cases a; cases b; cases c; simp only [add_def, Cnt.mk.injEq] at h ⊢; omega
instance : Std.Associative (α := Cnt) (· + ·) := ⟨add_assoc⟩
instance : Std.Commutative (α := Cnt) (· + ·) := ⟨add_comm⟩
end Cnt

/-- What one record adds to the counters when the reader counts it. -/
def Rec.cnt : Rec → Cnt
  | .pass => ⟨1, 0, 0, 0⟩
  | .fail => ⟨0, 1, 0, 0⟩
  | .skipped => ⟨0, 0, 1, 0⟩
  | .exception => ⟨0, 0, 0, 1⟩
  | .completion => 0

/-- How a process running test code can end before the test is complete. -/
inductive Death
  | signal (n : Nat)   -- killed by signal n (SIGSEGV, SIGKILL, SIGABRT, SIGTERM, SIGPIPE, SIGALRM …)
  | exit0              -- `exit(0)`
  | uexit0             -- `_exit(0)`
  | overrun            -- still running when the per-test time limit expires (C14)
  deriving DecidableEq, Repr, Inhabited

/-- What the code of a test (fixtures and body) can do, as far as the framework can tell. -/
inductive Act
  | check (ok : Bool)   -- an assertion or a mock check made at call time
  | skip                -- `skip_test()`
  | decl (ok : Bool)    -- a mock declaration that yields one check with result `ok` at tally time
  | die (d : Death)     -- the process running the test ends here
  deriving DecidableEq, Repr, Inhabited

inductive Phase | suiteSetup | ctxSetup | body | ctxTeardown | suiteTeardown | tally
  deriving DecidableEq, Repr, Inhabited

/-- Where the verification hook (`CGREEN_VERIF_KILLPOINT`) ends the process that runs a test: at a
named point of `run_the_test_code` (an index into the test's script), just before or just after the
k-th record write, or after the completion notice has been written (during process exit). -/
structure KillPlan where
  atStep : Option Nat := none
  atWrite : Option (Nat × Bool) := none      -- (k, after?) ; k counts from 1
  late : Bool := false
  how : Death := .signal 9
  deriving Repr, Inhabited

/-- A test as registered: `xskip` is `xEnsure`; `ctx` is `some (setup, teardown)` when the test belongs
to a `Describe`d context (whose BeforeEach/AfterEach do `setup`/`teardown`), `none` for the default
context. -/
structure Test where
  name : String
  xskip : Bool := false
  ctx : Option (List Act × List Act) := none
  body : List Act := []
  kill : Option KillPlan := none
  deriving Repr, Inhabited

/-- A suite after the normalisation `run_every_test` performs: sub-suites first (in registration
order), then the suite's own tests (in registration order). `su`/`td`: the suite has a setup/teardown
of its own (`set_setup`/`set_teardown`); suite fixtures only log, they make no checks (modelling
restriction, see DESIGN.md). -/
inductive Tree
  | node (name : String) (su td : Bool) (subs : List Tree) (tests : List Test)
  deriving Inhabited

/-- One step of the flattened script of a test. -/
inductive Step
  | ev (p : Phase)
  | act (a : Act)
  | tallyNow            -- `tally_mocks`: one check per declaration made so far
  deriving DecidableEq, Repr, Inhabited

/-- `run_the_test_code`: setup (suite's if it has one, else the context's), body, teardown (same rule,
applied independently), mock tally. -/
def script (su td : Bool) (t : Test) : List Step :=
  (if su then [Step.ev .suiteSetup]
   else match t.ctx with
     | some (s, _) => Step.ev .ctxSetup :: s.map Step.act
     | none => [])
  ++ Step.ev .body :: t.body.map Step.act
  ++ (if td then [Step.ev .suiteTeardown]
      else match t.ctx with
        | some (_, d) => Step.ev .ctxTeardown :: d.map Step.act
        | none => [])
  ++ [Step.ev .tally, Step.tallyNow]

/-- State of a process that is executing test code. -/
structure Proc where
  pipe : List Rec              -- the channel's content (shared with the parent)
  trace : List Phase := []     -- phases entered (event log)
  fails : Nat := 0             -- failing checks executed (each prints a failure message at once)
  decls : List Bool := []      -- tally results owed
  dead : Option Death := none  -- `some d`: the process has ended early
  sends : Nat := 0             -- records written so far by this process
  killWrite : Option (Nat × Bool) := none   -- kill plan: before/after the k-th write
  how : Death := .signal 9                  -- … and how
  late : Option Death := none  -- killed after the completion notice was written
  deriving Repr, Inhabited

/-- `send_cgreen_message` on a non-blocking pipe holding at most `cap` records: a write into a full
pipe fails with EWOULDBLOCK and the writer raises SIGPIPE (posix_cgreen_pipe.c). -/
def Proc.send (cap : Nat) (pr : Proc) (r : Rec) : Proc :=
  if pr.dead.isSome then pr
  else if pr.killWrite = some (pr.sends + 1, false) then { pr with dead := some pr.how }
  else if pr.pipe.length < cap then
    if pr.killWrite = some (pr.sends + 1, true)
    then { pr with pipe := pr.pipe ++ [r], sends := pr.sends + 1, dead := some pr.how }
    else { pr with pipe := pr.pipe ++ [r], sends := pr.sends + 1 }
  else { pr with dead := some (.signal 13) }

def recOf (ok : Bool) : Rec := if ok then .pass else .fail

/-- A check: a failing one prints its message first (`show_fail`), then the record is sent. -/
def Proc.check (cap : Nat) (pr : Proc) (ok : Bool) : Proc :=
  if pr.dead.isSome then pr
  else ({ pr with fails := if ok then pr.fails else pr.fails + 1 } : Proc).send cap (recOf ok)

def Proc.checks (cap : Nat) (pr : Proc) : List Bool → Proc
  | [] => pr
  | ok :: oks => (pr.check cap ok).checks cap oks

def Proc.step (cap : Nat) (pr : Proc) : Step → Proc
  | .ev ph => if pr.dead.isSome then pr else { pr with trace := pr.trace ++ [ph] }
  | .act (.check ok) => pr.check cap ok
  | .act .skip => pr.send cap .skipped
  | .act (.decl ok) => if pr.dead.isSome then pr else { pr with decls := pr.decls ++ [ok] }
  | .act (.die d) => if pr.dead.isSome then pr else { pr with dead := some d }
  | .tallyNow => pr.checks cap pr.decls

def Proc.steps (cap : Nat) (pr : Proc) : List Step → Proc
  | [] => pr
  | s :: ss => (pr.step cap s).steps cap ss

/-- The script with the kill plan's named point made explicit. -/
def scriptOf (su td : Bool) (t : Test) : List Step :=
  match t.kill with
  | some { atStep := some i, how := d, .. } => (script su td t).take i ++ Step.act (.die d) :: (script su td t).drop i
  | _ => script su td t

def planOf (t : Test) : KillPlan := t.kill.getD {}

def Death.isSignal : Death → Bool
  | .signal _ => true
  | _ => false

/-- The completion notice. Once it is written the test is complete: an `exit` right after it is what
the process does anyway; only a signal still kills it (`late`). -/
def Proc.sendCompletion (cap : Nat) (pr : Proc) (lateKill : Bool) : Proc :=
  if pr.dead.isSome then pr
  else if pr.killWrite = some (pr.sends + 1, false) then { pr with dead := some pr.how }
  else if pr.pipe.length < cap then
    { pr with pipe := pr.pipe ++ [.completion], sends := pr.sends + 1,
              late := if (pr.killWrite = some (pr.sends + 1, true) || lateKill) && pr.how.isSignal
                      then some pr.how else none }
  else { pr with dead := some (.signal 13) }

/-- The code a process runs for a test: the script, then the completion notice. -/
def runCode (cap : Nat) (pipe : List Rec) (su td : Bool) (t : Test) : Proc :=
  (({ pipe := pipe, killWrite := (planOf t).atWrite, how := (planOf t).how } : Proc).steps cap (scriptOf su td t)).sendCompletion
    cap (planOf t).late

inductive Finish | received | skippedSt | notReceived
  deriving DecidableEq, Repr, Inhabited

/-- `read_reporter_results`: count records until the completion notice or until the channel is empty.
A test counts as skipped once, however many `skipped` records it sent. Returns the counters, what is
left in the channel, and the finish status. -/
def readResults : Cnt → Bool → List Rec → Cnt × List Rec × Finish
  | c, sk, [] => (c, [], if sk then .skippedSt else .notReceived)
  | c, sk, .completion :: q => (c, q, if sk then .skippedSt else .received)
  | c, sk, .skipped :: q => readResults (if sk then c else c + Rec.skipped.cnt) true q
  | c, sk, .pass :: q => readResults (c + Rec.pass.cnt) sk q
  | c, sk, .fail :: q => readResults (c + Rec.fail.cnt) sk q
  | c, sk, .exception :: q => readResults (c + Rec.exception.cnt) sk q

/-- The reader as it was at the pinned commit (finding F01): it returns at the first `skipped` record,
leaving the rest of that test's records in the channel. Kept as the witness of the defect. -/
def readResultsOld : Cnt → List Rec → Cnt × List Rec × Finish
  | c, [] => (c, [], .notReceived)
  | c, .completion :: q => (c, q, .received)
  | c, .skipped :: q => (c + Rec.skipped.cnt, q, .skippedSt)
  | c, .pass :: q => readResultsOld (c + Rec.pass.cnt) q
  | c, .fail :: q => readResultsOld (c + Rec.fail.cnt) q
  | c, .exception :: q => readResultsOld (c + Rec.exception.cnt) q

/-- Execution mode. `fork`: each test in a process of its own; `inproc`: CGREEN_NO_FORK or
run_single_test — test code runs in the process that owns the verdict. -/
inductive Mode | fork | inproc
  deriving DecidableEq, Repr, Inhabited

/-- What the run prints / logs, abstracted from any reporter's wording. -/
inductive Out
  | suiteStart (path : List String)
  | testStart (path : List String)
  | ev (proc : Nat) (path : List String) (ph : Phase)          -- event log of fixtures/body/tally
  | failLines (path : List String) (n : Nat)                    -- n failure messages printed for this test
  | excLine (path : List String)                                -- one exception message
  | testEnd (path : List String) (delta : Cnt) (st : Finish)    -- what the parent credited to this test
  | suiteEnd (path : List String) (own : Cnt)                   -- the suite's own line
  | totals (c : Cnt)
  deriving Repr, Inhabited

/-- State of the process that owns the verdict. -/
structure St where
  pipe : List Rec := []
  cur : Cnt := 0          -- reporter->passes … (current suite)
  tot : Cnt := 0          -- reporter->total_…
  out : List Out := []
  nproc : Nat := 0        -- children forked so far (process ids for the event log)
  halted : Option Death := none   -- the run itself ended (in-process death of test code)
  deriving Repr, Inhabited

/-- The built-in reporters. They differ in presentation (not modelled) and in one piece of logic: CUTE
and CDash finish a suite through `reporter_finish_test` (a missing completion notice for the suite
would be counted as an exception), the others through `reporter_finish_suite`. -/
inductive Reporter | text | quiet | cute | xml | libxml | cdash
  deriving DecidableEq, Repr, Inhabited

def Reporter.suiteViaFinishTest : Reporter → Bool
  | .cute => true
  | .cdash => true
  | _ => false

structure Cfg where
  cap : Nat := 4096
  mode : Mode := .fork
  rep : Reporter := .text
  deriving Repr, Inhabited

def evs (proc : Nat) (path : List String) (tr : List Phase) : List Out := tr.map (Out.ev proc path)

/-- Does the parent pass a message to `finish_test`? Exactly when the child was killed by a signal. -/
def signalMsg : Option Death → Bool
  | some (.signal _) => true
  | _ => false

/-- `reporter_finish_test`: read; an unreceived completion is one exception, and so is a completed
test whose process was then killed by a signal (`msg`). -/
def finishTest (s : St) (path : List String) (msg : Bool) : St :=
  let r := readResults s.cur false s.pipe
  let st := r.2.2
  let exc : Bool := st = .notReceived || (st = .received && msg)
  let c' := if exc then r.1 + Rec.exception.cnt else r.1
  let delta : Cnt := ⟨c'.p - s.cur.p, c'.f - s.cur.f, c'.s - s.cur.s, c'.e - s.cur.e⟩
  { s with pipe := r.2.1, cur := c',
           out := s.out ++ ((if exc then [Out.excLine path] else []) ++ [Out.testEnd path delta st]) }

/-- One test (`run_test_in_its_own_process` / `run_test_in_the_current_process`). -/
def runTest (cfg : Cfg) (su td : Bool) (path : List String) (s : St) (t : Test) : St :=
  if s.halted.isSome then s else
  let tp := path ++ [t.name]
  let s := { s with out := s.out ++ [Out.testStart tp] }
  if t.xskip then
    -- the parent itself sends the `skipped` record, then reads
    let pr := ({ pipe := s.pipe } : Proc).send cfg.cap .skipped
    match pr.dead with
    | some d => { s with pipe := pr.pipe, halted := some d }
    | none => finishTest { s with pipe := pr.pipe } tp false
  else
    let pr := runCode cfg.cap s.pipe su td t
    match cfg.mode with
    | .fork =>
        finishTest { s with pipe := pr.pipe, nproc := s.nproc + 1,
                            out := s.out ++ (evs (s.nproc + 1) tp pr.trace ++ [Out.failLines tp pr.fails]) } tp
          (signalMsg (pr.dead <|> pr.late))
    | .inproc =>
        let s := { s with pipe := pr.pipe,
                          out := s.out ++ (evs 0 tp pr.trace ++ [Out.failLines tp pr.fails]) }
        match pr.dead with
        | some d => { s with halted := some d }
        | none => finishTest s tp false

def runTests (cfg : Cfg) (su td : Bool) (path : List String) (s : St) : List Test → St
  | [] => s
  | t :: ts => runTests cfg su td path (runTest cfg su td path s t) ts

/-- `finish_suite` of every reporter: the parent has just sent a completion notice for the suite; read
the channel up to it and fold the suite's counters into the totals. -/
def finishSuite (cfg : Cfg) (s : St) (path : List String) : St :=
  if s.halted.isSome then s else
  let pr := ({ pipe := s.pipe } : Proc).send cfg.cap .completion
  match pr.dead with
  | some d => { s with pipe := pr.pipe, halted := some d }
  | none =>
    let r := readResults s.cur false pr.pipe
    let c := if cfg.rep.suiteViaFinishTest && r.2.2 = .notReceived then r.1 + Rec.exception.cnt else r.1
    { s with pipe := r.2.1, cur := c, tot := s.tot + c, out := s.out ++ [Out.suiteEnd path c] }

mutual
/-- `run_every_test`. -/
def runSuite (cfg : Cfg) (parent : List String) (s : St) : Tree → St
  | .node name su td subs tests =>
    if s.halted.isSome then s else
    let path := parent ++ [name]
    let s := { s with cur := 0, out := s.out ++ [Out.suiteStart path] }        -- start_suite resets the counters
    let s := runSubs cfg path su td s subs
    let s := { s with cur := 0 }                                               -- "Reset counters for top-level tests"
    let s := runTests cfg su td path s tests
    finishSuite cfg s path
/-- The sub-suites of a suite, each bracketed by the parent suite's setup and teardown. -/
def runSubs (cfg : Cfg) (path : List String) (su td : Bool) (s : St) : List Tree → St
  | [] => s
  | c :: cs =>
    if s.halted.isSome then s else
    let s := { s with out := s.out ++ (if su then [Out.ev 0 path .suiteSetup] else []) }
    let s := runSuite cfg path s c
    let s := if s.halted.isSome then s else
             { s with out := s.out ++ (if td then [Out.ev 0 path .suiteTeardown] else []) }
    runSubs cfg path su td s cs
end

/-- Exit status of the run: `some 0` success, `some 1` failure, `none` = the run did not finish (the
process was killed or exited from inside test code; see `St.halted`). -/
def verdict (s : St) : Option Nat :=
  if s.halted.isSome then none
  else some (if s.tot.f == 0 && s.tot.e == 0 then 0 else 1)

/-- `has_test`. -/
def hasTestIn (name : String) : List Test → Bool
  | [] => false
  | t :: ts => t.name == name || hasTestIn name ts

mutual
def Tree.hasTest (name : String) : Tree → Bool
  | .node _ _ _ subs tests => hasTestIn name tests || hasTestSubs name subs
def hasTestSubs (name : String) : List Tree → Bool
  | [] => false
  | c :: cs => c.hasTest name || hasTestSubs name cs
end

mutual
/-- The part of the tree `run_named_test` traverses: sub-suites that contain the name, tests that bear it. -/
def Tree.restrict (name : String) : Tree → Tree
  | .node n su td subs tests => .node n su td (restrictSubs name subs) (tests.filter (·.name == name))
def restrictSubs (name : String) : List Tree → List Tree
  | [] => []
  | c :: cs => if c.hasTest name then c.restrict name :: restrictSubs name cs else restrictSubs name cs
end

/-- How the process that owns the verdict ends, as its caller (a shell, CI) sees it. -/
inductive ProcEnd
  | returned (status : Nat)   -- run_test_suite()/run_single_test() returned this status
  | exited (code : Nat)       -- the process exited from inside test code
  | killed (sig : Nat)        -- the process was killed by a signal raised inside test code
  deriving DecidableEq, Repr, Inhabited

/-- In-process execution: an `exit()` from inside a test (also the one the time-limit handler makes)
is turned into a failing exit status by the runner's exit guard; `_exit()` cannot be intercepted. -/
def St.procEnd (s : St) : ProcEnd :=
  match s.halted with
  | none => .returned (if s.tot.f == 0 && s.tot.e == 0 then 0 else 1)
  | some (.signal n) => .killed n
  | some .exit0 => .exited 1
  | some .overrun => .exited 1
  | some .uexit0 => .exited 0

/-- Does the way the run ended tell its caller "success"? -/
def ProcEnd.success : ProcEnd → Bool
  | .returned n => n == 0
  | .exited n => n == 0
  | .killed _ => false

def run (cfg : Cfg) (t : Tree) : St :=
  let s := runSuite cfg [] {} t
  if s.halted.isSome then s else { s with out := s.out ++ [Out.totals s.tot] }

/-! ### What happened, computed from the scripts alone (the specification side) -/

/-- The counts of a finished process: every check it delivered before ending, one skip if it called
`skip_test()`, one exception if it did not complete. -/
def Proc.truth (pr : Proc) : Cnt :=
  let delivered := pr.pipe.filter (· != .completion)
  let skippedOnce : Cnt := if Rec.skipped ∈ delivered then Rec.skipped.cnt else 0
  let checks : Cnt := ⟨(delivered.filter (· == .pass)).length, (delivered.filter (· == .fail)).length, 0, 0⟩
  checks + skippedOnce + (if pr.dead.isSome || pr.late.isSome then Rec.exception.cnt else 0)

/-- The counts a test contributes when it runs alone on an empty channel of capacity `cap`. -/
def Test.truth (cap : Nat) (su td : Bool) (t : Test) : Cnt :=
  if t.xskip then Rec.skipped.cnt else (runCode cap [] su td t).truth

def truthTests (cap : Nat) (su td : Bool) : List Test → Cnt
  | [] => 0
  | t :: ts => t.truth cap su td + truthTests cap su td ts

mutual
def Tree.truth (cap : Nat) : Tree → Cnt
  | .node _ su td subs tests => truthSubs cap subs + truthTests cap su td tests
def truthSubs (cap : Nat) : List Tree → Cnt
  | [] => 0
  | c :: cs => c.truth cap + truthSubs cap cs
end

/-- `run_single_test`: the named test(s), in the current process. -/
def runNamed (cfg : Cfg) (name : String) (t : Tree) : St :=
  run { cfg with mode := .inproc } (t.restrict name)

end Cgreen
