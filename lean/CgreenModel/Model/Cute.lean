/-
  Model of what the CUTE reporter says about one test (src/cute_reporter.c: `cute_start_test`, `show_fail`,
  `cute_failed_to_complete`, `cute_finish_test`): the baseline `error_count` taken from the suite's counters when the
  test starts, the per-process flag `previous_error` ("a failure line has been shown for this test"), and the
  `#success` decision taken after the test's results have been read. Core Lean only.
-/
namespace Cgreen.Cute

/-- The reporter's memo. In forking mode the test's process works on a copy of it. -/
structure Memo where
  errorCount : Nat
  previousError : Bool
  deriving DecidableEq, Repr

/-- The suite's counters as far as CUTE looks at them. -/
structure Counters where
  failures : Nat
  exceptions : Nat
  deriving DecidableEq, Repr

inductive Line | starting | failure | error | success
  deriving DecidableEq, Repr

/-- `cute_start_test`: the baseline and the flag are set anew for every test. -/
def startTest (_m : Memo) (k : Counters) : Memo × List Line :=
  ({ errorCount := k.failures + k.exceptions, previousError := false }, [.starting])

/-- Variants of `cute_start_test` that seeded changes produced: the flag set once per reporter (C13-A6, C13-B8, C03-B10), the
baseline kept when the counters were reset underneath it (C17-B). -/
def startTestKeepFlag (m : Memo) (k : Counters) : Memo × List Line :=
  ({ errorCount := k.failures + k.exceptions, previousError := m.previousError }, [.starting])
def startTestKeepBaseline (m : Memo) (_k : Counters) : Memo × List Line :=
  ({ errorCount := m.errorCount, previousError := false }, [.starting])

/-- `show_fail`: only the first failed check of a test gets a line. -/
def showFail (m : Memo) : Memo × List Line :=
  if m.previousError then (m, []) else ({ m with previousError := true }, [.failure])

def showFails (m : Memo) : Nat → Memo × List Line
  | 0 => (m, [])
  | n + 1 => let (m', l) := showFail m; let (m'', ls) := showFails m' n; (m'', l ++ ls)

/-- `cute_finish_test` after `reporter_finish_test` has read the test's results: `delivered` failure records were counted,
and an abnormal end is one exception (with its `#error` line). -/
def finishTest (m : Memo) (k : Counters) (delivered : Nat) (abnormal : Bool) : Counters × List Line :=
  let k' : Counters := { failures := k.failures + delivered, exceptions := k.exceptions + (if abnormal then 1 else 0) }
  (k', (if abnormal then [.error] else []) ++ (if m.errorCount == k'.failures + k'.exceptions then [.success] else []))

/-- One test: it fails `shown` checks (each is shown in the test's process), `delivered` of the records arrive (all of them unless
the process dies between a display and its delivery), and it may end abnormally. `forked`: the test's process works on a
copy of the memo, the reporting process keeps the one `start` made. -/
def runTest (start : Memo → Counters → Memo × List Line) (forked : Bool) (m : Memo) (k : Counters) (shown delivered : Nat) (abnormal : Bool) :
    Memo × Counters × List Line :=
  let (m1, l1) := start m k
  let (mc, l2) := showFails m1 shown
  let mp := if forked then m1 else mc
  let (k', l3) := finishTest mp k delivered abnormal
  (mp, k', l1 ++ l2 ++ l3)

/-- The tests of one suite one after the other (the counters run on, as between the tests of a suite). -/
def runTests (start : Memo → Counters → Memo × List Line) (forked : Bool) (m : Memo) (k : Counters) :
    List (Nat × Nat × Bool) → List (List Line)
  | [] => []
  | (s, d, a) :: rest =>
    let (m', k', ls) := runTest start forked m k s d a
    ls :: runTests start forked m' k' rest

/-- What the property says CUTE shows for a test. -/
def spec (shown delivered : Nat) (abnormal : Bool) : List Line :=
  [.starting] ++ (if shown > 0 then [.failure] else []) ++ (if abnormal then [.error] else [])
    ++ (if delivered = 0 ∧ abnormal = false then [.success] else [])

end Cgreen.Cute
