/-
  Model of test discovery and selection in cgreen-runner (tools/discoverer.c, tools/test_item.c,
  tools/runner.c, tools/cgreen-runner.c): parsing of the specification symbols `nm` lists, the sort of
  the discovered list, matching of `Context:name` patterns (literal characters and `*`, as `fnmatch`
  treats them), the choice between running one test and running a suite, the exit status, and the scan
  of the command line into libraries and patterns. Core Lean only.
-/
namespace Cgreen.Sel

abbrev Str := List Char

structure Item where
  ctx : Str
  name : Str
  deriving DecidableEq, Repr, Inhabited

def sep : Str := ['_', '_']
def prefixSpec : Str := "CgreenSpec__".toList

/-- The symbol the `Ensure` macro defines for a test. -/
def specSymbol (i : Item) : Str := prefixSpec ++ i.ctx ++ sep ++ i.name ++ sep

/-- Everything before the first `__` (`strstr(start, "__")`), and what follows that `__`. -/
def splitAtSep : Str → Option (Str × Str)
  | [] => none
  | [_] => none
  | c :: d :: s =>
    if c == '_' && d == '_' then some ([], s)
    else (splitAtSep (d :: s)).map (fun (a, b) => (c :: a, b))

/-- `create_test_item_from`: context = up to the next `__`; test name = from there to the next `__` (or the end). -/
def parseSpec (sym : Str) : Option Item :=
  if prefixSpec.isPrefixOf sym then
    match splitAtSep (sym.drop prefixSpec.length) with
    | some (ctx, rest) =>
      match splitAtSep rest with
      | some (name, _) => some ⟨ctx, name⟩
      | none => some ⟨ctx, rest⟩
    | none => none
  else none

/-- `fnmatch(pattern, string, 0)` for patterns made of literal characters and `*` (fuel: the sum of the
lengths suffices; structural recursion keeps the function computable by the kernel). -/
def globF : Nat → Str → Str → Bool
  | 0, _, _ => false
  | _ + 1, [], s => s.isEmpty
  | n + 1, c :: p, s =>
    if c == '*' then
      globF n p s || (match s with | [] => false | _ :: t => globF n (c :: p) t)
    else match s with
      | [] => false
      | d :: t => c == d && globF n p t

def glob (p s : Str) : Bool := globF (p.length + s.length + 1) p s

/-- A pattern `Context:name`; without a colon the context is `default`. -/
def contextOf (pat : Str) : Str := if pat.contains ':' then pat.takeWhile (· != ':') else "default".toList
def nameOf (pat : Str) : Str := if pat.contains ':' then (pat.dropWhile (· != ':')).drop 1 else pat

/-- `test_matches_pattern`. -/
def matchesPat (pat : Str) (i : Item) : Bool := glob (contextOf pat) i.ctx && glob (nameOf pat) i.name

/-- The selection (`add_matching_tests_to_suite`): all discovered tests without a pattern. -/
def selected (pat : Option Str) (tests : List Item) : List Item :=
  match pat with
  | none => tests
  | some p => tests.filter (matchesPat p)

/-- `sorted_test_items_from`: repeatedly move the smallest (first among equals) name to the result. -/
def strLt : Str → Str → Bool
  | _, [] => false
  | [], _ :: _ => true
  | a :: s, b :: t => a.toNat < b.toNat || (a == b && strLt s t)

def insertSorted (x : Item) : List Item → List Item
  | [] => [x]
  | y :: ys => if strLt x.name y.name then x :: y :: ys else y :: insertSorted x ys

/-- The sorted list (as a set-with-multiplicity it is the discovered list; only the order among equal names is
implementation-defined and not modelled). -/
def sortItems : List Item → List Item
  | [] => []
  | x :: xs => insertSorted x (sortItems xs)

/-- What `runner()` does with one library: which tests it executes and whether it reports failure.
`fails t` says whether test `t` fails when executed. -/
structure Outcome where
  executed : List Item
  failure : Bool
  deriving Repr, DecidableEq

def runLibrary (tests : List Item) (pat : Option Str) (fails : Item → Bool) : Outcome :=
  if tests.isEmpty then ⟨[], true⟩                             -- "No tests found"
  else
    let sel := selected pat (sortItems tests)
    if sel.isEmpty then ⟨[], true⟩                               -- "No such test"
    else ⟨sel, sel.any fails⟩                                    -- one match: run_single_test on that test's name; several: run_test_suite

/-- The pinned commit's single-match path (finding F20): the *pattern's* name part was handed to
`run_single_test`, so a wildcard pattern matching exactly one test ran nothing and reported success. -/
def runLibraryOld (tests : List Item) (pat : Option Str) (fails : Item → Bool) : Outcome :=
  if tests.isEmpty then ⟨[], true⟩
  else
    let sel := selected pat (sortItems tests)
    if sel.isEmpty then ⟨[], true⟩
    else match pat, sel with
      | some p, [_] => let ex := sel.filter (fun i => i.name == nameOf p); ⟨ex, ex.any fails⟩
      | _, _ => ⟨sel, sel.any fails⟩

/-- The command line: each library is followed by an optional pattern — the next argument, if it is not
an existing file. -/
def scanArgs (exists_ : Str → Bool) : List Str → List (Str × Option Str)
  | [] => []
  | [lib] => [(lib, none)]
  | lib :: nxt :: rest =>
    if exists_ nxt then (lib, none) :: scanArgs exists_ (nxt :: rest)
    else (lib, some nxt) :: scanArgs exists_ rest

/-- The runner's exit status: failure iff some library is missing, or some library reports failure; libraries
after a missing one are not run (`break`). -/
def runAll (exists_ : Str → Bool) (lib : Str → List Item) (fails : Item → Bool) : List (Str × Option Str) → List Item × Bool
  | [] => ([], false)
  | (l, p) :: rest =>
    if !exists_ l then ([], true)
    else
      let o := runLibrary (lib l) p fails
      let r := runAll exists_ lib fails rest
      (o.executed ++ r.1, o.failure || r.2)

end Cgreen.Sel
