import CgreenModel.Model.Runner
/-!
# Model of what the XML reporters write (src/xml_reporter.c, src/libxml_reporter.c)

* `escape`/`decode`/`translit`: the plain XML reporter's treatment of a failure message, a name or a
  file text before it goes between the quotes of an attribute (bytes are `Nat`s below 256).
* `getUTF8`/`escapeProp`: the libxml2 reporter's `xmlEscapePropValue()` on top of libxml2's
  `xmlGetUTF8Char()`; its output is a list of code points, every one of which XML allows.
* `xmlCases`: the `<testcase>` elements of a run as a function of the run's result lines.
Core Lean only.
-/
namespace Cgreen.Xml

/-! ## The plain XML reporter: bytes into an attribute value -/

/-- Bytes XML 1.0 cannot carry at all (not even as a character reference). -/
def forbidden (b : Nat) : Bool := b < 32 && b != 9 && b != 10 && b != 13

def hexDigit (n : Nat) : Nat := if n < 10 then 48 + n else 87 + n      -- '0'.. / 'a'..

/-- `\xNN`, the spelling both reporters use for a byte they cannot write. -/
def backslashX (b : Nat) : List Nat := [92, 120, hexDigit (b / 16), hexDigit (b % 16)]

def QUOT : List Nat := [38, 113, 117, 111, 116, 59]
def AMP : List Nat := [38, 97, 109, 112, 59]
def LT : List Nat := [38, 108, 116, 59]
def GT : List Nat := [38, 103, 116, 59]
def APOS : List Nat := [38, 97, 112, 111, 115, 59]

def escByte (b : Nat) : List Nat :=
  if b = 34 then QUOT else if b = 38 then AMP else if b = 60 then LT else if b = 62 then GT
  else if b = 39 then APOS else if forbidden b then backslashX b else [b]

/-- `xml_concat_escaped_message()` after formatting. -/
def escape (s : List Nat) : List Nat := s.flatMap escByte

/-- What a reader of the report can get back: the text with the bytes XML cannot carry spelled `\xNN`. -/
def translitByte (b : Nat) : List Nat := if forbidden b then backslashX b else [b]
def translit (s : List Nat) : List Nat := s.flatMap translitByte

/-- The message buffer of the plain XML reporter: the formatted message is cut to 999 bytes before it is escaped. -/
def MSGMAX : Nat := 999
def attrOfMessage (s : List Nat) : List Nat := escape (s.take MSGMAX)

/-- Decoding of the five predefined entities (what an XML parser does to an attribute value, apart from
white-space normalisation). -/
def decode : List Nat → List Nat
  | [] => []
  | 38 :: 113 :: 117 :: 111 :: 116 :: 59 :: r => 34 :: decode r
  | 38 :: 97 :: 109 :: 112 :: 59 :: r => 38 :: decode r
  | 38 :: 108 :: 116 :: 59 :: r => 60 :: decode r
  | 38 :: 103 :: 116 :: 59 :: r => 62 :: decode r
  | 38 :: 97 :: 112 :: 111 :: 115 :: 59 :: r => 39 :: decode r
  | b :: r => b :: decode r

/-- An attribute value (between double quotes) is well formed: no `"`, no `<`, no forbidden byte, and every
`&` starts one of the five predefined entities. -/
def attrOk : List Nat → Bool
  | [] => true
  | 38 :: 113 :: 117 :: 111 :: 116 :: 59 :: r => attrOk r
  | 38 :: 97 :: 109 :: 112 :: 59 :: r => attrOk r
  | 38 :: 108 :: 116 :: 59 :: r => attrOk r
  | 38 :: 103 :: 116 :: 59 :: r => attrOk r
  | 38 :: 97 :: 112 :: 111 :: 115 :: 59 :: r => attrOk r
  | b :: r => b != 38 && b != 34 && b != 60 && !forbidden b && attrOk r

/-! ## The libxml2 reporter: bytes into code points XML allows -/

/-- libxml2's `xmlGetUTF8Char()`: the code point at the head of the bytes and its length, or `none`. -/
def getUTF8 : List Nat → Option (Nat × Nat)
  | [] => none
  | c :: rest =>
    if c < 128 then some (c, 1) else
    match rest with
    | [] => none
    | b1 :: rest =>
      if ¬ (128 ≤ b1 ∧ b1 < 192) then none else
      if c < 224 then some ((c % 32) * 64 + b1 % 64, 2) else
      match rest with
      | [] => none
      | b2 :: rest =>
        if ¬ (128 ≤ b2 ∧ b2 < 192) then none else
        if c < 240 then some ((c % 16) * 4096 + (b1 % 64) * 64 + b2 % 64, 3) else
        match rest with
        | [] => none
        | b3 :: _ =>
          if c ≥ 248 ∨ ¬ (128 ≤ b3 ∧ b3 < 192) then none else
          some ((c % 8) * 262144 + (b1 % 64) * 4096 + (b2 % 64) * 64 + b3 % 64, 4)

def inR (c lo hi : Nat) : Bool := lo ≤ c && c ≤ hi

/-- `isNonRestrictedXMLChar()`. -/
def nonRestricted (c : Nat) : Bool :=
  c == 0x09 || c == 0x0A || c == 0x0D || inR c 0x20 0x7E || c == 0x85 || inR c 0xA0 0xD7FF
  || inR c 0xE000 0xFDCF || inR c 0xFDF0 0xFFFD
  || inR c 0x10000 0x1FFFD || inR c 0x20000 0x2FFFD || inR c 0x30000 0x3FFFD || inR c 0x40000 0x4FFFD
  || inR c 0x50000 0x5FFFD || inR c 0x60000 0x6FFFD || inR c 0x70000 0x7FFFD || inR c 0x80000 0x8FFFD
  || inR c 0x90000 0x9FFFD || inR c 0xA0000 0xAFFFD || inR c 0xB0000 0xBFFFD || inR c 0xC0000 0xCFFFD
  || inR c 0xD0000 0xDFFFD || inR c 0xE0000 0xEFFFD || inR c 0xF0000 0xFFFFD || inR c 0x100000 0x10FFFD

/-- `isOverlongUTF8()`. -/
def overlong (ucs len : Nat) : Bool :=
  (ucs ≤ 0x7f && len > 1) || (ucs ≤ 0x7ff && len > 2) || (ucs ≤ 0xffff && len > 3) || (ucs ≤ 0x10ffff && len > 4)

/-- XML 1.0's `Char` production. -/
def xmlChar (c : Nat) : Bool :=
  c == 0x9 || c == 0xA || c == 0xD || inR c 0x20 0xD7FF || inR c 0xE000 0xFFFD || inR c 0x10000 0x10FFFF

def escBytes (bs : List Nat) : List Nat := bs.flatMap backslashX

/-- The sequence at the head of the input as `xmlEscapePropValue()` takes it: libxml2's decoding, except
that a continuation byte never starts a sequence (`xmlGetUTF8Char()` would accept it). -/
def headSeq (s : List Nat) : Option (Nat × Nat) :=
  match s with
  | [] => none
  | c :: _ => if 128 ≤ c ∧ c < 192 then none else getUTF8 s

/-- `xmlEscapePropValue()`, as the characters the report will show (code points): `fuel` bounds the
iterations of the C loop (one per remaining byte suffices: every iteration consumes at least one byte). -/
def escapePropF : Nat → List Nat → List Nat
  | 0, _ => []
  | _, [] => []
  | fuel + 1, c :: rest =>
    match headSeq (c :: rest) with
    | some (ucs, len) =>
      if !overlong ucs len && nonRestricted ucs then ucs :: escapePropF fuel ((c :: rest).drop len)
      else escBytes ((c :: rest).take len) ++ escapePropF fuel ((c :: rest).drop len)
    | none => backslashX c ++ escapePropF fuel rest

def escapeProp (s : List Nat) : List Nat := escapePropF s.length s

/-- The bytes `xmlEscapePropValue()` returns (it copies the bytes of an accepted sequence as they are). -/
def escapePropBytesF : Nat → List Nat → List Nat
  | 0, _ => []
  | _, [] => []
  | fuel + 1, c :: rest =>
    match headSeq (c :: rest) with
    | some (ucs, len) =>
      if !overlong ucs len && nonRestricted ucs then (c :: rest).take len ++ escapePropBytesF fuel ((c :: rest).drop len)
      else escBytes ((c :: rest).take len) ++ escapePropBytesF fuel ((c :: rest).drop len)
    | none => backslashX c ++ escapePropBytesF fuel rest

def escapePropBytes (s : List Nat) : List Nat := escapePropBytesF s.length s

/-- UTF-8 encoding of a code point (for the round-trip statement). -/
def encodeUTF8 (c : Nat) : List Nat :=
  if c < 0x80 then [c]
  else if c < 0x800 then [192 + c / 64, 128 + c % 64]
  else if c < 0x10000 then [224 + c / 4096, 128 + (c / 64) % 64, 128 + c % 64]
  else [240 + c / 262144, 128 + (c / 4096) % 64, 128 + (c / 64) % 64, 128 + c % 64]

/-! ## The document: one testcase per executed test -/

structure XCase where
  path : List String
  failures : Nat
  errors : Nat
  skipped : Bool
deriving DecidableEq, Repr

/-- The `<testcase>` elements as a function of the result lines: failure elements are written by the test
as its checks fail (`failLines`), the `<error>` and `<skipped/>` children by the reporting process when the
test has ended (`excLine`, finish state), and the element is closed at `testEnd`. -/
def xmlCasesGo (f e : Nat) : List Out → List XCase
  | [] => []
  | .failLines _ n :: r => xmlCasesGo (f + n) e r
  | .excLine _ :: r => xmlCasesGo f (e + 1) r
  | .testEnd p _ st :: r => ⟨p, f, e, st == .skippedSt⟩ :: xmlCasesGo 0 0 r
  | _ :: r => xmlCasesGo f e r

def xmlCases (o : List Out) : List XCase := xmlCasesGo 0 0 o

end Cgreen.Xml
