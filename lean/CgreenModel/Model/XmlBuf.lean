/-
  Model of how the plain XML reporter carries a test's elements from the process that produces them to the
  suite's file (src/xml_reporter.c: `output`, `child_output_tmpfile`, `xml_reporter_start_test`,
  `length_of_output`, `append_to_child_output`, `xml_show_fail` / `xml_show_skip` / `xml_show_incomplete`,
  `transfer_output_from`, `xml_reporter_finish_test`).

  Every process has its own `output` text; the per-test temporary file is shared by the reporting process and the
  test's process (same open file, each appends at its end and flushes). A `show` adds its element to the process's
  `output` and appends *what is new* (`output + already_written`) to the file - or, when no test is open, prints it
  to the suite's file directly and forgets it. Finishing the test copies the file into the suite's file.
  Texts are lists of characters so that the offset arithmetic is the C's. Core Lean only.
-/
namespace Cgreen.XmlBuf

abbrev Text := List Char

/-- What one process holds: `output` (`none` = NULL). -/
structure Proc where
  output : Option Text
  deriving DecidableEq, Repr

/-- What the processes share: the per-test temporary file (`none`: no test is open) and the suite's file. -/
structure Shared where
  file : Option Text
  suite : Text
  deriving DecidableEq, Repr

/-- `xml_reporter_start_test` (as far as the buffers go): `output = strdup("")`, a new empty temporary file. -/
def startTest (_p : Proc) (sh : Shared) : Proc × Shared :=
  ({ output := some [] }, { sh with file := some [] })

/-- How a `show` function chooses the offset from which `append_to_child_output` copies. `length` is the code's
`length_of_output()` taken before the element is added. -/
inductive Offset | length | zero
  deriving DecidableEq, Repr

/-- One `xml_show_*` call adding the element text `e`:
`already_written = length_of_output(); output = concat(output, e); append_to_child_output(reporter, already_written)`. -/
def showWith (off : Offset) (p : Proc) (sh : Shared) (e : Text) : Proc × Shared :=
  let out0 := p.output.getD []
  let already := match off with | .length => out0.length | .zero => 0
  let out1 := out0 ++ e
  match sh.file with
  | none => ({ output := none }, { sh with suite := sh.suite ++ out1.drop already })
  | some f => ({ output := some out1 }, { sh with file := some (f ++ out1.drop already) })

def showElem := showWith .length

def showAll (off : Offset) (p : Proc) (sh : Shared) : List Text → Proc × Shared
  | [] => (p, sh)
  | e :: es => let (p', sh') := showWith off p sh e; showAll off p' sh' es

/-- `xml_reporter_finish_test`: the file's contents go to the suite's file, the file is closed, `output` is dropped.
Returns what was transferred as well. -/
def finishTest (_p : Proc) (sh : Shared) : Proc × Shared × Text :=
  let f := sh.file.getD []
  ({ output := none }, { file := none, suite := sh.suite ++ f }, f)

/-- A variant that prints the reporting process's own `output` when it has any and reads the file back only otherwise
(the seeded change C11-B12). -/
def finishTestPreferOutput (p : Proc) (sh : Shared) : Proc × Shared × Text :=
  let f := match p.output with
    | some (c :: cs) => c :: cs
    | _ => sh.file.getD []
  ({ output := none }, { file := none, suite := sh.suite ++ f }, f)

/-- One test. `forked`: the test's process starts as a copy of the reporting process after `start_test` and shows `child`;
the reporting process then shows `parent` (its skip mark or its error element) with its own `output`. In process, one
`output` sees all of them. `offP` is the offset rule of the elements the reporting process adds. -/
def runTest (forked : Bool) (offP : Offset) (p : Proc) (sh : Shared) (child parent : List Text) : Proc × Shared × Text :=
  let (p1, sh1) := startTest p sh
  let (c, sh2) := showAll .length p1 sh1 child
  let (p2, sh3) := showAll offP (if forked then p1 else c) sh2 parent
  finishTest p2 sh3

end Cgreen.XmlBuf
