/-
  Model of the mock argument-list tokenizer (src/parameters.c: `create_vector_of_names`,
  `create_vector_of_double_markers_for`), of `number_of_parameters_in` (src/mocks.c) and of the binding
  of `when()`/output/capture clauses to actual arguments in `mock_()`. Strings are `List Char`.
  Core Lean only.
-/
namespace Cgreen.Params

abbrev Str := List Char

def isSpace (c : Char) : Bool := c == ' ' || c == '\t' || c == '\n' || c == '\r' || c == '\x0b' || c == '\x0c'

/-- `remove_whitespace_from`. -/
def removeSpaces (s : Str) : Str := s.filter (fun c => !isSpace c)

/-- Split at commas (what replacing commas by NUL and walking the pieces amounts to). -/
def splitCommas : Str → List Str
  | [] => [[]]
  | c :: s =>
    if c == ',' then [] :: splitCommas s
    else match splitCommas s with
      | [] => [[c]]
      | p :: ps => (c :: p) :: ps

/-- `strip_function_from(token, fn)`: `fn(x)` becomes `x`. -/
def stripFn (fn : Str) (tok : Str) : Str :=
  if fn.isPrefixOf tok && (tok.drop fn.length).head? == some '(' && tok.getLast? == some ')'
  then (tok.drop (fn.length + 1)).dropLast else tok

def boxDouble : Str := "box_double".toList

/-- `create_vector_of_names`: whitespace removed, pieces between commas, empty pieces skipped,
`box_double(x)` and `d(x)` unwrapped. -/
def names (s : Str) : List Str :=
  ((splitCommas (removeSpaces s)).filter (· ≠ [])).map (fun t => stripFn ['d'] (stripFn boxDouble t))

/-- `create_vector_of_double_markers_for`. -/
def markers (s : Str) : List Bool :=
  ((splitCommas (removeSpaces s)).filter (· ≠ [])).map (fun t => (boxDouble ++ ['(']).isPrefixOf t)

/-- `number_of_parameters_in`: 0 for the empty string, else commas + 1. -/
def paramCount (s : Str) : Nat := if s = [] then 0 else (s.filter (· == ',')).length + 1

/-! ### The tokenizer as it was at the pinned commit (finding F26): whitespace separates tokens too -/

def splitOld : Str → List Str
  | [] => [[]]
  | c :: s =>
    if c == ',' || isSpace c then [] :: splitOld s
    else match splitOld s with
      | [] => [[c]]
      | p :: ps => (c :: p) :: ps

def namesOld (s : Str) : List Str :=
  ((splitOld s).filter (· ≠ [])).map (fun t => stripFn ['d'] (stripFn boxDouble t))

/-! ### Binding -/

/-- An argument of a `mock(...)` call: a parameter name, possibly wrapped in `box_double()`. -/
structure Arg where
  ident : Str
  isDouble : Bool := false
  deriving DecidableEq, Repr, Inhabited

/-- The argument list without any white space. -/
def compactArg (a : Arg) : Str := if a.isDouble then boxDouble ++ ['('] ++ a.ident ++ [')'] else a.ident

def compact : List Arg → Str
  | [] => []
  | [a] => compactArg a
  | a :: as => compactArg a ++ [','] ++ compact as

/-- The positions of the actual arguments a clause for parameter `p` is applied to: `mock_()` walks the
parameter names and applies to the actual at position `i` every clause whose name equals `names[i]`. -/
def boundPositions (ns : List Str) (p : Str) : List Nat :=
  (List.range ns.length).filter (fun i => ns.getD i [] == p)

/-- `constraint_is_for_parameter_in`: is the clause's name one of the mock's parameter names? -/
def nameKnown (ns : List Str) (p : Str) : Bool := ns.contains p

end Cgreen.Params
