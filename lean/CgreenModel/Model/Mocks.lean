/-
  Model of cgreen's mock expectation queue (src/mocks.c): `expect_`, `always_expect_`, `never_expect_`,
  `mock_`, `tally_mocks`, with lookup (`find_expectation`: first entry with that function name) and
  removal (`remove_expectation_for`: first entry with that function name) kept as the two separate
  steps they are in the C. Core Lean only.
-/
namespace Cgreen.Mocks

/-- `UNLIMITED_TIME_TO_LIVE`. -/
def UNL : Int := 0x0f314159

inductive MockMode | strict | loose | learning
  deriving DecidableEq, Repr, Inhabited

/-- Comparison a parameter constraint makes (`is_equal_to`, `is_not_equal_to`, `is_less_than`,
`is_greater_than` on pointer-sized integers). -/
inductive Cmp | eq | ne | lt | gt
  deriving DecidableEq, Repr, Inhabited

def Cmp.holds : Cmp → Int → Int → Bool     -- `holds op actual expected`
  | .eq, a, e => a == e
  | .ne, a, e => a != e
  | .lt, a, e => a < e
  | .gt, a, e => a > e

/-- A `when(param, constraint)` clause: parameter position, comparison, expected value. -/
structure Con where
  param : Nat
  op : Cmp
  val : Int
  deriving DecidableEq, Repr, Inhabited

/-- `RecordedExpectation`. `id` is the declaration's serial number (its "line"). -/
structure Exp where
  id : Nat
  fn : Nat
  ttl : Int                 -- time_to_live
  times : Option Int        -- the call counter constraint `times(n)`, if any
  called : Nat := 0         -- number_times_called
  triggered : Nat := 0      -- times_triggered
  ret : Int := 0            -- will_return value (0 when there is none)
  cons : List Con := []
  side : Option (Nat × List Int) := none   -- `with_side_effect(callback, …)` whose callback calls mocked function g with these arguments
  deriving DecidableEq, Repr, Inhabited

def Exp.isAlways (e : Exp) : Bool := e.ttl == UNL
def Exp.isNever (e : Exp) : Bool := e.ttl == -UNL

inductive Kind | expect (times : Option Int) | always | never
  deriving DecidableEq, Repr, Inhabited

/-- What an operation reports: checks (attributed to a declaration id; `none` = the check is about an
unexpected call and belongs to no declaration) and, for calls, the value returned. -/
inductive Out
  | check (decl : Option Nat) (ok : Bool)
  | ret (v : Int)
  deriving DecidableEq, Repr, Inhabited

structure MState where
  q : List Exp := []
  nextId : Nat := 0
  mode : MockMode := .strict
  deriving Repr, Inhabited

def findExp (f : Nat) (q : List Exp) : Option Exp := q.find? (·.fn == f)
def haveAlways (f : Nat) (q : List Exp) : Bool := q.any (fun e => e.fn == f && e.isAlways)
def haveNever (f : Nat) (q : List Exp) : Bool := q.any (fun e => e.fn == f && e.isNever)
def removeNever (f : Nat) (q : List Exp) : List Exp := q.filter (fun e => !(e.fn == f && e.isNever))

/-- `time_to_live` of a new expectation. `times(n)` with `n ≤ 0` means "never to be called". -/
def ttlOf : Kind → Int
  | .expect none => 1
  | .expect (some n) => if n ≤ 0 then -UNL else n
  | .always => UNL
  | .never => -UNL

def timesOf : Kind → Option Int
  | .expect t => t
  | _ => none

/-- `expect_` / `always_expect_` / `never_expect_`. -/
def declare (s : MState) (k : Kind) (f : Nat) (ret : Int) (cons : List Con) : MState × List Out :=
  if haveAlways f s.q then ({ s with nextId := s.nextId + 1 }, [.check (some s.nextId) false])
  else if haveNever f s.q then
    ({ s with q := removeNever f s.q, nextId := s.nextId + 1 }, [.check (some s.nextId) false])
  else
    ({ s with q := s.q ++ [{ id := s.nextId, fn := f, ttl := ttlOf k, times := timesOf k, ret := ret, cons := cons }],
              nextId := s.nextId + 1 }, [])

/-- Replace the first entry for function `f` (the one `find_expectation` returned) by `g` of it. -/
def modifyFirst (f : Nat) (g : Exp → Exp) : List Exp → List Exp
  | [] => []
  | e :: q => if e.fn == f then g e :: q else e :: modifyFirst f g q

/-- `remove_expectation_for(function)`: the first entry with that function name. -/
def removeFirst (f : Nat) : List Exp → List Exp
  | [] => []
  | e :: q => if e.fn == f then q else e :: removeFirst f q

/-- The checks a call makes against the clauses of an expectation: for each parameter of the mock, in
order, every clause for that parameter, in declaration order. -/
def checksFor (e : Exp) (args : List Int) : List Out :=
  (List.range args.length).flatMap fun p =>
    (e.cons.filter (·.param == p)).map fun c => Out.check (some e.id) (c.op.holds (args.getD p 0) c.val)

/-- A clause of the expectation names a parameter the mock does not pass (`constraint_is_for_parameter_in` fails):
the call reports that once, applies no clause, and is not counted as triggered — but the expectation is used up
like by any other call. -/
def Exp.unknownParam (e : Exp) (args : List Int) : Bool := e.cons.any (fun c => decide (args.length ≤ c.param))

/-- What a call does to the expectation that serves it. -/
def Exp.served (bad : Bool) (x : Exp) : Exp :=
  { x with called := if x.times.isSome then x.called + 1 else x.called,
           triggered := if bad then x.triggered else x.triggered + 1,
           ttl := if x.isAlways then x.ttl else x.ttl - 1 }

/-- What a call reports against the expectation that serves it. -/
def reportFor (e : Exp) (args : List Int) : List Out :=
  if e.unknownParam args then [.check (some e.id) false] else checksFor e args

/-- `mock_()`. -/
def call (s : MState) (f : Nat) (args : List Int) : MState × List Out :=
  match findExp f s.q with
  | none => (s, (if s.mode = .strict then [Out.check none false] else []) ++ [.ret 0])
  | some e =>
    if e.isNever then
      ({ s with q := modifyFirst f (fun x => { x with triggered := x.triggered + 1 }) s.q }, [.check (some e.id) false, .ret 0])
    else
      let q1 := modifyFirst f (Exp.served (e.unknownParam args)) s.q
      let q2 := if !e.isAlways && e.ttl - 1 ≤ 0 then removeFirst f q1 else q1
      ({ s with q := q2 }, reportFor e args ++ [.ret e.ret])

/-- What `trigger_unfulfilled_expectations` reports for one pending expectation. -/
def tallyOne (e : Exp) : List Out :=
  if e.isAlways then []
  else if e.isNever then (if e.triggered == 0 then [.check (some e.id) true] else [])
  else match e.times with
    | some n => [.check (some e.id) ((e.called : Int) == n)]
    | none => [.check (some e.id) false]

/-- `tally_mocks`: report, then `clear_mocks()`. -/
def tally (s : MState) : MState × List Out := ({ s with q := [] }, s.q.flatMap tallyOne)

inductive Op
  | decl (k : Kind) (f : Nat) (ret : Int) (cons : List Con)
  | call (f : Nat) (args : List Int)
  | tally
  | mode (m : MockMode)
  deriving Repr, Inhabited

def step (s : MState) : Op → MState × List Out
  | .decl k f r c => declare s k f r c
  | .call f a => call s f a
  | .tally => tally s
  | .mode m => ({ s with mode := m }, [])

def run (s : MState) : List Op → MState × List (List Out)
  | [] => (s, [])
  | o :: os => let r := step s o; let r' := run r.1 os; (r'.1, r.2 :: r'.2)

/-- The pending expectations of one function, in declaration order: the per-function FIFO. -/
def proj (g : Nat) (q : List Exp) : List Exp := q.filter (·.fn == g)

end Cgreen.Mocks

namespace Cgreen.Mocks

/-! ### Side effects that call other mocks (`with_side_effect`) -/

/-- A declaration with a side effect: the callback calls the mocked function `side.1`. -/
def declareS (s : MState) (k : Kind) (f : Nat) (ret : Int) (cons : List Con) (side : Option (Nat × List Int)) : MState × List Out :=
  let r := declare s k f ret cons
  if r.2.isEmpty then
    ({ r.1 with q := r.1.q.dropLast ++ (r.1.q.getLast?.map (fun e => { e with side := side })).toList }, r.2)
  else r

def isCheck : Out → Bool
  | .check .. => true
  | .ret _ => false

/-- `mock_()` with side effects: the expectation found is checked, then its callback runs (a nested
`mock_()` on another function, which may consume and remove entries anywhere in the queue), and only
then the expectation is counted and, by function name, retired. -/
def callS : Nat → MState → Nat → List Int → MState × List Out
  | 0, s, f, args => call s f args
  | fuel + 1, s, f, args =>
    match findExp f s.q with
    | none => call s f args
    | some e =>
      if e.isNever then call s f args
      else match e.side with
        | none => call s f args
        | some (g, gargs) =>
          if e.unknownParam args then call s f args      -- no clause is applied, so no side effect runs either
          else
          let nested := callS fuel s g gargs
          let q1 := modifyFirst f (Exp.served false) nested.1.q
          let q2 := if !e.isAlways && e.ttl - 1 ≤ 0 then removeFirst f q1 else q1
          ({ nested.1 with q := q2 }, checksFor e args ++ nested.2.filter isCheck ++ [.ret e.ret])

/-- Without side effects in the queue nothing changes. -/
theorem callS_eq_call (fuel : Nat) (s : MState) (f : Nat) (args : List Int) (h : ∀ e ∈ s.q, e.side = none) :
    callS fuel s f args = call s f args := by
  cases fuel with
  | zero => rfl
  | succ fuel =>
    simp only [callS]
    cases hf : findExp f s.q with
    | none => rfl
    | some e =>
      have hm : e ∈ s.q := List.mem_of_find?_eq_some hf
      simp only [h e hm]
      split <;> rfl

/-! ### The specification: one independent FIFO of pending expectations per function -/

/-- Specification state: the queue of each function separately. -/
structure SState where
  qs : Nat → List Exp := fun _ => []
  nextId : Nat := 0
  mode : MockMode := .strict

def Op.fn? : Op → Option Nat
  | .decl _ f _ _ => some f
  | .call f _ => some f
  | _ => none

/-- A declaration or a call on `f` is performed on `f`'s own queue and touches nothing else. -/
def specStep (s : SState) : Op → SState × List Out
  | .decl k f r c =>
    let r' := declare { q := s.qs f, nextId := s.nextId, mode := s.mode } k f r c
    ({ s with qs := fun g => if g = f then r'.1.q else s.qs g, nextId := r'.1.nextId }, r'.2)
  | .call f a =>
    let r' := call { q := s.qs f, nextId := s.nextId, mode := s.mode } f a
    ({ s with qs := fun g => if g = f then r'.1.q else s.qs g }, r'.2)
  | .tally => ({ s with qs := fun _ => [] }, [])     -- what the tally reports is specified per function: `specTally`
  | .mode m => ({ s with mode := m }, [])

/-- A call whose serving expectation has a side effect, in the specification: the nested call is an
ordinary call on the other function's FIFO; `f`'s own FIFO evolves as for any call. -/
def specCallS : Nat → SState → Nat → List Int → SState × List Out
  | 0, s, f, args => specStep s (.call f args)
  | fuel + 1, s, f, args =>
    match (s.qs f).head? with
    | none => specStep s (.call f args)
    | some e =>
      if e.isNever then specStep s (.call f args)
      else match e.side with
        | none => specStep s (.call f args)
        | some (g, gargs) =>
          if e.unknownParam args then specStep s (.call f args) else
          let r1 := specCallS fuel s g gargs
          let r2 := specStep r1.1 (.call f args)
          (r2.1, r2.2.dropLast ++ r1.2.filter isCheck ++ r2.2.getLast?.toList)

/-- What the tally reports about function `g`. -/
def specTally (s : SState) (g : Nat) : List Out := (s.qs g).flatMap tallyOne

end Cgreen.Mocks
