/-
  Model of how values travel through mocks (src/mocks.c `stored_result_or_default_for`, src/constraint.c
  `set_contents`, `capture_parameter`, src/boxed_double.c): pointer-sized integers as 64-bit words,
  doubles as their 64-bit patterns, memory as a byte-addressed function. Core Lean only.
-/
namespace Cgreen.Val

abbrev Word := BitVec 64
abbrev Mem := Nat → UInt8

/-- The eight bytes of a word, least significant first (how x86-64 stores it). -/
def leBytes (v : Word) : List UInt8 := (List.range 8).map (fun i => UInt8.ofNat ((v.toNat / 2 ^ (8 * i)) % 256))

/-- … most significant first (a big-endian machine). -/
def beBytes (v : Word) : List UInt8 := (leBytes v).reverse

/-- `memmove(dst, src, n)` where `src` is the byte list `bs`. -/
def writeBytes (m : Mem) (p : Nat) (bs : List UInt8) : Mem :=
  fun a => if p ≤ a ∧ a < p + bs.length then bs.getD (a - p) 0 else m a

def readBytes (m : Mem) (p n : Nat) : List UInt8 := (List.range n).map (fun i => m (p + i))

/-- `will_set_contents_of_[output_]parameter(p, src, size)`: `memmove(actual, src, size)`. -/
def setContents (m : Mem) (actual : Nat) (src : List UInt8) (size : Nat) : Mem := writeBytes m actual (src.take size)

/-- `will_capture_parameter(p, local)`: `memmove(&local, &actual.value (+ offset on big-endian), size)`. -/
def captureLE (m : Mem) (localAddr : Nat) (actual : Word) (size : Nat) : Mem :=
  writeBytes m localAddr ((leBytes actual).take size)
def captureBE (m : Mem) (localAddr : Nat) (actual : Word) (size : Nat) : Mem :=
  writeBytes m localAddr ((beBytes actual).drop (8 - size))

/-- The number a little-endian byte list denotes. -/
def leValue : List UInt8 → Nat
  | [] => 0
  | b :: bs => b.toNat + 256 * leValue bs
def beValue (bs : List UInt8) : Nat := leValue bs.reverse

/-- `box_double` / `unbox_double`: a heap cell holding the 64-bit pattern. `alloc` is the next free address. -/
structure Heap where
  cells : Nat → Option Word := fun _ => none
  next : Nat := 1

def boxDouble (h : Heap) (bits : Word) : Heap × Nat :=
  ({ cells := fun a => if a = h.next then some bits else h.cells a, next := h.next + 1 }, h.next)

def unboxDouble (h : Heap) (box : Nat) : Heap × Option Word :=
  ({ h with cells := fun a => if a = box then none else h.cells a }, h.cells box)

/-- `will_return_by_value(s, size)`: the constraint keeps a copy of `size` bytes; every call it serves
returns a fresh copy of that copy. -/
def returnByValue (src : List UInt8) (size : Nat) : List UInt8 := (src.take size).take size

end Cgreen.Val
