/-
  Model of the validation of `CGREEN_PER_TEST_TIMEOUT` (src/runner.c): the value must be a positive
  decimal integer that fits an `int`; anything else aborts the run with failure before any test.
  Core Lean only.
-/
namespace Cgreen.Tmo

def INT_MAX : Nat := 2147483647

def digitVal (c : Char) : Option Nat := if c.isDigit then some (c.toNat - '0'.toNat) else none

/-- The number a string of decimal digits denotes; `none` if some character is not a digit. -/
def digitsValue : List Char → Option Nat
  | [] => some 0
  | s => s.foldl (fun acc c => match acc, digitVal c with | some a, some d => some (a * 10 + d) | _, _ => none) (some 0)

/-- The time limit, if the value is acceptable. -/
def parseTimeout (s : List Char) : Option Nat :=
  if s.isEmpty then none
  else match digitsValue s with
    | some n => if 0 < n ∧ n ≤ INT_MAX then some n else none
    | none => none

end Cgreen.Tmo
