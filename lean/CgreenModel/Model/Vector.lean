/-
  Model of `CgreenVector` (src/vector.c): a heap array of `space` slots of which the first `size` are in
  use, grown by a fixed step. Every index the C reads or writes is recorded, so that "no out-of-bounds
  access" is a theorem about the model. Core Lean only.
-/
namespace Cgreen.Vec

structure Vec where
  size : Nat := 0
  space : Nat := 0
  items : List Nat := []        -- the allocated slots; `items.length = space`
  deriving Repr, DecidableEq, Inhabited

/-- `increase_space`: `space += step; realloc`. New slots hold unspecified values (0 here). -/
def grow (step : Nat) (v : Vec) : Vec := { v with space := v.space + step, items := v.items ++ List.replicate step 0 }

/-- `cgreen_vector_add`. Returns the new vector and the index written. -/
def add (step : Nat) (v : Vec) (x : Nat) : Vec × List Nat :=
  let v := if v.size = v.space then grow step v else v
  ({ v with items := v.items.set v.size x, size := v.size + 1 }, [v.size])

/-- The loop `for (i = pos; i < size - 1; i++) items[i] = items[i + 1];` with `n` iterations left. -/
def shift (items : List Nat) (i : Nat) : Nat → List Nat × List Nat
  | 0 => (items, [])
  | n + 1 =>
    let r := shift (items.set i (items.getD (i + 1) 0)) (i + 1) n
    (r.1, (i + 1) :: i :: r.2)

/-- `cgreen_vector_remove`: `none` is the PANIC/NULL branch for an illegal position. -/
def remove (v : Vec) (pos : Nat) : Option (Vec × Nat × List Nat) :=
  if pos < v.size then
    let item := v.items.getD pos 0
    let r := shift v.items pos (v.size - 1 - pos)
    some ({ v with items := r.1.set (v.size - 1) 0, size := v.size - 1 }, item, pos :: r.2 ++ [v.size - 1])
  else none

/-- `cgreen_vector_remove` as it was at the pinned commit (finding F07): the loop ran one step further
and `items[size]` was written. -/
def removeOld (v : Vec) (pos : Nat) : Option (Vec × Nat × List Nat) :=
  if pos ≤ v.size then
    let item := v.items.getD pos 0
    let r := shift v.items pos (v.size - pos)
    some ({ v with items := r.1.set v.size 0, size := v.size - 1 }, item, pos :: r.2 ++ [v.size])
  else none

/-- `cgreen_vector_get`. -/
def get (v : Vec) (pos : Nat) : Option (Nat × List Nat) :=
  if pos < v.size then some (v.items.getD pos 0, [pos]) else none

/-- What the vector represents. -/
def abs (v : Vec) : List Nat := v.items.take v.size

/-- Representation invariant. -/
def WF (v : Vec) : Prop := v.items.length = v.space ∧ v.size ≤ v.space

inductive Op | add (x : Nat) | remove (pos : Nat) | get (pos : Nat)
  deriving Repr, DecidableEq, Inhabited

/-- One operation: new state, result, and the accesses made, each paired with the `space` allocated
at the time of the access. -/
def step (stp : Nat) (v : Vec) : Op → Vec × Option Nat × List (Nat × Nat)
  | .add x => let r := add stp v x; (r.1, none, r.2.map (fun i => (i, r.1.space)))
  | .remove p => match remove v p with
    | some (v', item, acc) => (v', some item, acc.map (fun i => (i, v.space)))
    | none => (v, none, [])
  | .get p => match get v p with
    | some (item, acc) => (v, some item, acc.map (fun i => (i, v.space)))
    | none => (v, none, [])

def run (stp : Nat) (v : Vec) : List Op → Vec × List (Option Nat) × List (Nat × Nat)
  | [] => (v, [], [])
  | o :: os => let r := step stp v o; let r' := run stp r.1 os; (r'.1, r.2.1 :: r'.2.1, r.2.2 ++ r'.2.2)

end Cgreen.Vec
