/-
  Model of what the runner does to the disposition of SIGINT around a forked test
  (src/posix_runner_platform.c: `run_test_in_its_own_process`, `wait_for_child_process`,
  `ignore_ctrl_c`, `allow_ctrl_c`). The child is created first and inherits the runner's current
  disposition; the runner then ignores Ctrl-C while it waits and puts back what it replaced.
  Core Lean only.
-/
namespace Cgreen.Sig

/-- Disposition of a signal: default action, ignored, or a handler of the program. -/
inductive Disp | dfl | ign | handled
  deriving DecidableEq, Repr, Inhabited

/-- The runner process: its current disposition of SIGINT and `previous_ctrl_c_handler`. -/
structure Runner where
  cur : Disp
  saved : Disp := .dfl
  deriving DecidableEq, Repr

/-- `ignore_ctrl_c()`: `previous = signal(SIGINT, SIG_IGN)`, remembered. -/
def ignoreCtrlC (r : Runner) : Runner := { cur := .ign, saved := r.cur }
/-- `allow_ctrl_c()`: `signal(SIGINT, previous_ctrl_c_handler)`. -/
def allowCtrlC (r : Runner) : Runner := { r with cur := r.saved }
/-- `allow_ctrl_c()` of the pinned commit: `signal(SIGINT, SIG_DFL)` (finding F47). -/
def allowCtrlCOld (r : Runner) : Runner := { r with cur := .dfl }

/-- One test in forking mode. A switched-off test (`skip`) is not forked; otherwise the child inherits `cur`, and the
runner goes through ignore – wait – allow. Returns what the test's process started with. -/
def forkTest (allow : Runner → Runner) (r : Runner) (skip : Bool) : Option Disp × Runner :=
  if skip then (none, r) else (some r.cur, allow (ignoreCtrlC r))

/-- The tests of a run in the order the runner meets them (suites nest, the sequence is what matters here). -/
def runTests (allow : Runner → Runner) (r : Runner) : List Bool → List (Option Disp) × Runner
  | [] => ([], r)
  | s :: rest =>
    let (d, r') := forkTest allow r s
    let (ds, r'') := runTests allow r' rest
    (d :: ds, r'')

end Cgreen.Sig
