/-
  Model of cgreen's own per-test state (mocks.c: mock mode, pending expectations, the list of
  successfully mocked functions; constraint.c: significant figures) and of the prologue of
  `run_the_test_code` that resets it, together with one global of the test program (user memory,
  which the framework does not reset). Used for C04 (forked tests cannot influence one another) and
  C13 (in-process execution gives the same per-test results as forked execution).
-/
namespace Cgreen.PerTest

inductive MockMode | strict | loose | learning
  deriving DecidableEq, Repr, Inhabited

/-- Framework state plus one global of the test program. -/
structure Fw where
  mode : MockMode := .strict
  figs : Nat := 8
  pending : Nat := 0          -- expectations declared and not consumed
  mocked : Bool := false      -- has the probe function been mocked successfully in this process?
  glob : Nat := 0             -- a global variable of the test program
  deriving DecidableEq, Repr, Inhabited

/-- What a check reports: pass/fail and a message class (only the wording that depends on state). -/
inductive Res | pass | fail | failTooMany   -- "was called too many times" instead of "did not have an expectation"
  deriving DecidableEq, Repr, Inhabited

/-- What test code can do to that state, and the checks whose outcome depends on it. -/
inductive FAct
  | check (ok : Bool)          -- a check that does not depend on the state
  | setMode (m : MockMode)     -- cgreen_mocks_are(m)
  | callUnexpected             -- call a mocked function that has no expectation
  | expectAndCall              -- expect(probe); probe();   (marks the function as successfully mocked)
  | setFigs (n : Nat)          -- significant_figures_for_assert_double_are(n)
  | dblCheck                   -- assert_that_double(1.0, is_equal_to_double(1.002)): passes iff figs ≤ 3
  | leave                      -- expect() that is never consumed: one failure at tally
  | writeGlobal                -- global = 1
  | readGlobal                 -- assert_that(global, is_equal_to(0))
  deriving DecidableEq, Repr, Inhabited

def FAct.run (fw : Fw) : FAct → Fw × List Res
  | .check ok => (fw, [if ok then .pass else .fail])
  | .setMode m => ({ fw with mode := m }, [])
  | .callUnexpected =>
      match fw.mode with
      | .strict => (fw, [if fw.mocked then .failTooMany else .fail])
      | _ => (fw, [])
  | .expectAndCall => ({ fw with mocked := true }, [])
  | .setFigs n => ({ fw with figs := n }, [])
  | .dblCheck => (fw, [if fw.figs ≤ 3 then .pass else .fail])
  | .leave => ({ fw with pending := fw.pending + 1 }, [])
  | .writeGlobal => ({ fw with glob := 1 }, [])
  | .readGlobal => (fw, [if fw.glob = 0 then .pass else .fail])

def runActs (fw : Fw) : List FAct → Fw × List Res
  | [] => (fw, [])
  | a :: as => let r := a.run fw; let r' := runActs r.1 as; (r'.1, r.2 ++ r'.2)

/-- `tally_mocks`: every pending expectation is one failure; then `clear_mocks()`. -/
def tally (fw : Fw) : Fw × List Res := ({ fw with pending := 0 }, List.replicate fw.pending .fail)

/-- The prologue of `run_the_test_code`: 8 significant figures, strict mocks, no expectations, no
function mocked yet. The test program's own memory is not touched. -/
def resetPerTest (fw : Fw) : Fw := { fw with mode := .strict, figs := 8, pending := 0, mocked := false }

/-- The prologue as it was at the pinned commit (finding F05): mock mode and the list of successfully
mocked functions survive into the next test that runs in the same process. -/
def resetPerTestOld (fw : Fw) : Fw := { fw with figs := 8, pending := 0 }

/-- One test in a process whose state is `fw`. -/
def runTest (reset : Fw → Fw) (fw : Fw) (t : List FAct) : Fw × List Res :=
  let r := runActs (reset fw) t
  let r' := tally r.1
  (r'.1, r.2 ++ r'.2)

/-- Forked execution: the parent's state is `fw`; each child works on a copy; the parent's state is
never changed (it runs no test code). -/
def runFork (reset : Fw → Fw) (fw : Fw) (ts : List (List FAct)) : List (List Res) :=
  ts.map (fun t => (runTest reset fw t).2)

/-- In-process execution: the state is threaded through the tests. -/
def runInproc (reset : Fw → Fw) (fw : Fw) : List (List FAct) → List (List Res)
  | [] => []
  | t :: ts => let r := runTest reset fw t; r.2 :: runInproc reset r.1 ts

/-- `run_single_test`: one test, in the current process, from the initial state. -/
def runSingle (reset : Fw → Fw) (t : List FAct) : List Res := (runTest reset {} t).2

end Cgreen.PerTest
